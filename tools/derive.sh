#!/bin/bash
# Development aid: refactoring patch + a sed edit = derived mutant; runs the given checks on it.
#   tools/derive.sh <refactoring.diff> <file> <sed-expr> <Cnn>...
R="$(readlink -f "$1")"; F="$2"; E="$3"; shift 3
WT="$(mktemp -d /var/tmp/drv.XXXXXX)"; rmdir "$WT"
git -C /repo worktree add --detach "$WT" HEAD >/dev/null 2>&1
git -C "$WT" apply "$R" || { echo "refactoring does not apply"; }
cp "$WT/$F" "$WT/$F.orig"
sed -i "$E" "$WT/$F"
if cmp -s "$WT/$F" "$WT/$F.orig"; then echo "SED DID NOT CHANGE ANYTHING"; fi
rm "$WT/$F.orig"
(cd "$WT" && GOFLAGS=-mod=mod GOPROXY=off go build ./... ) || echo "DOES NOT BUILD"
git -C "$WT" diff > "$WT.diff"
git -C /repo worktree remove --force "$WT"
"$(dirname "$0")/mutcheck.sh" "$WT.diff" "$@"
rm -f "$WT.diff"
