#!/usr/bin/env python3-vt
"""Validates MANIFEST.json and every evidence file against the given schemas."""
import json, sys, glob, jsonschema
m = json.load(open('/verif/MANIFEST.json'))
jsonschema.validate(m, json.load(open('/root/.vp/MANIFEST.schema.json')))
es = json.load(open('/root/.vp/EVIDENCE.schema.json'))
for c in m['checks']:
    ev = json.load(open(c['evidence_file']))
    jsonschema.validate(ev, es)
    assert ev['property_id'] == c['property_id']
ids = {c['property_id'] for c in m['checks']} | {n['property_id'] for n in m.get('not_applicable', [])}
props = {json.loads(l)['id'] for l in open('/verif/properties.jsonl')}
assert ids == props, (ids ^ props)
print("manifest + %d evidence files valid; claimed=%d n/a=%d" % (len(m['checks']), len(m['checks']), len(m.get('not_applicable', []))))
