#!/bin/bash
# Development aid: run every registered check (quick tier) against every seeded change and print
# which checks raise an alarm. Output: /verif/seeded/MATRIX.txt
#   tools/seedmatrix.sh [seed-dir-glob]
VERIF="$(cd "$(dirname "$0")/.." && pwd)"
cd "$VERIF"
IDS=$(python3 -c "import json;print(' '.join(c['property_id'] for c in json.load(open('MANIFEST.json'))['checks']))")
one() {
  d="$1"; s=$(basename "$d")
  out=$("$VERIF/tools/mutcheck.sh" "$d/patch.diff" $IDS 2>&1)
  if echo "$out" | grep -q "PATCH-DOES-NOT-APPLY"; then echo "$s | PATCH-DOES-NOT-APPLY"; return; fi
  hit=$(echo "$out" | awk '/^== /{id=$2; split($3,a,"="); if (a[2]!="0") printf "%s ", id}')
  own=${s%%-*}
  rules=$(echo "$out" | grep '^VIOLATION' | sed -n 's/.*key=\[\([^|]*\)|.*/\1/p' | sort -u | tr '\n' ',' )
  echo "$s | own=$own | alarms: ${hit:-none} | rules: ${rules:-}"
}
export -f one; export VERIF IDS
ls -d ${1:-seeded/C*-*m[0-9]} | xargs -P ${PAR:-6} -I{} bash -c 'one {}' | sort > seeded/MATRIX.txt
cat seeded/MATRIX.txt
