#!/bin/bash
# Development aid: detection under refactoring. For every seeded change S and every behaviour-
# preserving refactoring R of the same property, apply R then S to a scratch worktree (skipped when
# the two patches overlap and S no longer applies) and run the checks that alarmed on S alone.
# A combination that no longer alarms means a rule recognises the defect only in the original shape.
#   tools/crossmatrix.sh [Cnn ...]       Output: /verif/refactorings/CROSS.txt
VERIF="$(cd "$(dirname "$0")/.." && pwd)"
cd "$VERIF"
IDS="${*:-$(ls -d seeded/C*-*m[0-9] | sed 's#seeded/\(C[0-9]*\)-.*#\1#' | sort -u)}"
one() {
  s="$1"; r="$2"; checks="$3"
  WT="$(mktemp -d /var/tmp/crosswt.XXXXXX)"; OUT="$(mktemp -d /var/tmp/crossout.XXXXXX)"; rmdir "$WT"
  git -C /repo worktree add --detach "$WT" HEAD >/dev/null 2>&1 || { echo "$s x $r | worktree failed"; return; }
  trap 'git -C /repo worktree remove --force "$WT" >/dev/null 2>&1; rm -rf "$OUT"' RETURN
  git -C "$WT" apply "$VERIF/refactorings/$r/patch.diff" 2>/dev/null || { echo "$s x $r | refactoring does not apply"; return; }
  if ! git -C "$WT" apply "$VERIF/seeded/$s/patch.diff" 2>/dev/null; then
    if ! git -C "$WT" apply --3way "$VERIF/seeded/$s/patch.diff" >/dev/null 2>&1 || grep -rq '^<<<<<<<' "$WT" --include=*.go 2>/dev/null; then
      echo "$s x $r | overlap (seed does not apply on the refactored tree)"; return
    fi
  fi
  (cd "$WT" && GOFLAGS=-mod=mod GOPROXY=off GOSUMDB=off GOTOOLCHAIN=local go build ./... >/dev/null 2>&1) || { echo "$s x $r | combination does not build"; return; }
  hit=""
  for id in $checks; do
    res="$(VERIF_REPO="$WT" VERIF_OUT="$OUT" "$VERIF/check.sh" "$id" quick 2>&1)"; code=$?
    if [ $code -ne 0 ]; then hit="$hit $id"; fi
  done
  if [ -n "$hit" ]; then echo "$s x $r | still alarms:$hit"; else echo "$s x $r | LOST (checks: $checks)"; fi
}
export -f one; export VERIF
: > refactorings/CROSS.raw
for id in $IDS; do
  for sd in seeded/$id-*m[0-9]; do
    s=$(basename "$sd")
    checks=$(grep "^$s " seeded/MATRIX.txt | sed -n 's/.*alarms: \([^|]*\)|.*/\1/p')
    [ -z "$checks" ] || [ "$(echo $checks)" = "none" ] && continue
    for rd in refactorings/$id-[rs][0-9]; do
      [ -d "$rd" ] && echo "$s $(basename $rd) $(echo $checks)"
    done
  done
done | xargs -P 6 -L 1 bash -c 'one "$0" "$1" "${*:2}"' >> refactorings/CROSS.raw
sort refactorings/CROSS.raw > refactorings/CROSS.txt; rm -f refactorings/CROSS.raw
echo "combinations: $(wc -l < refactorings/CROSS.txt); still alarm: $(grep -c 'still alarms' refactorings/CROSS.txt); lost: $(grep -c LOST refactorings/CROSS.txt); overlap: $(grep -c overlap refactorings/CROSS.txt)"
grep LOST refactorings/CROSS.txt
