#!/bin/bash
# Development aid: confirm a seeded change produced by a sub-agent.
#   tools/confirm_seed.sh <prop> <k> <srcdir>   (srcdir holds m<k>.diff, m<k>_demo_test.go, m<k>.md)
# In a scratch worktree of /repo's HEAD: (1) demo passes on the clean tree, (2) patch applies, builds,
# the whole existing suite passes, (3) demo fails with the patch. Writes /verif/seeded/<prop>-m<k>/.
set -u
export GOFLAGS=-mod=mod GOPROXY=off GOSUMDB=off GOTOOLCHAIN=local
P="$1"; K="$2"; SRC="$3"
VERIF="$(cd "$(dirname "$0")/.." && pwd)"
DIFF="$SRC/m$K.diff"; DEMO="$SRC/m${K}_demo_test.go"
WT="$(mktemp -d /var/tmp/seedwt.XXXXXX)"; rmdir "$WT"
git -C /repo worktree add --detach "$WT" HEAD >/dev/null 2>&1 || exit 3
trap 'git -C /repo worktree remove --force "$WT" >/dev/null 2>&1' EXIT
DIR=$(head -1 "$DEMO" | sed -n 's#^// *place in: *##p' | tr -d ' \r')
[ -z "$DIR" ] && DIR=.
DIR="${DIR%/}"
NAME="zz_seed_${P}_m${K}_demo_test.go"
cp "$DEMO" "$WT/$DIR/$NAME"
cd "$WT"
run_demo() { (cd "$WT/$DIR" && timeout 600 go test -vet=off -count=1 -run . . >"$1" 2>&1); echo $?; }
# restrict to the demo's own tests: collect Test names of the demo file
TESTS=$(grep -o '^func Test[A-Za-z0-9_]*' "$DEMO" | sed 's/func //' | paste -sd'|')
run_demo_only() { (cd "$WT/$DIR" && timeout 900 go test -vet=off -count=1 -run "^($TESTS)\$" . >"$1" 2>&1); echo $?; }
clean_rc=$(run_demo_only /tmp/seed_clean.$$)
if ! git apply "$DIFF" 2>/dev/null && ! git apply --3way "$DIFF" >/dev/null 2>&1; then echo "$P m$K: PATCH DOES NOT APPLY to HEAD"; rm -f /tmp/seed_*.$$; exit 4; fi
git diff -- . ":(exclude)$DIR/$NAME" > /tmp/seed_patch.$$
build_rc=0; go build ./... >/tmp/seed_build.$$ 2>&1 || build_rc=1
mv "$WT/$DIR/$NAME" /tmp/seed_demo.$$.go
suite_rc=0; go test -vet=off -count=1 ./... >/tmp/seed_suite.$$ 2>&1 || suite_rc=1
mv /tmp/seed_demo.$$.go "$WT/$DIR/$NAME"
mut_rc=$(run_demo_only /tmp/seed_mut.$$)
echo "$P m$K: clean_demo_rc=$clean_rc build_rc=$build_rc suite_rc=$suite_rc mutated_demo_rc=$mut_rc dir=$DIR"
if [ "$clean_rc" = 0 ] && [ "$build_rc" = 0 ] && [ "$suite_rc" = 0 ] && [ "$mut_rc" != 0 ]; then
  OUT="$VERIF/seeded/$P-${SEEDPREFIX:-m}$K"; mkdir -p "$OUT"
  cp /tmp/seed_patch.$$ "$OUT/patch.diff"; cp "$DEMO" "$OUT/demo_test.go"; cp "$SRC/m$K.md" "$OUT/notes.md" 2>/dev/null
  tail -15 /tmp/seed_mut.$$ > "$OUT/demo_failure.txt"
  python3 - "$P" "$K" "$DIR" "$OUT" "$(git -C /repo rev-parse --short HEAD)" <<'PY'
import json,sys,re
p,k,d,out,head=sys.argv[1:6]
notes=open(out+'/notes.md').read() if __import__('os').path.exists(out+'/notes.md') else ''
json.dump({"property":p,"seed":"m"+k,"breaks":p,"demo_package_dir":d,"confirmed_against_repo_head":head,
 "needs_to_manifest":"see notes.md (written by the sub-agent that produced the change)",
 "ran":["demo on clean worktree: pass","git apply patch.diff; go build ./...: ok","go test -vet=off -count=1 ./... (existing suite, unedited): pass","demo with the change: FAIL (see demo_failure.txt)"],
 "detected_by":[]},open(out+'/meta.json','w'),indent=1)
PY
  echo "   kept -> $OUT"
else
  echo "   NOT KEPT"; tail -5 /tmp/seed_clean.$$ /tmp/seed_build.$$ /tmp/seed_suite.$$ 2>/dev/null | tail -20
fi
rm -f /tmp/seed_*.$$ /tmp/seed_demo.$$.go
