#!/bin/bash
# Development aid (not a registered check): apply a patch to a scratch worktree
# of /repo's HEAD and run the named checks against it. Evidence and reports of
# these runs go to a scratch directory, never to /verif/evidence.
#   tools/mutcheck.sh <patch.diff> <Cnn> [<Cnn> ...]
set -u
PATCH="$(readlink -f "$1")"; shift
VERIF="$(cd "$(dirname "$0")/.." && pwd)"
WT="$(mktemp -d /var/tmp/mutwt.XXXXXX)"; OUT="$(mktemp -d /var/tmp/mutout.XXXXXX)"
rmdir "$WT"
git -C /repo worktree add --detach "$WT" HEAD >/dev/null 2>&1 || { echo "cannot create worktree"; exit 3; }
trap 'git -C /repo worktree remove --force "$WT" >/dev/null 2>&1; rm -rf "$OUT"' EXIT
if ! git -C "$WT" apply "$PATCH" 2>/dev/null; then
  if ! git -C "$WT" apply --3way "$PATCH" >/dev/null 2>&1; then echo "PATCH-DOES-NOT-APPLY $PATCH"; exit 4; fi
fi
for id in "$@"; do
  res="$(VERIF_REPO="$WT" VERIF_OUT="$OUT" "$VERIF/check.sh" "$id" "${TIER:-quick}" 2>&1)"
  code=$?
  nv=$(printf '%s\n' "$res" | grep -c '^VIOLATION')
  echo "== $id exit=$code violations=$nv"
  printf '%s\n' "$res" | grep '^VIOLATION' | sed -e 's/replay=[^ ]* //' | cut -c1-${WIDTH:-330}
done
