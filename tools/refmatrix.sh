#!/bin/bash
# Development aid: run every registered check (quick tier) against every behaviour-preserving
# refactoring kept under /verif/refactorings/<Cnn>-r<k>/patch.diff. Any alarm is a false alarm.
#   tools/refmatrix.sh [dir-glob]       Output: /verif/refactorings/MATRIX.txt
VERIF="$(cd "$(dirname "$0")/.." && pwd)"
cd "$VERIF"
IDS=$(python3 -c "import json;print(' '.join(c['property_id'] for c in json.load(open('MANIFEST.json'))['checks']))")
one() {
  d="$1"; s=$(basename "$d")
  out=$(WIDTH=400 "$VERIF/tools/mutcheck.sh" "$d/patch.diff" $IDS 2>&1)
  if echo "$out" | grep -q "PATCH-DOES-NOT-APPLY"; then echo "$s | PATCH-DOES-NOT-APPLY"; return; fi
  hit=$(echo "$out" | awk '/^== /{id=$2; split($3,a,"="); split($4,b,"="); if (a[2]!="0" || b[2]!="0") printf "%s(exit %s) ", id, a[2]}')
  echo "$s | false alarms: ${hit:-none}"
  echo "$out" | grep '^VIOLATION' | sed -e "s/^/    $s: /"
}
export -f one; export VERIF IDS
ls -d ${1:-refactorings/C*-r[0-9]} | xargs -P ${PAR:-6} -I{} bash -c 'one {}' > refactorings/MATRIX.raw
grep -v '^    ' refactorings/MATRIX.raw | sort > refactorings/MATRIX.txt
echo "---- details ----" >> refactorings/MATRIX.txt
grep '^    ' refactorings/MATRIX.raw | sort >> refactorings/MATRIX.txt
rm -f refactorings/MATRIX.raw
cat refactorings/MATRIX.txt
