#!/bin/bash
# Development aid: apply a patch to a scratch worktree and run one check with the FIRST pass on the
# inlined views (VERIF_DEBUG_VIEW=1), to see what the rules make of the view.
#   tools/viewdebug.sh <patch.diff> <Cnn> [grep-pattern]
PATCH="$(readlink -f "$1")"; ID="$2"; PAT="${3:-VIOLATION}"
VERIF="$(cd "$(dirname "$0")/.." && pwd)"
WT="$(mktemp -d /var/tmp/vdwt.XXXXXX)"; OUT="$(mktemp -d /var/tmp/vdout.XXXXXX)"; rmdir "$WT"
git -C /repo worktree add --detach "$WT" HEAD >/dev/null 2>&1
trap 'git -C /repo worktree remove --force "$WT" >/dev/null 2>&1; rm -rf "$OUT"' EXIT
git -C "$WT" apply "$PATCH" || exit 4
VERIF_DEBUG_VIEW=1 VERIF_REPO="$WT" VERIF_OUT="$OUT" "$VERIF/check.sh" "$ID" quick 2>&1 | grep -v '^KNOWN' | grep "$PAT" | sed -e 's/replay=[^ ]* //' | cut -c1-${WIDTH:-500}
grep -o '"no inlined view[^"]*"' "$OUT/evidence/$ID.json" | sort -u | cut -c1-400
