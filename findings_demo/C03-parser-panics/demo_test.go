package demo

import (
	"errors"
	"strings"
	"testing"
	"time"

	"github.com/evolbioinfo/goalign/io/clustal"
	"github.com/evolbioinfo/goalign/io/phylip"
)

var errOK = errors.New("ok")

func noPanic(t *testing.T, what string, f func() error) {
	t.Helper()
	done := make(chan struct{})
	go func() {
		defer close(done)
		defer func() {
			if r := recover(); r != nil {
				t.Errorf("%s: parser panicked: %v", what, r)
			}
		}()
		if err := f(); err == nil {
			t.Errorf("%s: malformed input accepted without error", what)
		}
	}()
	select {
	case <-done:
	case <-time.After(10 * time.Second):
		t.Errorf("%s: parser did not return", what)
	}
}

// C03: a Clustal file whose second block has more lines than the first
func TestClustalLongerSecondBlock(t *testing.T) {
	in := "CLUSTAL W (1.82)\n\ns1   ACGT\ns2   ACGT\n     ****\n\ns1   ACGT\ns2   ACGT\ns3   ACGT\n     ****\n"
	noPanic(t, "clustal", func() error { _, err := clustal.NewParser(strings.NewReader(in)).Parse(); return err })
}

// C03: strict Phylip with a multi-byte character in a name (byte length used as rune index)
func TestPhylipStrictMultibyteName(t *testing.T) {
	in := "1 4\nséquence1 ACGT\n"
	noPanic(t, "phylip strict", func() error {
		al, err := phylip.NewParser(strings.NewReader(in), true).Parse()
		if err == nil && al != nil && al.NbSequences() == 1 {
			return errOK // a well-formed file: success is the right answer, a panic is not
		}
		return err
	})
}

// C03: the sequence count of the header must not size an allocation before the body is read
func TestPhylipHugeHeaderCount(t *testing.T) {
	in := "999999999999999 4\ns1 ACGT\n"
	noPanic(t, "phylip header", func() error { _, err := phylip.NewParser(strings.NewReader(in), false).Parse(); return err })
}
