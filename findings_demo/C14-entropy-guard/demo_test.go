package demo

import (
	"testing"

	"github.com/evolbioinfo/goalign/align"
)

// C14: a site index outside the alignment is an error, not a crash.
func TestEntropySiteEqualToLength(t *testing.T) {
	al := align.NewAlign(align.NUCLEOTIDS)
	al.AddSequence("a", "ACGT", "")
	al.AddSequence("b", "TTTT", "")
	defer func() {
		if r := recover(); r != nil {
			t.Errorf("Entropy(4) on a 4-column alignment panicked: %v", r)
		}
	}()
	if _, err := al.Entropy(4, false); err == nil {
		t.Errorf("Entropy(4) on a 4-column alignment: no error")
	}
}
