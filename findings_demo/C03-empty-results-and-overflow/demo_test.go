package demo

import (
	"strings"
	"testing"

	"github.com/evolbioinfo/goalign/io/fasta"
	"github.com/evolbioinfo/goalign/io/partition"
	"github.com/evolbioinfo/goalign/io/stockholm"
)

// C03: a parser never reports success with an empty alignment, and never panics.
func TestNoEmptySuccess(t *testing.T) {
	if al, err := fasta.NewParser(strings.NewReader(">a\n")).Parse(); err == nil {
		t.Errorf("fasta '>a': success with %d sequences", al.NbSequences())
	}
	if al, err := fasta.NewParser(strings.NewReader(">a\nACGT\n>b\n")).Parse(); err == nil {
		t.Errorf("fasta with a last entry without residues: success with %d sequences (2 declared)", al.NbSequences())
	}
	if al, err := stockholm.NewParser(strings.NewReader("# STOCKHOLM 1.0\n//\n")).Parse(); err == nil {
		t.Errorf("stockholm header only: success with %d sequences", al.NbSequences())
	}
}

func TestPartitionHugeModulo(t *testing.T) {
	defer func() {
		if r := recover(); r != nil {
			t.Errorf("partition parser panicked: %v", r)
		}
	}()
	ps, err := partition.NewParser(strings.NewReader("DNA,p=2-10/9223372036854775807")).Parse(10)
	if err != nil {
		t.Fatal(err)
	}
	if ps.Partition(1) != 0 || ps.Partition(2) != -1 {
		t.Errorf("only site 2 (index 1) belongs to the partition")
	}
}
