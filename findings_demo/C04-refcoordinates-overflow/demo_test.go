package demo

import (
	"math"
	"testing"

	"github.com/evolbioinfo/goalign/align"
)

// C04: a reference window whose start+length overflows lies outside the reference sequence and
// must be rejected like any other window that runs past its end. Before /repo commit c3fe594
// RefCoordinates("s", 1, MaxInt) returned (1, 7, nil). Found by the static rule sum-guard-overflow;
// this file is a development record, no registered check runs it.
func TestRefCoordinatesOverflowingWindow(t *testing.T) {
	a := align.NewAlign(align.NUCLEOTIDS)
	a.AddSequence("s", "AC--GTAC", "")
	a.AddSequence("t", "ACGTGTAC", "")
	if start, l, err := a.RefCoordinates("s", 1, math.MaxInt); err == nil {
		t.Errorf("window (1, MaxInt) on a reference of 6 residues accepted: start=%d len=%d", start, l)
	}
	if _, _, err := a.RefCoordinates("s", 1, 100); err == nil {
		t.Errorf("window (1, 100) accepted")
	}
	if _, _, err := a.RefCoordinates("s", 1, 5); err != nil {
		t.Errorf("window (1, 5) rejected: %v", err)
	}
}
