package demo

import (
	"testing"

	"github.com/evolbioinfo/goalign/align"
)

// C04: a site index equal to the alignment length is outside the alignment:
// it must be rejected with an error, not crash (SelectSites) or be accepted
// silently (InversePositions).
func TestSiteEqualToLengthIsRejected(t *testing.T) {
	al := align.NewAlign(align.NUCLEOTIDS)
	al.AddSequence("a", "ACGT", "")
	al.AddSequence("b", "TTTT", "")
	func() {
		defer func() {
			if r := recover(); r != nil {
				t.Errorf("SelectSites([4]) on a 4-column alignment panicked: %v", r)
			}
		}()
		if _, err := al.SelectSites([]int{4}); err == nil {
			t.Errorf("SelectSites([4]) on a 4-column alignment: no error")
		}
	}()
	if _, err := al.InversePositions([]int{4}); err == nil {
		t.Errorf("InversePositions([4]) on a 4-column alignment: no error")
	}
}
