package demo

import (
	"testing"

	"github.com/evolbioinfo/goalign/align"
	"github.com/evolbioinfo/goalign/distance/protein"
	pm "github.com/evolbioinfo/goalign/models/protein"
)

func TestNeg(t *testing.T) {
	al := align.NewAlign(align.AMINOACIDS)
	al.AddSequence("a", "ARND-", "")
	al.AddSequence("b", "ARNE-", "")
	al.AddSequence("c", "----C", "")
	m, err := protein.NewProtDistModel(pm.MODEL_LG, true, false, 0, true)
	if err != nil {
		t.Fatal(err)
	}
	if err = m.InitModel(al, nil); err != nil {
		t.Fatal(err)
	}
	_, _, d, err := m.MLDist(al, nil)
	if err != nil {
		t.Fatal(err)
	}
	for i := 0; i < 3; i++ {
		for j := 0; j < 3; j++ {
			t.Logf("d[%d][%d]=%v", i, j, d.At(i, j))
			if d.At(i, j) < 0 {
				t.Errorf("negative distance")
			}
		}
	}
}
