package demo

import (
	"math"
	"testing"

	"github.com/evolbioinfo/goalign/align"
	"github.com/evolbioinfo/goalign/distance/dna"
)

// C07: a pair whose estimator is undefined (saturation) must be reported as
// undefined or as the matrix-wide maximal substitute, never as 0.
func TestSaturatedPairIsNotZero(t *testing.T) {
	for _, model := range []string{"jc", "f81", "tn93"} {
		al := align.NewAlign(align.NUCLEOTIDS)
		al.AddSequence("a", "AAAAAAAACCGGTT", "")
		al.AddSequence("b", "CCCCCCCCGGTTAA", "") // every site differs: 1 - 4/3 p < 0
		al.AddSequence("c", "AAAAAAAACCGGTA", "")
		m, err := dna.Model(model, false)
		if err != nil {
			t.Fatal(err)
		}
		d, err := dna.DistMatrix(al, nil, m, -1, -1, -1, -1, false, 0, 1)
		if err != nil {
			t.Fatal(err)
		}
		if !(math.IsNaN(d[0][1]) || d[0][1] >= d[0][2]) || d[0][1] == 0 {
			t.Errorf("%s: saturated pair a,b reported at distance %v (close pair a,c is at %v)", model, d[0][1], d[0][2])
		}
		if d[0][0] != 0 || math.Signbit(d[0][0]) {
			t.Errorf("%s: diagonal %v", model, d[0][0])
		}
		// identical rows stay at +0
		al2 := align.NewAlign(align.NUCLEOTIDS)
		al2.AddSequence("a", "ACGTACGT", "")
		al2.AddSequence("b", "ACGTACGT", "")
		m2, _ := dna.Model(model, false)
		d2, _ := dna.DistMatrix(al2, nil, m2, -1, -1, -1, -1, false, 0, 1)
		if d2[0][1] != 0 || math.Signbit(d2[0][1]) {
			t.Errorf("%s: identical rows at %v", model, d2[0][1])
		}
	}
}
