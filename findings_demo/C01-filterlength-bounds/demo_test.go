package demo

import (
	"strings"
	"testing"

	"github.com/evolbioinfo/goalign/align"
)

// C01: FilterLength removes sequences whose length is < minlength or > maxlength.
func TestFilterLengthBothBounds(t *testing.T) {
	sb := align.NewSeqBag(align.NUCLEOTIDS)
	for _, n := range []int{1, 5, 10} {
		sb.AddSequence(strings.Repeat("s", n), strings.Repeat("A", n), "")
	}
	if err := sb.FilterLength(3, 7); err != nil {
		t.Fatal(err)
	}
	if sb.NbSequences() != 1 {
		var ls []int
		for _, s := range sb.Sequences() {
			ls = append(ls, s.Length())
		}
		t.Fatalf("FilterLength(3,7) on lengths 1,5,10 kept lengths %v, want [5]", ls)
	}
}

func TestFilterLengthOneBound(t *testing.T) {
	sb := align.NewSeqBag(align.NUCLEOTIDS)
	for _, n := range []int{1, 5, 10} {
		sb.AddSequence(strings.Repeat("s", n), strings.Repeat("A", n), "")
	}
	sb2, _ := sb.CloneSeqBag()
	sb.FilterLength(3, -1)
	if sb.NbSequences() != 2 {
		t.Errorf("FilterLength(3,-1): kept %d, want 2", sb.NbSequences())
	}
	sb2.FilterLength(-1, 7)
	if sb2.NbSequences() != 2 {
		t.Errorf("FilterLength(-1,7): kept %d, want 2", sb2.NbSequences())
	}
}
