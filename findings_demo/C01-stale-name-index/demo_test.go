package demo

import (
	"testing"

	"github.com/evolbioinfo/goalign/align"
)

func newAl(t *testing.T, names ...string) align.Alignment {
	al := align.NewAlign(align.NUCLEOTIDS)
	for i, n := range names {
		if err := al.AddSequence(n, string("ACGT"[i%4])+"AAA", ""); err != nil {
			t.Fatal(err)
		}
	}
	return al
}

// lookup by name, lookup by index and iteration must agree after every renaming operation
func agree(t *testing.T, what string, al align.Alignment) {
	t.Helper()
	for i := 0; i < al.NbSequences(); i++ {
		name, _ := al.GetSequenceNameById(i)
		byIdx, _ := al.GetSequenceById(i)
		byName, ok := al.GetSequence(name)
		if !ok {
			t.Errorf("%s: row %d is named %q but GetSequence(%q) finds nothing", what, i, name, name)
			continue
		}
		if byName != byIdx {
			t.Errorf("%s: row %d %q: by index %s, by name %s", what, i, name, byIdx, byName)
		}
		if id := al.GetSequenceIdByName(name); id != i {
			t.Errorf("%s: GetSequenceIdByName(%q) = %d, want %d", what, name, id, i)
		}
	}
}

func TestRenameKeepsIndex(t *testing.T) {
	al := newAl(t, "x", "y", "w")
	al.Rename(map[string]string{"x": "z"})
	agree(t, "Rename", al)
	if _, ok := al.GetSequence("x"); ok {
		t.Errorf("Rename: old name x still resolves")
	}
	al.Sort()
	agree(t, "Rename+Sort", al)
	for i := 0; i < al.NbSequences(); i++ {
		if _, ok := al.GetSequenceById(i); !ok {
			t.Errorf("Rename+Sort: row %d missing", i)
		}
	}
}

func TestRenameSwap(t *testing.T) {
	al := newAl(t, "a", "b")
	al.Rename(map[string]string{"a": "b", "b": "a"})
	agree(t, "Rename swap", al)
}

func TestOtherRenamers(t *testing.T) {
	al := newAl(t, "s 1", "s 2")
	al.CleanNames(nil)
	agree(t, "CleanNames", al)
	al.AppendSeqIdentifier("_x", true)
	agree(t, "AppendSeqIdentifier", al)
	if err := al.RenameRegexp("_x$", "", map[string]string{}); err != nil {
		t.Fatal(err)
	}
	agree(t, "RenameRegexp", al)
	id := 1
	if err := al.TrimNamesAuto(map[string]string{}, &id); err != nil {
		t.Fatal(err)
	}
	agree(t, "TrimNamesAuto", al)
}

func TestTrimNamesCollision(t *testing.T) {
	// the short name generated for the first row is the current name of the second row
	al := newAl(t, "A", "Axxxxx01")
	if err := al.TrimNames(map[string]string{}, 8); err != nil {
		t.Fatal(err)
	}
	agree(t, "TrimNames", al)
}
