package demo

import (
	"testing"

	"github.com/evolbioinfo/goalign/align"
)

// C12: with ignoreNs, the wildcard left out of the denominator must be the one
// of the alignment's own alphabet: N for nucleotides, X for proteins.
func TestIgnoreNsUsesOwnAlphabetWildcard(t *testing.T) {
	// nucleotides: column 0 = {-, N, N, A}: gaps 1 of 2 counted rows (N ignored) = 0.5 >= 0.5 -> removed
	nt := align.NewAlign(align.NUCLEOTIDS)
	nt.AddSequence("a", "-A", "")
	nt.AddSequence("b", "NA", "")
	nt.AddSequence("c", "NA", "")
	nt.AddSequence("d", "AA", "")
	_, _, _, rm := nt.RemoveCharacterSites([]uint8{align.GAP}, 0.5, false, false, false, true, false)
	if len(rm) != 1 || rm[0] != 0 {
		t.Errorf("nucleotides: removed %v, want [0] (N must be ignored in the total)", rm)
	}
	// proteins: same with X; N is asparagine there and must be counted
	aa := align.NewAlign(align.AMINOACIDS)
	aa.AddSequence("a", "-A-", "")
	aa.AddSequence("b", "XAN", "")
	aa.AddSequence("c", "XAN", "")
	aa.AddSequence("d", "AAA", "")
	_, _, _, rm = aa.RemoveCharacterSites([]uint8{align.GAP}, 0.5, false, false, false, true, false)
	if len(rm) != 1 || rm[0] != 0 {
		t.Errorf("proteins: removed %v, want [0] (X ignored, asparagine N counted)", rm)
	}
}
