package demo
import ("testing";"errors";"time";"github.com/evolbioinfo/goalign/align";"github.com/evolbioinfo/goalign/distance/dna")
type failing struct{ dna.DistModel; n int }
func (f *failing) Distance(a, b []uint8, w []float64) (float64, error) { return 0, errors.New("boom") }
func TestHang(t *testing.T){
  al := align.NewAlign(align.NUCLEOTIDS)
  al.AddSequence("a","ACGT",""); al.AddSequence("b","ACGA",""); al.AddSequence("c","ACGC","")
  m := &failing{DistModel: dna.NewJCModel(false)}
  done := make(chan error,1)
  go func(){ _, err := dna.DistMatrix(al,nil,m,-1,-1,-1,-1,false,0,2); done<-err }()
  select { case err:=<-done: if err==nil {t.Fatal("no error returned")}; t.Log("returned:",err)
  case <-time.After(3*time.Second): t.Fatal("DistMatrix hangs when model.Distance fails") }
}
