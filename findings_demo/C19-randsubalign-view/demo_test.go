package demo
import ("testing";"github.com/evolbioinfo/goalign/align")
// C19: a random consecutive sub-alignment must own its data.
func TestRandSubAlignOwnsData(t *testing.T){
  al := align.NewAlign(align.NUCLEOTIDS)
  al.AddSequence("a","ACGTACGT",""); al.AddSequence("b","TTTTCCCC","")
  before := al.String()
  sub, err := al.RandSubAlign(8, true)
  if err != nil { t.Fatal(err) }
  sub.Mask("", 0, 8, "", false, false)
  if al.String() != before { t.Fatalf("masking the sub-alignment changed the original: %s -> %s", before, al.String()) }
}
