package demo
import ("testing";"math";"github.com/evolbioinfo/goalign/align")
func mk() align.Alignment {
  al := align.NewAlign(align.AMINOACIDS)
  col := "AAAAAAACCCDDDDDEEFGGGGGGGGGGGHIKKKLLLLLLLLLLLLLMNPQRRRSTVWYYYYYYYYYYYYYYYYY"
  for i:=0;i<len(col);i++ { al.AddSequence(string(rune('a'+i%26))+string(rune('0'+i/26)), string(col[i])+"A", "") }
  return al
}
func TestEntropyRepeatable(t *testing.T){
  al := mk()
  e0,_ := al.Entropy(0,false)
  for i:=0;i<2000;i++ { e,_ := al.Entropy(0,false); if math.Float64bits(e)!=math.Float64bits(e0) { t.Fatalf("Entropy differs between calls: %v vs %v (call %d)", e0, e, i) } }
}
func TestPssmLogoRepeatable(t *testing.T){
  al := mk()
  p0,_ := al.Pssm(false,0.1,align.PSSM_NORM_LOGO)
  for i:=0;i<2000;i++ { p,_ := al.Pssm(false,0.1,align.PSSM_NORM_LOGO); for k,v := range p { if math.Float64bits(v[0])!=math.Float64bits(p0[k][0]) { t.Fatalf("Pssm LOGO differs between calls for %c: %v vs %v", k, p0[k][0], v[0]) } } }
}
func TestMaxCharTie(t *testing.T){
  al := align.NewAlign(align.NUCLEOTIDS)
  al.AddSequence("a","A",""); al.AddSequence("b","C",""); al.AddSequence("c","G",""); al.AddSequence("d","T","")
  c0,_,_ := al.MaxCharStats(false,false)
  for i:=0;i<500;i++ { c,_,_ := al.MaxCharStats(false,false); if c[0]!=c0[0] { t.Fatalf("MaxCharStats tie broken differently: %c vs %c", c0[0], c[0]) } }
}
