#!/usr/bin/env python3
"""Regenerates /verif/MANIFEST.json from the table below (kept next to the checks
so the manifest never drifts from what is built)."""
import json, os

HERE = os.path.dirname(os.path.abspath(__file__))

TRUST = ("Trusted base: go/parser, go/types, go/ssa (golang.org/x/tools v0.29.0); dominance/post-dominance imply path "
         "conditions; integer overflow ignored for sizes; the standard-library effect table of the effects engine; "
         "the Go compiler's prove pass where the bce rule is used; the oracle tables in sa/rules/refdata.go; the "
         "alignment shape invariant (every row has the cached length) wherever the bounds engine unifies len(row) with Length(). "
         "Only the structural clauses named in level_claimed.text are decided, not the behaviour as a whole. "
         "When a pass over the functions as written leaves an obligation open, the same rules are re-run on inlined views "
         "(sa/iview: copies of the SSA with calls to private helpers of the package expanded, jumps threaded, go/method-value "
         "closures converted, field-only structs split; each view re-validated) and a rule/function group is accepted from that "
         "pass only if it is fully discharged there with at least as many obligations; this relies on the views being "
         "meaning-preserving copies (DESIGN.md section 2, E9).")

# id -> (technique, level text, design ref)
CLAIMED = {
}

NOT_YET = {
}

NA = {
    "C20": "every clause bounds floating-point values of random draws or special functions (positivity, sums, monotonicity, "
           "agreement with a series); no sound static argument in reach bounds them, and the single structural clause "
           "(parameter guards dominate the sampler) is a few percent of the statement, so claiming it would be a proxy",
}

def load_tables():
    g = {}
    exec(open(os.path.join(HERE, "manifest_table.py")).read(), g)
    return g["CLAIMED"], g.get("NOT_YET", {})

def main():
    claimed, not_yet = load_tables()
    checks = []
    for pid in sorted(claimed):
        tech, text, ref = claimed[pid]
        checks.append({
            "property_id": pid,
            "quick_cmd": f"./check.sh {pid} quick",
            "thorough_cmd": f"./check.sh {pid} thorough",
            "evidence_file": f"/verif/evidence/{pid}.json",
            "replay_cmd_template": "./check.sh --replay {path}",
            "engine": "goalign-sa",
            "level_claimed": {"category": "other", "text": text, "design_ref": ref},
            "level_note": TRUST,
            "technique": tech,
        })
    na = [{"property_id": k, "reason": v} for k, v in sorted({**NA, **not_yet}.items())]
    m = {
        "version": 1,
        "setup_cmd": "cd /verif/sa && GOFLAGS=-mod=mod GOPROXY=off GOSUMDB=off GOTOOLCHAIN=local GOWORK=off go build -o /verif/bin/goalign-sa ./cmd/goalign-sa",
        "hooks": {
            "guard": "verif",
            "enable": "(none needed: static analysis reads /repo's working tree; no instrumentation is compiled in)",
            "baseline_off_cmd": "cd /repo && go build ./... && go test -mod=mod -vet=off -count=1 -timeout 25m ./...",
            "source_commits": [],
            "add_only": True,
        },
        "engines": [
            {"name": "goalign-sa", "path": "/verif/sa", "serves_properties": sorted(claimed),
             "kind_free_text": "repository-specific static analyser on go/packages + go/types + go/ssa: constant-table evaluation (E1), "
                               "linear bounds with Fourier-Motzkin entailment over dominating/path conditions (E2), compiler prove-pass residual (E2b), "
                               "write-effect/ownership summaries (E3), field-write ownership and store pairing (E4), determinism rules (E5), "
                               "goroutine/WaitGroup/channel/lockset rules (E6), EOF steady-state constant propagation over token loops (E7), small value-flow rules (E8), "
                               "interprocedural views (E9): call frames, event words, branch facts, decision tables, path classes over atoms, and inlined views "
                               "of the SSA (inlining of private helpers, jump threading, closure conversion, scalar replacement, mem2reg) used in a second pass"},
        ],
        "checks": checks,
        "not_applicable": na,
        "notes": "All checks are static: they parse, type-check and lower /repo's current working tree on every run and never execute goalign code. "
                 "Known findings are listed in /verif/known_findings.txt; fix: commits in /repo are recorded there as fixed: lines.",
    }
    with open(os.path.join(HERE, "MANIFEST.json"), "w") as f:
        json.dump(m, f, indent=1)
        f.write("\n")

if __name__ == "__main__":
    main()
