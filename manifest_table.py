# id -> (technique, level_claimed.text, design_ref)
CLAIMED = {
    "C13": (
        "type-resolved alphabet/wildcard lint, SSA value-provenance rules for the comparison key and the re-added row, map-key identity and per-iteration event counting for the group bookkeeping, counter-width and exactly-once rules for the pattern counters, variable-identity rule for weight/column index and truncation/length",
        "Decides statically the structural clauses of C13 for every sequence set and alignment. Deduplicate: the comparison key is the row with the wildcard of the bag's own alphabet replaced by the gap (or the row itself), the row re-added is the unfolded original under its own name and comment, the key used to look a group up is the key it is recorded under, "
        "the arm that re-adds a row opens a new group and records its index len(groups)-1, the other arm appends the name to the group found, exactly one of the two per row, rows are visited in the order of the list saved before Clear(). Compress: every site executes exactly one count++ (type int, no narrowing on the way to the weight) and one Insert under the looked-up key, "
        "npat++ with a zero counter exactly when the pattern is new (so weights are exact multiplicities summing to the length), weights has npat entries, the weight index and the rewritten column index are the same variable advanced once per pattern, rows are truncated to npat and the cached length set to the same variable. "
        "NOT decided: first-occurrence order and idempotence on data, that the radix tree keeps distinct patterns distinct (library), the order of Walk relative to original column order.",
        "DESIGN.md §3 C13"),
    "C10": (
        "linear-bounds proofs for every drawn index (facts 0 <= Intn(n) <= n-1, element ranges of Perm and of slices filled with draws, propagated through re-slices and phis), draw-range exactness by linear-form equality (container length, window width, Fisher-Yates partner), value-provenance rules for residue stores, who-may-call table for random sources, call-graph reachability of RNG from goroutines, map-range classifier",
        "Decides statically the support, frame and replay clauses of C10 for the ten randomised operations (BuildBootstrap, RandSubAlign, Recombine, Swap, ShuffleSites, SimulateRogue, Mutate, AddGaps, ShuffleSequences, sampleSeqBag) and every alignment and seed: every row, row-list and alphabet-table index computed from a draw is within bounds on every path "
        "(lower bounds of indices partly computed from floating-point rates are not decided); each of the 22 draw sites has exactly the admissible range - rand.Intn(X)/rand.Perm(X) values index containers of length X, a drawn window/segment start r with width w satisfies (X-1)+w = length (RandSubAlign, Recombine), Fisher-Yates steps use partner X-1 "
        "(so the last column, offset, row or letter is reachable and nothing outside is); residue stores write a byte of the same column of a row (ShuffleSites, Swap, Recombine), of the same row (SimulateRogue), the GAP constant (AddGaps) or a letter of the own alphabet's table under the cell != GAP/POINT/OTHER guard (Mutate), ShuffleSequences only exchanges row-list entries; "
        "BuildBootstrap sizes index list, rows and draw loop by n = int(frac*L) and resets frac exactly when frac<=0 or frac>1; rand.Seed is called once with --seed, no other random source exists, no draw is reachable from a goroutine, no draw depends on map order (keys sorted with a total order). "
        "NOT decided: that outcomes are permutations / multiset-preserving, distributions, counts derived from floating-point rates, distinctness of sampled rows beyond Perm's contract.",
        "DESIGN.md §3 C10"),
    "C03": (
        "sparse conditional constant propagation over go/ssa in the end-of-input steady state (interprocedural summaries, abstract field contents, abstract loop iteration until no back edge is executable); the Go compiler's prove pass as bounds oracle (check_bce residual) combined with linear-bounds proofs and a justified table; taint rule from strconv.ParseInt to allocation sizes with positive/negative controls; exact-domain analysis of the partition range checks",
        "Decides statically the termination and no-panic clauses of C03 for the FASTA, Phylip, Nexus, Clustal, Stockholm and partition lexers/parsers, for every byte string: (1) each of the 6 lexers returns its EOF token once ReadRune fails, and every loop that consumes input (41 on this tree) is left within at most 5 abstract iterations after the input is exhausted "
        "(so no truncated file, unterminated comment or markup line at end of file can make a parser loop forever); all other loops are range or counter loops; (2) every index/slice expression in parser scope (114 functions + the partition table functions) is proven in bounds by the compiler's prove pass, or by the linear-bounds engine, or carries a recorded justification (13 residual sites, each with its reason); "
        "PartitionSet.AddRange accepts exactly 0<=start, end<=length-1, modulo>=1 and its table indices are in bounds; (3) no allocation in parser scope is sized by a number parsed from the file without a constant upper bound. NOT decided: that success is never an empty/ragged alignment or one contradicting the header counts, duplicate names, a scan/unscan loop that re-reads one pushed-back non-EOF token without progress, panics other than index/slice/allocation (nil dereference, integer conversion).",
        "DESIGN.md §3 C03"),
    "C07": (
        "NaN-successor analysis of float comparisons in the Distance methods (IEEE semantics on go/ssa), mirrored-store pairing for the result matrix, branch-shape rules for the replacement condition and running maximum, constant-table evaluation of the nucleotide masks, sibling agreement of the seven models, weight-linearity value-flow rule for the pairwise counters",
        "Decides statically the undefined-value, matrix-shape, table and weighting clauses of C07 for all seven models and every alignment: no Distance method turns a NaN estimator (saturated pair) into a constant - for each branch on a value derived from math.Log/Pow/division the successor taken by NaN must not return a float constant; "
        "every store outmatrix[i][j] in DistMatrix is paired with a store of the same value to outmatrix[j][i] and diagonal stores are the constant 0 (symmetric, zero diagonal); the replacement test covers <0, ==+Inf and >NT_DIST_OVER, the running maximum is raised only from values that are not being replaced and only when larger, and the substitute 2*max goes to both cells; "
        "NT_* masks, IupacCode, iupacToInt and iupacCodeByte agree with the IUPAC code; every model initialises selectedSites and sequenceCodes through the same helpers with its own removegaps flag and passes (seq1, seq2, m.selectedSites, weights) to its counter; in the six counters/frequency estimators every accumulation in the site loop adds a term carrying the site weight, read at the residue index and not control-dependent on the residues. "
        "NOT decided: the coefficients of each closed-form estimator, base-frequency values, gamma variants, the lower bound by the p-distance, gap/ambiguity counting modes as evaluated on data.",
        "DESIGN.md §3 C07"),
    "C06": (
        "exhaustive constant-table evaluation of the complement map against the IUPAC oracle (go/constant) with who-may-write value flow, SSA shape rules for Complement/Reverse/case folding (same-cell load/store identity, mirrored-index invariant by linear forms), per-iteration call counting for the reverse-complement loops, write-effect frame analysis",
        "Decides statically the table and structure clauses of C06 for every sequence: complement_nuc_mapping has exactly the 15 IUPAC codes and U in both cases plus gap, point and star, each code maps to the code whose base set is the base-wise complement of its own, case is preserved, the special characters are fixed, the table is an involution except on U/u and is never written; "
        "Complement stores table[seq[i]] at the index it read and returns an error for a byte outside the table; Reverse exchanges seq[i] and seq[j] with i+j = len-1 invariant while i<j; ReverseComplement applies Complement then Reverse exactly once to every row buffer of the receiver (the named-subset variant only to rows found by name, unknown names skipped), "
        "behind a nucleotide-alphabet guard with the error propagated; ToUpper/ToLower store unicode.ToUpper/ToLower of the byte loaded from the same cell for all rows and columns; Unalign adds strings.Replace(row, GAP, \"\", -1) to a fresh container and does not write the receiver; the in-place transforms write only residues. "
        "NOT decided: nothing about concrete data beyond these facts; an equivalent but differently shaped implementation (e.g. complement and reverse fused into one loop) is reported as undecided/violated rather than proven.",
        "DESIGN.md §3 C06"),
    "C01": (
        "field-write ownership over the whole repository, after-X-must-Y dataflow on the CFG (name store => index rebuild, row replacement => length store; deferred calls counted), store pairing in the insertion block, control-dependence and reachability for the rejection path, override completeness from method sets, per-iteration event counting for the site-removal rebuild, linear bounds for by-index accessors and the FilterLength predicate",
        "Decides statically the index-consistency clauses of C01 for every history of operations: (1) a row name is written in place only inside seqbag/align methods, and every path from such a write to a normal return rebuilds the name index (reindex assigns a fresh map and inserts every row under its current name); "
        "SetName is called only on detached sequences (results of LongestORF/Clone/NewSequence); (2) both AddSequenceChar insert the same new row object into the name index (under the name it was created with) and the ordered list in one block; the alignment variant's only error return is controlled by length != -1 && length != len(sequence) "
        "and no write to the receiver can execute before it (reject leaves unchanged); (3) align.length is written only by the confirmed set of functions; every *align method that replaces or re-slices a row buffer stores the cached length afterwards on all normal paths (TrimSequences/Compress with the same value as the new row length; site removal by exactly the "
        "removed-column counter, each column being either kept or counted, exactly one); *align re-declares every exported seqbag method that replaces row buffers or re-adds rows with new buffers (AddSequence, AddSequenceChar, Clear, Replace, Translate) and each override stores/verifies the length; (4) by-index accessors index the row list within [0,N) on every path; "
        "(5) FilterLength keeps a row only within both given bounds. NOT decided: equality with the list-of-(name,sequence) reference model over arbitrary histories, duplicate-name renaming text, content of shuffles/samples, an emptied alignment keeping its old cached length after the inherited FilterLength (cross-reference in DESIGN.md).",
        "DESIGN.md §3 C01"),
    "C15": (
        "linear window-confinement proof on go/ssa (Fourier-Motzkin over path conditions and loop induction facts), replacement-mode dispatch lint on the syntax tree with go/types, protection-test cell identity by canonical address, dominance/path rules for reference exclusion and per-column table freshness, write-effect frame analysis",
        "Decides statically the window, replacement-dispatch, protection and frame clauses of C15 on Mask, MaskOccurences and MaskUnique, for every window and option: each residue store of Mask has start <= i <= start+length-1 and 0 <= i <= L-1 on every path (confinement and truncation), the start guard accepts exactly 0<=start<=L; "
        "the replacement is the wildcard of the alignment's own alphabet for AMBIG/\"\" (error for other alphabets), the GAP constant for \"GAP\", the given byte for a one-character string and an error otherwise, and the stored value is that replacement variable; the gap and reference protection tests read exactly the cell that is written, under nogap/noref; "
        "in MaskOccurences the occurrence tables are updated only when no reference is given or the row's name differs from the reference name; per-column tables are allocated inside the column loop; the only receiver memory written is row residues (no name, order, count or length write). "
        "NOT decided: the most-frequent-character choice, the occurrence threshold selection as evaluated on data.",
        "DESIGN.md §3 C15"),
    "C14": (
        "map-range body classifier (AST + go/types) for order-sensitivity, linear-inequality guard analysis of site/row arguments with index-safety proofs, type-resolved alphabet/wildcard agreement lint, write-effect (purity) analysis, published-buffer-reuse value-flow rule",
        "Decides statically the determinism, boundary, alphabet and purity clauses of C14 for every alignment and argument: every range over a map in package align (MaxCharStats, Entropy, Pssm, profiles, rarefaction, ...) is order-insensitive or collect-then-sort, so ties and float sums "
        "are resolved the same way at every call; Entropy, CharStatsSite and SiteConservation accept exactly 0<=site<=L-1 (nothing outside reaches a success return or an index expression, nothing inside is rejected) and the by-index row accessors behind CharStatsSeq are bounds-checked; "
        "the wildcard excluded in MaxCharStats, InformativeSites, NumMutationsUniquePerSequence and the two reference-relative mutation counters is the constant of the alignment's own alphabet; the 18 listed statistics never write memory reachable from their receiver/arguments; "
        "no slice stored into a result record (mutation lists, profiles, new sequences) is written again through a value derived from it afterwards. NOT decided: equality of each statistic with its naive definition on data (counts, entropy values, informative/variable sites, unique gaps/mutations).",
        "DESIGN.md §3 C14"),
    "C12": (
        "type-resolved alphabet/constant agreement lint (AST + go/types), SSA value-flow rules for the cutoff comparison and ignore tests, per-iteration event counting on the CFG (exactly-one-of partition of the rebuild loop), store/counter pairing for the cached length, linear index-safety proofs",
        "Decides statically the structural clauses of C12 on RemoveCharacterSites, RemoveMajorityCharacterSites, RemoveCharacterSeqs and MaxCharStats, for every input and option combination: the wildcard ignored under ignore-N/X is the constant of the alignment's own alphabet "
        "(ALL_NUCLE under nucleotides, ALL_AMINO under amino acids; objects resolved by go/types under the controlling alphabet comparison) and its lower-case form is derived from the selected value; the wildcard tests run only under ignoreNs and the gap test only under ignoreGaps; "
        "the threshold test is float64(count) >= cutoff*float64(total) (non-strict, oriented) with the cutoff==0 && count>0 arm on the same counter, and no cutoff inside [0,1] is rewritten; in the column rebuild each column of each row is either appended to the new row or counted as removed "
        "(exactly one on every CFG path), the cached length decreases by exactly that counter, kept/rm each receive the column index by one append in the matching arm under the first-row test (so they partition the columns); RemoveCharacterSeqs either counts or re-adds each sequence and returns the counter; "
        "every row and candidate-list index is proven in bounds. NOT decided: the iff as evaluated on data, the prefix/suffix maxima of ends mode, case folding inside gutils.ContainsRune. Level 'other': necessary structural conditions, not the behaviour.",
        "DESIGN.md §3 C12"),
    "C04": (
        "linear-inequality guard analysis on go/ssa: path conditions of every success/error return compared (Fourier-Motzkin entailment) with the documented argument domain, universal element facts from validation loops, index-safety proofs for row buffers and the partition table, linear-form comparison of Concat's pad lengths",
        "Decides statically the boundary clause of C04 (positions or windows outside the alignment are rejected with an error rather than a crash or a silently shifted window) for every value of the integer arguments: "
        "SubAlign/InverseCoordinates accept exactly 0<=start, 0<=length, start+length<=L; TrimSequences exactly 0<=trimsize<=L-1; ReplaceChar/CharStatsSite/SiteConservation exactly 0<=site<=L-1; SelectSites/InversePositions/RefSites "
        "validate every element of the site list against 0<=s<=L-1 before any success return and reject no in-range element; PartitionSet.AddRange accepts exactly 0<=start, end<=length-1, modulo>=1 and its table indices are in bounds "
        "(struct invariant length==len(partitions) checked by field-write ownership); every row-buffer index/slice in SubAlign, SelectSites, TrimSequences, Transpose and Split is proven within bounds on every path; Split's column loop is "
        "dominated by the partition-length==alignment-length check; Concat pads a row absent from one alignment with GAP repeated that alignment's length. NOT decided: that the copied columns are the addressed ones in the addressed order, "
        "RefCoordinates' scan, re-assembly identities (prefix+suffix, transpose twice, diff/match-char expansion). Level 'other': necessary structural conditions, not the behaviour.",
        "DESIGN.md §3 C04"),
    "C05": (
        "constant-table evaluation against NCBI/IUPAC oracles + SSA dispatch/value-flow rules + linear loop-shape proof",
        "Decides statically, on every run, the table/dispatch/loop-shape clauses of C05: the three genetic-code literals equal NCBI tables 1, 2, 5 row by row "
        "(plus the full-gap codon), the IUPAC expansion and bit-mask tables equal the IUPAC standard, none is written after initialisation (interprocedural value flow), "
        "geneticCode() and the three command-line switches map each named code to its own table and reject anything else, GenAllPossibleCodons folds case and U->T on all "
        "three positions before the lookup, translateCodon can only return table entries or 'X', and bufferTranslate's codon loop starts at the frame, steps by 3, runs "
        "exactly while a full codon remains, reads i,i+1,i+2 in bounds and rejects exactly len<3+frame. Exhaustive over all 3x65+16+19+16 table rows. "
        "NOT decided: the ambiguity loop as executed, TranslateByReference, CodonAlign data flow, 3-frame naming. Level 'other': necessary structural conditions, not the behaviour.",
        "DESIGN.md §3 C05"),
    "C08": (
        "goroutine-protocol analysis on go/ssa: must-call-before-return dataflow (WaitGroup.Done, close), lock/unlock pairing on all paths, lockset on captured variables, call-graph reachability, error-flow and accumulation-shape rules, weight-linearity value-flow rule for the counters",
        "Decides statically the concurrency clauses of C08 on distance/dna.DistMatrix for every schedule and thread count: every worker executes wg.Done on all paths and the producer closes the work channel on all "
        "paths, every mux.Lock is released on every path before a return or the next Lock (the call returns), every scalar shared between goroutines is accessed under one common mutex or by a single thread (parent accesses between spawn and join included; helper closures called from goroutines "
        "are attributed to the calling threads), worker-side accumulations are exact and commutative (guarded maximum; collected pairs consumed by a loop that only writes per-item cells), no random draw is reachable from the "
        "goroutines, the error of every model call is stored to the function's error result, and every accumulation of the pairwise counters and base-frequency estimators is linear in the site weight (integer weight k = k-fold replication: the added term carries weights[k] read at the residue index, independent of the residues). NOT decided: invariance under column permutation/replication/reverse-complement and linear scaling (relational, value level); "
        "disjointness of matrix-cell writes is assumed from the producer enumerating each pair once.",
        "DESIGN.md §3 C08"),
    "C11": (
        "repository-wide determinism lint on AST+SSA: map-range body classifier, who-may-call table for time/seed sources, call-graph reachability of RNG from goroutines, fan-in consumer classification",
        "Decides statically, over all 23 packages including cmd/, the reproducibility clauses visible in the shape of the code: every range over a map is order-insensitive or collect-then-sort (sensitive sites are violations "
        "unless a reasoned exception), wall-clock time and re-seeding occur only at the single seeding point, no draw from the global random stream is reachable from a goroutine, and results of several concurrent senders are "
        "not consumed in arrival order by an order-preserving consumer. Three recorded findings (tar ModTime, phase/phasent -t>1 arrival order). NOT decided: byte identity of actual runs, format-chain idempotence, "
        "equality of distboot with bootstrap+compute distance.",
        "DESIGN.md §3 C11"),
    "C16": (
        "goroutine-protocol analysis (must-call dataflow, send counting per worker iteration), linear-form comparison of cut positions, write-effect analysis of the inputs",
        "Decides statically the fan-out protocol, frame-arithmetic and input-immutability clauses of C16: workers defer wg.Done, the result channel is closed exactly once after wg.Wait in a goroutine started on every "
        "path, the sequence channel is closed after its last send, each completed worker iteration performs exactly one send, no RNG in goroutines; nucleotide cut positions are (phase%3)+3*seqstart / (phase%3)+3*(seqend+1), "
        "amino-acid cuts seqstart / seqend+1, NtSeq and CodonSeq are cut alike, the NT-mode codon offset is (3-nbgapstart%3)%3; Phase, alignAgainstRefsAA/NT and LongestORF never write memory reachable from their inputs "
        "(effects engine). NOT decided: longest-ORF optimality, best-frame choice, trimming at a verbatim ORF.",
        "DESIGN.md §3 C16"),
    "C19": (
        "write-effect and ownership analysis: allocation-site abstract interpretation of go/ssa with closed parameter regions, callbacks analysed at the call, positive and negative controls",
        "Decides statically, for every listed operation and all inputs, that no store/map update/copy/sort/mutating library call can land in memory reachable from the input alignment or sequence set (84 purity obligations: "
        "statistics, all writers, DistMatrix, MLDist, JC69Dist, NewPwAligner, Phase, LongestORF, SubAlign, SelectSites, Transpose, BuildBootstrap, Clone, ...), and that nothing reachable from the result of Clone, CloneSeqBag, "
        "(*seq).Clone, SubAlign, SelectSites, Transpose, BuildBootstrap, Unalign, Consensus, Split, RandSubAlign points into the receiver's memory. The engine is checked on every run against controls it must flag "
        "(mutating callback, shallow copy) and must not flag (deep copy, read-only traversal). NOT decided: external callers holding slices exposed by SequenceChar/IterateChar; library callees are modelled by an effect table.",
        "DESIGN.md §3 C19"),
}

NOT_YET = {
}
for _k in ["C01","C02","C03","C04","C06","C07","C08","C09","C10","C11","C12","C13","C14","C15","C16","C17","C18","C19"]:
    if _k not in CLAIMED:
        NOT_YET[_k] = "check not built yet at this commit (planned static rules: DESIGN.md §3); not claimed until its rules exist"
