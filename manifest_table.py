# id -> (technique, level_claimed.text, design_ref)
CLAIMED = {
    "C05": (
        "constant-table evaluation against NCBI/IUPAC oracles + SSA dispatch/value-flow rules + linear loop-shape proof",
        "Decides statically, on every run, the table/dispatch/loop-shape clauses of C05: the three genetic-code literals equal NCBI tables 1, 2, 5 row by row "
        "(plus the full-gap codon), the IUPAC expansion and bit-mask tables equal the IUPAC standard, none is written after initialisation (interprocedural value flow), "
        "geneticCode() and the three command-line switches map each named code to its own table and reject anything else, GenAllPossibleCodons folds case and U->T on all "
        "three positions before the lookup, translateCodon can only return table entries or 'X', and bufferTranslate's codon loop starts at the frame, steps by 3, runs "
        "exactly while a full codon remains, reads i,i+1,i+2 in bounds and rejects exactly len<3+frame. Exhaustive over all 3x65+16+19+16 table rows. "
        "NOT decided: the ambiguity loop as executed, TranslateByReference, CodonAlign data flow, 3-frame naming. Level 'other': necessary structural conditions, not the behaviour.",
        "DESIGN.md §3 C05"),
}

NOT_YET = {
}
for _k in ["C01","C02","C03","C04","C06","C07","C08","C09","C10","C11","C12","C13","C14","C15","C16","C17","C18","C19"]:
    if _k not in CLAIMED:
        NOT_YET[_k] = "check not built yet at this commit (planned static rules: DESIGN.md §3); not claimed until its rules exist"
