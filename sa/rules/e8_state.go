package rules

import (
	"fmt"
	"go/token"
	"strings"

	"golang.org/x/tools/go/ssa"
)

// E8 — state carried by objects across calls.

// checkAccumulatorReset: in fn, every read-modify-write of a receiver field
// (recv.f = recv.f ⊕ x) is preceded on every path by a plain store to that
// field in the same call: a second initialisation of the same object does not
// start from the first one's result.
func (c *Ctx) checkAccumulatorReset(rule string, r *fnRef) int {
	L := c.L
	if !r.ok() || len(r.F.Params) == 0 {
		return 0
	}
	fn := r.F
	lc := newLinCtx(c, fn)
	recv := fn.Params[0].Name()
	n := 0
	for _, g := range withAnons(fn) {
		glc := lc
		if g != fn {
			glc = newLinCtx(c, g)
		}
		allInstrs(g, func(in ssa.Instruction) {
			st, ok := in.(*ssa.Store)
			if !ok {
				return
			}
			t, f, fa := fieldAddrOf(st.Addr)
			if fa == nil {
				return
			}
			base := glc.canon(fa.X)
			if base != recv && base != "^"+recv && base != "*^"+recv {
				return
			}
			// read-modify-write?
			rmw := false
			if bo, ok := st.Val.(*ssa.BinOp); ok {
				for _, side := range []ssa.Value{bo.X, bo.Y} {
					if _, f2, b2 := loadedField(side); b2 != nil && f2 == f && glc.canon(b2) == base {
						rmw = true
					}
				}
			}
			if !rmw {
				return
			}
			n++
			name := "accumulation into " + t + "." + f
			// a plain store to the same field must dominate (same function only)
			reset := false
			if g == fn {
				allInstrs(fn, func(in2 ssa.Instruction) {
					s2, ok := in2.(*ssa.Store)
					if !ok || s2 == st {
						return
					}
					t2, f2, fa2 := fieldAddrOf(s2.Addr)
					if fa2 == nil || t2 != t || f2 != f || lc.canon(fa2.X) != recv {
						return
					}
					if _, isBin := s2.Val.(*ssa.BinOp); isBin {
						// could itself be a RMW
						if bo := s2.Val.(*ssa.BinOp); true {
							for _, side := range []ssa.Value{bo.X, bo.Y} {
								if _, f3, b3 := loadedField(side); b3 != nil && f3 == f {
									return
								}
							}
						}
					}
					if instrDominates(s2, st) {
						reset = true
					}
				})
			}
			if reset {
				L.OK(rule, r.label, name, c.P.Pos(st.Pos()), "the field is assigned afresh earlier in the same call on every path")
			} else {
				L.Bad(rule, r.label, name, c.P.Pos(st.Pos()), "the field is accumulated into without being re-initialised in this call: initialising the same object a second time (another alignment, another bootstrap replicate) starts from the previous result")
			}
		})
	}
	return n
}

// checkUnconditional: each call to one of the named helpers in fn is executed on
// every path to a normal return that does not return a non-nil error created earlier.
func (c *Ctx) callExecutedOnAllPaths(fn *ssa.Function, call ssa.Instruction) bool {
	// every block from which a Return is reachable without passing `call` must be an error path:
	// approximate: the call's block dominates every Return block whose error result is not a constructor
	for _, e := range returnEdges(fn) {
		if e.kind == "err" {
			continue
		}
		if !(call.Block() == e.ret.Block() || call.Block().Dominates(e.ret.Block())) {
			return false
		}
	}
	return true
}

// checkWriteAfterRead: no receiver field that the function (re)assigns from
// something other than its own value is read for computation before that
// assignment on a path that reaches it.
func (c *Ctx) checkWriteAfterRead(rule string, r *fnRef) {
	L := c.L
	if !r.ok() || len(r.F.Params) == 0 {
		return
	}
	fn := r.F
	lc := newLinCtx(c, fn)
	recv := fn.Params[0].Name()
	var bad []string
	nStores := 0
	allInstrs(fn, func(in ssa.Instruction) {
		st, ok := in.(*ssa.Store)
		if !ok {
			return
		}
		t, f, fa := fieldAddrOf(st.Addr)
		if fa == nil || lc.canon(fa.X) != recv {
			return
		}
		// skip read-modify-write and element updates
		if bo, ok := st.Val.(*ssa.BinOp); ok {
			for _, side := range []ssa.Value{bo.X, bo.Y} {
				if _, f2, b2 := loadedField(side); b2 != nil && f2 == f {
					return
				}
			}
		}
		nStores++
		for _, g := range withAnons(fn) {
			glc := lc
			if g != fn {
				glc = newLinCtx(c, g)
			}
			allInstrs(g, func(in2 ssa.Instruction) {
				u, ok := in2.(*ssa.UnOp)
				if !ok || u.Op != token.MUL {
					return
				}
				t2, f2, fa2 := fieldAddrOf(u.X)
				if fa2 == nil || t2 != t || f2 != f {
					return
				}
				b := glc.canon(fa2.X)
				if b != recv && b != "^"+recv && b != "*^"+recv {
					return
				}
				// computational use? (anything but a comparison with nil)
				comp := false
				if refs := u.Referrers(); refs != nil {
					for _, ref := range *refs {
						switch x := ref.(type) {
						case *ssa.BinOp:
							if k, ok := x.Y.(*ssa.Const); ok && k.IsNil() {
								continue
							}
							comp = true
						case *ssa.DebugRef:
						default:
							comp = true
						}
					}
				}
				if !comp {
					return
				}
				// is the store reachable after this load? (only loads in fn itself are ordered; loads in
				// closures run when the closure is called: take the MakeClosure / call position)
				var at ssa.Instruction = u
				if g != fn {
					// position of the call that receives the closure
					allInstrs(fn, func(x ssa.Instruction) {
						if mc, ok := x.(*ssa.MakeClosure); ok && mc.Fn == ssa.Value(g) {
							at = mc
						}
					})
				}
				if at.Parent() != fn {
					return
				}
				reach := reachableFrom(at.Block())
				before := (at.Block() == st.Block() && indexIn(st.Block(), at) < indexIn(st.Block(), st)) || (at.Block() != st.Block() && reach[st.Block()])
				if before {
					bad = append(bad, fmt.Sprintf("%s.%s is used at %s before it is assigned at %s", t, f, c.P.Pos(u.Pos()), c.P.Pos(st.Pos())))
				}
			})
		}
	})
	L.Check(len(bad) == 0, rule, r.label, "receiver fields assigned before they are used", c.P.Pos(fn.Pos()),
		fmt.Sprintf("%d plain stores to receiver fields; no computational read of such a field can precede its assignment", nStores), strings.Join(dedupe(bad), "; "))
}

// libraryGlobalWrites: stores / map updates to package-level variables in non-cmd packages, outside init.
func (c *Ctx) checkNoLibraryGlobalWrites(rule string) int {
	L := c.L
	L.Rule(rule, "outside package initialisation no function of a library package (everything but cmd and main) stores to a package-level variable or updates a package-level map: results never depend on what was computed earlier in the same process")
	n, nf := 0, 0
	for _, fn := range c.P.SrcFuncs() {
		pk := fn.Pkg
		if pk == nil && fn.Parent() != nil {
			pk = fn.Parent().Pkg
		}
		if pk == nil {
			continue
		}
		rel := relPkg(c.P, pk.Pkg.Path())
		if rel == "cmd" || rel == "main" {
			continue
		}
		top := fn
		for top.Parent() != nil {
			top = top.Parent()
		}
		if top.Name() == "init" || strings.HasPrefix(top.Name(), "init#") {
			continue
		}
		nf++
		allInstrs(fn, func(in ssa.Instruction) {
			var g *ssa.Global
			switch x := in.(type) {
			case *ssa.Store:
				if gg, ok := x.Addr.(*ssa.Global); ok {
					g = gg
				}
				if ia, ok := x.Addr.(*ssa.IndexAddr); ok {
					if u, ok := ia.X.(*ssa.UnOp); ok {
						if gg, ok := u.X.(*ssa.Global); ok {
							g = gg
						}
					}
					if gg, ok := ia.X.(*ssa.Global); ok {
						g = gg
					}
				}
			case *ssa.MapUpdate:
				if u, ok := x.Map.(*ssa.UnOp); ok {
					if gg, ok := u.X.(*ssa.Global); ok {
						g = gg
					}
				}
			case ssa.CallInstruction:
				// the address of a package-level variable handed to a callee (sync.Map, mutex, buffer …)
				for _, a := range x.Common().Args {
					if gg, ok := a.(*ssa.Global); ok && gg.Pkg == pk {
						g = gg
					}
				}
				if gg, ok := x.Common().Value.(*ssa.Global); ok && gg.Pkg == pk {
					g = gg
				}
			case *ssa.FieldAddr:
				if gg, ok := x.X.(*ssa.Global); ok && gg.Pkg == pk {
					// &global.field : only a write if stored through; handled by Store on FieldAddr below
					if refs := x.Referrers(); refs != nil {
						for _, r := range *refs {
							if st, ok := r.(*ssa.Store); ok && st.Addr == ssa.Value(x) {
								g = gg
							}
						}
					}
				}
			}
			if g == nil {
				// a write through a slice, map or pointer that was read from a package-level variable
				// (`buf := scratch; buf[i] = …`): the variable is not assigned, what it refers to is
				var addr ssa.Value
				switch x := in.(type) {
				case *ssa.Store:
					switch x.Addr.(type) {
					case *ssa.IndexAddr, *ssa.FieldAddr:
						addr = x.Addr
					}
				case *ssa.MapUpdate:
					addr = x.Map
				}
				if addr != nil {
					if gg := globalBehind(addr, 0, map[ssa.Value]bool{}); gg != nil && gg.Pkg == pk {
						g = gg
					}
				}
			}
			if g != nil {
				n++
				L.Bad(rule, c.P.FuncName(fn), "write to "+g.Name(), c.P.Pos(in.Pos()), "a library function modifies package-level state: later calls in the same process see it (hidden cache / history dependence)")
			}
		})
	}
	L.Trivial(rule, "library packages", "all functions scanned", "-", fmt.Sprintf("%d functions outside cmd, %d writes to package-level state", nf, n))
	return n
}


// globalBehind: the package-level variable whose value (a slice, map or pointer) the address v is
// derived from, through element/field addressing, re-slicing, φ-nodes and local variables.
func globalBehind(v ssa.Value, depth int, seen map[ssa.Value]bool) *ssa.Global {
	if depth > 10 || seen[v] {
		return nil
	}
	seen[v] = true
	switch x := v.(type) {
	case *ssa.IndexAddr:
		return globalBehind(x.X, depth+1, seen)
	case *ssa.FieldAddr:
		return globalBehind(x.X, depth+1, seen)
	case *ssa.Slice:
		return globalBehind(x.X, depth+1, seen)
	case *ssa.ChangeType:
		return globalBehind(x.X, depth+1, seen)
	case *ssa.Phi:
		for _, e := range x.Edges {
			if g := globalBehind(e, depth+1, seen); g != nil {
				return g
			}
		}
	case *ssa.UnOp:
		if x.Op != token.MUL {
			return nil
		}
		if g, ok := x.X.(*ssa.Global); ok {
			return g
		}
		// a local variable that holds the value
		if a, ok := x.X.(*ssa.Alloc); ok && a.Referrers() != nil {
			for _, r := range *a.Referrers() {
				if st, ok := r.(*ssa.Store); ok && st.Addr == ssa.Value(a) {
					if g := globalBehind(st.Val, depth+1, seen); g != nil {
						return g
					}
				}
			}
		}
		// an element or field that holds a reference
		switch x.X.(type) {
		case *ssa.IndexAddr, *ssa.FieldAddr:
			return globalBehind(x.X, depth+1, seen)
		}
	}
	return nil
}
