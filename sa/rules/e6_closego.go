package rules

import (
	"fmt"
	"os"
	"sort"

	"golang.org/x/tools/go/ssa"
)

// Close after go. A function that starts a goroutine and then, on the same path and without
// waiting for it (WaitGroup.Wait, a channel receive, a range over a channel), calls Close on a
// value that exists since before the go statement may close the input the goroutine is still
// reading: the reader gets "file already closed", takes it for the end of the input and the
// stream is cut short.
type closeAfterGo struct {
	fn    *ssa.Function
	g     *ssa.Go
	close ssa.Instruction
}

func closesAfterGo(fn *ssa.Function) []closeAfterGo {
	var out []closeAfterGo
	isClose := func(in ssa.Instruction) (ssa.Value, bool) {
		cc := callOf(in)
		if cc == nil {
			return nil, false
		}
		if _, isDefer := in.(*ssa.Defer); isDefer {
			return nil, false
		}
		if cc.IsInvoke() && cc.Method.Name() == "Close" {
			return cc.Value, true
		}
		if f := cc.StaticCallee(); f != nil && f.Name() == "Close" && f.Signature.Recv() != nil && len(cc.Args) > 0 {
			return cc.Args[0], true
		}
		return nil, false
	}
	isJoin := func(in ssa.Instruction) bool {
		if cc := callOf(in); cc != nil && isSyncMethod(cc, "WaitGroup", "Wait") {
			return true
		}
		if u, ok := in.(*ssa.UnOp); ok && u.Op.String() == "<-" {
			return true
		}
		if _, ok := in.(*ssa.Next); ok {
			return true
		}
		if _, ok := in.(*ssa.Select); ok {
			return true
		}
		return false
	}
	for _, b := range fn.Blocks {
		for gi, in := range b.Instrs {
			g, ok := in.(*ssa.Go)
			if !ok {
				continue
			}
			// forward from the go statement
			seen := map[*ssa.BasicBlock]bool{}
			var scan func(blk *ssa.BasicBlock, from int)
			scan = func(blk *ssa.BasicBlock, from int) {
				for i := from; i < len(blk.Instrs); i++ {
					x := blk.Instrs[i]
					if isJoin(x) {
						return
					}
					if v, ok := isClose(x); ok {
						// the closed value exists since before the go statement
						if vi, isInstr := v.(ssa.Instruction); !isInstr || vi.Block().Dominates(b) {
							out = append(out, closeAfterGo{fn, g, x})
						}
					}
				}
				for _, s := range blk.Succs {
					if !seen[s] {
						seen[s] = true
						scan(s, 0)
					}
				}
			}
			scan(b, gi+1)
		}
	}
	return out
}

func (c *Ctx) debugCloseGo() {
	if os.Getenv("VERIF_DEBUG_CLOSEGO") == "" {
		return
	}
	var lines []string
	for _, fn := range c.P.SrcFuncs() {
		for _, f := range withAnons(fn) {
			for _, x := range closesAfterGo(f) {
				lines = append(lines, fmt.Sprintf("CLOSEGO %s: go at %s, Close at %s", c.P.FuncName(x.fn), c.P.Pos(x.g.Pos()), c.P.Pos(x.close.Pos())))
			}
		}
	}
	sort.Strings(lines)
	for _, l := range lines {
		fmt.Fprintln(os.Stderr, l)
	}
}

// checkNoCloseAfterGo: in the given packages no function closes a value that existed before a go
// statement after that statement without first waiting for the goroutine.
func (c *Ctx) checkNoCloseAfterGo(rule string, rels ...string) {
	L := c.L
	if c.Thorough() {
		rels = nil // thorough tier: every package of the module
	}
	L.Rule(rule, "a function that starts a goroutine does not, on a path that continues from the go statement without a join (WaitGroup.Wait, channel receive, select), call Close on a value that already existed when the goroutine was started: the goroutine may still be reading from it (a multi-alignment stream would be cut at the buffered part)")
	nGo := 0
	for _, fn := range c.srcFuncs(rels...) {
		if fn.Parent() != nil {
			continue
		}
		for _, f := range withAnons(fn) {
			allInstrs(f, func(in ssa.Instruction) {
				if _, ok := in.(*ssa.Go); ok {
					nGo++
				}
			})
			for _, x := range closesAfterGo(f) {
				root := x.fn
				for root.Parent() != nil && root.Parent().Synthetic == "" {
					root = root.Parent()
				}
				L.Bad(rule, c.P.FuncName(c.origFn(root)), "Close after a go statement", c.P.Pos(x.close.Pos()),
					fmt.Sprintf("Close is reached after the goroutine started at %s without waiting for it: the goroutine may still use what is being closed", c.P.Pos(x.g.Pos())))
			}
		}
	}
	L.OK(rule, "scope", fmt.Sprintf("packages %v", rels), "-", fmt.Sprintf("%d go statements examined, no Close follows one without a join", nGo))
	if cp := c.Controls(); cp != nil {
		n := 0
		for _, fn := range cp.SrcFuncs() {
			n += len(closesAfterGo(fn))
		}
		L.ControlMustFire(rule, n > 0, "controls.CloseAfterGo closes its input right after starting the reader goroutine")
	}
}
