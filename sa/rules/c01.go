package rules

import (
	"fmt"
	"go/token"
	"go/types"
	"sort"
	"strings"

	"golang.org/x/tools/go/ssa"
)

func init() {
	register(&Property{ID: "C01", Run: runC01,
		Explanation: "Static decision of the index-consistency clauses of C01: (1) every in-place write of a row name in a container method is followed, on every path to a normal return, by a rebuild of the name index; rows are renamed nowhere else (field-write ownership over the whole repository, SetName callers act on detached sequences); (2) insertion updates the ordered row list and the name index together with the same row object and, for alignments, rejects a row of another length before any write to the receiver (the error return is controlled by `length != -1 && length != len(sequence)` and no store can reach it); (3) the cached alignment length is written only by a frozen set of functions, every *align method that replaces or re-slices a row buffer re-establishes or re-verifies the cached length afterwards on all paths, and *align re-declares every seqbag method that can change row lengths or empty the container; (4) by-index accessors are range-checked (linear bounds); (5) FilterLength keeps a row only when it is within both given bounds. Not decided: equality with the list-of-(name,sequence) reference model for arbitrary histories, duplicate-name renaming text, shuffles/sampling content."})
}

// mustFollow: on every path, once an instruction satisfying isX has executed,
// an instruction satisfying isY executes before the function returns normally
// (a `defer Y` executed earlier on every path counts: it runs at the return).
func mustFollow(fn *ssa.Function, isX, isY func(ssa.Instruction) bool) (bool, ssa.Instruction) {
	n := len(fn.Blocks)
	type st struct {
		pending ssa.Instruction // may: an X not yet followed by Y (witness)
		deferY  bool            // must: a deferred Y is registered
	}
	in := make([]st, n)
	out := make([]st, n)
	for i := range in {
		in[i].deferY = true
		out[i].deferY = true
	}
	reach := make([]bool, n)
	if n > 0 {
		reach[0] = true
		in[0].deferY = false
	}
	transfer := func(b *ssa.BasicBlock, s st) (st, ssa.Instruction) {
		var bad ssa.Instruction
		for _, ins := range b.Instrs {
			if d, ok := ins.(*ssa.Defer); ok && isY(d) {
				s.deferY = true
				continue
			}
			if isY(ins) {
				s.pending = nil
			}
			if isX(ins) {
				s.pending = ins
			}
			if _, ok := ins.(*ssa.RunDefers); ok && s.deferY {
				s.pending = nil
			}
			if _, ok := ins.(*ssa.Return); ok && s.pending != nil {
				bad = s.pending
			}
		}
		return s, bad
	}
	changed := true
	for iter := 0; changed && iter < 4*n+8; iter++ {
		changed = false
		for _, b := range fn.Blocks {
			if !reach[b.Index] {
				continue
			}
			o, _ := transfer(b, in[b.Index])
			out[b.Index] = o
			for _, s := range b.Succs {
				ni := in[s.Index]
				if !reach[s.Index] {
					reach[s.Index] = true
					ni = st{pending: o.pending, deferY: o.deferY}
					in[s.Index] = ni
					changed = true
					continue
				}
				if o.pending != nil && ni.pending == nil {
					ni.pending = o.pending
					changed = true
				}
				if !o.deferY && ni.deferY {
					ni.deferY = false
					changed = true
				}
				in[s.Index] = ni
			}
		}
	}
	for _, b := range fn.Blocks {
		if !reach[b.Index] {
			continue
		}
		if _, bad := transfer(b, in[b.Index]); bad != nil {
			return false, bad
		}
	}
	return true, nil
}

func isCallToMethod(in ssa.Instruction, recvType, name string) bool {
	cc := callOf(in)
	if cc == nil {
		return false
	}
	f := cc.StaticCallee()
	if f == nil || f.Name() != name || f.Signature.Recv() == nil {
		return false
	}
	n := namedOf(f.Signature.Recv().Type())
	return n != nil && n.Obj().Name() == recvType
}

func recvTypeName(fn *ssa.Function) string {
	if fn.Signature.Recv() == nil {
		return ""
	}
	if n := namedOf(fn.Signature.Recv().Type()); n != nil {
		return n.Obj().Name()
	}
	return ""
}

func runC01(c *Ctx) {
	L := c.L
	c.checkSameSequenceLength("same-sequence-length")
	c.checkStopPolarity("stop-on-error", "align")
	L.Rule("name-index", "a store to seq.name of a row that is not a fresh local object occurs only in a seqbag/align method, and on every path from the store to a normal return the name index is rebuilt (call to (*seqbag).reindex, possibly deferred earlier); (*seq).SetName is called only on detached sequences")
	L.Rule("index-rebuild", "(*seqbag).reindex assigns a fresh map to seqmap and inserts every row of seqs under its current name")
	L.Rule("insert-pairing", "AddSequenceChar inserts the same new row object into the name index (under the name it was created with) and appends it to the ordered row list, in the same block")
	L.Rule("reject-unchanged", "the only error return of (*align).AddSequenceChar is taken exactly when length != -1 && length != len(sequence), and no store, map update or append to receiver state can execute before it")
	L.Rule("length-writers", "the set of functions that store to align.length equals the table confirmed by hand")
	L.Rule("length-after-row-change", "in every *align method, a store that replaces or re-slices a row buffer (seq.sequence = …) is followed on every path to a normal return by a store to align.length, or by the verification loop of Replace; the stored length is the new row length where it is a linear form")
	L.Rule("override-complete", "*align declares its own version of every seqbag method that can replace row buffers or empty the container, and that override re-establishes or verifies the cached length")
	L.Rule("by-index-guard", "every index into the ordered row list in a by-index accessor is within [0, NbSequences()) on every path")
	L.Rule("filter-domain", "FilterLength re-adds a row only if its length is >= minlength when minlength is given and <= maxlength when maxlength is given (both at once when both are given)")

	c.c01NameIndex()
	c.c01Insert()
	c.c01Length()
	c.c01ByIndex()
	c.c01Filter()
	L.Assumes("rows are reached only through seqs/seqmap of their container (no external alias of *seq except the detached results named in the SetName rule)")
	c.checkStaleState("stale-iteration-state", "align")
	L.Floor("stale-iteration-state", 2, "two listed state machines of package align plus the scope line")
	c.checkHandedOverBuffers("handed-over-buffer-fresh", "align")
}

// ---------------------------------------------------------------------------

func (c *Ctx) c01NameIndex() {
	L := c.L
	isReindex := func(in ssa.Instruction) bool { return isCallToMethod(in, "seqbag", "reindex") }
	nStores := 0
	for _, fn := range c.P.SrcFuncs() {
		var stores []*ssa.Store
		allInstrs(fn, func(in ssa.Instruction) {
			st, ok := in.(*ssa.Store)
			if !ok {
				return
			}
			t, f, fa := fieldAddrOf(st.Addr)
			if fa == nil || t != "seq" || f != "name" {
				return
			}
			if _, fresh := fa.X.(*ssa.Alloc); fresh {
				return // composite literal of a new sequence
			}
			stores = append(stores, st)
		})
		if len(stores) == 0 {
			continue
		}
		name := c.P.FuncName(fn)
		rt := recvTypeName(fn)
		if rt == "seq" && fn.Name() == "SetName" {
			L.Trivial("name-index", name, "setter", c.P.Pos(fn.Pos()), "the setter itself; its call sites are checked below")
			continue
		}
		for _, st := range stores {
			nStores++
			cons := "store to seq.name"
			if rt != "seqbag" && rt != "align" {
				L.Bad("name-index", name, cons, c.P.Pos(st.Pos()), "a row name is written outside the container's own methods: the name index cannot follow")
				continue
			}
			ok, _ := mustFollow(fn, func(in ssa.Instruction) bool { return in == ssa.Instruction(st) }, isReindex)
			if ok {
				L.OK("name-index", name, cons, c.P.Pos(st.Pos()), "every path from this store to a normal return executes (*seqbag).reindex")
			} else {
				L.Bad("name-index", name, cons, c.P.Pos(st.Pos()), "a path from this store reaches a normal return without rebuilding the name index: lookups by name, Sort, Concat and Identical see stale names")
			}
		}
	}
	L.Floor("name-index", 3, "6 renaming methods (8 stores) + setter (floor = half of the instances on the pinned tree: a clean-up may merge instances, a rule that sees nothing must still fail)")

	// SetName call sites
	nCalls := 0
	for _, fn := range c.P.SrcFuncs() {
		allInstrs(fn, func(in ssa.Instruction) {
			cc := callOf(in)
			if cc == nil {
				return
			}
			isSet := false
			var recv ssa.Value
			if cc.IsInvoke() && cc.Method.Name() == "SetName" {
				if n := namedOf(cc.Value.Type()); n != nil && n.Obj().Name() == "Sequence" {
					isSet, recv = true, cc.Value
				}
			} else if f := cc.StaticCallee(); f != nil && f.Name() == "SetName" && recvTypeName(f) == "seq" {
				isSet, recv = true, cc.Args[0]
			}
			if !isSet {
				return
			}
			nCalls++
			// detached = result of LongestORF / Clone / NewSequence (through φ, extract)
			detached := true
			why := ""
			for v := range throughPhis(recv, false) {
				switch x := v.(type) {
				case *ssa.Phi:
				case *ssa.Extract:
					if call, ok := x.Tuple.(*ssa.Call); ok && producesDetached(call.Common()) {
						continue
					}
					detached, why = false, "receiver comes from "+x.Tuple.String()
				case *ssa.Call:
					if producesDetached(x.Common()) {
						continue
					}
					detached, why = false, "receiver comes from "+x.String()
				case *ssa.Const:
				default:
					detached, why = false, "receiver is "+v.String()
				}
			}
			name := c.P.FuncName(fn)
			if detached {
				L.OK("name-index", name, "call of SetName", c.P.Pos(in.Pos()), "receiver is the result of LongestORF/Clone/NewSequence: a sequence that belongs to no container")
			} else {
				L.Bad("name-index", name, "call of SetName", c.P.Pos(in.Pos()), "SetName on a sequence that may be a row of a container ("+why+"): its name index is not updated")
			}
		})
	}
	_ = nCalls

	// reindex itself
	r := c.fn("align", "*seqbag", "reindex")
	if r.ok() {
		fn := r.F
		var mapStore *ssa.Store
		var upd *ssa.MapUpdate
		allInstrs(fn, func(in ssa.Instruction) {
			switch x := in.(type) {
			case *ssa.Store:
				if t, f, fa := fieldAddrOf(x.Addr); fa != nil && t == "seqbag" && f == "seqmap" {
					mapStore = x
				}
			case *ssa.MapUpdate:
				upd = x
			}
		})
		okFresh := false
		if mapStore != nil {
			_, okFresh = mapStore.Val.(*ssa.MakeMap)
			// unconditional: executed on every path to the return (a map that is only
			// allocated when nil keeps the former names)
			if all, _ := mustBeforeReturn(fn, func(in ssa.Instruction) bool { return in == ssa.Instruction(mapStore) }); !all {
				okFresh = false
			}
		}
		okUpd := false
		if upd != nil {
			// key = load of (value).name ; value = element of sb.seqs, in a range loop over sb.seqs
			if _, f, base := loadedField(upd.Key); base != nil && f == "name" && base == upd.Value {
				lc := newLinCtx(c, fn)
				if _, isRow := lc.rowOwner(upd.Value); isRow {
					okUpd = true
				}
			}
		}
		rls := 0
		if okUpd {
			lc := newLinCtx(c, fn)
			for range lc.rangeLoopsOver(fn, func(v ssa.Value) bool {
				_, f, base := loadedField(v)
				return base != nil && f == "seqs"
			}) {
				rls++
			}
		}
		L.Check(okFresh && okUpd && rls == 1, "index-rebuild", r.label, "seqmap = fresh map; for every row: seqmap[row.name] = row", c.P.Pos(fn.Pos()),
			"fresh map stored to seqmap; one range loop over seqs inserting each row under its current name",
			fmt.Sprintf("reindex does not rebuild the whole index (fresh map: %v, row inserted under its own name: %v, range loops over seqs: %d)", okFresh, okUpd, rls))
	}
	L.Floor("index-rebuild", 1, "the helper exists")
}

func producesDetached(cc *ssa.CallCommon) bool {
	name := ""
	if cc.IsInvoke() {
		name = cc.Method.Name()
	} else if f := cc.StaticCallee(); f != nil {
		name = f.Name()
	}
	switch name {
	case "LongestORF", "Clone", "NewSequence":
		return true
	}
	return false
}

// ---------------------------------------------------------------------------

func (c *Ctx) c01Insert() {
	L := c.L
	for _, recv := range []string{"*seqbag", "*align"} {
		r := c.fn("align", recv, "AddSequenceChar")
		if !r.ok() {
			continue
		}
		fn := r.F
		var upd *ssa.MapUpdate
		var app *ssa.Call
		var seqsStore *ssa.Store
		allInstrs(fn, func(in ssa.Instruction) {
			switch x := in.(type) {
			case *ssa.MapUpdate:
				if _, f, base := loadedField(x.Map); base != nil && f == "seqmap" {
					upd = x
				}
			case *ssa.Store:
				if t, f, fa := fieldAddrOf(x.Addr); fa != nil && (t == "seqbag" || t == "align") && f == "seqs" {
					seqsStore = x
					if call, ok := x.Val.(*ssa.Call); ok && builtinName(call.Common()) == "append" {
						app = call
					}
				}
			}
		})
		ok := false
		det := ""
		if upd != nil && app != nil && seqsStore != nil {
			// appended element
			var elem ssa.Value
			if sl, isSl := app.Common().Args[1].(*ssa.Slice); isSl {
				if al, isAl := sl.X.(*ssa.Alloc); isAl {
					for _, ref := range *al.Referrers() {
						if ia, isIA := ref.(*ssa.IndexAddr); isIA {
							for _, rr := range *ia.Referrers() {
								if st, isSt := rr.(*ssa.Store); isSt {
									elem = st.Val
								}
							}
						}
					}
				}
			}
			sameObj := elem != nil && elem == upd.Value
			// the key is the name the row was created with
			sameName := false
			if call, isCall := upd.Value.(*ssa.Call); isCall {
				if f := call.Common().StaticCallee(); f != nil && f.Name() == "NewSequence" {
					sameName = call.Common().Args[0] == upd.Key
				}
			}
			sameBlock := upd.Block() == seqsStore.Block()
			ok = sameObj && sameName && sameBlock
			det = fmt.Sprintf("same row object in index and list: %v; indexed under the name it was created with: %v; same block: %v", sameObj, sameName, sameBlock)
		} else {
			det = "map update or append to seqs not found"
		}
		L.Check(ok, "insert-pairing", r.label, "seqmap[name] = row; seqs = append(seqs, row)", c.P.Pos(fn.Pos()), det, "insertion does not keep index and list in step: "+det)
	}
	L.Floor("insert-pairing", 2, "seqbag and align insertion")

	// reject-unchanged on (*align).AddSequenceChar
	r := c.fn("align", "*align", "AddSequenceChar")
	if !r.ok() {
		return
	}
	fn := r.F
	lc := newLinCtx(c, fn)
	var errEdges []retEdge
	for _, e := range returnEdges(fn) {
		if e.kind != "ok" {
			errEdges = append(errEdges, e)
		}
	}
	if len(errEdges) != 1 {
		L.Unknown("reject-unchanged", r.label, "error return", c.P.Pos(fn.Pos()), fmt.Sprintf("%d non-nil error returns, want exactly 1", len(errEdges)))
		return
	}
	eb := errEdges[0].block
	// controlling comparison: length != len(sequence) (true edge) preceded by length != -1 (true edge)
	ctl := map[string]bool{}
	for d := eb; d != nil; d = d.Idom() {
		for _, p := range d.Preds {
			ifi, ok := p.Instrs[len(p.Instrs)-1].(*ssa.If)
			if !ok || p.Succs[0] != d || len(d.Preds) != 1 {
				continue
			}
			bo, ok := ifi.Cond.(*ssa.BinOp)
			if !ok || bo.Op != token.NEQ {
				continue
			}
			x, y := lc.of(bo.X).String(), lc.of(bo.Y).String()
			ctl[x+" != "+y] = true
		}
	}
	want1, want2 := "L(a) != -1", "L(a) != len(sequence)"
	okCtl := ctl[want1] && ctl[want2]
	var keys []string
	for k := range ctl {
		keys = append(keys, k)
	}
	sort.Strings(keys)
	L.Check(okCtl, "reject-unchanged", r.label, "guard of the error return", c.P.Pos(errEdges[0].ret.Pos()),
		"error return controlled by "+strings.Join(keys, " && "),
		"the error return is not controlled by `length != -1 && length != len(sequence)`; controlling comparisons: "+strings.Join(keys, ", "))
	// no receiver write can reach the error return
	reachErr := map[*ssa.BasicBlock]bool{eb: true}
	changed := true
	for changed {
		changed = false
		for _, b := range fn.Blocks {
			if reachErr[b] {
				continue
			}
			for _, s := range b.Succs {
				if reachErr[s] {
					reachErr[b] = true
					changed = true
				}
			}
		}
	}
	var writes []string
	for b := range reachErr {
		for _, in := range b.Instrs {
			switch x := in.(type) {
			case *ssa.Store:
				if _, local := x.Addr.(*ssa.Alloc); local {
					continue
				}
				if ia, ok := x.Addr.(*ssa.IndexAddr); ok {
					if al, ok := ia.X.(*ssa.Alloc); ok && (al.Comment == "varargs" || !al.Heap) {
						continue
					}
				}
				writes = append(writes, c.P.Pos(x.Pos()))
			case *ssa.MapUpdate:
				writes = append(writes, c.P.Pos(x.Pos()))
			}
		}
	}
	sort.Strings(writes)
	L.Check(len(writes) == 0, "reject-unchanged", r.label, "no write before the rejection", c.P.Pos(errEdges[0].ret.Pos()),
		fmt.Sprintf("%d blocks can reach the error return; none stores to non-local memory", len(reachErr)),
		"a write to the receiver can execute before the length rejection: "+strings.Join(writes, ", "))
	L.Floor("reject-unchanged", 2, "guard + no-write")
}

// ---------------------------------------------------------------------------

var c01LengthWriters = []string{
	"align.(*align).AddSequenceChar", "align.(*align).Clear", "align.(*align).RemoveCharacterSites", "align.(*align).RemoveMajorityCharacterSites",
	"align.(*align).Translate", "align.(*align).TranslateByReference", "align.(*align).TrimSequences", "align.(*align).Compress", "align.(*align).Concat", "align.(*align).Split",
	"align.seqBagToAlignment", "align.seqBagToAlignment$1", "align.NewAlign", "align.(*align).Concat$3",
}

func (c *Ctx) c01Length() {
	L := c.L
	// (a) who may write align.length
	writers := map[string]bool{}
	writerFn := map[string]*ssa.Function{}
	for _, fn := range c.P.SrcFuncs() {
		allInstrs(fn, func(in ssa.Instruction) {
			if st, ok := in.(*ssa.Store); ok {
				if t, f, fa := fieldAddrOf(st.Addr); fa != nil && t == "align" && f == "length" {
					writers[c.P.FuncName(fn)] = true
					writerFn[c.P.FuncName(fn)] = fn
				}
			}
		})
	}
	allowed := map[string]bool{}
	for _, w := range c01LengthWriters {
		allowed[w] = true
	}
	var ws []string
	for w := range writers {
		ws = append(ws, w)
	}
	sort.Strings(ws)
	for _, w := range ws {
		if allowed[w] {
			L.OK("length-writers", w, "stores align.length", "-", "in the confirmed table")
		} else if ok, callers := c.privateHelperOf(writerFn[w], func(n string) bool { return allowed[n] }); ok {
			L.OK("length-writers", w, "stores align.length", "-", "private helper called only from writers of the confirmed table: "+strings.Join(callers, ", "))
		} else {
			L.Bad("length-writers", w, "stores align.length", "-", "a function outside the confirmed table writes the cached alignment length")
		}
	}
	L.Floor("length-writers", 4, "writers of align.length confirmed by hand (floor = half of the instances on the pinned tree: a clean-up may merge instances, a rule that sees nothing must still fail)")

	// (b) row replacement in *align methods must be followed by a length store
	isLenStore := func(in ssa.Instruction) bool {
		if st, ok := in.(*ssa.Store); ok {
			if t, f, fa := fieldAddrOf(st.Addr); fa != nil && t == "align" && f == "length" {
				return true
			}
		}
		return false
	}
	n := 0
	c.P.Func("align", "*seqbag", "appendToSequence") // an anchor of this rule: its calls stay visible in the views
	touchesRows := func(f *ssa.Function) bool {
		found := false
		for _, g := range withAnons(f) {
			allInstrs(g, func(in ssa.Instruction) {
				if st, ok := in.(*ssa.Store); ok {
					if t, fld, fa := fieldAddrOf(st.Addr); fa != nil && t == "seq" && fld == "sequence" {
						if _, fresh := fa.X.(*ssa.Alloc); !fresh {
							found = true
						}
					}
				}
				if isCallToMethod(in, "seqbag", "appendToSequence") {
					found = true
				}
			})
		}
		return found
	}
	for _, fn0 := range c.P.SrcFuncs("align") {
		fn := fn0
		if recvTypeName(fn) != "align" || fn.Parent() != nil {
			continue
		}
		// a private helper of *align methods is checked where it is used: in the inlined view of
		// each method that calls it (the length update may rightly be the caller's business)
		if isHelper, _ := c.privateHelperOf(fn, func(string) bool { return false }); !token.IsExported(fn.Name()) && !isHelper && !c.valueUse[fn] && len(c.callersIdx[fn]) > 0 && touchesRows(fn) {
			allAlign := true
			for _, g := range c.callersIdx[fn] {
				r := g
				for r.Parent() != nil {
					r = r.Parent()
				}
				if recvTypeName(r) != "align" {
					allAlign = false
				}
			}
			if allAlign {
				continue
			}
		}
		usesHelper := false
		allInstrs(fn, func(in ssa.Instruction) {
			if cc := callOf(in); cc != nil {
				if g := cc.StaticCallee(); g != nil && g != fn && g.Pkg == fn.Pkg && !token.IsExported(g.Name()) && recvTypeName(g) == "align" && touchesRows(g) {
					usesHelper = true
				}
			}
		})
		if usesHelper {
			fn = c.viewOf(fn)
		}
		var rowStores []*ssa.Store
		for _, g := range withAnons(fn) {
			allInstrs(g, func(in ssa.Instruction) {
				if st, ok := in.(*ssa.Store); ok {
					if t, f, fa := fieldAddrOf(st.Addr); fa != nil && t == "seq" && f == "sequence" {
						if _, fresh := fa.X.(*ssa.Alloc); !fresh {
							rowStores = append(rowStores, st)
						}
					}
				}
			})
		}
		// calls to seqbag helpers that replace row buffers
		var helperCalls []ssa.Instruction
		for _, g := range withAnons(fn) {
			allInstrs(g, func(in ssa.Instruction) {
				if isCallToMethod(in, "seqbag", "appendToSequence") {
					helperCalls = append(helperCalls, in)
				}
			})
		}
		name := c.P.FuncName(fn)
		lc := newLinCtx(c, fn)
		for _, st := range rowStores {
			n++
			if st.Parent() != fn {
				L.Unknown("length-after-row-change", name, "row buffer replaced in a closure", c.P.Pos(st.Pos()), "cannot order the closure's store with the length update")
				continue
			}
			// Split builds a different, fresh alignment: its rows belong to alsimpl[pi]; the length store addresses the same object
			ok, _ := mustFollow(fn, func(in ssa.Instruction) bool { return in == ssa.Instruction(st) }, isLenStore)
			cons := stable("row buffer replaced: " + lc.canon(st.Addr))
			if ok {
				L.OK("length-after-row-change", name, cons, c.P.Pos(st.Pos()), "every path from the row replacement to a normal return stores align.length")
			} else {
				L.Bad("length-after-row-change", name, cons, c.P.Pos(st.Pos()), "a row buffer is replaced or re-sliced and a normal return is reachable without updating the cached length: Length() and the rows disagree")
			}
		}
		// the row list emptied through the embedded container (seqbag.Clear on the receiver's own
		// rows): the cached length describes rows that are gone
		for _, g := range withAnons(fn) {
			allInstrs(g, func(in ssa.Instruction) {
				if !isCallToMethod(in, "seqbag", "Clear") {
					return
				}
				n++
				if g != fn {
					L.Unknown("length-after-row-change", name, "row list emptied in a closure", c.P.Pos(in.Pos()), "cannot order the closure's call with the length update")
					return
				}
				ok, _ := mustFollow(fn, func(x ssa.Instruction) bool { return x == in }, isLenStore)
				L.Check(ok, "length-after-row-change", name, "row list emptied through the embedded container", c.P.Pos(in.Pos()),
					"every path from the call to a normal return stores align.length",
					"the rows are dropped through the embedded container and a normal return is reachable without resetting the cached length: an alignment left without rows still reports the old length and rejects rows of any other length")
			})
		}
		for _, hc := range helperCalls {
			n++
			top := hc
			host := hc.Parent()
			cons := "rows extended through appendToSequence"
			if host != fn {
				// inside a callback passed to IterateAll: the length store must
				// follow, in the enclosing method, the call that runs the callback
				okAll := true
				allInstrs(fn, func(in ssa.Instruction) {
					if mc, ok := in.(*ssa.MakeClosure); ok && mc.Fn == ssa.Value(host) {
						ok2, _ := mustFollow(fn, func(x ssa.Instruction) bool { return x == ssa.Instruction(mc) }, func(x ssa.Instruction) bool {
							if isLenStore(x) {
								return true
							}
							return false
						})
						// the error exits of Concat return before the update: accept returns of a non-nil error
						if !ok2 {
							ok2 = onlyErrorReturnsSkip(fn, mc, isLenStore)
						}
						if !ok2 {
							okAll = false
						}
					}
				})
				if okAll {
					L.OK("length-after-row-change", name, cons, c.P.Pos(top.Pos()), "the enclosing method stores align.length after running the callback, on every path that does not return an error")
				} else {
					L.Bad("length-after-row-change", name, cons, c.P.Pos(top.Pos()), "rows are extended in a callback and the enclosing method can return normally without updating the cached length")
				}
				continue
			}
			ok, _ := mustFollow(fn, func(in ssa.Instruction) bool { return in == top }, isLenStore)
			if !ok {
				// returns of a non-nil error may skip the update (as for the callback form)
				ok = onlyErrorReturnsSkip(fn, top, isLenStore)
			}
			L.Check(ok, "length-after-row-change", name, cons, c.P.Pos(top.Pos()), "followed by a store to align.length on every path", "rows are extended and the cached length is not updated on some path")
		}
	}
	L.Floor("length-after-row-change", 2, "RemoveCharacterSites, RemoveMajorityCharacterSites, TrimSequences x2, Compress, Split, Concat x2 (floor = half of the instances on the pinned tree: a clean-up may merge instances, a rule that sees nothing must still fail)")

	// provenance of every value stored to align.length
	L.Rule("length-provenance", "every value stored to align.length is the constant -1 (empty), the length of a row or of the sequence being added (len(...)), a count of columns kept in step with the rows by another rule of this check (site removal, TrimSequences, Compress, Split's per-column counter, Concat's verified row length) — never a number computed from the old length by other arithmetic")
	verified := map[string]string{
		"align.(*align).RemoveCharacterSites": "length-bookkeeping", "align.(*align).RemoveMajorityCharacterSites": "length-bookkeeping",
		"align.(*align).TrimSequences": "same-value rule", "align.(*align).Compress": "same-value rule",
		"align.(*align).Split": "per-column counter on the new alignment", "align.(*align).Concat": "row length verified by the closing loop",
		"align.(*align).Concat$3": "row length verified by the closing loop", "align.seqBagToAlignment$1": "row length of the bag being converted",
	}
	for _, fn0 := range c.srcFuncs("align") {
		fn := fn0
		allInstrs(fn, func(in ssa.Instruction) {
			st, ok := in.(*ssa.Store)
			if !ok {
				return
			}
			if t, f, fa := fieldAddrOf(st.Addr); fa == nil || t != "align" || f != "length" {
				return
			}
			name := c.P.FuncName(fn)
			if _, tabled := verified[name]; !tabled {
				// a private helper of verified functions is covered by the rule that covers them
				// (which sees the helper through the inlined view of its caller)
				cover := ""
				if ok, _ := c.privateHelperOf(c.origFn(fn), func(n string) bool {
					if w, is := verified[n]; is {
						cover = w
						return true
					}
					return false
				}); ok && cover != "" {
					verified[name] = cover + " (through the callers of this private helper)"
				}
			}
			pos := c.P.Pos(st.Pos())
			kind := ""
			okAll := true
			for v := range throughPhis(st.Val, false) {
				switch x := v.(type) {
				case *ssa.Phi:
				case *ssa.Const:
					if k, ok := constInt(x); ok && k == -1 {
						kind += "-1 "
					} else {
						okAll = false
						kind += "constant " + x.String() + " "
					}
				case *ssa.Call:
					if builtinName(x.Common()) == "len" {
						kind += "len(…) "
					} else {
						okAll = false
						kind += "call "
					}
				default:
					okAll = false
					kind += "computed "
				}
			}
			if why, ok := verified[name]; ok && !okAll {
				L.Trivial("length-provenance", name, "value stored to length", pos, "covered by: "+why)
				return
			}
			L.Check(okAll, "length-provenance", name, "value stored to length", pos, "stores "+strings.TrimSpace(kind), "the cached length is set to a value that is neither -1 nor the length of an actual row ("+strings.TrimSpace(kind)+"): it can disagree with the rows")
		})
	}
	L.Floor("length-provenance", 4, "stores to align.length (floor = half of the instances on the pinned tree: a clean-up may merge instances, a rule that sees nothing must still fail)")

	// site removal: the length decreases by exactly the number of removed columns
	L.Rule("rebuild-partition", "in the row rebuild loop every column index executes exactly one of {append the residue to the new row, increment the removed counter}")
	L.Rule("length-bookkeeping", "the cached alignment length is decreased by exactly the removed-column counter of the rebuild loop")
	L.Rule("index-lists", "kept receives the column index in the arm that keeps the column, rm in the arm that counts it as removed, both under the first-row test, one append each")
	for _, nme := range []string{"RemoveCharacterSites", "RemoveMajorityCharacterSites"} {
		c.checkRebuild(c.fn("align", "*align", nme))
	}
	L.Floor("length-bookkeeping", 2, "two site-removal functions")

	// same-value pairing for TrimSequences and Compress
	for _, spec := range []struct{ fn, want string }{
		{"TrimSequences", "L(a) - trimsize"},
		{"Compress", ""},
	} {
		r := c.fn("align", "*align", spec.fn)
		if !r.ok() {
			continue
		}
		lc := newLinCtx(c, r.F)
		var lenVal *lin
		allInstrs(r.F, func(in ssa.Instruction) {
			if isLenStore(in) {
				l := lc.of(in.(*ssa.Store).Val)
				lenVal = &l
			}
		})
		var rowLens []string
		proven := map[string]bool{}
		allInstrs(r.F, func(in ssa.Instruction) {
			if st, ok := in.(*ssa.Store); ok {
				if t, f, fa := fieldAddrOf(st.Addr); fa != nil && t == "seq" && f == "sequence" {
					rl := lc.lenOf(st.Val)
					rowLens = append(rowLens, rl.String())
					// the two values as linear forms: equal on every path class that reaches the store
					// (a window `row[head:len-tail]` with (head, tail) chosen together by one branch)
					if lenVal != nil && rl.String() != lenVal.String() {
						ok1, _ := lc.proveAll(st.Block(), nil, consLE(rl, *lenVal, "row length <= cached length"))
						ok2, _ := lc.proveAll(st.Block(), nil, consLE(*lenVal, rl, "cached length <= row length"))
						if ok1 && ok2 {
							proven[rl.String()] = true
						}
					}
				}
			}
		})
		okAll := lenVal != nil && len(rowLens) > 0
		for _, rl := range rowLens {
			if lenVal == nil || (rl != lenVal.String() && !proven[rl]) {
				okAll = false
			}
		}
		if !okAll && lenVal != nil && len(rowLens) > 0 {
			// both values may be loads of one closure-captured variable (npat in
			// Compress): equal when they read the same cell and nothing can
			// store to it from the first load on
			okAll = sameStableCell(r.F, lc)
		}
		L.Check(okAll, "length-after-row-change", r.label, "new cached length equals the new row length", c.P.Pos(r.F.Pos()),
			fmt.Sprintf("rows re-sliced to length %v, cached length set to %s", rowLens, strOrNil(lenVal)),
			fmt.Sprintf("rows re-sliced to length %v but cached length set to %s", rowLens, strOrNil(lenVal)))
	}

	// (c) override completeness
	sbMethods := map[string]*ssa.Function{}
	if sp := c.P.SSAPkg("align"); sp != nil {
		if tm, ok := sp.Members["seqbag"].(*ssa.Type); ok {
			ms := c.P.SSA.MethodSets.MethodSet(types.NewPointer(tm.Type()))
			for i := 0; i < ms.Len(); i++ {
				if f := c.P.SSA.MethodValue(ms.At(i)); f != nil && f.Blocks != nil {
					sbMethods[f.Name()] = f
				}
			}
		}
	}
	// direct effects
	changes := map[string]string{}
	for nme, f := range sbMethods {
		for _, g := range withAnons(f) {
			allInstrs(g, func(in ssa.Instruction) {
				if st, ok := in.(*ssa.Store); ok {
					if t, fl, fa := fieldAddrOf(st.Addr); fa != nil {
						if _, fresh := fa.X.(*ssa.Alloc); fresh {
							return
						}
						if t == "seq" && fl == "sequence" {
							changes[nme] = "replaces row buffers"
						}
					}
				}
			})
		}
	}
	// Clear empties the container; AddSequenceChar/AddSequence add rows
	for _, nme := range []string{"Clear", "AddSequenceChar", "AddSequence"} {
		if sbMethods[nme] != nil {
			if _, ok := changes[nme]; !ok {
				changes[nme] = "changes the set of rows"
			}
		}
	}
	// propagate through calls between seqbag methods (callee on the same receiver type)
	for again := true; again; {
		again = false
		for nme, f := range sbMethods {
			if _, ok := changes[nme]; ok {
				continue
			}
			for _, g := range withAnons(f) {
				allInstrs(g, func(in ssa.Instruction) {
					cc := callOf(in)
					if cc == nil {
						return
					}
					if cal := cc.StaticCallee(); cal != nil && recvTypeName(cal) == "seqbag" {
						if why, ok := changes[cal.Name()]; ok && cal.Name() != "AddSequenceChar" && cal.Name() != "AddSequence" && cal.Name() != "Clear" {
							if _, done := changes[nme]; !done {
								changes[nme] = "calls " + cal.Name() + " (" + why + ")"
								again = true
							}
						}
						// re-adding rows with buffers that are not the old rows' buffers can change row lengths
						if (cal.Name() == "AddSequenceChar" || cal.Name() == "AddSequence") && len(cc.Args) > 2 && len(f.Params) > 0 && cc.Args[0] == ssa.Value(f.Params[0]) {
							arg := stripConv(cc.Args[2])
							if _, fl, base := loadedField(arg); base == nil || fl != "sequence" {
								if _, isParam := arg.(*ssa.Parameter); !isParam {
									if _, done := changes[nme]; !done {
										changes[nme] = "re-adds rows with newly built buffers"
										again = true
									}
								}
							}
						}
					}
				})
			}
		}
	}
	var names []string
	for nme := range changes {
		names = append(names, nme)
	}
	sort.Strings(names)
	nOv := 0
	for _, nme := range names {
		if !ast_IsExported(nme) {
			continue // private helpers are called from tabled *align methods (appendToSequence → Concat)
		}
		nOv++
		own := c.P.Func("align", "*align", nme)
		cons := "override of " + nme
		if own == nil || recvTypeName(own) != "align" || own.Synthetic != "" {
			L.Bad("override-complete", "align.(*align)."+nme, cons, "-", "seqbag."+nme+" "+changes[nme]+" but *align only inherits it: the cached length is not maintained")
			continue
		}
		// the override stores or verifies length, or delegates to an override that does
		okLen := false
		for _, g := range withAnons(own) {
			allInstrs(g, func(in ssa.Instruction) {
				if isLenStore(in) {
					okLen = true
				}
				if cc := callOf(in); cc != nil {
					if cal := cc.StaticCallee(); cal != nil && recvTypeName(cal) == "align" && (cal.Name() == "AddSequenceChar" || cal.Name() == "Length") {
						okLen = true
					}
				}
			})
		}
		L.Check(okLen, "override-complete", "align.(*align)."+nme, cons, c.P.Pos(own.Pos()), "declared on *align; stores, verifies or delegates the cached length ("+changes[nme]+")",
			"declared on *align but neither stores nor verifies the cached length")
	}
	L.Floor("override-complete", 2, "AddSequence, AddSequenceChar, Clear, Replace, Translate (floor = half of the instances on the pinned tree: a clean-up may merge instances, a rule that sees nothing must still fail)")
	_ = n
}

// sameStableCell: the value stored to align.length and every high bound of a
// row re-slice are loads of the same address-taken local, and no store to that
// local and no closure creation capturing it is reachable from the first load.
func sameStableCell(fn *ssa.Function, lc *linCtx) bool {
	var loads []*ssa.UnOp
	var vals []ssa.Value
	add := func(v ssa.Value) bool {
		vals = append(vals, v)
		u, ok := v.(*ssa.UnOp)
		if !ok || u.Op != token.MUL {
			return false
		}
		if _, ok := u.X.(*ssa.Alloc); !ok {
			return false
		}
		loads = append(loads, u)
		return true
	}
	good := true
	allInstrs(fn, func(in ssa.Instruction) {
		st, ok := in.(*ssa.Store)
		if !ok {
			return
		}
		t, f, fa := fieldAddrOf(st.Addr)
		if fa == nil {
			return
		}
		if t == "align" && f == "length" {
			if !add(st.Val) {
				good = false
			}
		}
		if t == "seq" && f == "sequence" {
			sl, ok := st.Val.(*ssa.Slice)
			if !ok || sl.Low != nil || sl.High == nil || !add(sl.High) {
				good = false
			}
		}
	})
	// one and the same register everywhere (no cell involved)
	if len(vals) >= 2 && len(loads) == 0 {
		for _, v := range vals {
			if v != vals[0] {
				return false
			}
		}
		return true
	}
	if !good || len(loads) < 2 {
		return false
	}
	cell := loads[0].X
	for _, l := range loads {
		if l.X != cell {
			return false
		}
	}
	// first load in dominance order
	first := loads[0]
	for _, l := range loads {
		if instrDominates(l, first) {
			first = l
		}
	}
	after := reachableFrom(first.Block())
	after[first.Block()] = true
	for _, ref := range *cell.Referrers() {
		switch x := ref.(type) {
		case *ssa.Store:
			if x.Addr == cell && after[x.Block()] && !(x.Block() == first.Block() && indexIn(x.Block(), x) < indexIn(first.Block(), first) && !reachableFrom(first.Block())[first.Block()]) {
				return false
			}
		case *ssa.MakeClosure:
			if after[x.Block()] && !(x.Block() == first.Block() && indexIn(x.Block(), x) < indexIn(first.Block(), first) && !reachableFrom(first.Block())[first.Block()]) {
				return false
			}
		}
	}
	return true
}

func ast_IsExported(name string) bool { return name != "" && name[0] >= 'A' && name[0] <= 'Z' }

// onlyErrorReturnsSkip: every Return reachable from `from` without passing an
// isY instruction returns a non-nil error (value not the nil constant).
func onlyErrorReturnsSkip(fn *ssa.Function, from ssa.Instruction, isY func(ssa.Instruction) bool) bool {
	idx := errResultIndex(fn)
	if idx < 0 {
		return false
	}
	type pt struct {
		b *ssa.BasicBlock
		i int
	}
	seen := map[*ssa.BasicBlock]bool{}
	ok := true
	var walk func(b *ssa.BasicBlock, start int)
	walk = func(b *ssa.BasicBlock, start int) {
		for i := start; i < len(b.Instrs); i++ {
			in := b.Instrs[i]
			if isY(in) {
				return
			}
			if rt, isRet := in.(*ssa.Return); isRet {
				// the error result must be provably non-nil: it is loaded from the
				// named result after an `if err != nil` test — accept when the
				// return block is the true branch of a `!= nil` comparison
				okRet := false
				for _, p := range b.Preds {
					if ifi, isIf := p.Instrs[len(p.Instrs)-1].(*ssa.If); isIf && p.Succs[0] == b && len(b.Preds) == 1 {
						if bo, isBo := ifi.Cond.(*ssa.BinOp); isBo && bo.Op == token.NEQ {
							if k, isK := bo.Y.(*ssa.Const); isK && k.IsNil() {
								okRet = true
							}
						}
					}
				}
				// or every value the error result can take at this return is known to be non-nil
				// (a merge of fmt.Errorf / errors.New results, or of errors tested non-nil)
				if !okRet {
					all, any := true, false
					for _, e := range returnEdges(fn) {
						if e.ret == rt {
							any = true
							if e.kind != "err" {
								all = false
							}
						}
					}
					okRet = any && all
				}
				if !okRet {
					ok = false
				}
				return
			}
		}
		for _, s := range b.Succs {
			if !seen[s] {
				seen[s] = true
				walk(s, 0)
			}
		}
	}
	walk(from.Block(), indexIn(from.Block(), from)+1)
	return ok
}

// ---------------------------------------------------------------------------

func (c *Ctx) c01ByIndex() {
	L := c.L
	n := 0
	for _, name := range []string{"GetSequenceById", "GetSequenceCharById", "GetSequenceNameById", "Sequence", "SetSequenceChar"} {
		r := c.fn("align", "*seqbag", name)
		if !r.ok() {
			continue
		}
		lc := newLinCtx(c, r.F)
		n += c.checkIndexSafety(r, "by-index-guard", lc, func(lc *linCtx, s indexSite) (string, bool) {
			if s.slice {
				return "", false
			}
			if _, f, base := loadedField(s.base); base != nil && f == "seqs" {
				return lc.siteName(s), true
			}
			if lc.isRowBuffer(s.base) {
				return lc.siteName(s), true
			}
			return "", false
		})
	}
	L.Floor("by-index-guard", 3, "5 accessors, SetSequenceChar has 3 sites (floor = half of the instances on the pinned tree: a clean-up may merge instances, a rule that sees nothing must still fail)")
}

func (c *Ctx) c01Filter() {
	L := c.L
	r := c.fn("align", "*seqbag", "FilterLength")
	if !r.ok() {
		return
	}
	fn := r.F
	lc := newLinCtx(c, fn)
	var adds []*ssa.Call
	allInstrs(fn, func(in ssa.Instruction) {
		if call, ok := in.(*ssa.Call); ok {
			if f := call.Common().StaticCallee(); f != nil && (f.Name() == "AddSequenceChar" || f.Name() == "AddSequence") {
				adds = append(adds, call)
			}
		}
	})
	if len(adds) != 1 {
		L.Unknown("filter-domain", r.label, "re-add call", c.P.Pos(fn.Pos()), fmt.Sprintf("%d re-add calls, want 1", len(adds)))
		return
	}
	add := adds[0]
	// the row whose length is tested
	var rowLen *lin
	allInstrs(fn, func(in ssa.Instruction) {
		if call, ok := in.(*ssa.Call); ok && getterName(call.Common()) == "Length" && recvKind(lc.recvOf(call.Common())) == "seq" {
			l := lc.of(call)
			rowLen = &l
		}
	})
	if rowLen == nil {
		// the length read off the row buffer itself: len(row.sequence)
		allInstrs(fn, func(in ssa.Instruction) {
			if call, ok := in.(*ssa.Call); ok && builtinName(call.Common()) == "len" && rowLen == nil {
				if _, f, base := loadedField(call.Common().Args[0]); base != nil && f == "sequence" {
					l := lc.of(call)
					rowLen = &l
				}
			}
		})
	}
	if rowLen == nil {
		L.Unknown("filter-domain", r.label, "row length", c.P.Pos(fn.Pos()), "no call of (*seq).Length found")
		return
	}
	minL, maxL := linAtom("minlength"), linAtom("maxlength")
	cases := []struct {
		name  string
		extra []cons
		goals []cons
	}{
		{"both bounds given", []cons{consLE(linConst(0), minL, "minlength >= 0"), consLE(linConst(1), maxL, "maxlength > 0")},
			[]cons{consLE(minL, *rowLen, "len >= minlength"), consLE(*rowLen, maxL, "len <= maxlength")}},
		{"only minlength given", []cons{consLE(linConst(0), minL, "minlength >= 0"), consLE(maxL, linConst(-1), "maxlength < 0")},
			[]cons{consLE(minL, *rowLen, "len >= minlength")}},
		{"only maxlength given", []cons{consLE(minL, linConst(-1), "minlength < 0"), consLE(linConst(1), maxL, "maxlength > 0")},
			[]cons{consLE(*rowLen, maxL, "len <= maxlength")}},
	}
	for _, cs := range cases {
		for _, g := range cs.goals {
			ok, det := lc.proveAll(add.Block(), cs.extra, g)
			name := cs.name + ": kept rows satisfy " + g.why
			if ok {
				L.OK("filter-domain", r.label, name, c.P.Pos(add.Pos()), det)
			} else {
				L.Bad("filter-domain", r.label, name, c.P.Pos(add.Pos()), "a row outside the requested length range is kept: "+det)
			}
		}
	}
	L.Floor("filter-domain", 2, "three cases, four goals (floor = half of the instances on the pinned tree: a clean-up may merge instances, a rule that sees nothing must still fail)")
}
