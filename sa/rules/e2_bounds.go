package rules

import (
	"fmt"
	"go/constant"
	"go/token"
	"go/types"
	"sort"
	"strconv"
	"strings"
	"unicode"

	"golang.org/x/tools/go/ssa"
)

// ---------------------------------------------------------------------------
// path alternatives (DNF over acyclic paths from entry)

type altSet struct {
	alts    [][]cons
	binds   []map[*ssa.Phi]phiBind // per alternative: what the boolean φ-nodes passed on the way are
	precise bool                   // false when the budget was exceeded and dominators were used
}

// phiBind: on this path the boolean φ equals val (a constant or a comparison), negated if neg.
type phiBind struct {
	val ssa.Value
	neg bool
}

// maxAlts bounds the number of acyclic path classes enumerated per program
// point (quick tier); the thorough tier raises it (see altBudget).
const maxAlts = 96

var altBudget = maxAlts

func isBoolType(t types.Type) bool {
	b, ok := t.Underlying().(*types.Basic)
	return ok && b.Kind() == types.Bool
}

// edgeCondOnPath: the constraints established by leaving p towards b on a path with the given
// bindings of boolean φ-nodes (a named condition `ok := a || b` tested later is resolved to the
// comparison that decided it on this path); feasible=false when the path cannot take the edge.
func (lc *linCtx) edgeCondOnPath(p, b *ssa.BasicBlock, binds map[*ssa.Phi]phiBind) ([]cons, bool) {
	if len(p.Instrs) == 0 {
		return nil, true
	}
	ifi, ok := p.Instrs[len(p.Instrs)-1].(*ssa.If)
	if !ok || p.Succs[0] == p.Succs[1] {
		return nil, true
	}
	cond, truth := ifi.Cond, p.Succs[0] == b
	for depth := 0; depth < 8; depth++ {
		if u, ok := cond.(*ssa.UnOp); ok && u.Op == token.NOT {
			cond, truth = u.X, !truth
			continue
		}
		if phi, ok := cond.(*ssa.Phi); ok {
			if bd, has := binds[phi]; has {
				cond = bd.val
				if bd.neg {
					truth = !truth
				}
				continue
			}
		}
		break
	}
	if k, ok := cond.(*ssa.Const); ok && k.Value != nil && k.Value.Kind() == constant.Bool {
		return nil, constant.BoolVal(k.Value) == truth
	}
	return lc.condCons(cond, truth), true
}

func hasBackEdge(b *ssa.BasicBlock) bool {
	for _, p := range b.Preds {
		if b.Dominates(p) {
			return true
		}
	}
	return false
}

func (lc *linCtx) hypAlts(b *ssa.BasicBlock) altSet {
	memo := map[*ssa.BasicBlock]*altSet{}
	var rec func(b *ssa.BasicBlock) altSet
	rec = func(b *ssa.BasicBlock) altSet {
		if m, ok := memo[b]; ok {
			if m == nil { // cycle guard (irreducible): fall back
				return altSet{alts: [][]cons{lc.hypAtBlock(b)}, binds: []map[*ssa.Phi]phiBind{nil}, precise: false}
			}
			return *m
		}
		memo[b] = nil
		res := altSet{precise: true}
		if len(b.Preds) == 0 {
			res.alts = [][]cons{nil}
			res.binds = []map[*ssa.Phi]phiBind{nil}
			memo[b] = &res
			return res
		}
		for pi, p := range b.Preds {
			if b.Dominates(p) { // back edge
				continue
			}
			ps := rec(p)
			if !ps.precise {
				res.precise = false
			}
			for ai, a := range ps.alts {
				var pb map[*ssa.Phi]phiBind
				if ai < len(ps.binds) {
					pb = ps.binds[ai]
				}
				ec, feasible := lc.edgeCondOnPath(p, b, pb)
				if !feasible {
					continue
				}
				na := append(append([]cons{}, a...), ec...)
				// integer φ-nodes of a plain merge block (not a loop header) take, on this edge, the
				// value that flows in: `head, tail := 0, n; if c { head, tail = n, 0 }` keeps head+tail = n
				if !hasBackEdge(b) {
					for _, in := range b.Instrs {
						phi, ok := in.(*ssa.Phi)
						if !ok {
							break
						}
						if !isIntType(phi.Type()) || pi >= len(phi.Edges) {
							continue
						}
						pv, ev := lc.of(phi), lc.of(phi.Edges[pi])
						na = append(na, consLE(pv, ev, "φ on this edge"), consLE(ev, pv, "φ on this edge"))
					}
				}
				// boolean φ-nodes of b on this edge
				nb := pb
				copied := false
				for _, in := range b.Instrs {
					phi, ok := in.(*ssa.Phi)
					if !ok {
						break
					}
					if !isBoolType(phi.Type()) || pi >= len(phi.Edges) {
						continue
					}
					e, neg := phi.Edges[pi], false
					for {
						u, ok := e.(*ssa.UnOp)
						if !ok || u.Op != token.NOT {
							break
						}
						e, neg = u.X, !neg
					}
					if q, ok := e.(*ssa.Phi); ok {
						if bd, has := pb[q]; has {
							e, neg = bd.val, neg != bd.neg
						}
					}
					if !copied {
						cp := map[*ssa.Phi]phiBind{}
						for k, v := range pb {
							cp[k] = v
						}
						nb, copied = cp, true
					}
					nb[phi] = phiBind{e, neg}
				}
				res.alts = append(res.alts, na)
				res.binds = append(res.binds, nb)
			}
		}
		if len(res.alts) > altBudget || len(res.alts) == 0 {
			res = altSet{alts: [][]cons{lc.hypAtBlock(b)}, binds: []map[*ssa.Phi]phiBind{nil}, precise: false}
		}
		memo[b] = &res
		return res
	}
	return rec(b)
}

// proveAll: every path alternative at b entails g.
func (lc *linCtx) proveAll(b *ssa.BasicBlock, extra []cons, g cons) (bool, string) {
	as := lc.hypAlts(b)
	vi := valueIndex(lc.fn)
	used := ""
	for _, a := range as.alts {
		H := append(append([]cons{}, a...), extra...)
		forms := []lin{g.e}
		for _, h := range H {
			forms = append(forms, h.e)
		}
		H = append(H, lc.factsFor(forms, vi)...)
		if !entails(H, g) {
			// a disequality x != y splits the path class into x < y and x > y
			split := false
			for _, d := range lc.diseqAt(b) {
				lo := append(append([]cons{}, H...), cons{d.addc(1), "below the excluded value"})
				hi := append(append([]cons{}, H...), cons{d.scale(-1).addc(1), "above the excluded value"})
				if entails(lo, g) && entails(hi, g) {
					split = true
					break
				}
			}
			if split {
				continue
			}
			if !lc.noElemFallback {
				if ok, det := lc.proveViaElemSources(g); ok {
					return true, det
				}
			}
			return false, "path hypotheses {" + consList(relevant(H, g.e)) + "} do not entail " + g.String()
		}
		if used == "" {
			used = consList(relevant(H, g.e))
		}
	}
	return true, fmt.Sprintf("%d path class(es); e.g. {%s} ⊨ %s", len(as.alts), used, g.String())
}

// infeasibleAll: on every path alternative at b, H ∧ D is infeasible.
// Returns (ok, decided, detail).
func (lc *linCtx) infeasibleAll(b *ssa.BasicBlock, D []cons) (bool, bool, string) {
	as := lc.hypAlts(b)
	vi := valueIndex(lc.fn)
	for _, a := range as.alts {
		H := append(append([]cons{}, a...), D...)
		var forms []lin
		for _, h := range H {
			forms = append(forms, h.e)
		}
		H = append(H, lc.factsFor(forms, vi)...)
		feas, ok := feasible(H)
		if !ok {
			return false, false, "elimination budget exceeded"
		}
		if feas {
			if !as.precise {
				return false, false, "path enumeration budget exceeded; dominator hypotheses {" + consList(a) + "} are compatible with the domain"
			}
			return false, true, "path condition {" + consList(a) + "} is compatible with the required domain {" + consList(D) + "}"
		}
	}
	return true, true, fmt.Sprintf("%d path class(es), each contradicts the required domain", len(as.alts))
}

// ---------------------------------------------------------------------------
// spec parser:  "0 <= start", "start + length <= L", "ELEM <= L - 1"

type roleMap map[string]lin

func parseLin(s string, roles roleMap) (lin, error) {
	out := linConst(0)
	s = strings.ReplaceAll(s, " ", "")
	if s == "" {
		return out, fmt.Errorf("empty expression")
	}
	i := 0
	sign := int64(1)
	for i < len(s) {
		switch s[i] {
		case '+':
			sign = 1
			i++
			continue
		case '-':
			sign = -1
			i++
			continue
		}
		j := i
		for j < len(s) && s[j] != '+' && s[j] != '-' {
			j++
		}
		term := s[i:j]
		i = j
		coef := int64(1)
		if k := strings.Index(term, "*"); k >= 0 {
			c, err := strconv.ParseInt(term[:k], 10, 64)
			if err != nil {
				return out, fmt.Errorf("bad coefficient in %q", term)
			}
			coef = c
			term = term[k+1:]
		}
		if unicode.IsDigit(rune(term[0])) {
			c, err := strconv.ParseInt(term, 10, 64)
			if err != nil {
				return out, err
			}
			out = out.addc(sign * coef * c)
		} else {
			r, ok := roles[term]
			if !ok {
				return out, fmt.Errorf("unknown role %q", term)
			}
			out = out.add(r.scale(sign * coef))
		}
		sign = 1
	}
	return out, nil
}

func parseCons(s string, roles roleMap) ([]cons, error) {
	for _, op := range []string{"<=", ">=", "==", "<", ">"} {
		if k := strings.Index(s, op); k >= 0 {
			a, err := parseLin(s[:k], roles)
			if err != nil {
				return nil, err
			}
			b, err := parseLin(s[k+len(op):], roles)
			if err != nil {
				return nil, err
			}
			switch op {
			case "<=":
				return []cons{consLE(a, b, s)}, nil
			case ">=":
				return []cons{consLE(b, a, s)}, nil
			case "<":
				return []cons{consLT(a, b, s)}, nil
			case ">":
				return []cons{consLT(b, a, s)}, nil
			case "==":
				return []cons{consLE(a, b, s), consLE(b, a, s)}, nil
			}
		}
	}
	return nil, fmt.Errorf("no comparison in %q", s)
}

// stdRoles: parameters by name, L and N of the receiver (first parameter).
func (lc *linCtx) stdRoles() roleMap {
	rm := roleMap{}
	fn := lc.fn
	off := 0
	if fn.Signature.Recv() != nil {
		off = 1
	}
	// documented names first (an implementation may rename its parameters), then the actual ones
	for i, dn := range declaredParamNames(fn) {
		if i+off < len(fn.Params) && dn != "" && dn != "_" && isIntType(fn.Params[i+off].Type()) {
			rm[dn] = linAtom(fn.Params[i+off].Name())
		}
	}
	for _, p := range fn.Params {
		if isIntType(p.Type()) {
			rm[p.Name()] = linAtom(p.Name())
		}
	}
	if fn.Signature.Recv() != nil && len(fn.Params) > 0 {
		r := fn.Params[0].Name()
		rm["L"] = linAtom("L(" + r + ")")
		rm["N"] = linAtom("N(" + r + ")")
	}
	return rm
}

// ---------------------------------------------------------------------------
// return classification

type retEdge struct {
	ret   *ssa.Return
	block *ssa.BasicBlock // block whose path hypotheses apply
	kind  string          // "ok" | "err" | "unknown"
	what  string
}

func errResultIndex(fn *ssa.Function) int {
	res := fn.Signature.Results()
	for i := res.Len() - 1; i >= 0; i-- {
		if types.Identical(res.At(i).Type(), types.Universe.Lookup("error").Type()) {
			return i
		}
	}
	return -1
}

func classifyErrValue(v ssa.Value) string {
	v = stripConvKeepIface(v)
	switch x := v.(type) {
	case *ssa.Const:
		if x.IsNil() {
			return "ok"
		}
	case *ssa.Call:
		cc := x.Common()
		if isPkgFunc(cc, "fmt", "Errorf") || isPkgFunc(cc, "errors", "New") {
			return "err"
		}
	case *ssa.MakeInterface:
		return "err"
	}
	return "unknown"
}

// returnEdges splits every Return of fn by the incoming edges of a φ-valued
// error result.
func returnEdges(fn *ssa.Function) []retEdge {
	idx := errResultIndex(fn)
	var out []retEdge
	for _, b := range fn.Blocks {
		if len(b.Instrs) == 0 {
			continue
		}
		ret, ok := b.Instrs[len(b.Instrs)-1].(*ssa.Return)
		if !ok {
			continue
		}
		if idx < 0 || idx >= len(ret.Results) {
			out = append(out, retEdge{ret, b, "ok", "no error result"})
			continue
		}
		ev := ret.Results[idx]
		if phi, ok := ev.(*ssa.Phi); ok && phi.Block() == b {
			for i, e := range phi.Edges {
				kind := classifyErrValue(e)
				if kind == "unknown" {
					if k := nilKnownAt(e, b.Preds[i]); k != "" {
						kind = k
					} else if len(b.Preds[i].Instrs) > 0 {
						// the edge itself may be the nil / non-nil edge of the test
						if ifi, ok := b.Preds[i].Instrs[len(b.Preds[i].Instrs)-1].(*ssa.If); ok && b.Preds[i].Succs[0] != b.Preds[i].Succs[1] {
							if x, trueIsNil, ok := nilTestOf(ifi.Cond); ok && x == e {
								if (b.Preds[i].Succs[0] == b) == trueIsNil {
									kind = "ok"
								} else {
									kind = "err"
								}
							}
						}
					}
				}
				out = append(out, retEdge{ret, b.Preds[i], kind, e.String()})
			}
			continue
		}
		kind := classifyErrValue(ev)
		if kind == "unknown" {
			// the error of a call, returned under a test of that same value
			if k := nilKnownAt(ev, b); k != "" {
				kind = k
			}
		}
		if kind == "unknown" {
			// named result captured by a closure: the return loads a cell; the value is what the
			// last store on the straight-line path to the return put there
			if u, ok := ev.(*ssa.UnOp); ok && u.Op == token.MUL {
				if cell, ok := u.X.(*ssa.Alloc); ok {
					cur := b
					for depth := 0; depth < 4 && cur != nil; depth++ {
						found := false
						for i := len(cur.Instrs) - 1; i >= 0; i-- {
							if st, ok := cur.Instrs[i].(*ssa.Store); ok && st.Addr == ssa.Value(cell) {
								kind = classifyErrValue(st.Val)
								found = true
								break
							}
							if _, isCall := cur.Instrs[i].(*ssa.Call); isCall && cur != b {
								// a call in between may run a closure that writes the cell
							}
						}
						if found || len(cur.Preds) != 1 {
							break
						}
						cur = cur.Preds[0]
					}
				}
			}
		}
		out = append(out, retEdge{ret, b, kind, ev.String()})
	}
	return out
}

// lastArithControl: does the nearest controlling condition of block b compare
// integer forms that mention one of the given atoms?
func (lc *linCtx) controlMentions(b *ssa.BasicBlock, atoms map[string]bool) bool {
	// look at If terminators of predecessors (transitively through blocks
	// with a single predecessor that end in Jump)
	seen := map[*ssa.BasicBlock]bool{}
	var rec func(b *ssa.BasicBlock) bool
	rec = func(b *ssa.BasicBlock) bool {
		if seen[b] {
			return false
		}
		seen[b] = true
		for _, p := range b.Preds {
			if len(p.Instrs) == 0 {
				continue
			}
			switch t := p.Instrs[len(p.Instrs)-1].(type) {
			case *ssa.If:
				if bo, ok := t.Cond.(*ssa.BinOp); ok && isIntType(bo.X.Type()) {
					for _, side := range []ssa.Value{bo.X, bo.Y} {
						for _, a := range lc.of(side).atoms() {
							if atoms[a] {
								return true
							}
						}
					}
				}
			case *ssa.Jump:
				if rec(p) {
					return true
				}
			}
		}
		return false
	}
	return rec(b)
}

// ---------------------------------------------------------------------------
// domain exactness

type domainSpec struct {
	Rule   string
	Domain []string // constraints over roles that every accepted input satisfies
	Roles  func(*linCtx) roleMap
	Extra  map[string]string // extra role definitions: name -> "param:x" etc. (unused)
	NoOver bool              // skip the over-rejection direction
}

// checkDomain: (a) every success return is reached only inside the domain;
// (b) every error return controlled by a comparison on a role is reached only
// outside the domain.
func (c *Ctx) checkDomain(r *fnRef, spec domainSpec) {
	L := c.L
	if !r.ok() {
		return
	}
	fn := r.F
	lc := newLinCtx(c, fn)
	roles := lc.stdRoles()
	if spec.Roles != nil {
		for k, v := range spec.Roles(lc) {
			roles[k] = v
		}
	}
	var D []cons
	for _, s := range spec.Domain {
		cs, err := parseCons(s, roles)
		if err != nil {
			L.Unknown(spec.Rule, r.label, "domain "+s, c.P.Pos(fn.Pos()), "cannot bind the domain to this function: "+err.Error())
			return
		}
		D = append(D, cs...)
	}
	roleAtoms := map[string]bool{}
	for _, d := range D {
		for _, a := range d.e.atoms() {
			if !strings.HasPrefix(a, "L(") && !strings.HasPrefix(a, "N(") {
				roleAtoms[a] = true
			}
		}
	}
	edges := returnEdges(fn)
	nOK := 0
	for _, e := range edges {
		switch e.kind {
		case "ok":
			nOK++
			for _, d := range D {
				ok, det := lc.proveAll(e.block, nil, d)
				name := fmt.Sprintf("accepts only %s", d.why)
				if ok {
					L.OK(spec.Rule, r.label, name, c.P.Pos(e.ret.Pos()), det)
				} else {
					L.Bad(spec.Rule, r.label, name, c.P.Pos(e.ret.Pos()), "a success return is reachable outside the documented domain: "+det)
				}
			}
		case "err":
			if !spec.NoOver {
				// the error of a validating helper passed on: the over-rejection direction is decided
				// in the helper, with the domain rewritten over its parameters
				c.checkDomainInHelper(r, lc, e, D, spec.Rule)
			}
			if spec.NoOver || !lc.controlMentions(e.block, roleAtoms) {
				continue
			}
			ok, decided, det := lc.infeasibleAll(e.block, D)
			name := "rejects nothing inside the domain"
			switch {
			case ok:
				L.OK(spec.Rule, r.label, name, c.P.Pos(e.ret.Pos()), det)
			case decided:
				L.Bad(spec.Rule, r.label, name, c.P.Pos(e.ret.Pos()), "an error return is reachable for in-domain arguments: "+det)
			default:
				L.Unknown(spec.Rule, r.label, name, c.P.Pos(e.ret.Pos()), det)
			}
		}
	}
	if nOK == 0 {
		L.Unknown(spec.Rule, r.label, "success return", c.P.Pos(fn.Pos()), "no return with a nil error could be classified")
	}
}

// checkDomainInHelper: the error return e of r passes on the error of a static call to a helper
// of the module; every error return of the helper that is controlled by a comparison on a
// (translated) role must be unreachable for in-domain arguments.
func (c *Ctx) checkDomainInHelper(r *fnRef, lc *linCtx, e retEdge, D []cons, rule string) {
	idx := errResultIndex(lc.fn)
	if idx < 0 || idx >= len(e.ret.Results) {
		return
	}
	ev := e.ret.Results[idx]
	if phi, ok := ev.(*ssa.Phi); ok && phi.Block() == e.ret.Block() {
		for i, p := range e.ret.Block().Preds {
			if p == e.block {
				ev = phi.Edges[i]
			}
		}
	}
	call := errCallOf(stripConvKeepIface(ev))
	if call == nil {
		return
	}
	cc := call.Common()
	f := cc.StaticCallee()
	if f == nil || len(f.Blocks) == 0 || f.Pkg == nil || !strings.HasPrefix(f.Pkg.Pkg.Path(), c.P.ModPath) || len(cc.Args) != len(f.Params) || f == lc.fn {
		return
	}
	// inverse substitution: caller atom -> helper parameter
	inv := map[string]string{}
	for i, p := range f.Params {
		if isIntType(p.Type()) {
			l := lc.of(cc.Args[i])
			if as := l.atoms(); len(as) == 1 && l.c == 0 && l.t[as[0]] == 1 {
				inv[as[0]] = p.Name()
			}
		} else {
			inv[lc.canon(cc.Args[i])] = p.Name()
		}
	}
	var DD []cons
	roleAtoms := map[string]bool{}
	for _, d := range D {
		ne := linConst(d.e.c)
		for a, k := range d.e.t {
			na, ok := inv[a]
			if !ok {
				// compound atom L(x), N(x): rewrite the identifier inside
				done := false
				for from, to := range inv {
					if strings.HasSuffix(a, "("+from+")") {
						na = a[:len(a)-len(from)-1] + to + ")"
						done = true
					}
				}
				if !done {
					return // the domain cannot be expressed over the helper's parameters: nothing is claimed
				}
			} else {
				roleAtoms[na] = true
			}
			ne = ne.add(linAtom(na).scale(k))
		}
		DD = append(DD, cons{ne, d.why})
	}
	hlc := newLinCtx(c, f)
	for _, he := range returnEdges(f) {
		if he.kind != "err" || !hlc.controlMentions(he.block, roleAtoms) {
			continue
		}
		ok, decided, det := hlc.infeasibleAll(he.block, DD)
		name := "rejects nothing inside the domain (helper " + f.Name() + ")"
		switch {
		case ok:
			c.L.OK(rule, r.label, name, c.P.Pos(he.ret.Pos()), det)
		case decided:
			c.L.Bad(rule, r.label, name, c.P.Pos(he.ret.Pos()), "an error return of the helper is reachable for in-domain arguments: "+det)
		default:
			c.L.Unknown(rule, r.label, name, c.P.Pos(he.ret.Pos()), det)
		}
	}
}

// ---------------------------------------------------------------------------
// index safety

type indexSite struct {
	in    ssa.Instruction
	base  ssa.Value
	idx   ssa.Value // nil for Slice
	lo    ssa.Value
	hi    ssa.Value
	slice bool
}

func indexSites(fn *ssa.Function) []indexSite {
	var out []indexSite
	allInstrs(fn, func(in ssa.Instruction) {
		switch x := in.(type) {
		case *ssa.IndexAddr:
			out = append(out, indexSite{in: in, base: x.X, idx: x.Index})
		case *ssa.Index:
			out = append(out, indexSite{in: in, base: x.X, idx: x.Index})
		case *ssa.Slice:
			out = append(out, indexSite{in: in, base: x.X, lo: x.Low, hi: x.High, slice: true})
		case *ssa.Lookup:
			if _, ok := x.X.Type().Underlying().(*types.Basic); ok { // string index
				out = append(out, indexSite{in: in, base: x.X, idx: x.Index})
			}
		}
	})
	return out
}

// isRowBuffer: base is row.sequence / row.SequenceChar() of some sequence.
func (lc *linCtx) isRowBuffer(v ssa.Value) bool {
	v = stripConvKeepIface(v)
	switch x := v.(type) {
	case *ssa.UnOp:
		if _, f, base := loadedField(x); base != nil && f == "sequence" {
			return true
		}
	case *ssa.Call:
		return getterName(x.Common()) == "SequenceChar"
	case *ssa.Phi:
		for _, e := range x.Edges {
			if !lc.isRowBuffer(e) {
				return false
			}
		}
		return len(x.Edges) > 0
	}
	return false
}

// checkIndexSafety proves 0 <= idx <= len(base)-1 (or 0 <= lo <= hi <= len) for
// every index site selected by the filter.
func (c *Ctx) checkIndexSafety(r *fnRef, rule string, lc *linCtx, filter func(*linCtx, indexSite) (string, bool)) int {
	L := c.L
	if !r.ok() {
		return 0
	}
	n := 0
	for _, fn := range withAnons(r.F) {
		for _, s := range indexSites(fn) {
			name, ok := filter(lc, s)
			if !ok {
				continue
			}
			n++
			b := s.in.Block()
			ln := lc.lenOf(s.base)
			var goals []cons
			if s.slice {
				lo := linConst(0)
				if s.lo != nil {
					lo = lc.of(s.lo)
				}
				hi := ln
				if s.hi != nil {
					hi = lc.of(s.hi)
				}
				goals = append(goals, consLE(linConst(0), lo, "0 <= low"), consLE(lo, hi, "low <= high"), consLE(hi, ln, "high <= len"))
			} else {
				ix := lc.of(s.idx)
				goals = append(goals, consLE(linConst(0), ix, "0 <= index"), consLT(ix, ln, "index < len"))
			}
			allOK := true
			var dets []string
			for _, g := range goals {
				// trivial goals (0 <= 0) need no proof
				if g.e.isConst() && g.e.c <= 0 {
					continue
				}
				ok, det := lc.proveAll(b, nil, g)
				if !ok {
					allOK = false
					dets = append(dets, g.why+": "+det)
				} else {
					dets = append(dets, g.why+" ✓ "+det)
				}
			}
			label := c.P.FuncName(fn)
			if fn == r.F {
				label = r.label
			}
			if allOK {
				L.OK(rule, label, name, c.P.Pos(s.in.Pos()), strings.Join(dets, " | "))
			} else {
				L.Bad(rule, label, name, c.P.Pos(s.in.Pos()), "index not proven in bounds on every path: "+strings.Join(dets, " | "))
			}
		}
	}
	return n
}

func (lc *linCtx) siteName(s indexSite) string {
	if s.slice {
		lo, hi := "0", "len"
		if s.lo != nil {
			lo = lc.of(s.lo).String()
		}
		if s.hi != nil {
			hi = lc.of(s.hi).String()
		}
		return stable(fmt.Sprintf("%s[%s:%s]", lc.canon(s.base), lo, hi))
	}
	return stable(fmt.Sprintf("%s[%s]", lc.canon(s.base), lc.of(s.idx).String()))
}

// rowSites selects every index into a row buffer.
func rowSites(lc *linCtx, s indexSite) (string, bool) {
	if lc.isRowBuffer(s.base) {
		return lc.siteName(s), true
	}
	return "", false
}

// ---------------------------------------------------------------------------
// element facts

// fullScanAt: idx is the index of a loop `for idx := range S` / `for idx := 0; idx < len(S); idx++`
// that leaves only through its header test, and the block `at` is executed on every iteration:
// whatever happens at `at` happens once for every index of S.
func (lc *linCtx) fullScanAt(fn *ssa.Function, S, idx ssa.Value, at *ssa.BasicBlock) bool {
	ok, _ := lc.fullScanLoopAt(fn, S, idx, at)
	return ok
}

func (lc *linCtx) fullScanLoopAt(fn *ssa.Function, S, idx ssa.Value, at *ssa.BasicBlock) (bool, *ssa.BasicBlock) {
	key := lc.canon(S)
	for _, rl := range lc.rangeLoopsOver(fn, func(v ssa.Value) bool { return lc.canon(v) == key }) {
		if stripConv(idx) != rl.idx {
			continue
		}
		for b := range rl.lp.Blocks {
			if b == rl.header {
				continue
			}
			if len(b.Succs) == 0 {
				return false, nil
			}
			for _, sc := range b.Succs {
				if !rl.lp.Blocks[sc] {
					return false, nil
				}
			}
		}
		if !rl.lp.Blocks[at] {
			return false, nil
		}
		for _, p := range rl.header.Preds {
			if rl.lp.Blocks[p] && !(at == p || at.Dominates(p)) {
				return false, nil
			}
		}
		return true, rl.header
	}
	return false, nil
}

// rangeLoopOver finds loops `for k := range S` (SSA: k=φ(-1,k+1); k+1 < len(S))
// over the slice value S and returns, per loop, the element atom(s) loaded.
type rangeLoop struct {
	lp     *loop
	idx    ssa.Value // k+1
	elems  []*ssa.UnOp
	header *ssa.BasicBlock
}

func (lc *linCtx) rangeLoopsOver(fn *ssa.Function, isS func(ssa.Value) bool) []rangeLoop {
	var out []rangeLoop
	for _, lp := range naturalLoops(fn) {
		h := lp.Head
		if len(h.Instrs) == 0 {
			continue
		}
		ifi, ok := h.Instrs[len(h.Instrs)-1].(*ssa.If)
		if !ok {
			continue
		}
		bo, ok := ifi.Cond.(*ssa.BinOp)
		if !ok || (bo.Op != token.LSS && bo.Op != token.GTR) {
			continue
		}
		cx, cy := bo.X, bo.Y
		if bo.Op == token.GTR { // len(S) > k
			cx, cy = cy, cx
		}
		// cy = len(S)
		call, ok := cy.(*ssa.Call)
		if !ok || builtinName(call.Common()) != "len" || !isS(call.Common().Args[0]) {
			continue
		}
		// the written-out form `for k := 0; k < len(S); k++`: cx = φ(0, φ+1)
		if iphi, isPhi := cx.(*ssa.Phi); isPhi && iphi.Block() == h && lp.Blocks[h.Succs[0]] {
			okPhi := len(iphi.Edges) >= 2
			for i, e := range iphi.Edges {
				if !lp.Blocks[h.Preds[i]] {
					if k, ok := constInt(e); !ok || k != 0 {
						okPhi = false
					}
					continue
				}
				inc, isInc := e.(*ssa.BinOp)
				if !isInc || inc.Op != token.ADD || inc.X != ssa.Value(iphi) {
					okPhi = false
					continue
				}
				if k, ok := constInt(inc.Y); !ok || k != 1 {
					okPhi = false
				}
			}
			if okPhi {
				rl := rangeLoop{lp: lp, idx: iphi, header: h}
				for b := range lp.Blocks {
					for _, in := range b.Instrs {
						if u, ok := in.(*ssa.UnOp); ok && u.Op == token.MUL {
							if ia, ok := u.X.(*ssa.IndexAddr); ok && isS(ia.X) && ia.Index == ssa.Value(iphi) {
								rl.elems = append(rl.elems, u)
							}
						}
					}
				}
				sort.Slice(rl.elems, func(i, j int) bool { return rl.elems[i].Pos() < rl.elems[j].Pos() })
				out = append(out, rl)
			}
			continue
		}
		// cx = φ + 1 with φ = φ(-1, cx)
		add, ok := cx.(*ssa.BinOp)
		if !ok || add.Op != token.ADD {
			continue
		}
		phi, ok := add.X.(*ssa.Phi)
		if !ok || phi.Block() != h {
			continue
		}
		if k, ok := constInt(add.Y); !ok || k != 1 {
			continue
		}
		okPhi := len(phi.Edges) >= 2 // several latches (continue statements) carry the same k+1
		for _, e := range phi.Edges {
			if k, ok := constInt(e); ok && k == -1 {
				continue
			}
			if e == ssa.Value(add) {
				continue
			}
			okPhi = false
		}
		if !okPhi || !lp.Blocks[h.Succs[0]] {
			continue
		}
		rl := rangeLoop{lp: lp, idx: add, header: h}
		for b := range lp.Blocks {
			for _, in := range b.Instrs {
				if u, ok := in.(*ssa.UnOp); ok && u.Op == token.MUL {
					if ia, ok := u.X.(*ssa.IndexAddr); ok && isS(ia.X) && ia.Index == ssa.Value(add) {
						rl.elems = append(rl.elems, u)
					}
				}
			}
		}
		sort.Slice(rl.elems, func(i, j int) bool { return rl.elems[i].Pos() < rl.elems[j].Pos() })
		out = append(out, rl)
	}
	return out
}

// sliceUnmodified: no element store into S and S is not handed to a callee
// that could write it.
func sliceUnmodified(fn *ssa.Function, S ssa.Value) (bool, string) {
	refs := S.Referrers()
	if refs == nil {
		return true, ""
	}
	for _, r := range *refs {
		switch x := r.(type) {
		case *ssa.IndexAddr:
			if rr := x.Referrers(); rr != nil {
				for _, y := range *rr {
					if st, ok := y.(*ssa.Store); ok && st.Addr == x {
						return false, "element store " + st.String()
					}
				}
			}
		case ssa.CallInstruction:
			cc := x.Common()
			switch builtinName(cc) {
			case "len", "cap":
				continue
			case "copy":
				if cc.Args[0] == S {
					return false, "copy destination"
				}
				continue
			case "append":
				continue
			}
			if f := cc.StaticCallee(); f != nil && f.Pkg != nil && f.Pkg.Pkg.Path() == "sort" {
				continue // reordering keeps the element set
			}
			return false, "passed to " + cc.String()
		case *ssa.Store:
			if x.Val == S {
				return false, "stored to memory"
			}
		case *ssa.MakeClosure:
			return false, "captured by a closure"
		}
	}
	return true, ""
}

// elemDomainSpec: every element of the slice parameter must satisfy Domain
// (over roles + ELEM) on every success path, established by a validation loop.
type elemDomainSpec struct {
	Rule   string
	Slice  string // parameter name
	Domain []string
}

func (c *Ctx) checkElemDomain(r *fnRef, lc *linCtx, spec elemDomainSpec) {
	L := c.L
	if !r.ok() {
		return
	}
	fn := r.F
	S := paramByName(fn, spec.Slice)
	if S == nil {
		L.Unknown(spec.Rule, r.label, "slice parameter "+spec.Slice, c.P.Pos(fn.Pos()), "parameter not found")
		return
	}
	isS := func(v ssa.Value) bool { return v == ssa.Value(S) }
	loops := lc.rangeLoopsOver(fn, isS)
	if unmod, why := sliceUnmodified(fn, S); !unmod {
		L.Unknown(spec.Rule, r.label, "slice "+spec.Slice+" unmodified", c.P.Pos(fn.Pos()), "the validated slice may change after validation: "+why)
		return
	}
	succEdges := []retEdge{}
	for _, e := range returnEdges(fn) {
		if e.kind == "ok" {
			succEdges = append(succEdges, e)
		}
	}
	roles := lc.stdRoles()
	established := map[string]bool{}
	whyNot := map[string]string{}
	for _, rl := range loops {
		if len(rl.elems) == 0 {
			continue
		}
		// the loop must precede every success return
		dominatesAll := true
		for _, e := range succEdges {
			if !rl.header.Dominates(e.block) || rl.lp.Blocks[e.block] {
				dominatesAll = false
			}
		}
		if !dominatesAll {
			continue
		}
		// exits other than range exhaustion must not reach a success return
		exitsOK := true
		for b := range rl.lp.Blocks {
			for _, s := range b.Succs {
				if rl.lp.Blocks[s] {
					continue
				}
				if b == rl.header {
					continue
				}
				reach := reachableFrom(s)
				reach[s] = true
				for _, e := range succEdges {
					if reach[e.block] {
						exitsOK = false
					}
				}
			}
		}
		if !exitsOK {
			continue
		}
		elemAtom := rl.elems[0].Name() + "@" + shortFn(rl.elems[0])
		for _, u := range rl.elems {
			lc.of(u)
		}
		roles["ELEM"] = linAtom(elemAtom)
		var D []cons
		for _, s := range spec.Domain {
			cs, err := parseCons(s, roles)
			if err != nil {
				L.Unknown(spec.Rule, r.label, "domain "+s, c.P.Pos(fn.Pos()), err.Error())
				return
			}
			D = append(D, cs...)
		}
		// (a) at every latch the element satisfies D
		for _, d := range D {
			all := true
			det := ""
			for _, latch := range rl.lp.Backs {
				// the back edge itself may be conditional (`a || b` guards
				// end in the block that jumps back to the header)
				var edge []cons
				if ifi, isIf := latch.Instrs[len(latch.Instrs)-1].(*ssa.If); isIf && latch.Succs[0] != latch.Succs[1] {
					edge = lc.condCons(ifi.Cond, latch.Succs[0] == rl.header)
				}
				ok, dd := lc.proveAll(latch, edge, d)
				det = dd
				if !ok {
					all = false
					whyNot[d.why] = dd
					break
				}
			}
			if all {
				established[d.why] = true
				generic := cons{e: d.e.clone(), why: d.why}
				if k, ok := generic.e.t[elemAtom]; ok {
					delete(generic.e.t, elemAtom)
					generic.e.t["ELEM"] = k
				}
				lc.elemFacts[lc.sliceKey(S)] = append(lc.elemFacts[lc.sliceKey(S)], generic)
				L.OK(spec.Rule, r.label, "every element: "+d.why, c.P.Pos(rl.header.Instrs[0].Pos()), "validation loop over "+spec.Slice+" continues only when "+det)
			}
		}
		// (b) error returns inside the loop reject nothing in the domain
		for _, e := range returnEdges(fn) {
			if e.kind != "err" || !rl.lp.Blocks[e.block] && !reachedOnlyFromLoop(e.block, rl.lp) {
				continue
			}
			if !lc.controlMentions(e.block, map[string]bool{elemAtom: true}) {
				continue
			}
			ok, decided, det := lc.infeasibleAll(e.block, D)
			name := "element check rejects nothing inside the domain"
			switch {
			case ok:
				L.OK(spec.Rule, r.label, name, c.P.Pos(e.ret.Pos()), det)
			case decided:
				L.Bad(spec.Rule, r.label, name, c.P.Pos(e.ret.Pos()), "an in-domain element is rejected: "+det)
			default:
				L.Unknown(spec.Rule, r.label, name, c.P.Pos(e.ret.Pos()), det)
			}
		}
	}
	for _, s := range spec.Domain {
		cs, _ := parseCons(s, roleMapWithElem(roles))
		for _, d := range cs {
			if !established[d.why] {
				L.Bad(spec.Rule, r.label, "every element: "+d.why, c.P.Pos(fn.Pos()),
					"no validation loop over "+spec.Slice+" establishes this bound for every element before a success return (an out-of-range element is accepted); "+whyNot[d.why])
			}
		}
	}
}

func roleMapWithElem(r roleMap) roleMap {
	n := roleMap{}
	for k, v := range r {
		n[k] = v
	}
	if _, ok := n["ELEM"]; !ok {
		n["ELEM"] = linAtom("ELEM")
	}
	return n
}

// reachedOnlyFromLoop: block outside the loop all of whose predecessors
// (transitively, through single-entry chains) are loop blocks: the "return
// err" block hanging off a loop body.
func reachedOnlyFromLoop(b *ssa.BasicBlock, lp *loop) bool {
	seen := map[*ssa.BasicBlock]bool{}
	var rec func(b *ssa.BasicBlock) bool
	rec = func(b *ssa.BasicBlock) bool {
		if lp.Blocks[b] {
			return true
		}
		if seen[b] || len(b.Preds) == 0 {
			return false
		}
		seen[b] = true
		for _, p := range b.Preds {
			if !rec(p) {
				return false
			}
		}
		return true
	}
	return rec(b)
}

// registerStoreElemFacts: for function-local slices all of whose element
// stores store rand.Intn(X) (same X), or for rand.Perm(X) results, register
// 0 <= ELEM <= X-1.
func (lc *linCtx) registerLocalElemFacts(fn *ssa.Function) {
	allInstrs(fn, func(in ssa.Instruction) {
		switch x := in.(type) {
		case *ssa.Call:
			if isPkgFunc(x.Common(), "math/rand", "Perm") {
				n := lc.of(x.Common().Args[0])
				key := lc.sliceKey(x)
				lc.elemFacts[key] = []cons{
					consLE(linConst(0), linAtom("ELEM"), "rand.Perm(n) elements >= 0"),
					consLE(linAtom("ELEM"), n.addc(-1), "rand.Perm(n) elements <= n-1"),
				}
			}
		case *ssa.MakeSlice:
			var bound *lin
			ok := true
			nStores := 0
			if refs := x.Referrers(); refs != nil {
				for _, r := range *refs {
					switch y := r.(type) {
					case *ssa.IndexAddr:
						if rr := y.Referrers(); rr != nil {
							for _, z := range *rr {
								if st, isSt := z.(*ssa.Store); isSt && st.Addr == y {
									nStores++
									call, isCall := st.Val.(*ssa.Call)
									if !isCall || !isPkgFunc(call.Common(), "math/rand", "Intn") {
										ok = false
										continue
									}
									n := lc.of(call.Common().Args[0])
									if bound == nil {
										bound = &n
									} else if !bound.equal(n) {
										ok = false
									}
								}
							}
						}
					case ssa.CallInstruction:
						switch builtinName(y.Common()) {
						case "len", "cap":
						default:
							ok = false
						}
					case *ssa.Store:
						ok = false
					case *ssa.MakeClosure:
						ok = false
					}
				}
			}
			if ok && bound != nil && nStores > 0 {
				key := lc.sliceKey(x)
				lc.elemFacts[key] = []cons{
					consLE(linConst(0), linAtom("ELEM"), "every stored element is rand.Intn(n) >= 0"),
					consLE(linAtom("ELEM"), bound.addc(-1), "every stored element is rand.Intn(n) <= n-1"),
				}
			}
		}
	})
}

// ---------------------------------------------------------------------------
// C05: codon loop of bufferTranslate

func (c *Ctx) checkBufferTranslateLoop() {
	L := c.L
	L.Rule("codon-loop", "bufferTranslate: the codon index starts at the frame, advances by exactly 3, the loop runs iff i+3 <= len(sequence), the three bases read are i, i+1, i+2 (proven in bounds), and the length guard rejects exactly len < 3+frame")
	r := c.fn("align", "", "bufferTranslate")
	if !r.ok() {
		return
	}
	fn := r.F
	lc := newLinCtx(c, fn)
	roles := roleMap{}
	var seqParam, phaseParam *ssa.Parameter
	for _, p := range fn.Params {
		if isIntType(p.Type()) {
			phaseParam = p
		} else if n := namedOf(p.Type()); n != nil && n.Obj().Name() == "seq" {
			seqParam = p
		}
	}
	if seqParam == nil || phaseParam == nil {
		L.Unknown("codon-loop", r.label, "parameters", c.P.Pos(fn.Pos()), "expected a *seq and an int frame parameter")
		return
	}
	roles["frame"] = linAtom(phaseParam.Name())
	roles["len"] = linAtom("len(" + seqParam.Name() + ".sequence)")

	// the loop whose body calls translateCodon
	var lp *loop
	for _, l := range naturalLoops(fn) {
		for b := range l.Blocks {
			for _, in := range b.Instrs {
				if cc := callOf(in); cc != nil {
					if f := cc.StaticCallee(); f != nil && f.Name() == "translateCodon" {
						lp = l
					}
				}
			}
		}
	}
	if lp == nil {
		L.Unknown("codon-loop", r.label, "codon loop", c.P.Pos(fn.Pos()), "no loop calling translateCodon found")
		return
	}
	// induction variable
	var iv *ssa.Phi
	for _, in := range lp.Head.Instrs {
		if p, ok := in.(*ssa.Phi); ok && isIntType(p.Type()) {
			iv = p
		}
	}
	if iv == nil {
		L.Unknown("codon-loop", r.label, "induction variable", c.P.Pos(fn.Pos()), "no integer φ in the loop header")
		return
	}
	atom := iv.Name() + "@" + shortFn(iv)
	var init, step *lin
	for _, e := range iv.Edges {
		l := lc.of(e)
		if v, ok := l.t[atom]; ok && v == 1 && len(l.t) == 1 {
			s := linConst(l.c)
			step = &s
		} else {
			init = &l
		}
	}
	want, _ := parseLin("frame", roles)
	L.Check(init != nil && init.equal(want), "codon-loop", r.label, "starts at the frame", c.P.Pos(iv.Pos()),
		"i₀ = "+want.String(), fmt.Sprintf("loop starts at %v, want %s", strOrNil(init), want.String()))
	L.Check(step != nil && step.c == 3, "codon-loop", r.label, "advances by 3", c.P.Pos(iv.Pos()), "step 3", fmt.Sprintf("step is %v, want 3", strOrNil(step)))
	// loop condition
	if ifi, ok := lp.Head.Instrs[len(lp.Head.Instrs)-1].(*ssa.If); ok {
		cs := lc.condCons(ifi.Cond, lp.Blocks[lp.Head.Succs[0]])
		roles["i"] = linAtom(atom)
		wantC, _ := parseCons("i + 3 <= len", roles)
		okc := len(cs) == 1 && cs[0].e.equal(wantC[0].e)
		got := "<none>"
		if len(cs) > 0 {
			got = consList(cs)
		}
		L.Check(okc, "codon-loop", r.label, "runs iff a full codon remains", c.P.Pos(ifi.Pos()), "continue ⇔ "+wantC[0].String(), "loop continues when "+got+", want "+wantC[0].String())
	} else {
		L.Unknown("codon-loop", r.label, "runs iff a full codon remains", c.P.Pos(fn.Pos()), "loop header does not end in a condition")
	}
	// the three reads: indices i, i+1, i+2 into the sequence, safe
	var offs []int64
	for b := range lp.Blocks {
		for _, in := range b.Instrs {
			if ia, ok := in.(*ssa.IndexAddr); ok && lc.isRowBuffer(ia.X) {
				l := lc.of(ia.Index)
				if v, ok := l.t[atom]; ok && v == 1 && len(l.t) == 1 {
					offs = append(offs, l.c)
				} else {
					offs = append(offs, -99)
				}
			}
		}
	}
	sort.Slice(offs, func(i, j int) bool { return offs[i] < offs[j] })
	L.Check(len(offs) == 3 && offs[0] == 0 && offs[1] == 1 && offs[2] == 2, "codon-loop", r.label, "reads bases i, i+1, i+2", c.P.Pos(iv.Pos()),
		"offsets 0,1,2", fmt.Sprintf("offsets read relative to i: %v", offs))
	// upper-bound safety of the reads (lower bound needs frame >= 0, outside C05's domain of frames)
	for b := range lp.Blocks {
		for _, in := range b.Instrs {
			if ia, ok := in.(*ssa.IndexAddr); ok && lc.isRowBuffer(ia.X) {
				g := consLT(lc.of(ia.Index), lc.lenOf(ia.X), "index < len")
				ok, det := lc.proveAll(ia.Block(), nil, g)
				nm := "read " + stable(lc.of(ia.Index).String()) + " below len"
				if ok {
					L.OK("codon-loop", r.label, nm, c.P.Pos(ia.Pos()), det)
				} else {
					L.Bad("codon-loop", r.label, nm, c.P.Pos(ia.Pos()), det)
				}
			}
		}
	}
	// length guard
	c.checkDomain(r, domainSpec{Rule: "codon-loop", Domain: []string{"3 + frame <= len"},
		Roles: func(*linCtx) roleMap { return roles }})
	L.Floor("codon-loop", 8, "start, step, condition, offsets, 3 reads, guard")
}

func strOrNil(l *lin) string {
	if l == nil {
		return "<none>"
	}
	return l.String()
}
