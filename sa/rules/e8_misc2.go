package rules

import (
	"go/constant"
	"go/types"
	"go/ast"
	"fmt"
	"go/token"
	"strings"

	"golang.org/x/tools/go/ssa"
)

// checkLenOfEmpty: len(x) of a function-local map or slice evaluated at a point that
// no insertion into x can reach: the value is the constant 0 whatever the data.
func (c *Ctx) checkLenOfEmpty(rule string, fns []*ssa.Function) int {
	L := c.L
	L.Rule(rule, "len(x) of a map or slice created empty in the function is never evaluated at a point that no insertion into x (map update, append stored back, element store) can reach: such a length is always 0 and any quantity derived from it (a pseudo-count denominator, an allocation size) is silently wrong")
	n, bad := 0, 0
	for _, fn := range fns {
		allInstrs(fn, func(in ssa.Instruction) {
			call, ok := in.(*ssa.Call)
			if !ok || builtinName(call.Common()) != "len" {
				return
			}
			x := call.Common().Args[0]
			mk, isMap := x.(*ssa.MakeMap)
			if !isMap {
				return
			}
			n++
			// insertions into mk
			reached := false
			nIns := 0
			if refs := mk.Referrers(); refs != nil {
				for _, r := range *refs {
					if up, ok := r.(*ssa.MapUpdate); ok && up.Map == ssa.Value(mk) {
						nIns++
						if up.Block() == call.Block() && indexIn(up.Block(), up) < indexIn(call.Block(), call) {
							reached = true
						}
						if up.Block() != call.Block() && reachableFrom(up.Block())[call.Block()] {
							reached = true
						}
						if up.Block() == call.Block() && reachableFrom(up.Block())[up.Block()] {
							reached = true // in a loop
						}
					}
					if _, ok := r.(*ssa.MakeClosure); ok {
						reached = true // may be filled by a closure
					}
					if cc, ok := r.(ssa.CallInstruction); ok && builtinName(cc.Common()) == "" {
						reached = true // handed to a callee
					}
					if st, ok := r.(*ssa.Store); ok && st.Val == ssa.Value(mk) {
						reached = true // escapes
					}
				}
			}
			if nIns > 0 && !reached {
				bad++
				L.Bad(rule, c.P.FuncName(fn), "len of a still-empty map", c.P.Pos(call.Pos()), "this len() is evaluated before any insertion into the map can have happened: it is always 0")
			}
		})
	}
	L.Trivial(rule, "scope", "len() calls on local maps", "-", fmt.Sprintf("%d examined, %d evaluated before any insertion", n, bad))
	return n
}

// rateDomain: rejection guards on a float parameter.
type rateSpec struct {
	Fn, Param string
	Lo, Hi    float64
	LoOpen    bool // lower bound excluded (frac in (0,1])
}

// checkRateDomains: every comparison of the parameter with a constant whose true branch leaves the
// operation (return / exit / reset to a default) is `p < Lo` or `p > Hi` (`<=` when the bound is open).
func (c *Ctx) checkRateDomains(rule string, specs []rateSpec) {
	L := c.L
	L.Rule(rule, "the guards that refuse (or replace) a rate/proportion argument are exactly `p < lo` and `p > hi` of its documented closed domain (`p <= lo` where the lower bound is excluded): the border values lo and hi themselves are admitted and treated like any other value")
	for _, sp := range specs {
		recv := "*align"
		r := c.fn("align", recv, sp.Fn)
		if !r.ok() {
			continue
		}
		fn := r.F
		P := paramByName(fn, sp.Param)
		if P == nil {
			L.Unknown(rule, r.label, "parameter "+sp.Param, c.P.Pos(fn.Pos()), "not found")
			continue
		}
		var lo, hi []string
		okAll := true
		allInstrs(fn, func(in ssa.Instruction) {
			bo, ok := in.(*ssa.BinOp)
			if !ok || !isFloatValue(bo.X) || bo.X != ssa.Value(P) {
				return
			}
			k := constOf(bo.Y)
			if k == nil {
				return
			}
			f, _ := cFloat(k)
			switch bo.Op {
			case token.LSS, token.LEQ:
				lo = append(lo, fmt.Sprintf("%s %g", bo.Op, f))
				wantOp := token.LSS
				if sp.LoOpen {
					wantOp = token.LEQ
				}
				if bo.Op != wantOp || f != sp.Lo {
					okAll = false
				}
			case token.GTR, token.GEQ:
				hi = append(hi, fmt.Sprintf("%s %g", bo.Op, f))
				if bo.Op != token.GTR || f != sp.Hi {
					okAll = false
				}
			}
		})
		if len(lo) == 0 || len(hi) == 0 {
			okAll = false
		}
		L.Check(okAll, rule, r.label, "guards of "+sp.Param, c.P.Pos(fn.Pos()), fmt.Sprintf("%s %s / %s %s", sp.Param, strings.Join(lo, ","), sp.Param, strings.Join(hi, ",")),
			fmt.Sprintf("the guards on %s are %v and %v; the documented domain is %s%g, %g]: a border value is refused or an out-of-range value accepted", sp.Param, lo, hi, map[bool]string{true: "(", false: "["}[sp.LoOpen], sp.Lo, sp.Hi))
	}
}

// checkComplementShape: InversePositions.
func (c *Ctx) checkComplementShape(rule string) {
	L := c.L
	L.Rule(rule, "InversePositions records every element of the requested list in a membership map (a range loop over the whole list) and then visits every column 0..L-1 once, emitting exactly those whose map lookup fails: the result is the complement whatever the order and multiplicity of the list")
	r := c.fn("align", "*align", "InversePositions")
	if !r.ok() {
		return
	}
	fn := r.F
	lc := newLinCtx(c, fn)
	sites := paramByName(fn, "sites")
	var mk *ssa.MakeMap
	var upd *ssa.MapUpdate
	var lk *ssa.Lookup
	allInstrs(fn, func(in ssa.Instruction) {
		switch x := in.(type) {
		case *ssa.MakeMap:
			mk = x
		case *ssa.MapUpdate:
			upd = x
		case *ssa.Lookup:
			if _, isMap := x.X.Type().Underlying().(*types.Map); isMap {
				lk = x
			}
		}
	})
	okFill, okScan, okEmit := false, false, false
	if mk != nil && upd != nil && upd.Map == ssa.Value(mk) && sites != nil {
		for _, rl := range lc.rangeLoopsOver(fn, func(v ssa.Value) bool { return v == ssa.Value(sites) }) {
			if rl.lp.Blocks[upd.Block()] {
				for _, e := range rl.elems {
					if upd.Key == ssa.Value(e) {
						okFill = true
					}
				}
			}
		}
	}
	if lk != nil && mk != nil && lk.X == ssa.Value(mk) {
		if p, ok := lk.Index.(*ssa.Phi); ok {
			init0, step1 := false, true
			for i, e := range p.Edges {
				_ = i
				if k, ok := constInt(e); ok {
					init0 = k == 0
					continue
				}
				if bo, ok := e.(*ssa.BinOp); ok && bo.Op == token.ADD && bo.X == ssa.Value(p) {
					if k, ok := constInt(bo.Y); !ok || k != 1 {
						step1 = false
					}
					continue
				}
				step1 = false
			}
			if ifi, ok := p.Block().Instrs[len(p.Block().Instrs)-1].(*ssa.If); ok {
				if bo, ok := ifi.Cond.(*ssa.BinOp); ok && bo.Op == token.LSS && bo.X == ssa.Value(p) {
					b := lc.of(bo.Y)
					okScan = init0 && step1 && b.String() == "L(a)"
				}
			}
			// emitted value is the loop counter, stored only where the membership test is known to
			// have failed: the `ok` of a comma-ok lookup, or the value of a plain lookup in a map that
			// only ever stores `true`
			var member ssa.Value
			if lk.CommaOk {
				for _, ref := range *lk.Referrers() {
					if ex, ok := ref.(*ssa.Extract); ok && ex.Index == 1 {
						member = ex
					}
				}
			} else if k, ok := upd.Value.(*ssa.Const); ok && k.Value != nil && k.Value.Kind() == constant.Bool && constant.BoolVal(k.Value) {
				member = lk
			}
			if member != nil {
				bf := computeBranchFacts(fn)
				nEmit, bad := 0, 0
				allInstrs(fn, func(in ssa.Instruction) {
					if st, ok := in.(*ssa.Store); ok && st.Val == ssa.Value(p) {
						if _, isElem := st.Addr.(*ssa.IndexAddr); isElem {
							nEmit++
							if !bf.knownAt(st.Block(), member, false) {
								bad++
							}
						}
					}
				})
				okEmit = nEmit > 0 && bad == 0
			}
		}
	}
	L.Check(okFill && okScan && okEmit, rule, r.label, "membership map + full scan", c.P.Pos(fn.Pos()), "every requested site is recorded; columns 0..L-1 are scanned once; a column is emitted iff its lookup fails",
		fmt.Sprintf("the complement is not computed by membership (every element recorded: %v, scan of 0..L-1: %v, emitted on failed lookup: %v): an unsorted or repeated list gives a wrong complement", okFill, okScan, okEmit))
	L.Floor(rule, 1, "one function")
}

// lookupTableOf: a dispatch written as a table instead of a switch. In fd an expression G[k]
// indexes a package-level variable G of the same package whose initialiser is a composite literal
// `Key: Value` with identifier (or selector) keys and values; returns key text -> value text, and
// whether a key that is not in the table is rejected (the lookup is of the comma-ok form and a
// branch on the negated flag returns).
func (c *Ctx) lookupTableOf(rel string, fd *ast.FuncDecl) (map[string]string, bool) {
	pk := c.P.Pkg(rel)
	if pk == nil || fd == nil || fd.Body == nil {
		return nil, false
	}
	info := pk.TypesInfo
	table := map[string]string{}
	rejects := false
	ast.Inspect(fd.Body, func(n ast.Node) bool {
		ie, ok := n.(*ast.IndexExpr)
		if !ok {
			return true
		}
		id, ok := ie.X.(*ast.Ident)
		if !ok {
			return true
		}
		v, ok := info.Uses[id].(*types.Var)
		if !ok || v.Parent() != v.Pkg().Scope() {
			return true
		}
		// the declaration of G
		for _, f := range pk.Syntax {
			for _, d := range f.Decls {
				gd, ok := d.(*ast.GenDecl)
				if !ok {
					continue
				}
				for _, sp := range gd.Specs {
					vs, ok := sp.(*ast.ValueSpec)
					if !ok {
						continue
					}
					for i, nm := range vs.Names {
						if info.Defs[nm] != types.Object(v) || i >= len(vs.Values) {
							continue
						}
						cl, ok := vs.Values[i].(*ast.CompositeLit)
						if !ok {
							continue
						}
						for _, el := range cl.Elts {
							kv, ok := el.(*ast.KeyValueExpr)
							if !ok {
								continue
							}
							table[types.ExprString(kv.Key)] = types.ExprString(kv.Value)
						}
					}
				}
			}
		}
		return true
	})
	if len(table) == 0 {
		return nil, false
	}
	// comma-ok lookup whose flag, negated, guards a return
	okObjs := map[types.Object]bool{}
	ast.Inspect(fd.Body, func(n ast.Node) bool {
		as, ok := n.(*ast.AssignStmt)
		if !ok || len(as.Lhs) != 2 || len(as.Rhs) != 1 {
			return true
		}
		if _, isIdx := as.Rhs[0].(*ast.IndexExpr); !isIdx {
			return true
		}
		if id, ok := as.Lhs[1].(*ast.Ident); ok {
			if o := info.Defs[id]; o != nil {
				okObjs[o] = true
			} else if o := info.Uses[id]; o != nil {
				okObjs[o] = true
			}
		}
		return true
	})
	ast.Inspect(fd.Body, func(n ast.Node) bool {
		ifs, ok := n.(*ast.IfStmt)
		if !ok {
			return true
		}
		ue, ok := ifs.Cond.(*ast.UnaryExpr)
		if !ok || ue.Op != token.NOT {
			return true
		}
		id, ok := ue.X.(*ast.Ident)
		if !ok || !okObjs[info.Uses[id]] {
			return true
		}
		for _, st := range ifs.Body.List {
			if _, isRet := st.(*ast.ReturnStmt); isRet {
				rejects = true
			}
		}
		return true
	})
	return table, rejects
}
