package rules

import (
	"fmt"
	"strings"

	"golang.org/x/tools/go/ssa"
)

// checkNamedRowsOnly: ReverseComplementSequences(names...) changes the rows it looks up by name
// and no other. It must not hand its own container to a method that writes into the container's
// rows as a whole (the all-rows variant): the write effects of every method it calls on its own
// receiver are computed, and none may write memory of that receiver.
func (c *Ctx) checkNamedRowsOnly(rule string) {
	L := c.L
	L.Rule(rule, "ReverseComplementSequences calls no method on its own container that writes into the container (write-effect analysis of every callee invoked on the receiver): rows are changed one by one, after a lookup by name")
	r := c.fn("align", "*seqbag", "ReverseComplementSequences")
	if !r.ok() {
		return
	}
	fn := r.F
	if len(fn.Params) == 0 {
		return
	}
	recv := fn.Params[0]
	n := 0
	var bad []string
	allInstrs(fn, func(in ssa.Instruction) {
		cc := callOf(in)
		if cc == nil {
			return
		}
		g := cc.StaticCallee()
		if g == nil || g.Blocks == nil || !c.P.InModule(g) || g.Signature.Recv() == nil || len(cc.Args) == 0 {
			return
		}
		if cc.Args[0] != ssa.Value(recv) {
			return
		}
		n++
		res := c.runEffects(g)
		if len(res.e.unknown) > 0 {
			bad = append(bad, fmt.Sprintf("%s at %s (effects not decided: %s)", g.Name(), c.P.Pos(in.Pos()), strings.Join(dedupe(res.e.unknown), "; ")))
			return
		}
		if ws := res.writesTo(0); len(ws) > 0 {
			bad = append(bad, fmt.Sprintf("%s at %s writes %s", g.Name(), c.P.Pos(in.Pos()), ws[0].what))
		}
	})
	L.Check(len(bad) == 0, rule, r.label, "methods called on the own container", c.P.Pos(fn.Pos()),
		fmt.Sprintf("%d call(s) on the receiver, none writes into the container", n),
		"the by-name variant hands the whole container to a method that changes it: rows that were not named are changed too — "+strings.Join(bad, "; "))
	L.Floor(rule, 1, "one function")
}
