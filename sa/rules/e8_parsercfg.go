package rules

import (
	"fmt"
	"sort"
	"strings"

	"golang.org/x/tools/go/ssa"
)

// Parser configuration. The format parsers carry options chosen by the caller (alphabet,
// duplicate handling, strictness) in fields that have a setter. While a parser reads a stream of
// alignments those fields must stay what the caller set: a field with a setter is stored only by
// that setter, or into a parser the storing function allocated itself (the constructor).
// An option overwritten from the data of the first alignment is imposed on all the following ones.
func (c *Ctx) checkParserConfig(rule string) {
	L := c.L
	L.Rule(rule, "a field of a format parser that has a setter method (a method that stores one of its parameters into it) is stored only by that setter or into a parser allocated by the storing function: parsing never rewrites the options the caller chose")
	type key struct{ pkg, field string }
	setters := map[key]map[string]bool{}
	type wr struct {
		fn  *ssa.Function
		k   key
		pos string
	}
	var writes []wr
	var fns []*ssa.Function
	for _, fn := range c.P.SrcFuncs() {
		if fn.Pkg != nil && strings.HasPrefix(relPkg(c.P, fn.Pkg.Pkg.Path()), "io/") {
			fns = append(fns, fn)
		}
	}
	// pass 1: the setters
	for _, fn := range fns {
		rel := relPkg(c.P, fn.Pkg.Pkg.Path())
		if fn.Signature.Recv() == nil || len(fn.Params) < 2 {
			continue
		}
		allInstrs(fn, func(in ssa.Instruction) {
			st, ok := in.(*ssa.Store)
			if !ok {
				return
			}
			t, f, fa := fieldAddrOf(st.Addr)
			if fa == nil || t != "Parser" || fa.X != ssa.Value(fn.Params[0]) {
				return
			}
			for _, p := range fn.Params[1:] {
				if stripConv(st.Val) == ssa.Value(p) {
					k := key{rel, f}
					if setters[k] == nil {
						setters[k] = map[string]bool{}
					}
					setters[k][c.P.FuncName(fn)] = true
				}
			}
		})
	}
	// pass 2: every other store into such a field of a parser that was not allocated here
	for _, fn := range fns {
		rel := relPkg(c.P, fn.Pkg.Pkg.Path())
		allInstrs(fn, func(in ssa.Instruction) {
			st, ok := in.(*ssa.Store)
			if !ok {
				return
			}
			t, f, fa := fieldAddrOf(st.Addr)
			if fa == nil || t != "Parser" || freshObject(fa.X) {
				return
			}
			k := key{rel, f}
			if setters[k] == nil || setters[k][c.P.FuncName(fn)] {
				return
			}
			writes = append(writes, wr{fn, k, c.P.Pos(st.Pos())})
		})
	}
	n := 0
	var ks []key
	for k := range setters {
		ks = append(ks, k)
	}
	sort.Slice(ks, func(i, j int) bool { return ks[i].pkg+ks[i].field < ks[j].pkg+ks[j].field })
	for _, k := range ks {
		var bad []string
		for _, w := range writes {
			if w.k == k {
				bad = append(bad, c.P.FuncName(w.fn)+" at "+w.pos)
			}
		}
		n++
		var sn []string
		for s := range setters[k] {
			sn = append(sn, s)
		}
		sort.Strings(sn)
		L.Check(len(bad) == 0, rule, k.pkg+".Parser", "field "+k.field, "-",
			"stored only by "+strings.Join(sn, ", "),
			"an option of the parser is overwritten outside its setter: "+strings.Join(bad, ", ")+" — what is derived from one alignment of the stream is imposed on the following ones")
	}
	L.Trivial(rule, "io/*", "parser fields with a setter", "-", fmt.Sprintf("%d field(s)", n))
	L.Floor(rule, 3, "alphabet / duplicate-handling / strictness setters of the five parsers")
}
