package rules

import (
	"fmt"
	"go/ast"
	"go/constant"
	"go/token"
	"go/types"
	"sort"
	"strings"

	"golang.org/x/tools/go/ssa"
)

func init() {
	register(&Property{ID: "C02", Run: runC02,
		Explanation: "Static decision of the file-layer and dispatch clauses of C02, each a necessary condition of some round trip in the property's quantifier: the compressed writers finish in the order buffer flush, compressor close, file close on every path and send Write/WriteString to the same buffer; a file extension selects the same codec for writing and for reading; the first byte each writer emits selects that format's parser in both auto-detection functions, which have the same branch table; the command-line reader, writer and extension tables cover the same formats in the same priority order and each branch uses the package of its own format; every keyword the Nexus writer emits is a keyword of the Nexus lexer, the data type it writes maps back to the alphabet it was written for, and the parser's default gap/missing/match characters are the library's own (the writer emits no FORMAT symbols, so translation must be the identity). Not decided: that wrapping, blocks and interleaving re-assemble exactly, name tokenisation, multi-Phylip streams (functions of the byte content)."})
}

func runC02(c *Ctx) {
	c.checkCompressedClose()
	c.checkExtensionCodec()
	c.checkSniffers()
	c.checkCmdDispatch()
	c.checkNexusKeywords()
	c.checkNexusDefaults()
	c.checkNoCloseAfterGo("close-after-go", "io/utils", "cmd")
}

// ---------------------------------------------------------------------------
// F1 ordered finalisation

func (c *Ctx) checkCompressedClose() {
	L := c.L
	c.checkParserConfig("parser-config")
	L.Rule("close-order", "Close() of a compressed writer calls buf.Flush, then the compressor's Close, then the file's Close, each exactly once, the later ones only after the earlier ones (dominance), and returns the file's Close result; Write and WriteString delegate to the same buffered writer")
	for _, t := range []struct{ typ, comp string }{{"gzstringwritercloser", "gw"}, {"xzstringwritercloser", "xw"}} {
		r := c.fn("io/utils", "*"+t.typ, "Close")
		if !r.ok() {
			continue
		}
		fn := r.F
		var flush, cclose, fclose ssa.Instruction
		n := map[string]int{}
		allInstrs(fn, func(in ssa.Instruction) {
			cc := callOf(in)
			if cc == nil {
				return
			}
			var recv ssa.Value
			name := ""
			if cc.IsInvoke() {
				recv, name = cc.Value, cc.Method.Name()
			} else if f := cc.StaticCallee(); f != nil && len(cc.Args) > 0 {
				recv, name = cc.Args[0], f.Name()
			}
			_, fld, base := loadedField(recv)
			if base == nil {
				return
			}
			switch {
			case fld == "buf" && name == "Flush":
				flush = in
				n["flush"]++
			case fld == t.comp && name == "Close":
				cclose = in
				n["comp"]++
			case fld == "f" && name == "Close":
				fclose = in
				n["file"]++
			}
		})
		ok := flush != nil && cclose != nil && fclose != nil && n["flush"] == 1 && n["comp"] == 1 && n["file"] == 1 &&
			instrDominates(flush, cclose) && instrDominates(cclose, fclose)
		L.Check(ok, "close-order", r.label, "Flush ≺ compressor.Close ≺ file.Close", c.P.Pos(fn.Pos()), "each once, in this order on every path that reaches the later call",
			fmt.Sprintf("finalisation order broken (calls found: flush %d, compressor close %d, file close %d): buffered or compressed data can be lost, the archive is truncated", n["flush"], n["comp"], n["file"]))
		for _, m := range []string{"Write", "WriteString"} {
			rw := c.fn("io/utils", "*"+t.typ, m)
			if !rw.ok() {
				continue
			}
			okD := false
			allInstrs(rw.F, func(in ssa.Instruction) {
				if cc := callOf(in); cc != nil {
					if f := cc.StaticCallee(); f != nil && f.Name() == m && len(cc.Args) > 0 {
						if _, fld, base := loadedField(cc.Args[0]); base != nil && fld == "buf" {
							okD = true
						}
					}
				}
			})
			L.Check(okD, "close-order", rw.label, "delegates to buf", c.P.Pos(rw.F.Pos()), m+" goes to the buffered writer that Close flushes", m+" does not write through the buffer that Close flushes")
		}
	}
	L.Floor("close-order", 3, "2 writers x (Close + Write + WriteString) (floor = half of the instances on the pinned tree: a clean-up may merge instances, a rule that sees nothing must still fail)")
}

// ---------------------------------------------------------------------------
// F2 extension ↔ codec

// suffixesOf: constant suffixes tested by strings.HasSuffix in the condition value (through || chains and helper calls).
func (c *Ctx) suffixesOf(v ssa.Value, depth int) []string {
	var out []string
	switch x := v.(type) {
	case *ssa.Call:
		cc := x.Common()
		if isPkgFunc(cc, "strings", "HasSuffix") {
			if s, ok := cStr(constOf(cc.Args[1])); ok {
				out = append(out, s)
			}
			return out
		}
		if f := cc.StaticCallee(); f != nil && c.P.InModule(f) && depth < 2 {
			// helper such as GzipExtension(name): every HasSuffix constant in its body
			allInstrs(f, func(in ssa.Instruction) {
				if call, ok := in.(*ssa.Call); ok && isPkgFunc(call.Common(), "strings", "HasSuffix") {
					if s, ok := cStr(constOf(call.Common().Args[1])); ok {
						out = append(out, s)
					}
				}
			})
		}
	case *ssa.Phi:
		for _, e := range x.Edges {
			out = append(out, c.suffixesOf(e, depth)...)
		}
	}
	return out
}

func codecCalls(region map[*ssa.BasicBlock]bool, fn *ssa.Function, ctor string) []string {
	var out []string
	for b := range region {
		for _, in := range b.Instrs {
			if cc := callOf(in); cc != nil {
				if f := cc.StaticCallee(); f != nil && f.Pkg != nil && f.Name() == ctor {
					p := f.Pkg.Pkg.Path()
					if p != "bufio" {
						out = append(out, p)
					}
				}
			}
		}
	}
	sort.Strings(out)
	return out
}

// branchRegion: blocks dominated by the true successor of the If ending block b.
func branchRegion(fn *ssa.Function, b *ssa.BasicBlock, succ int) map[*ssa.BasicBlock]bool {
	out := map[*ssa.BasicBlock]bool{}
	s := b.Succs[succ]
	if len(s.Preds) != 1 {
		return out
	}
	for _, x := range fn.Blocks {
		if s == x || s.Dominates(x) {
			out[x] = true
		}
	}
	return out
}

func (c *Ctx) extensionTable(r *fnRef, ctor string) map[string]string {
	out := map[string]string{}
	if !r.ok() {
		return out
	}
	fn := r.F
	for _, b := range fn.Blocks {
		ifi, ok := b.Instrs[len(b.Instrs)-1].(*ssa.If)
		if !ok {
			continue
		}
		sfx := c.suffixesOf(ifi.Cond, 0)
		if len(sfx) == 0 {
			continue
		}
		codecs := dedupe(codecCalls(branchRegion(fn, b, 0), fn, ctor))
		for _, s := range sfx {
			if len(codecs) == 1 {
				out[s] = codecs[0]
			} else if len(codecs) > 1 {
				out[s] = strings.Join(codecs, "+")
			}
		}
	}
	return out
}

func (c *Ctx) checkExtensionCodec() {
	L := c.L
	L.Rule("extension-codec", "every file-name suffix for which OpenWriteFile creates a compressing writer is, in GetReader, a suffix that selects a decompressing reader of the same codec package")
	w := c.extensionTable(c.fn("io/utils", "", "OpenWriteFile"), "NewWriter")
	r := c.extensionTable(c.fn("io/utils", "", "GetReader"), "NewReader")
	var ks []string
	for k := range w {
		ks = append(ks, k)
	}
	sort.Strings(ks)
	for _, k := range ks {
		L.Check(r[k] == w[k] && w[k] != "", "extension-codec", "io/utils.OpenWriteFile/GetReader", "suffix "+k, "-",
			fmt.Sprintf("written with %s, read with %s", w[k], r[k]), fmt.Sprintf("a file named *%s is written with %s but read with %q: the written file cannot be read back", k, w[k], r[k]))
	}
	L.Note("writer suffix table %v, reader suffix table %v", w, r)
	L.Floor("extension-codec", 2, ".gz and .xz")
}

// ---------------------------------------------------------------------------
// F3 sniffer ↔ writer

// firstEmitted: the first constant string written by a WriteAlignment function
// (first WriteString/Sprintf constant in dominance order, closures in call order).
func (c *Ctx) firstEmitted(fn *ssa.Function) (string, bool) {
	// Every emission to a text sink in the function: the Write* methods of bytes.Buffer,
	// strings.Builder and bufio.Writer, and fmt.Fprint*. The first emitted byte is the constant
	// prefix of the emission that dominates all the others; if that emission has no constant
	// prefix the answer is unknown (never a guess from a later constant).
	type em struct {
		in  ssa.Instruction
		s   string
		cst bool
	}
	var ems []em
	constPrefix := func(v ssa.Value) (string, bool) {
		if s, ok := cStr(constOf(v)); ok {
			return s, s != ""
		}
		if k, ok := constInt(v); ok && k > 0 && k < 0x110000 {
			return string(rune(k)), true
		}
		if call, ok := v.(*ssa.Call); ok && (isPkgFunc(call.Common(), "fmt", "Sprintf")) {
			if s, ok := cStr(constOf(call.Common().Args[0])); ok {
				if i := strings.IndexByte(s, '%'); i >= 0 {
					s = s[:i]
				}
				return s, s != ""
			}
		}
		return "", false
	}
	allInstrs(fn, func(in ssa.Instruction) {
		cc := callOf(in)
		if cc == nil {
			return
		}
		f := cc.StaticCallee()
		if f == nil || f.Pkg == nil {
			return
		}
		pk := f.Pkg.Pkg.Path()
		switch {
		case (pk == "bytes" || pk == "strings" || pk == "bufio") && f.Signature.Recv() != nil && len(cc.Args) == 2 &&
			(f.Name() == "WriteString" || f.Name() == "WriteByte" || f.Name() == "WriteRune" || f.Name() == "Write"):
			s, ok := constPrefix(cc.Args[1])
			ems = append(ems, em{in, s, ok})
		case pk == "fmt" && (f.Name() == "Fprintf" || f.Name() == "Fprint" || f.Name() == "Fprintln") && len(cc.Args) >= 2:
			s, ok := "", false
			if f.Name() == "Fprintf" {
				s, ok = constPrefix(cc.Args[1])
				if i := strings.IndexByte(s, '%'); i >= 0 {
					s = s[:i]
					ok = s != ""
				}
			}
			ems = append(ems, em{in, s, ok})
		}
	})
	for _, e := range ems {
		first := true
		for _, o := range ems {
			if o.in != e.in && !instrDominates(e.in, o.in) {
				first = false
				break
			}
		}
		if first {
			return e.s, e.cst
		}
	}
	if len(ems) > 0 {
		return "", false
	}
	// everything is written inside an iteration callback (FASTA): first emission of the first closure
	for _, a := range fn.AnonFuncs {
		if s, ok := c.firstEmitted(a); ok {
			return s, true
		}
	}
	return "", false
}

func (c *Ctx) snifferTable(r *fnRef) (map[string]string, string) {
	tab := map[string]string{}
	def := ""
	if !r.ok() {
		return tab, def
	}
	fn := r.F
	parserPkg := func(region map[*ssa.BasicBlock]bool) []string {
		var out []string
		fns := []*ssa.Function{}
		for b := range region {
			for _, in := range b.Instrs {
				if mc, ok := in.(*ssa.MakeClosure); ok {
					fns = append(fns, mc.Fn.(*ssa.Function))
				}
				// a goroutine (or call) of a private function of the package stands for its body
				if cc := callOf(in); cc != nil {
					if g := cc.StaticCallee(); g != nil && g.Pkg == fn.Pkg && len(g.Blocks) > 0 && !token.IsExported(g.Name()) && g.Parent() == nil {
						fns = append(fns, g)
					}
				}
			}
		}
		scan := func(in ssa.Instruction) {
			if cc := callOf(in); cc != nil {
				if f := cc.StaticCallee(); f != nil && f.Name() == "NewParser" && f.Pkg != nil {
					out = append(out, relPkg(c.P, f.Pkg.Pkg.Path()))
				}
			}
		}
		for b := range region {
			for _, in := range b.Instrs {
				scan(in)
			}
		}
		for _, g := range fns {
			allInstrs(g, scan)
		}
		return dedupe(out)
	}
	var chain []*ssa.BasicBlock
	for _, b := range fn.Blocks {
		ifi, ok := b.Instrs[len(b.Instrs)-1].(*ssa.If)
		if !ok {
			continue
		}
		bo, ok := ifi.Cond.(*ssa.BinOp)
		if !ok || bo.Op != token.EQL {
			continue
		}
		k, ok := constInt(bo.Y)
		if !ok {
			continue
		}
		if _, isByte := bo.X.Type().Underlying().(*types.Basic); !isByte {
			continue
		}
		pk := parserPkg(branchRegion(fn, b, 0))
		if len(pk) == 1 {
			tab[string(rune(k))] = pk[0]
			chain = append(chain, b)
		}
	}
	if len(chain) > 0 {
		last := chain[len(chain)-1]
		pk := parserPkg(branchRegion(fn, last, 1))
		if len(pk) == 1 {
			def = pk[0]
		}
	}
	return tab, def
}

// regionInstrs visits the instructions of the blocks of a region, of the closures created there
// and of the private functions of the same package called (or started as goroutines) there.
func regionInstrs(region map[*ssa.BasicBlock]bool, visit func(ssa.Instruction)) {
	seen := map[*ssa.Function]bool{}
	var fnBody func(g *ssa.Function, depth int)
	var one func(in ssa.Instruction, depth int)
	one = func(in ssa.Instruction, depth int) {
		visit(in)
		if mc, ok := in.(*ssa.MakeClosure); ok {
			if g, ok := mc.Fn.(*ssa.Function); ok {
				fnBody(g, depth+1)
			}
		}
		if cc := callOf(in); cc != nil {
			if g := cc.StaticCallee(); g != nil && in.Parent() != nil && g.Pkg == in.Parent().Pkg && g.Pkg != nil && len(g.Blocks) > 0 && !token.IsExported(g.Name()) && g.Parent() == nil {
				fnBody(g, depth+1)
			}
		}
	}
	fnBody = func(g *ssa.Function, depth int) {
		if seen[g] || depth > 3 {
			return
		}
		seen[g] = true
		allInstrs(g, func(in ssa.Instruction) { one(in, depth) })
	}
	for b := range region {
		for _, in := range b.Instrs {
			one(in, 0)
		}
	}
}

func (c *Ctx) checkSniffers() {
	L := c.L
	L.Rule("sniffer-writer", "the first byte of the first constant string a format's WriteAlignment emits selects, in ParseAlignmentAuto and in ParseMultiAlignmentsAuto, the parser of the same package (the fall-through branch for Phylip, whose first byte must then not be one of the tested bytes); the two auto-detection functions have the same table")
	t1, d1 := c.snifferTable(c.fn("io/utils", "", "ParseAlignmentAuto"))
	t2, d2 := c.snifferTable(c.fn("io/utils", "", "ParseMultiAlignmentsAuto"))
	same := d1 == d2 && len(t1) == len(t2)
	for k, v := range t1 {
		if t2[k] != v {
			same = false
		}
	}
	L.Check(same && len(t1) >= 3, "sniffer-writer", "io/utils.ParseAlignmentAuto/ParseMultiAlignmentsAuto", "same branch table", "-",
		fmt.Sprintf("%v, otherwise %s", t1, d1), fmt.Sprintf("the two auto-detection functions disagree: %v/%s vs %v/%s", t1, d1, t2, d2))
	for _, rel := range []string{"io/fasta", "io/nexus", "io/clustal", "io/phylip"} {
		r := c.fn(rel, "", "WriteAlignment")
		if !r.ok() {
			continue
		}
		s, ok := c.firstEmitted(r.F)
		if !ok || s == "" {
			L.Unknown("sniffer-writer", r.label, "first emitted constant", c.P.Pos(r.F.Pos()), "no constant string written first")
			continue
		}
		b := string(s[0])
		got, tested := t1[b]
		if !tested {
			got = d1
		}
		L.Check(got == rel, "sniffer-writer", r.label, fmt.Sprintf("first byte %q", b), c.P.Pos(r.F.Pos()), fmt.Sprintf("output starts with %q; auto-detection selects %s", firstN(s, 12), got),
			fmt.Sprintf("output starts with %q; auto-detection hands it to the %s parser, not to %s", firstN(s, 12), got, rel))
	}
	L.Floor("sniffer-writer", 2, "table agreement + four formats (floor = half of the instances on the pinned tree: a clean-up may merge instances, a rule that sees nothing must still fail)")
}

func firstN(s string, n int) string {
	if len(s) > n {
		return s[:n]
	}
	return s
}

// ---------------------------------------------------------------------------
// F4 command-line dispatch tables

// flagChain: the sequence (global flag → package used in its branch), then the default package.
func (c *Ctx) flagChain(fn *ssa.Function, pick func(f *ssa.Function) string) ([]string, []string, string) {
	var flags, pkgs []string
	def := ""
	used := func(region map[*ssa.BasicBlock]bool) []string {
		var out []string
		scan := func(in ssa.Instruction) {
			if cc := callOf(in); cc != nil {
				if f := cc.StaticCallee(); f != nil && f.Pkg != nil {
					if s := pick(f); s != "" {
						out = append(out, s)
					}
				}
			}
		}
		regionInstrs(region, scan)
		return dedupe(out)
	}
	var last *ssa.BasicBlock
	for _, b := range fn.Blocks {
		ifi, ok := b.Instrs[len(b.Instrs)-1].(*ssa.If)
		if !ok {
			continue
		}
		u, ok := ifi.Cond.(*ssa.UnOp)
		if !ok || u.Op != token.MUL {
			continue
		}
		g, ok := u.X.(*ssa.Global)
		if !ok || !strings.HasPrefix(g.Name(), "root") {
			continue
		}
		p := used(branchRegion(fn, b, 0))
		if len(p) != 1 {
			continue
		}
		flags = append(flags, g.Name())
		pkgs = append(pkgs, p[0])
		last = b
	}
	if last != nil {
		if p := used(branchRegion(fn, last, 1)); len(p) == 1 {
			def = p[0]
		}
	}
	return flags, pkgs, def
}

func (c *Ctx) checkCmdDispatch() {
	L := c.L
	L.Rule("format-dispatch", "the command-line reader (readalign, explicit-format branch), the writer (writeAlign) and the extension table (alignExtension) test the same format flags in the same priority order; the branch of flag rootX uses the parser / writer of format X and the fall-through uses FASTA")
	want := map[string]string{"rootphylip": "io/phylip", "rootnexus": "io/nexus", "rootclustal": "io/clustal", "rootstockholm": "io/stockholm"}
	parserOf := func(f *ssa.Function) string {
		if f.Name() == "NewParser" {
			return relPkg(c.P, f.Pkg.Pkg.Path())
		}
		return ""
	}
	writerOf := func(f *ssa.Function) string {
		if f.Name() == "WriteAlignment" {
			return relPkg(c.P, f.Pkg.Pkg.Path())
		}
		return ""
	}
	rd := c.fn("cmd", "", "readalign")
	wr := c.fn("cmd", "", "writeAlign")
	var ref []string
	for _, x := range []struct {
		r    *fnRef
		pick func(*ssa.Function) string
		what string
	}{{rd, parserOf, "parser"}, {wr, writerOf, "writer"}} {
		if !x.r.ok() {
			continue
		}
		flags, pkgs, def := c.flagChain(x.r.F, x.pick)
		// readalign also has the auto-detect branch (rootAutoDetectInputFormat): drop flags that are not formats
		var fl, pk []string
		for i, f := range flags {
			if _, ok := want[f]; ok {
				fl = append(fl, f)
				pk = append(pk, pkgs[i])
			}
		}
		okAll := len(fl) == 4 && def == "io/fasta"
		for i, f := range fl {
			if want[f] != pk[i] {
				okAll = false
			}
		}
		L.Check(okAll, "format-dispatch", x.r.label, x.what+" per format flag", c.P.Pos(x.r.F.Pos()), fmt.Sprintf("%v → %v, otherwise %s", fl, pk, def),
			fmt.Sprintf("a format flag selects the %s of another format (or a format is missing): %v → %v, otherwise %s", x.what, fl, pk, def))
		if ref == nil {
			ref = fl
		} else {
			L.Check(strings.Join(ref, ",") == strings.Join(fl, ","), "format-dispatch", x.r.label, "same priority order as the reader", c.P.Pos(x.r.F.Pos()), strings.Join(fl, " > "), fmt.Sprintf("reader tests %v, writer tests %v: with two flags set the file is read as one format and written as another", ref, fl))
		}
	}
	// alignExtension: same flag order
	ex := c.fn("cmd", "", "alignExtension")
	if ex.ok() {
		var fl []string
		for _, b := range ex.F.Blocks {
			if ifi, ok := b.Instrs[len(b.Instrs)-1].(*ssa.If); ok {
				if u, ok := ifi.Cond.(*ssa.UnOp); ok {
					if g, ok := u.X.(*ssa.Global); ok {
						fl = append(fl, g.Name())
					}
				}
			}
		}
		if len(fl) == 0 {
			// the flags listed, in order, in a package-level table that the function walks
			allInstrs(ex.F, func(in ssa.Instruction) {
				if u, ok := in.(*ssa.UnOp); ok && u.Op == token.MUL && len(fl) == 0 {
					if g, ok := u.X.(*ssa.Global); ok {
						fl = c.globalTableFlagOrder(g)
					}
				}
			})
		}
		L.Check(strings.Join(ref, ",") == strings.Join(fl, ","), "format-dispatch", ex.label, "same priority order as the reader", c.P.Pos(ex.F.Pos()), strings.Join(fl, " > "), fmt.Sprintf("extension table tests %v, reader tests %v", fl, ref))
	}
	// library ReadAlign: format constants
	ra := c.fn("io/utils", "", "ReadAlign")
	if ra.ok() {
		pkgAlign := c.P.Pkg("align")
		got := map[int64]string{}
		def := ""
		var last *ssa.BasicBlock
		for _, b := range ra.F.Blocks {
			ifi, ok := b.Instrs[len(b.Instrs)-1].(*ssa.If)
			if !ok {
				continue
			}
			bo, ok := ifi.Cond.(*ssa.BinOp)
			if !ok || bo.Op != token.EQL {
				continue
			}
			k, ok := constInt(bo.Y)
			if !ok || bo.X != ssa.Value(paramByName(ra.F, "format")) {
				continue
			}
			var pk []string
			for bb := range branchRegion(ra.F, b, 0) {
				for _, in := range bb.Instrs {
					if cc := callOf(in); cc != nil {
						if f := cc.StaticCallee(); f != nil && f.Name() == "NewParser" {
							pk = append(pk, relPkg(c.P, f.Pkg.Pkg.Path()))
						}
					}
				}
			}
			if len(pk) == 1 {
				got[k] = pk[0]
				last = b
			}
		}
		if last != nil {
			for bb := range branchRegion(ra.F, last, 1) {
				for _, in := range bb.Instrs {
					if cc := callOf(in); cc != nil {
						if f := cc.StaticCallee(); f != nil && f.Name() == "NewParser" {
							def = relPkg(c.P, f.Pkg.Pkg.Path())
						}
					}
				}
			}
		}
		okAll := def == "io/fasta"
		for nm, pk := range map[string]string{"FORMAT_PHYLIP": "io/phylip", "FORMAT_NEXUS": "io/nexus", "FORMAT_CLUSTAL": "io/clustal"} {
			v := constByName(pkgAlign, nm)
			k, _ := cInt(v)
			if v == nil || got[k] != pk {
				okAll = false
			}
		}
		L.Check(okAll, "format-dispatch", ra.label, "parser per FORMAT_* constant", c.P.Pos(ra.F.Pos()), fmt.Sprintf("%v, otherwise %s", got, def), fmt.Sprintf("a FORMAT_* constant selects the parser of another format: %v, otherwise %s", got, def))
	}
	L.Floor("format-dispatch", 2, "reader, writer (+order), extension table, library ReadAlign (floor = half of the instances on the pinned tree: a clean-up may merge instances, a rule that sees nothing must still fail)")
}

// ---------------------------------------------------------------------------
// F5 Nexus keywords

func (c *Ctx) checkNexusKeywords() {
	L := c.L
	L.Rule("nexus-keywords", "every word of the constant strings written by nexus.WriteAlignment (split at the lexer's own delimiters, format verbs skipped) is, upper-cased, a case of the keyword switch of the Nexus lexer; the data type written for an alphabet is mapped back to that alphabet by align.AlphabetFromString")
	w := c.fn("io/nexus", "", "WriteAlignment")
	sc := c.fn("io/nexus", "*Scanner", "scanIdent")
	if !w.ok() || !sc.ok() {
		return
	}
	// lexer keywords: string constants compared with the upper-cased identifier
	keys := map[string]bool{}
	allInstrs(sc.F, func(in ssa.Instruction) {
		if bo, ok := in.(*ssa.BinOp); ok && bo.Op == token.EQL {
			if s, ok := cStr(constOf(bo.Y)); ok {
				keys[s] = true
			}
			if s, ok := cStr(constOf(bo.X)); ok {
				keys[s] = true
			}
		}
	})
	if len(keys) < 10 {
		// the keyword list as a package-level table looked up with the upper-cased identifier
		allInstrs(sc.F, func(in ssa.Instruction) {
			if lk, ok := in.(*ssa.Lookup); ok {
				if u, ok := lk.X.(*ssa.UnOp); ok && u.Op == token.MUL {
					if g, ok := u.X.(*ssa.Global); ok {
						for _, k := range c.globalStringMapKeys(g) {
							keys[k] = true
						}
					}
				}
			}
		})
	}
	if len(keys) < 10 {
		L.Unknown("nexus-keywords", sc.label, "keyword switch", c.P.Pos(sc.F.Pos()), fmt.Sprintf("only %d keyword comparisons found", len(keys)))
		return
	}
	var consts []string
	var visit func(fn *ssa.Function)
	visit = func(fn *ssa.Function) {
		allInstrs(fn, func(in ssa.Instruction) {
			cc := callOf(in)
			if cc == nil {
				return
			}
			for _, a := range cc.Args {
				if s, ok := cStr(constOf(a)); ok && s != "" {
					if f := cc.StaticCallee(); f != nil && (f.Name() == "WriteString" || f.Name() == "Sprintf") {
						consts = append(consts, s)
					}
				}
			}
		})
		for _, a := range fn.AnonFuncs {
			visit(a)
		}
	}
	visit(w.F)
	words := map[string]bool{}
	for _, s := range consts {
		for _, wd := range strings.FieldsFunc(s, func(r rune) bool {
			return r == ' ' || r == '\t' || r == '\n' || r == '\r' || r == ';' || r == '=' || r == '[' || r == ']'
		}) {
			if strings.HasPrefix(wd, "%") {
				continue
			}
			words[wd] = true
		}
	}
	var ws []string
	for k := range words {
		ws = append(ws, k)
	}
	sort.Strings(ws)
	for _, wd := range ws {
		L.Check(keys[strings.ToUpper(wd)], "nexus-keywords", w.label, "word "+wd, c.P.Pos(w.F.Pos()), "a keyword of the lexer", "the writer emits the word "+wd+" which the lexer does not know as a keyword: the parser treats it as a name")
	}
	// datatype strings
	okDT := false
	det := ""
	var tab = map[string]string{}
	if fd, pk := c.methodDecl("align", "", "AlphabetFromString"); fd != nil {
		ast.Inspect(fd, func(n ast.Node) bool {
			cc, ok := n.(*ast.CaseClause)
			if !ok || cc.List == nil {
				return true
			}
			ret := ""
			for _, s := range cc.Body {
				if rs, ok := s.(*ast.ReturnStmt); ok && len(rs.Results) == 1 {
					ret = types.ExprString(rs.Results[0])
				}
			}
			for _, e := range cc.List {
				if tv, ok := pk.TypesInfo.Types[e]; ok && tv.Value != nil && tv.Value.Kind() == constant.String {
					tab[constant.StringVal(tv.Value)] = ret
				}
			}
			return true
		})
	}
	// the writer's seqtype: φ(default, value under == AMINOACIDS)
	var dflt, amino string
	allInstrs(w.F, func(in ssa.Instruction) {
		if p, ok := in.(*ssa.Phi); ok {
			var ss []string
			for _, e := range p.Edges {
				if s, ok := cStr(constOf(e)); ok {
					ss = append(ss, s)
				}
			}
			if len(ss) == 2 && len(p.Edges) == 2 {
				// the edge coming from the branch block (not the entry) is the amino value
				for i, e := range p.Edges {
					s, _ := cStr(constOf(e))
					pred := p.Block().Preds[i]
					if len(pred.Preds) == 1 && len(pred.Instrs) == 1 {
						amino = s
					} else {
						dflt = s
					}
				}
			}
		}
	})
	// the same selection read from branch facts: the value that reaches the φ on an edge where
	// `alphabet == AMINOACIDS` is known true is the amino value, the other one the default (also
	// when the selection is a switch in a private helper, seen in the inlined view)
	if tab[amino] != "AMINOACIDS" || tab[dflt] != "NUCLEOTIDS" {
		aminoK := int64(-1)
		if k := constByName(c.P.Pkg("align"), "AMINOACIDS"); k != nil {
			if v, ok := cInt(k); ok {
				aminoK = v
			}
		}
		bf := computeBranchFacts(w.F)
		var cmps []*ssa.BinOp
		allInstrs(w.F, func(in ssa.Instruction) {
			if bo, ok := in.(*ssa.BinOp); ok && bo.Op == token.EQL {
				if k, ok := constInt(bo.Y); ok && k == aminoK {
					cmps = append(cmps, bo)
				}
			}
		})
		allInstrs(w.F, func(in ssa.Instruction) {
			p, ok := in.(*ssa.Phi)
			if !ok || len(p.Edges) != 2 {
				return
			}
			s0, ok0 := cStr(constOf(p.Edges[0]))
			s1, ok1 := cStr(constOf(p.Edges[1]))
			if !ok0 || !ok1 {
				return
			}
			for i, sv := range []string{s0, s1} {
				for _, cm := range cmps {
					if bf.knownOnEdge(p.Block().Preds[i], p.Block(), cm, true) {
						amino = sv
						dflt = []string{s1, s0}[i]
					}
				}
			}
		})
	}
	okDT = tab[amino] == "AMINOACIDS" && tab[dflt] == "NUCLEOTIDS"
	det = fmt.Sprintf("amino acids written as %q → %s, otherwise %q → %s", amino, tab[amino], dflt, tab[dflt])
	L.Check(okDT, "nexus-keywords", w.label, "datatype maps back to the alphabet", c.P.Pos(w.F.Pos()), det, "the data type written does not map back to the alignment's alphabet: "+det)
	L.Floor("nexus-keywords", 5, "writer words + datatype (floor = half of the instances on the pinned tree: a clean-up may merge instances, a rule that sees nothing must still fail)")
}

// ---------------------------------------------------------------------------
// F6 Nexus default symbols

func (c *Ctx) checkNexusDefaults() {
	L := c.L
	L.Rule("nexus-defaults", "each strings.Replace(seq, string(sym), string(K)) of the Nexus parser translates a symbol whose every default value (the constants that reach it when the file has no FORMAT directive, through Parse and parseData) equals the library constant K it is translated to: a file written by goalign, which declares no symbols, is read back unchanged")
	p := c.fn("io/nexus", "*Parser", "Parse")
	pd := c.fn("io/nexus", "*Parser", "parseData")
	if !p.ok() || !pd.ok() {
		return
	}
	// constants reaching result k of parseData
	resConsts := func(k int) []int64 {
		var out []int64
		allInstrs(pd.F, func(in ssa.Instruction) {
			rt, ok := in.(*ssa.Return)
			if !ok || k >= len(rt.Results) {
				return
			}
			for v := range throughPhis(rt.Results[k], false) {
				if n, ok := constInt(v); ok {
					out = append(out, n)
				}
			}
		})
		return out
	}
	n := 0
	allInstrs(p.F, func(in ssa.Instruction) {
		call, ok := in.(*ssa.Call)
		if !ok || !isPkgFunc(call.Common(), "strings", "Replace") {
			return
		}
		a := call.Common().Args
		to, ok := cStr(constOf(a[2]))
		if !ok || len(to) != 1 {
			return
		}
		cv, ok := a[1].(*ssa.Convert)
		if !ok {
			return
		}
		n++
		var defaults []int64
		for v := range throughPhis(cv.X, false) {
			if k, ok := constInt(v); ok {
				defaults = append(defaults, k)
			}
			if ex, ok := v.(*ssa.Extract); ok {
				if cl, ok := ex.Tuple.(*ssa.Call); ok && cl.Common().StaticCallee() == pd.F {
					defaults = append(defaults, resConsts(ex.Index)...)
				}
			}
		}
		okAll := len(defaults) > 0
		var ds []string
		for _, d := range defaults {
			ds = append(ds, fmt.Sprintf("%q", rune(d)))
			if string(rune(d)) != to {
				okAll = false
			}
		}
		ds = dedupe(ds)
		L.Check(okAll, "nexus-defaults", p.label, fmt.Sprintf("symbol translated to %q", to), c.P.Pos(call.Pos()), "default value(s) "+strings.Join(ds, ",")+" equal the target", fmt.Sprintf("a default symbol %s is translated to %q: a residue %s written by goalign comes back as %q", strings.Join(ds, ","), to, strings.Join(ds, ","), to))
	})
	if n < 3 {
		L.Bad("nexus-defaults", p.label, "gap, missing and match translations", c.P.Pos(p.F.Pos()), fmt.Sprintf("%d symbol translations found, want 3", n))
	}
	L.Floor("nexus-defaults", 1, "gap, missing, matchchar (floor = half of the instances on the pinned tree: a clean-up may merge instances, a rule that sees nothing must still fail)")
}
