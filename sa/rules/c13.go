package rules

import (
	"sort"
	"fmt"
	"go/token"
	"go/types"
	"strings"

	"golang.org/x/tools/go/ssa"
)

func init() {
	register(&Property{ID: "C13", Run: runC13,
		Explanation: "Static decision of the structural clauses of C13. Deduplicate: the comparison key folds the wildcard of the bag's own alphabet into the gap character (type-resolved constants under the controlling alphabet comparison), the sequence re-added is the unfolded original, the block that re-adds a row opens its group with the same name and records the group index under the comparison key, the other arm appends the name to the group found under the same key, rows are visited in their original order (the old row list is saved before the container is cleared). Compress: every site increments exactly one pattern counter by one (so the weights sum to the original length), the counter is a full-width int, a new pattern is counted exactly when it was not found, the weight vector has one entry per pattern, the weight and the rewritten column of a pattern use the same pattern index which advances once per pattern, rows are truncated to the number of patterns and the cached length is set to the same value. Not decided: first-occurrence semantics on data, idempotence, that distinct patterns stay distinct in the radix tree (library behaviour)."})
}

func runC13(c *Ctx) {
	L := c.L
	c.checkConfigWriters("container-config")
	L.Rule("alphabet-wildcard", "an alphabet-specific constant is used only where the controlling alphabet comparisons select its own alphabet")
	c.checkAlphabetConsts("alphabet-wildcard", c.withHelperDecls("align", "*seqbag", "Deduplicate"))
	L.Floor("alphabet-wildcard", 2, "ALL_AMINO and ALL_NUCLE in Deduplicate")
	c.checkDeduplicate()
	c.checkCompress()
	c.checkStaleState("stale-iteration-state", "align")
	c.L.Floor("stale-iteration-state", 2, "two listed state machines of package align plus the scope line")
}

// tableStringValues: v is a lookup in a package-level map of package align whose initialiser is a
// literal with constant string values; returns those values.
func (c *Ctx) tableStringValues(v ssa.Value) ([]string, bool) {
	lk, ok := v.(*ssa.Lookup)
	if !ok {
		return nil, false
	}
	ld, ok := lk.X.(*ssa.UnOp)
	if !ok {
		return nil, false
	}
	g, ok := ld.X.(*ssa.Global)
	if !ok {
		return nil, false
	}
	t, err := findTable(c.P.Pkg("align"), g.Name())
	if err != nil {
		return nil, false
	}
	kvs, ok := t.Val.([]kv)
	if !ok || len(kvs) == 0 {
		return nil, false
	}
	var out []string
	for _, e := range kvs {
		s, ok := cStr(e.V)
		if !ok {
			return nil, false
		}
		out = append(out, s)
	}
	return out, true
}

func (c *Ctx) checkDeduplicate() {
	L := c.L
	L.Rule("dedup-fold", "the comparison key is strings.ReplaceAll(row, wildcard, GAP) of the row's own residues (or the row itself)")
	L.Rule("dedup-keeps-original", "the sequence handed to AddSequence for a kept row is the unfolded string of the row's residues, under the row's own name and comment")
	L.Rule("dedup-groups", "the map from comparison key to group index is read and written with the same key value; the arm that re-adds the row appends a new group []string{row name} and stores len(groups)-1 under the key; the other arm appends the row name to the group found under the key; exactly one of the two happens per row")
	L.Rule("dedup-order", "the loop ranges over the row list loaded before Clear() is called")
	r := c.fn("align", "*seqbag", "Deduplicate")
	if !r.ok() {
		return
	}
	fn := r.F
	gap := "-"
	if g := constByName(c.P.Pkg("align"), "GAP"); g != nil {
		if k, ok := cInt(g); ok {
			gap = string(rune(k))
		}
	}
	// the row string s = string(seq.sequence)
	var sVals []ssa.Value
	allInstrs(fn, func(in ssa.Instruction) {
		if cv, ok := in.(*ssa.Convert); ok {
			if _, f, base := loadedField(cv.X); base != nil && f == "sequence" {
				if b, ok := cv.Type().Underlying().(*types.Basic); ok && b.Info()&types.IsString != 0 {
					sVals = append(sVals, cv)
				}
			}
		}
	})
	isRowString := func(v ssa.Value) bool {
		for _, s := range sVals {
			if s == v {
				return true
			}
		}
		return false
	}
	// fold calls, in the function or in the helpers of the module it computes the key with
	nFold := 0
	isFold := func(cc *ssa.CallCommon) bool {
		return isPkgFunc(cc, "strings", "ReplaceAll") || isPkgFunc(cc, "strings", "Replace")
	}
	c.ipWalk(rootFrame(fn), func(in ssa.Instruction, fr *ipFrame) bool {
		call, ok := in.(*ssa.Call)
		if !ok {
			return false
		}
		cc := call.Common()
		if !isFold(cc) {
			return false
		}
		nFold++
		sv, sfr := fr.resolveDeep(cc.Args[0])
		src := sfr.up == nil && isRowString(sv)
		to, _ := cStr(constOf(cc.Args[2]))
		all := true
		if isPkgFunc(cc, "strings", "Replace") {
			n, isN := constInt(cc.Args[3])
			all = isN && n < 0
		}
		// the wildcard folded: a constant, or a variable chosen once before the loop (a φ of
		// constants); the empty string may be among its values only if the call is reached under
		// `wildcard != ""`
		wv, wfr := fr.resolveDeep(cc.Args[1])
		var froms []string
		okLeaves := true
		for lf := range throughPhis(wv, false) {
			if _, isPhi := lf.(*ssa.Phi); isPhi {
				continue
			}
			if sc, ok := cStr(constOf(lf)); ok {
				froms = append(froms, sc)
			} else if ex, isEx := lf.(*ssa.Extract); isEx && ex.Index == 0 {
				// a value looked up in a package-level table of the wildcards, keyed by the alphabet
				vals, okT := c.tableStringValues(ex.Tuple)
				if okT {
					froms = append(froms, vals...)
				} else {
					okLeaves = false
				}
			} else if lk, isLk := lf.(*ssa.Lookup); isLk {
				vals, okT := c.tableStringValues(lk)
				if okT {
					froms = append(froms, vals...)
				} else {
					okLeaves = false
				}
			} else if cv, isCv := lf.(*ssa.Convert); isCv {
				if k, ok := constInt(cv.X); ok {
					froms = append(froms, string(rune(k)))
				} else {
					okLeaves = false
				}
			} else {
				okLeaves = false
			}
		}
		sort.Strings(froms)
		guardedNonEmpty := false
		if wfr.fn == call.Parent() || true {
			bf := computeBranchFacts(call.Parent())
			allInstrs(call.Parent(), func(in2 ssa.Instruction) {
				bo, ok := in2.(*ssa.BinOp)
				if !ok || (bo.Op != token.NEQ && bo.Op != token.EQL) {
					return
				}
				if (bo.X == cc.Args[1] && isEmptyString(bo.Y)) || (bo.Y == cc.Args[1] && isEmptyString(bo.X)) {
					if bf.knownAt(call.Block(), bo, bo.Op == token.NEQ) {
						guardedNonEmpty = true
					}
				}
			})
		}
		if !okLeaves || len(froms) == 0 {
			L.Bad("dedup-fold", r.label, "fold ? → "+to, c.P.Pos(call.Pos()), "the character folded into the gap is not a constant wildcard")
			return true
		}
		for _, from := range froms {
			if from == "" {
				if !guardedNonEmpty {
					L.Bad("dedup-fold", r.label, "fold \"\" → "+to, c.P.Pos(call.Pos()), "ReplaceAll can be called with an empty pattern (it would insert the gap between all characters)")
				}
				continue
			}
			okW := from == "N" || from == "X"
			L.Check(src && to == gap && okW && all, "dedup-fold", r.label, "fold "+from+" → "+to, c.P.Pos(call.Pos()), "ReplaceAll(row, wildcard, GAP) on the row's own residues",
				fmt.Sprintf("the comparison key is not the row with every wildcard replaced by the gap (source is the row: %v, from %q to %q, all occurrences: %v)", src, from, to, all))
		}
		return true
	})
	L.Floor("dedup-fold", 2, "one fold per alphabet")

	// the re-add call
	var add *ssa.Call
	allInstrs(fn, func(in ssa.Instruction) {
		if call, ok := in.(*ssa.Call); ok {
			if f := call.Common().StaticCallee(); f != nil && (f.Name() == "AddSequence" || f.Name() == "AddSequenceChar") {
				add = call
			}
		}
	})
	if add == nil {
		L.Bad("dedup-keeps-original", r.label, "re-add call", c.P.Pos(fn.Pos()), "no AddSequence call: kept rows are not re-added")
		return
	}
	a := add.Common().Args
	nameOK, seqOK, comOK := false, false, false
	var rowOfName ssa.Value
	if _, f, base := loadedField(a[1]); base != nil && f == "name" {
		nameOK, rowOfName = true, base
	}
	seqArg := stripConv(a[2])
	if isRowString(a[2]) {
		seqOK = true
	} else if _, f, base := loadedField(seqArg); base != nil && f == "sequence" {
		seqOK = true
	}
	if _, f, base := loadedField(a[3]); base != nil && f == "comment" && base == rowOfName {
		comOK = true
	}
	L.Check(nameOK && seqOK && comOK, "dedup-keeps-original", r.label, "AddSequence(row.name, string(row.sequence), row.comment)", c.P.Pos(add.Pos()),
		"the kept row is re-added with its own name, its unfolded residues and its comment",
		fmt.Sprintf("the kept row is not re-added as it was (own name: %v, unfolded residues: %v, own comment: %v): with nAsGap the representative's N/X would be rewritten", nameOK, seqOK, comOK))
	L.Floor("dedup-keeps-original", 1, "one call")

	// groups
	var lk *ssa.Lookup
	var upd *ssa.MapUpdate
	allInstrs(fn, func(in ssa.Instruction) {
		switch x := in.(type) {
		case *ssa.Lookup:
			if _, isMap := x.X.Type().Underlying().(*types.Map); isMap && x.CommaOk {
				lk = x
			}
		case *ssa.MapUpdate:
			upd = x
		}
	})
	okKey := lk != nil && upd != nil && lk.X == upd.Map && lk.Index == upd.Key
	// key is the folded/unfolded compare string: φ over fold results and the row string
	okKeySrc := false
	if lk != nil {
		okKeySrc = true
		var leaf func(v ssa.Value, fr *ipFrame, depth int)
		leaf = func(v ssa.Value, fr *ipFrame, depth int) {
			for w := range throughPhis(v, false) {
				switch x := w.(type) {
				case *ssa.Phi:
				case *ssa.Call:
					if isFold(x.Common()) {
						continue
					}
					// a helper of the module that returns the key: each value it returns is a key source
					if g := c.expandable(x, fr); g != nil && depth < 3 {
						nfr := &ipFrame{fn: g, site: x, up: fr}
						allInstrs(g, func(in ssa.Instruction) {
							if ret, ok := in.(*ssa.Return); ok && len(ret.Results) == 1 {
								leaf(ret.Results[0], nfr, depth+1)
							}
						})
						continue
					}
					okKeySrc = false
				case *ssa.Const:
					// zero value of the variable declared before the loop
				case *ssa.UnOp:
					if _, f, base := loadedField(x); base == nil || f != "sequence" {
						okKeySrc = false
					}
				case *ssa.Parameter:
					rv, rfr := fr.resolveDeep(x)
					if rfr.up != nil || !isRowString(rv) {
						okKeySrc = false
					}
				default:
					if fr.up != nil || !isRowString(w) {
						okKeySrc = false
					}
				}
			}
		}
		leaf(lk.Index, rootFrame(fn), 0)
	}
	// new group in the add block: MapUpdate value = len(appended)-1, same block region as add
	// (decided on lengths, so `groups = append(groups, g); m[k] = len(groups)-1` and
	// `m[k] = len(groups); groups = append(groups, g)` are the same thing)
	okNew := false
	if upd != nil {
		glc := newLinCtx(c, fn)
		allInstrs(fn, func(in ssa.Instruction) {
			ap, ok := in.(*ssa.Call)
			if !ok || builtinName(ap.Common()) != "append" {
				return
			}
			sl, ok := ap.Type().Underlying().(*types.Slice)
			if !ok {
				return
			}
			if _, ok := sl.Elem().Underlying().(*types.Slice); !ok {
				return // not the list of groups
			}
			if !(add.Block().Dominates(ap.Block())) || !(add.Block().Dominates(upd.Block())) {
				return
			}
			if glc.of(upd.Value).equal(glc.lenOf(ap.Common().Args[0])) {
				okNew = true
			}
		})
	}
	// exactly one of {add, append to existing group} per row
	lp := innermostLoopOf(naturalLoops(fn), add.Block())
	var groupAppend ssa.Instruction
	allInstrs(fn, func(in ssa.Instruction) {
		st, ok := in.(*ssa.Store)
		if !ok {
			return
		}
		ia, ok := st.Addr.(*ssa.IndexAddr)
		if !ok {
			return
		}
		if _, isAl := ia.X.(*ssa.Alloc); isAl {
			return
		}
		if sl, ok := ia.X.Type().Underlying().(*types.Slice); ok {
			if _, ok := sl.Elem().Underlying().(*types.Slice); ok {
				// identical[i] = append(identical[i], name)
				if lk != nil {
					for _, ref := range *lk.Referrers() {
						if ex, ok := ref.(*ssa.Extract); ok && ex.Index == 0 && ia.Index == ssa.Value(ex) {
							groupAppend = st
						}
					}
				}
			}
		}
	})
	okOne := false
	if lp != nil && groupAppend != nil {
		cnt := eventCounts(lp, func(in ssa.Instruction) bool { return in == ssa.Instruction(add) || in == groupAppend })
		// the error exit after a failed AddSequence leaves the function, so {1} on completed iterations
		okOne = len(cnt) == 1 && cnt[1]
	}
	// every group that is recorded goes with a re-added row: no append to the list of groups
	// outside the arm that re-adds (a shortcut that lists the rows without putting them back
	// leaves the cleared container empty)
	strayGroups := 0
	allInstrs(fn, func(in ssa.Instruction) {
		ap, ok := in.(*ssa.Call)
		if !ok || builtinName(ap.Common()) != "append" {
			return
		}
		sl, ok := ap.Type().Underlying().(*types.Slice)
		if !ok {
			return
		}
		if _, ok := sl.Elem().Underlying().(*types.Slice); !ok {
			return
		}
		if !add.Block().Dominates(ap.Block()) {
			strayGroups++
		}
	})
	if strayGroups > 0 {
		okNew = false
	}
	L.Check(okKey && okKeySrc && okNew && okOne, "dedup-groups", r.label, "group bookkeeping", c.P.Pos(add.Pos()),
		"same key for lookup and update; new group index = len(groups)-1 stored in the arm that re-adds; names of duplicates appended to the group found; exactly one of the two per row",
		fmt.Sprintf("group bookkeeping broken (same key: %v, key is the comparison string: %v, new group recorded with the re-add: %v, exactly one of re-add/append per row: %v)", okKey, okKeySrc, okNew, okOne))
	L.Floor("dedup-groups", 1, "one loop")

	// order: oldseqs loaded before Clear
	var clear ssa.Instruction
	allInstrs(fn, func(in ssa.Instruction) {
		if isCallToMethod(in, "seqbag", "Clear") {
			clear = in
		}
	})
	okOrder := false
	if clear != nil && lp != nil {
		lc := newLinCtx(c, fn)
		for _, rl := range lc.rangeLoopsOver(fn, func(v ssa.Value) bool {
			_, f, base := loadedField(v)
			if base == nil || f != "seqs" {
				return false
			}
			ld, ok := v.(*ssa.UnOp)
			return ok && instrDominates(ld, clear)
		}) {
			if rl.lp.Head == lp.Head {
				okOrder = true
			}
		}
	}
	L.Check(okOrder, "dedup-order", r.label, "range over the rows saved before Clear()", c.P.Pos(fn.Pos()), "the loop ranges over the row list loaded before the container is cleared, in index order", "the row loop does not range over the row list saved before Clear(): rows are lost or revisited")
	L.Floor("dedup-order", 1, "one loop")
}

// walkIndexStartsAtZero: the cell bound to free variable fv of the walk callback cl holds the
// constant 0 on every path to the call that receives the callback (forward constant propagation
// on that one cell; any non-constant store or earlier use of the callback gives "unknown").
func walkIndexStartsAtZero(fn, cl *ssa.Function, fv *ssa.FreeVar) bool {
	var mc *ssa.MakeClosure
	allInstrs(fn, func(in ssa.Instruction) {
		if m, ok := in.(*ssa.MakeClosure); ok && m.Fn == ssa.Value(cl) {
			mc = m
		}
	})
	if mc == nil {
		return false
	}
	var cell ssa.Value
	for i, f := range cl.FreeVars {
		if f == fv && i < len(mc.Bindings) {
			cell = mc.Bindings[i]
		}
	}
	if cell == nil {
		return false
	}
	// the call that takes the closure
	var walk ssa.Instruction
	var findCall func(v ssa.Value, depth int)
	findCall = func(v ssa.Value, depth int) {
		if refs := v.Referrers(); refs != nil && depth < 3 {
			for _, ref := range *refs {
				switch x := ref.(type) {
				case *ssa.Call:
					walk = x
				case *ssa.ChangeType:
					findCall(x, depth+1)
				}
			}
		}
	}
	findCall(mc, 0)
	if walk == nil {
		// the callback is kept in a variable that the walk callback captures and calls
		if relay := relayClosureOf(fn, mc); relay != nil {
			findCall(relay, 0)
		}
	}
	if walk == nil {
		return false
	}
	const (
		unreached = iota
		zero
		unknown
	)
	state := map[*ssa.BasicBlock]int{}
	transfer := func(b *ssa.BasicBlock, st int, upto ssa.Instruction) int {
		for _, in := range b.Instrs {
			if in == upto {
				return st
			}
			if a, ok := in.(*ssa.Alloc); ok && ssa.Value(a) == cell {
				st = zero // a fresh variable holds the zero value
			}
			if s, ok := in.(*ssa.Store); ok && s.Addr == cell {
				if k, ok := constInt(s.Val); ok && k == 0 {
					st = zero
				} else {
					st = unknown
				}
			}
		}
		return st
	}
	in := map[*ssa.BasicBlock]int{fn.Blocks[0]: unknown}
	work := []*ssa.BasicBlock{fn.Blocks[0]}
	for len(work) > 0 {
		b := work[0]
		work = work[1:]
		out := transfer(b, in[b], nil)
		state[b] = out
		for _, sc := range b.Succs {
			n := in[sc]
			switch {
			case n == unreached:
				n = out
			case n != out:
				n = unknown
			}
			if n != in[sc] {
				in[sc] = n
				work = append(work, sc)
			}
		}
	}
	return transfer(walk.Block(), in[walk.Block()], walk) == zero
}

func (c *Ctx) checkCompress() {
	L := c.L
	L.Rule("compress-count", "in the site loop every iteration increments exactly one pattern counter by one and inserts the pattern once; the counter has type int; a new pattern is counted (npat++) exactly on the not-found branch of the lookup, with a counter starting at 0")
	L.Rule("compress-weights", "weights has one entry per counted pattern; inside the pattern walk the weight index and the rewritten column index are the same variable, which is 0 when the walk starts and is incremented exactly once per pattern after both uses (variables identified by role, not by name)")
	L.Rule("compress-length", "rows are truncated to [:npat] and the cached length is set to npat (same variable, no store in between)")
	r := c.fn("align", "*align", "Compress")
	if !r.ok() {
		return
	}
	fn := r.F
	loops := naturalLoops(fn)
	// count increment: store to field `count` of load+1
	var incSt *ssa.Store
	var incOp *ssa.BinOp
	allInstrs(fn, func(in ssa.Instruction) {
		st, ok := in.(*ssa.Store)
		if !ok {
			return
		}
		fa, ok := st.Addr.(*ssa.FieldAddr)
		if !ok || fieldName(fa.X.Type(), fa.Field) != "count" {
			return
		}
		if bo, ok := st.Val.(*ssa.BinOp); ok && bo.Op == token.ADD {
			if k, ok := constInt(bo.Y); ok && k == 1 {
				incSt, incOp = st, bo
			}
		}
	})
	var npatCell ssa.Value // cell form
	var npatPhi *ssa.Phi   // register form
	if incSt == nil {
		// not the `rec.count++` shape: decide the same clause on the two classes of iterations
		ok, det := c.compressCountByPaths(fn)
		L.Check(ok, "compress-count", r.label, "one count++ and one Insert per site", c.P.Pos(fn.Pos()), det,
			"site counting broken: "+det+": weights no longer sum to the alignment length")
	} else {
		lp := innermostLoopOf(loops, incSt.Block())
		var ins ssa.Instruction
		var get *ssa.Call
		allInstrs(fn, func(in ssa.Instruction) {
			if call, ok := in.(*ssa.Call); ok {
				if f := call.Common().StaticCallee(); f != nil && f.Pkg != nil && strings.HasSuffix(f.Pkg.Pkg.Path(), "go-radix") {
					switch f.Name() {
					case "Insert":
						ins = in
					case "Get":
						get = call
					}
				}
			}
		})
		okOnce := false
		if lp != nil && ins != nil {
			c1 := eventCounts(lp, func(in ssa.Instruction) bool { return in == ssa.Instruction(incSt) })
			c2 := eventCounts(lp, func(in ssa.Instruction) bool { return in == ins })
			okOnce = len(c1) == 1 && c1[1] && len(c2) == 1 && c2[1]
		}
		bt, _ := incOp.Type().Underlying().(*types.Basic)
		okType := bt != nil && bt.Kind() == types.Int
		// same key for Get and Insert, value inserted = the record that was incremented
		okKey := false
		if get != nil && ins != nil {
			ic := callOf(ins)
			okKey = ic.Args[1] == get.Common().Args[1]
		}
		// new pattern: the pattern counter is incremented by one exactly on the not-found branch of the
		// lookup, where the record is created with count 0. The counter is a cell (captured by the
		// walk callback) or a register (a φ of the site loop): identified by role, not by name.
		okNew := false
		if get != nil && lp != nil {
			for _, ref := range *get.Referrers() {
				ex, ok := ref.(*ssa.Extract)
				if !ok || ex.Index != 1 {
					continue
				}
				for _, rr := range *ex.Referrers() {
					ifi, ok := rr.(*ssa.If)
					if !ok {
						continue
					}
					nf := ifi.Block().Succs[1]
					nInc, zero := 0, false
					for _, in := range nf.Instrs {
						if st, ok := in.(*ssa.Store); ok {
							if bo, ok := st.Val.(*ssa.BinOp); ok && bo.Op == token.ADD {
								if k, ok := constInt(bo.Y); ok && k == 1 {
									if u, ok := bo.X.(*ssa.UnOp); ok && u.X == st.Addr {
										if _, isCell := st.Addr.(*ssa.Alloc); isCell {
											nInc++
											npatCell = st.Addr
										}
									}
								}
							}
							if fa, ok := st.Addr.(*ssa.FieldAddr); ok && fieldName(fa.X.Type(), fa.Field) == "count" {
								if k, ok := constInt(st.Val); ok && k == 0 {
									zero = true
								}
							}
						}
						if bo, ok := in.(*ssa.BinOp); ok && bo.Op == token.ADD && isIntType(bo.Type()) {
							if k, ok := constInt(bo.Y); ok && k == 1 {
								if ph, ok := bo.X.(*ssa.Phi); ok && ph.Block() == lp.Head {
									// every value the φ takes from inside the loop is itself or this increment
									okEdges := true
									for i, e := range ph.Edges {
										if !lp.Blocks[ph.Block().Preds[i]] {
											if k0, ok := constInt(e); !ok || k0 != 0 {
												okEdges = false
											}
											continue
										}
										seen := map[ssa.Value]bool{ssa.Value(ph): true}
										var leaves func(v ssa.Value)
										leaves = func(v ssa.Value) {
											if seen[v] {
												return
											}
											seen[v] = true
											if q, isPhi := v.(*ssa.Phi); isPhi {
												for _, qe := range q.Edges {
													leaves(qe)
												}
												return
											}
											if v != ssa.Value(bo) {
												okEdges = false
											}
										}
										leaves(e)
									}
									if okEdges {
										nInc++
										npatPhi = ph
									}
								}
							}
						}
					}
					// the found branch must not touch the counter
					okNew = nInc == 1 && zero
				}
			}
		}
		if npatCell != nil && lp != nil {
			// no other store to the counter inside the site loop
			n := 0
			for _, ref := range *npatCell.Referrers() {
				if st, ok := ref.(*ssa.Store); ok && lp.Blocks[st.Block()] {
					n++
					if bo, ok := st.Val.(*ssa.BinOp); !ok || bo.Op != token.ADD {
						okNew = false
					}
				}
			}
			if n != 1 {
				okNew = false
			}
		}
		L.Check(okOnce && okType && okKey && okNew, "compress-count", r.label, "one count++ and one Insert per site", c.P.Pos(incSt.Pos()),
			"every site increments exactly one int counter by one; the record is inserted under the key it was looked up with; npat++ and a zero counter exactly when the pattern is new",
			fmt.Sprintf("site counting broken (exactly one count++ and one Insert per site: %v; counter type is int: %v [%v]; same key for Get and Insert: %v; new pattern ⇔ npat++ with a zero counter: %v): weights no longer sum to the alignment length", okOnce, okType, incOp.Type(), okKey, okNew))
	}
	L.Floor("compress-count", 1, "site loop")

	// weights
	okLen := false
	allInstrs(fn, func(in ssa.Instruction) {
		if mk, ok := in.(*ssa.MakeSlice); ok {
			isCount := false
			if u, ok := mk.Len.(*ssa.UnOp); ok && npatCell != nil && u.X == npatCell {
				isCount = true
			}
			if npatPhi != nil && mk.Len == ssa.Value(npatPhi) {
				isCount = true
			}
			// the number of distinct patterns asked from the pattern table itself
			if call, ok := mk.Len.(*ssa.Call); ok {
				if f := call.Common().StaticCallee(); f != nil && f.Name() == "Len" && f.Pkg != nil && strings.HasSuffix(f.Pkg.Pkg.Path(), "go-radix") {
					isCount = true
				}
			}
			if isCount {
				if sl, ok := mk.Type().Underlying().(*types.Slice); ok {
					if b, ok := sl.Elem().Underlying().(*types.Basic); ok && b.Kind() == types.Int {
						okLen = true
					}
				}
			}
		}
	})
	// the Walk closure
	okWalk := false
	det := "walk callback not found"
	for _, cl := range fn.AnonFuncs {
		var wIdx, colIdx ssa.Value
		var inc *ssa.Store
		nStoreFV := 0
		okVal := false
		allInstrs(cl, func(in ssa.Instruction) {
			st, ok := in.(*ssa.Store)
			if !ok {
				return
			}
			if ia, ok := st.Addr.(*ssa.IndexAddr); ok {
				if sl, ok := ia.X.Type().Underlying().(*types.Slice); ok {
					if b, ok := sl.Elem().Underlying().(*types.Basic); ok {
						if b.Kind() == types.Int {
							wIdx = ia.Index
							// the stored weight is the counter, without narrowing
							v := st.Val
							if cv, ok := v.(*ssa.Convert); ok {
								if sb, ok := cv.X.Type().Underlying().(*types.Basic); ok && intWidth(sb) < 64 {
									okVal = false
									return
								}
								v = cv.X
							}
							// the weight is a parameter of this callback, which the walk callback calls
							// through a captured variable with the record's counter as argument
							if pv, isParam := v.(*ssa.Parameter); isParam {
								if relayPassesCounter(fn, cl, pv) {
									okVal = true
								}
							}
							if u, ok := v.(*ssa.UnOp); ok {
								if fa, ok := u.X.(*ssa.FieldAddr); ok && fieldName(fa.X.Type(), fa.Field) == "count" {
									okVal = true
								}
								// the record handed to the callback: its int field, or the *int itself
								rec := u.X
								if fa, ok := rec.(*ssa.FieldAddr); ok && isIntType(u.Type()) {
									rec = fa.X
								}
								if ta, ok := rec.(*ssa.TypeAssert); ok && isIntType(u.Type()) {
									if p, ok := ta.X.(*ssa.Parameter); ok && len(cl.Params) >= 2 && p == cl.Params[1] {
										okVal = true
									}
								}
							}
						}
						if b.Kind() == types.Uint8 {
							colIdx = ia.Index
						}
					}
				}
			}
			if fv, ok := st.Addr.(*ssa.FreeVar); ok && isIntType(fv.Type().Underlying().(*types.Pointer).Elem()) {
				nStoreFV++
				inc = st
			}
		})
		if wIdx == nil || colIdx == nil {
			continue
		}
		loadOf := func(v ssa.Value) *ssa.FreeVar {
			if u, ok := v.(*ssa.UnOp); ok {
				if fv, ok := u.X.(*ssa.FreeVar); ok {
					return fv
				}
			}
			return nil
		}
		fw, fc := loadOf(wIdx), loadOf(colIdx)
		same := fw != nil && fw == fc
		// the shared index is 0 when the walk starts
		startZero := false
		if same {
			startZero = walkIndexStartsAtZero(fn, cl, fw)
		}
		incOK := false
		if inc != nil && nStoreFV == 1 && inc.Addr == ssa.Value(fw) {
			if bo, ok := inc.Val.(*ssa.BinOp); ok && bo.Op == token.ADD {
				if k, ok := constInt(bo.Y); ok && k == 1 {
					// after both uses, on every path to return
					pd := newPostDom(cl, nil)
					incOK = true
					allInstrs(cl, func(in ssa.Instruction) {
						if st, ok := in.(*ssa.Store); ok && st != inc {
							if _, ok := st.Addr.(*ssa.IndexAddr); ok {
								if !pd.instrPostDominates(inc, st) {
									incOK = false
								}
							}
						}
					})
				}
			}
		}
		okWalk = same && incOK && okVal && startZero
		det = fmt.Sprintf("weight index and column index are the same variable: %v; it is 0 when the walk starts: %v; it is incremented exactly once per pattern after both uses: %v; the weight stored is the full-width counter: %v", same, startZero, incOK, okVal)
	}
	appendForm := false
	if !(okLen && okWalk) {
		// the list of weights grown by the walk itself: column index = len(weights) before the
		// callback appends the counter, once, on every path
		if ok, d2 := compressAppendForm(fn); ok {
			okLen, okWalk, det, appendForm = true, true, d2, true
		}
	}
	L.Check(okLen && okWalk, "compress-weights", r.label, "weights[k] and column k of the k-th pattern", c.P.Pos(fn.Pos()), "weights = make([]int, npat); "+det, fmt.Sprintf("weights has npat entries: %v; %s", okLen, det))
	L.Floor("compress-weights", 1, "pattern walk")

	lc := newLinCtx(c, fn)
	okLength := sameStableCell(fn, lc)
	if !okLength && appendForm {
		okLength = compressLengthFromList(fn)
	}
	L.Check(okLength, "compress-length", r.label, "rows[:npat] and length = npat", c.P.Pos(fn.Pos()), "same variable, no store or closure creation in between", "row truncation and cached length use different values")
	L.Floor("compress-length", 1, "one function")
}

// relayClosureOf: mc (a closure value) is stored once into a local cell that another closure of fn
// captures; returns that other closure's MakeClosure (`each(func(...){ visit(...) })` inlined:
// visit lives in a cell captured by the walk callback).
func relayClosureOf(fn *ssa.Function, mc *ssa.MakeClosure) *ssa.MakeClosure {
	var cell ssa.Value
	for _, ref := range *mc.Referrers() {
		if st, ok := ref.(*ssa.Store); ok && st.Val == ssa.Value(mc) {
			if a, ok := st.Addr.(*ssa.Alloc); ok {
				n := 0
				for _, r2 := range *a.Referrers() {
					if _, isSt := r2.(*ssa.Store); isSt {
						n++
					}
				}
				if n == 1 {
					cell = a
				}
			}
		}
	}
	if cell == nil {
		return nil
	}
	var out *ssa.MakeClosure
	allInstrs(fn, func(in ssa.Instruction) {
		if m, ok := in.(*ssa.MakeClosure); ok && m != mc {
			for _, b := range m.Bindings {
				if b == cell {
					out = m
				}
			}
		}
	})
	return out
}

// relayPassesCounter: cl is called only through such a relay closure, and the argument passed for
// parameter pv is the int counter of the record that the relay receives from the walk (the field of
// the type-asserted second parameter, or the pointed-to int).
func relayPassesCounter(fn, cl *ssa.Function, pv *ssa.Parameter) bool {
	var mc *ssa.MakeClosure
	allInstrs(fn, func(in ssa.Instruction) {
		if m, ok := in.(*ssa.MakeClosure); ok && m.Fn == ssa.Value(cl) {
			mc = m
		}
	})
	if mc == nil {
		return false
	}
	relay := relayClosureOf(fn, mc)
	if relay == nil {
		return false
	}
	rf, ok := relay.Fn.(*ssa.Function)
	if !ok || len(rf.Params) < 2 {
		return false
	}
	pidx := -1
	for i, p := range cl.Params {
		if p == pv {
			pidx = i
		}
	}
	good, n := true, 0
	allInstrs(rf, func(in ssa.Instruction) {
		call, ok := in.(*ssa.Call)
		if !ok || call.Common().IsInvoke() {
			return
		}
		// a call through a loaded free variable
		u, ok := call.Common().Value.(*ssa.UnOp)
		if !ok {
			return
		}
		if _, isFV := u.X.(*ssa.FreeVar); !isFV {
			return
		}
		if pidx < 0 || pidx >= len(call.Common().Args) {
			good = false
			return
		}
		n++
		a := call.Common().Args[pidx]
		ld, ok := a.(*ssa.UnOp)
		if !ok {
			good = false
			return
		}
		rec := ld.X
		if fa, ok := rec.(*ssa.FieldAddr); ok {
			rec = fa.X
		}
		ta, ok := rec.(*ssa.TypeAssert)
		if !ok || ta.X != ssa.Value(rf.Params[1]) || !isIntType(ld.Type()) {
			good = false
		}
	})
	return good && n == 1
}

// compressAppendForm: the weights are a captured slice that is empty when the walk starts; the
// callback writes the pattern at column len(weights) (read before anything is appended) and then
// appends the record's counter exactly once on every path.
func compressAppendForm(fn *ssa.Function) (bool, string) {
	for _, cl := range fn.AnonFuncs {
		// the captured []int cell
		var wfv *ssa.FreeVar
		for _, fv := range cl.FreeVars {
			if p, ok := fv.Type().Underlying().(*types.Pointer); ok {
				if sl, ok := p.Elem().Underlying().(*types.Slice); ok {
					if b, ok := sl.Elem().Underlying().(*types.Basic); ok && b.Kind() == types.Int {
						wfv = fv
					}
				}
			}
		}
		if wfv == nil {
			continue
		}
		var stores []*ssa.Store
		var colStores []*ssa.Store
		allInstrs(cl, func(in ssa.Instruction) {
			st, ok := in.(*ssa.Store)
			if !ok {
				return
			}
			if st.Addr == ssa.Value(wfv) {
				stores = append(stores, st)
			}
			if ia, ok := st.Addr.(*ssa.IndexAddr); ok {
				if sl, ok := ia.X.Type().Underlying().(*types.Slice); ok {
					if b, ok := sl.Elem().Underlying().(*types.Basic); ok && b.Kind() == types.Uint8 {
						colStores = append(colStores, st)
					}
				}
			}
		})
		if len(stores) != 1 || len(colStores) == 0 {
			continue
		}
		ap, ok := stores[0].Val.(*ssa.Call)
		if !ok || builtinName(ap.Common()) != "append" {
			continue
		}
		// appended to the current list
		base, ok := ap.Common().Args[0].(*ssa.UnOp)
		if !ok || base.X != ssa.Value(wfv) {
			continue
		}
		// one element: the record's counter
		okVal := false
		if sl, ok := ap.Common().Args[1].(*ssa.Slice); ok {
			if al, ok := sl.X.(*ssa.Alloc); ok && tableArrayType(al.Type()) != nil && tableArrayType(al.Type()).Len() == 1 {
				for _, ref := range *al.Referrers() {
					if ia, ok := ref.(*ssa.IndexAddr); ok {
						for _, r2 := range *ia.Referrers() {
							if st, ok := r2.(*ssa.Store); ok {
								if u, ok := st.Val.(*ssa.UnOp); ok && isIntType(u.Type()) {
									rec := u.X
									if fa, ok := rec.(*ssa.FieldAddr); ok {
										rec = fa.X
									}
									if ta, ok := rec.(*ssa.TypeAssert); ok && len(cl.Params) >= 2 && ta.X == ssa.Value(cl.Params[1]) {
										okVal = true
									}
								}
							}
						}
					}
				}
			}
		}
		// every column store uses len(weights) read before the append, and the append is executed on every path
		okIdx := true
		for _, cs := range colStores {
			idx := cs.Addr.(*ssa.IndexAddr).Index
			call, ok := idx.(*ssa.Call)
			if !ok || builtinName(call.Common()) != "len" {
				okIdx = false
				continue
			}
			ld, ok := call.Common().Args[0].(*ssa.UnOp)
			if !ok || ld.X != ssa.Value(wfv) || !instrDominates(ld, stores[0]) {
				okIdx = false
			}
		}
		pd := newPostDom(cl, nil)
		okAlways := true
		for _, cs := range colStores {
			if !pd.instrPostDominates(stores[0], cs) {
				okAlways = false
			}
		}
		if len(cl.Blocks) > 0 && len(cl.Blocks[0].Instrs) > 0 && !pd.instrPostDominates(stores[0], cl.Blocks[0].Instrs[0]) {
			okAlways = false
		}
		// empty when the walk starts: the cell holds make([]int, 0, …) and nothing else stores to it in fn
		okEmpty := false
		var mc *ssa.MakeClosure
		allInstrs(fn, func(in ssa.Instruction) {
			if m, ok := in.(*ssa.MakeClosure); ok && m.Fn == ssa.Value(cl) {
				mc = m
			}
		})
		if mc != nil {
			for i, fv := range cl.FreeVars {
				if fv != wfv || i >= len(mc.Bindings) {
					continue
				}
				cell := mc.Bindings[i]
				n := 0
				for _, ref := range *cell.Referrers() {
					if st, ok := ref.(*ssa.Store); ok && st.Addr == cell {
						n++
						if mk, ok := st.Val.(*ssa.MakeSlice); ok {
							if k, ok := constInt(mk.Len); ok && k == 0 && instrDominates(st, mc) {
								okEmpty = true
							}
						}
					}
				}
				if n != 1 {
					okEmpty = false
				}
			}
		}
		det := fmt.Sprintf("weights grown by the walk: column index is len(weights) read before the append: %v; the counter of the record is appended exactly once on every path: %v (value: %v); the list is empty when the walk starts: %v", okIdx, okAlways, okVal, okEmpty)
		return okIdx && okAlways && okVal && okEmpty, det
	}
	return false, ""
}

// compressLengthFromList: rows are truncated to len(weights) and the cached length is set to
// len(weights), both read from the same cell after the walk with no store to it in between.
func compressLengthFromList(fn *ssa.Function) bool {
	var lenStore *ssa.Store
	allInstrs(fn, func(in ssa.Instruction) {
		if st, ok := in.(*ssa.Store); ok {
			if t, f, fa := fieldAddrOf(st.Addr); fa != nil && t == "align" && f == "length" {
				lenStore = st
			}
		}
	})
	if lenStore == nil {
		return false
	}
	cellOfLen := func(v ssa.Value) ssa.Value {
		call, ok := v.(*ssa.Call)
		if !ok || builtinName(call.Common()) != "len" {
			return nil
		}
		ld, ok := call.Common().Args[0].(*ssa.UnOp)
		if !ok {
			return nil
		}
		if _, isCell := ld.X.(*ssa.Alloc); !isCell {
			return nil
		}
		return ld.X
	}
	cell := cellOfLen(lenStore.Val)
	if cell == nil {
		return false
	}
	okRows, n := true, 0
	allInstrs(fn, func(in ssa.Instruction) {
		st, ok := in.(*ssa.Store)
		if !ok {
			return
		}
		if t, f, fa := fieldAddrOf(st.Addr); fa == nil || t != "seq" || f != "sequence" {
			return
		}
		n++
		sl, ok := st.Val.(*ssa.Slice)
		if !ok || sl.Low != nil || sl.High == nil || cellOfLen(sl.High) != cell {
			okRows = false
		}
	})
	// no store to the cell in fn after the walk (the closure is the only writer)
	stores := 0
	for _, ref := range *cell.Referrers() {
		if st, ok := ref.(*ssa.Store); ok && st.Addr == cell {
			stores++
		}
	}
	return okRows && n > 0 && stores == 1
}
