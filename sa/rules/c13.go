package rules

import (
	"fmt"
	"go/token"
	"go/types"
	"strings"

	"golang.org/x/tools/go/ssa"
)

func init() {
	register(&Property{ID: "C13", Run: runC13,
		Explanation: "Static decision of the structural clauses of C13. Deduplicate: the comparison key folds the wildcard of the bag's own alphabet into the gap character (type-resolved constants under the controlling alphabet comparison), the sequence re-added is the unfolded original, the block that re-adds a row opens its group with the same name and records the group index under the comparison key, the other arm appends the name to the group found under the same key, rows are visited in their original order (the old row list is saved before the container is cleared). Compress: every site increments exactly one pattern counter by one (so the weights sum to the original length), the counter is a full-width int, a new pattern is counted exactly when it was not found, the weight vector has one entry per pattern, the weight and the rewritten column of a pattern use the same pattern index which advances once per pattern, rows are truncated to the number of patterns and the cached length is set to the same value. Not decided: first-occurrence semantics on data, idempotence, that distinct patterns stay distinct in the radix tree (library behaviour)."})
}

func runC13(c *Ctx) {
	L := c.L
	L.Rule("alphabet-wildcard", "an alphabet-specific constant is used only where the controlling alphabet comparisons select its own alphabet")
	c.checkAlphabetConsts("alphabet-wildcard", map[string]bool{"(*seqbag).Deduplicate": true})
	L.Floor("alphabet-wildcard", 2, "ALL_AMINO and ALL_NUCLE in Deduplicate")
	c.checkDeduplicate()
	c.checkCompress()
}

func (c *Ctx) checkDeduplicate() {
	L := c.L
	L.Rule("dedup-fold", "the comparison key is strings.ReplaceAll(row, wildcard, GAP) of the row's own residues (or the row itself)")
	L.Rule("dedup-keeps-original", "the sequence handed to AddSequence for a kept row is the unfolded string of the row's residues, under the row's own name and comment")
	L.Rule("dedup-groups", "the map from comparison key to group index is read and written with the same key value; the arm that re-adds the row appends a new group []string{row name} and stores len(groups)-1 under the key; the other arm appends the row name to the group found under the key; exactly one of the two happens per row")
	L.Rule("dedup-order", "the loop ranges over the row list loaded before Clear() is called")
	r := c.fn("align", "*seqbag", "Deduplicate")
	if !r.ok() {
		return
	}
	fn := r.F
	gap := "-"
	if g := constByName(c.P.Pkg("align"), "GAP"); g != nil {
		if k, ok := cInt(g); ok {
			gap = string(rune(k))
		}
	}
	// the row string s = string(seq.sequence)
	var sVals []ssa.Value
	allInstrs(fn, func(in ssa.Instruction) {
		if cv, ok := in.(*ssa.Convert); ok {
			if _, f, base := loadedField(cv.X); base != nil && f == "sequence" {
				if b, ok := cv.Type().Underlying().(*types.Basic); ok && b.Info()&types.IsString != 0 {
					sVals = append(sVals, cv)
				}
			}
		}
	})
	isRowString := func(v ssa.Value) bool {
		for _, s := range sVals {
			if s == v {
				return true
			}
		}
		return false
	}
	// fold calls
	nFold := 0
	allInstrs(fn, func(in ssa.Instruction) {
		call, ok := in.(*ssa.Call)
		if !ok {
			return
		}
		cc := call.Common()
		if !(isPkgFunc(cc, "strings", "ReplaceAll") || isPkgFunc(cc, "strings", "Replace")) {
			return
		}
		nFold++
		src := isRowString(cc.Args[0])
		to, _ := cStr(constOf(cc.Args[2]))
		from, _ := cStr(constOf(cc.Args[1]))
		okW := from == "N" || from == "X"
		L.Check(src && to == gap && okW, "dedup-fold", r.label, "fold "+from+" → "+to, c.P.Pos(call.Pos()), "ReplaceAll(row, wildcard, GAP) on the row's own residues",
			fmt.Sprintf("the comparison key is not the row with its wildcard replaced by the gap (source is the row: %v, from %q to %q)", src, from, to))
	})
	L.Floor("dedup-fold", 2, "one fold per alphabet")

	// the re-add call
	var add *ssa.Call
	allInstrs(fn, func(in ssa.Instruction) {
		if call, ok := in.(*ssa.Call); ok {
			if f := call.Common().StaticCallee(); f != nil && (f.Name() == "AddSequence" || f.Name() == "AddSequenceChar") {
				add = call
			}
		}
	})
	if add == nil {
		L.Bad("dedup-keeps-original", r.label, "re-add call", c.P.Pos(fn.Pos()), "no AddSequence call: kept rows are not re-added")
		return
	}
	a := add.Common().Args
	nameOK, seqOK, comOK := false, false, false
	var rowOfName ssa.Value
	if _, f, base := loadedField(a[1]); base != nil && f == "name" {
		nameOK, rowOfName = true, base
	}
	seqArg := stripConv(a[2])
	if isRowString(a[2]) {
		seqOK = true
	} else if _, f, base := loadedField(seqArg); base != nil && f == "sequence" {
		seqOK = true
	}
	if _, f, base := loadedField(a[3]); base != nil && f == "comment" && base == rowOfName {
		comOK = true
	}
	L.Check(nameOK && seqOK && comOK, "dedup-keeps-original", r.label, "AddSequence(row.name, string(row.sequence), row.comment)", c.P.Pos(add.Pos()),
		"the kept row is re-added with its own name, its unfolded residues and its comment",
		fmt.Sprintf("the kept row is not re-added as it was (own name: %v, unfolded residues: %v, own comment: %v): with nAsGap the representative's N/X would be rewritten", nameOK, seqOK, comOK))
	L.Floor("dedup-keeps-original", 1, "one call")

	// groups
	var lk *ssa.Lookup
	var upd *ssa.MapUpdate
	allInstrs(fn, func(in ssa.Instruction) {
		switch x := in.(type) {
		case *ssa.Lookup:
			if _, isMap := x.X.Type().Underlying().(*types.Map); isMap && x.CommaOk {
				lk = x
			}
		case *ssa.MapUpdate:
			upd = x
		}
	})
	okKey := lk != nil && upd != nil && lk.X == upd.Map && lk.Index == upd.Key
	// key is the folded/unfolded compare string: φ over fold results and the row string
	okKeySrc := false
	if lk != nil {
		okKeySrc = true
		for v := range throughPhis(lk.Index, false) {
			switch x := v.(type) {
			case *ssa.Phi:
			case *ssa.Call:
				if !(isPkgFunc(x.Common(), "strings", "ReplaceAll") || isPkgFunc(x.Common(), "strings", "Replace")) {
					okKeySrc = false
				}
			case *ssa.Const:
				// zero value of the variable declared before the loop
			case *ssa.UnOp:
				if _, f, base := loadedField(x); base == nil || f != "sequence" {
					okKeySrc = false
				}
			default:
				if !isRowString(v) {
					okKeySrc = false
				}
			}
		}
	}
	// new group in the add block: MapUpdate value = len(appended)-1, same block region as add
	okNew := false
	if upd != nil {
		if sub, ok := upd.Value.(*ssa.BinOp); ok && sub.Op == token.SUB {
			if k, ok := constInt(sub.Y); ok && k == 1 {
				if call, ok := sub.X.(*ssa.Call); ok && builtinName(call.Common()) == "len" {
					if ap, ok := call.Common().Args[0].(*ssa.Call); ok && builtinName(ap.Common()) == "append" {
						okNew = add.Block().Dominates(upd.Block()) || add.Block() == upd.Block()
					}
				}
			}
		}
	}
	// exactly one of {add, append to existing group} per row
	lp := innermostLoopOf(naturalLoops(fn), add.Block())
	var groupAppend ssa.Instruction
	allInstrs(fn, func(in ssa.Instruction) {
		st, ok := in.(*ssa.Store)
		if !ok {
			return
		}
		ia, ok := st.Addr.(*ssa.IndexAddr)
		if !ok {
			return
		}
		if _, isAl := ia.X.(*ssa.Alloc); isAl {
			return
		}
		if sl, ok := ia.X.Type().Underlying().(*types.Slice); ok {
			if _, ok := sl.Elem().Underlying().(*types.Slice); ok {
				// identical[i] = append(identical[i], name)
				if lk != nil {
					for _, ref := range *lk.Referrers() {
						if ex, ok := ref.(*ssa.Extract); ok && ex.Index == 0 && ia.Index == ssa.Value(ex) {
							groupAppend = st
						}
					}
				}
			}
		}
	})
	okOne := false
	if lp != nil && groupAppend != nil {
		cnt := eventCounts(lp, func(in ssa.Instruction) bool { return in == ssa.Instruction(add) || in == groupAppend })
		// the error exit after a failed AddSequence leaves the function, so {1} on completed iterations
		okOne = len(cnt) == 1 && cnt[1]
	}
	L.Check(okKey && okKeySrc && okNew && okOne, "dedup-groups", r.label, "group bookkeeping", c.P.Pos(add.Pos()),
		"same key for lookup and update; new group index = len(groups)-1 stored in the arm that re-adds; names of duplicates appended to the group found; exactly one of the two per row",
		fmt.Sprintf("group bookkeeping broken (same key: %v, key is the comparison string: %v, new group recorded with the re-add: %v, exactly one of re-add/append per row: %v)", okKey, okKeySrc, okNew, okOne))
	L.Floor("dedup-groups", 1, "one loop")

	// order: oldseqs loaded before Clear
	var clear ssa.Instruction
	allInstrs(fn, func(in ssa.Instruction) {
		if isCallToMethod(in, "seqbag", "Clear") {
			clear = in
		}
	})
	okOrder := false
	if clear != nil && lp != nil {
		lc := newLinCtx(c, fn)
		for _, rl := range lc.rangeLoopsOver(fn, func(v ssa.Value) bool {
			_, f, base := loadedField(v)
			if base == nil || f != "seqs" {
				return false
			}
			ld, ok := v.(*ssa.UnOp)
			return ok && instrDominates(ld, clear)
		}) {
			if rl.lp.Head == lp.Head {
				okOrder = true
			}
		}
	}
	L.Check(okOrder, "dedup-order", r.label, "range over the rows saved before Clear()", c.P.Pos(fn.Pos()), "the loop ranges over the row list loaded before the container is cleared, in index order", "the row loop does not range over the row list saved before Clear(): rows are lost or revisited")
	L.Floor("dedup-order", 1, "one loop")
}

func (c *Ctx) checkCompress() {
	L := c.L
	L.Rule("compress-count", "in the site loop every iteration increments exactly one pattern counter by one and inserts the pattern once; the counter has type int; a new pattern is counted (npat++) exactly on the not-found branch of the lookup, with a counter starting at 0")
	L.Rule("compress-weights", "weights has npat entries; inside the pattern walk the weight index and the rewritten column index are the same variable, which is incremented exactly once per pattern after both uses")
	L.Rule("compress-length", "rows are truncated to [:npat] and the cached length is set to npat (same variable, no store in between)")
	r := c.fn("align", "*align", "Compress")
	if !r.ok() {
		return
	}
	fn := r.F
	loops := naturalLoops(fn)
	// count increment: store to field `count` of load+1
	var incSt *ssa.Store
	var incOp *ssa.BinOp
	allInstrs(fn, func(in ssa.Instruction) {
		st, ok := in.(*ssa.Store)
		if !ok {
			return
		}
		fa, ok := st.Addr.(*ssa.FieldAddr)
		if !ok || fieldName(fa.X.Type(), fa.Field) != "count" {
			return
		}
		if bo, ok := st.Val.(*ssa.BinOp); ok && bo.Op == token.ADD {
			if k, ok := constInt(bo.Y); ok && k == 1 {
				incSt, incOp = st, bo
			}
		}
	})
	if incSt == nil {
		L.Bad("compress-count", r.label, "pattern counter", c.P.Pos(fn.Pos()), "no `count++` on the pattern record found")
		return
	}
	lp := innermostLoopOf(loops, incSt.Block())
	var ins ssa.Instruction
	var get *ssa.Call
	allInstrs(fn, func(in ssa.Instruction) {
		if call, ok := in.(*ssa.Call); ok {
			if f := call.Common().StaticCallee(); f != nil && f.Pkg != nil && strings.HasSuffix(f.Pkg.Pkg.Path(), "go-radix") {
				switch f.Name() {
				case "Insert":
					ins = in
				case "Get":
					get = call
				}
			}
		}
	})
	okOnce := false
	if lp != nil && ins != nil {
		c1 := eventCounts(lp, func(in ssa.Instruction) bool { return in == ssa.Instruction(incSt) })
		c2 := eventCounts(lp, func(in ssa.Instruction) bool { return in == ins })
		okOnce = len(c1) == 1 && c1[1] && len(c2) == 1 && c2[1]
	}
	bt, _ := incOp.Type().Underlying().(*types.Basic)
	okType := bt != nil && bt.Kind() == types.Int
	// same key for Get and Insert, value inserted = the record that was incremented
	okKey := false
	if get != nil && ins != nil {
		ic := callOf(ins)
		okKey = ic.Args[1] == get.Common().Args[1]
	}
	// new pattern: npat++ on the not-found branch, record created with count 0
	okNew := false
	var npatCell ssa.Value
	if get != nil {
		for _, ref := range *get.Referrers() {
			ex, ok := ref.(*ssa.Extract)
			if !ok || ex.Index != 1 {
				continue
			}
			for _, rr := range *ex.Referrers() {
				ifi, ok := rr.(*ssa.If)
				if !ok {
					continue
				}
				nf := ifi.Block().Succs[1]
				nInc, zero := 0, false
				for _, in := range nf.Instrs {
					if st, ok := in.(*ssa.Store); ok {
						if bo, ok := st.Val.(*ssa.BinOp); ok && bo.Op == token.ADD {
							if k, ok := constInt(bo.Y); ok && k == 1 {
								if u, ok := bo.X.(*ssa.UnOp); ok && u.X == st.Addr {
									nInc++
									npatCell = st.Addr
								}
							}
						}
						if fa, ok := st.Addr.(*ssa.FieldAddr); ok && fieldName(fa.X.Type(), fa.Field) == "count" {
							if k, ok := constInt(st.Val); ok && k == 0 {
								zero = true
							}
						}
					}
				}
				// the found branch must not touch npat
				okNew = nInc == 1 && zero
			}
		}
	}
	if npatCell != nil && lp != nil {
		// no other store to npat inside the site loop
		for _, ref := range *npatCell.Referrers() {
			if st, ok := ref.(*ssa.Store); ok && lp.Blocks[st.Block()] {
				if bo, ok := st.Val.(*ssa.BinOp); !ok || bo.Op != token.ADD {
					okNew = false
				}
			}
		}
		n := 0
		for _, ref := range *npatCell.Referrers() {
			if st, ok := ref.(*ssa.Store); ok && lp.Blocks[st.Block()] {
				n++
			}
		}
		if n != 1 {
			okNew = false
		}
	}
	L.Check(okOnce && okType && okKey && okNew, "compress-count", r.label, "one count++ and one Insert per site", c.P.Pos(incSt.Pos()),
		"every site increments exactly one int counter by one; the record is inserted under the key it was looked up with; npat++ and a zero counter exactly when the pattern is new",
		fmt.Sprintf("site counting broken (exactly one count++ and one Insert per site: %v; counter type is int: %v [%v]; same key for Get and Insert: %v; new pattern ⇔ npat++ with a zero counter: %v): weights no longer sum to the alignment length", okOnce, okType, incOp.Type(), okKey, okNew))
	L.Floor("compress-count", 1, "site loop")

	// weights
	okLen := false
	allInstrs(fn, func(in ssa.Instruction) {
		if mk, ok := in.(*ssa.MakeSlice); ok {
			if u, ok := mk.Len.(*ssa.UnOp); ok && npatCell != nil && u.X == npatCell {
				if sl, ok := mk.Type().Underlying().(*types.Slice); ok {
					if b, ok := sl.Elem().Underlying().(*types.Basic); ok && b.Kind() == types.Int {
						okLen = true
					}
				}
			}
		}
	})
	// the Walk closure
	okWalk := false
	det := "walk callback not found"
	for _, cl := range fn.AnonFuncs {
		var wIdx, colIdx ssa.Value
		var inc *ssa.Store
		nStoreFV := 0
		okVal := false
		allInstrs(cl, func(in ssa.Instruction) {
			st, ok := in.(*ssa.Store)
			if !ok {
				return
			}
			if ia, ok := st.Addr.(*ssa.IndexAddr); ok {
				if sl, ok := ia.X.Type().Underlying().(*types.Slice); ok {
					if b, ok := sl.Elem().Underlying().(*types.Basic); ok {
						if b.Kind() == types.Int {
							wIdx = ia.Index
							// the stored weight is the counter, without narrowing
							v := st.Val
							if cv, ok := v.(*ssa.Convert); ok {
								if sb, ok := cv.X.Type().Underlying().(*types.Basic); ok && intWidth(sb) < 64 {
									okVal = false
									return
								}
								v = cv.X
							}
							if u, ok := v.(*ssa.UnOp); ok {
								if fa, ok := u.X.(*ssa.FieldAddr); ok && fieldName(fa.X.Type(), fa.Field) == "count" {
									okVal = true
								}
							}
						}
						if b.Kind() == types.Uint8 {
							colIdx = ia.Index
						}
					}
				}
			}
			if fv, ok := st.Addr.(*ssa.FreeVar); ok && fv.Name() == "npat" {
				nStoreFV++
				inc = st
			}
		})
		if wIdx == nil || colIdx == nil {
			continue
		}
		loadOf := func(v ssa.Value) *ssa.FreeVar {
			if u, ok := v.(*ssa.UnOp); ok {
				if fv, ok := u.X.(*ssa.FreeVar); ok {
					return fv
				}
			}
			return nil
		}
		fw, fc := loadOf(wIdx), loadOf(colIdx)
		same := fw != nil && fw == fc && fw.Name() == "npat"
		incOK := false
		if inc != nil && nStoreFV == 1 {
			if bo, ok := inc.Val.(*ssa.BinOp); ok && bo.Op == token.ADD {
				if k, ok := constInt(bo.Y); ok && k == 1 {
					// after both uses, on every path to return
					pd := newPostDom(cl, nil)
					incOK = true
					allInstrs(cl, func(in ssa.Instruction) {
						if st, ok := in.(*ssa.Store); ok && st != inc {
							if _, ok := st.Addr.(*ssa.IndexAddr); ok {
								if !pd.instrPostDominates(inc, st) {
									incOK = false
								}
							}
						}
					})
				}
			}
		}
		okWalk = same && incOK && okVal
		det = fmt.Sprintf("weight index and column index are the same variable npat: %v; npat++ exactly once after both: %v; the weight stored is the full-width counter: %v", same, incOK, okVal)
	}
	L.Check(okLen && okWalk, "compress-weights", r.label, "weights[npat] and column npat", c.P.Pos(fn.Pos()), "weights = make([]int, npat); "+det, fmt.Sprintf("weights has npat entries: %v; %s", okLen, det))
	L.Floor("compress-weights", 1, "pattern walk")

	lc := newLinCtx(c, fn)
	L.Check(sameStableCell(fn, lc), "compress-length", r.label, "rows[:npat] and length = npat", c.P.Pos(fn.Pos()), "same variable, no store or closure creation in between", "row truncation and cached length use different values")
	L.Floor("compress-length", 1, "one function")
}
