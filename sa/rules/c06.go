package rules

import (
	"fmt"
	"go/token"
	"go/types"
	"sort"
	"strings"

	"golang.org/x/tools/go/ssa"
)

func init() {
	register(&Property{ID: "C06", Run: runC06,
		Explanation: "Static decision of the table and structure clauses of C06: the complement table literal is evaluated exhaustively (35 rows) against the IUPAC code: every ambiguity letter maps to the letter whose expansion is the base-wise complement of its own expansion, case is preserved, U/u map to A/a, gap, point and star are fixed, complement∘complement is the identity except on U/u, and the table is written nowhere; Complement stores table[seq[i]] at the index i it was read from and returns an error for a byte outside the table; Reverse swaps seq[i] and seq[j] with i+j = len-1 invariant and runs while i < j; ReverseComplement applies Complement then Reverse exactly once to every row and nothing else, its partial variant only to rows found by name; ToUpper/ToLower store the case-folded byte at the index it was loaded from; Unalign removes exactly the gap character through a fresh container; the transforms write only residues. Not decided: none of the behaviour on data beyond these structural facts (they are each necessary, jointly close to sufficient for these small functions)."})
}

func runC06(c *Ctx) {
	L := c.L
	c.checkConfigWriters("container-config")
	c.checkNamedRowsOnly("named-rows-only")
	L.Trusts("go/constant evaluation of the composite literal; the IUPAC oracle in sa/rules/refdata.go")
	c.checkComplementTable()
	c.checkComplementFunc()
	c.checkReverseFunc()
	c.checkRevCompCallers()
	c.checkCaseFold()
	c.checkUnalign()
	// frame: only residues are written
	L.Rule("frame", "the only writes into memory reachable from the receiver are element stores into row residues ([]uint8)")
	for _, nme := range []string{"ReverseComplement", "ReverseComplementSequences", "ToUpper", "ToLower"} {
		r := c.fn("align", "*seqbag", nme)
		if !r.ok() {
			continue
		}
		res := c.runEffects(r.F)
		if len(res.e.unknown) > 0 {
			L.Unknown("frame", r.label, "analysis complete", c.P.Pos(r.F.Pos()), strings.Join(dedupe(res.e.unknown), "; "))
			continue
		}
		var bad []string
		ws := res.writesTo(0)
		for _, w := range ws {
			okW := false
			if st, ok := w.in.(*ssa.Store); ok {
				if ia, ok := st.Addr.(*ssa.IndexAddr); ok {
					if sl, ok := ia.X.Type().Underlying().(*types.Slice); ok {
						if b, ok := sl.Elem().Underlying().(*types.Basic); ok && b.Kind() == types.Uint8 {
							okW = true
						}
					}
				}
			}
			if !okW {
				bad = append(bad, fmt.Sprintf("%s at %s", w.what, c.P.Pos(w.in.Pos())))
			}
		}
		L.Check(len(bad) == 0 && len(ws) > 0, "frame", r.label, "writes into the receiver", c.P.Pos(r.F.Pos()),
			fmt.Sprintf("%d write site(s), all residue stores", len(ws)), fmt.Sprintf("writes other than residue stores (or none at all): %v (%d sites)", bad, len(ws)))
	}
	L.Floor("frame", 2, "four in-place transforms (floor = half of the instances on the pinned tree: a clean-up may merge instances, a rule that sees nothing must still fail)")
	// Unalign is pure
	c.purityObligations("input-unmodified", []purityTarget{{"align", "*seqbag", "Unalign", []int{0}}})
}

func (c *Ctx) checkComplementTable() {
	L := c.L
	pk := c.P.Pkg("align")
	L.Rule("complement-table", "complement_nuc_mapping has exactly the 15 IUPAC codes and U in both cases plus GAP, POINT, OTHER; each code maps to the code whose base set is the base-wise complement of its own; case is preserved; U/u map to A/a; the three special characters are fixed; applying the table twice is the identity except on U/u")
	t, err := findTable(pk, "complement_nuc_mapping")
	if err != nil {
		if c.waiveIfNotLiteral("complement-table", err) {
			return
		}
		L.Unknown("complement-table", "align.complement_nuc_mapping", "literal evaluates", "-", err.Error())
		return
	}
	kvs, ok := t.Val.([]kv)
	if !ok {
		L.Unknown("complement-table", "align.complement_nuc_mapping", "literal is a map", c.P.Pos(t.Pos), "not a map literal")
		return
	}
	// expected complement by set
	bySet := map[string]byte{}
	for l, exp := range iupacOracle {
		bySet[sortBytes(exp)] = l
	}
	want := map[byte]byte{}
	for l, exp := range iupacOracle {
		cs := ""
		for i := 0; i < len(exp); i++ {
			cs += string(baseComplement[exp[i]])
		}
		w := bySet[sortBytes(cs)]
		want[l] = w
		want[l+32] = w + 32
	}
	want['U'], want['u'] = 'A', 'a'
	for _, nm := range []string{"GAP", "POINT", "OTHER"} {
		if v := constByName(pk, nm); v != nil {
			if k, ok := cInt(v); ok {
				want[byte(k)] = byte(k)
			}
		}
	}
	fn := "align.complement_nuc_mapping"
	got := map[byte]byte{}
	for _, e := range kvs {
		k, ok1 := cInt(e.K)
		v, ok2 := cInt(e.V)
		if !ok1 || !ok2 {
			L.Unknown("complement-table", fn, "entry is constant", c.P.Pos(t.Pos), "non-constant entry")
			continue
		}
		if _, dup := got[byte(k)]; dup {
			L.Bad("complement-table", fn, fmt.Sprintf("row %q", rune(k)), c.P.Pos(t.Pos), "duplicate key")
			continue
		}
		got[byte(k)] = byte(v)
		w, known := want[byte(k)]
		if !known {
			L.Bad("complement-table", fn, fmt.Sprintf("row %q", rune(k)), c.P.Pos(t.Pos), "key is not an IUPAC nucleotide code, U, gap, point or star")
			continue
		}
		L.Check(byte(v) == w, "complement-table", fn, fmt.Sprintf("row %q", rune(k)), c.P.Pos(t.Pos),
			fmt.Sprintf("%q → %q", rune(k), rune(v)), fmt.Sprintf("%q → %q, the IUPAC complement is %q", rune(k), rune(v), rune(w)))
	}
	var missing []string
	for k := range want {
		if _, ok := got[k]; !ok {
			missing = append(missing, string(rune(k)))
		}
	}
	sort.Strings(missing)
	for _, m := range missing {
		L.Bad("complement-table", fn, "row '"+m+"'", c.P.Pos(t.Pos), "code missing from the table: sequences containing it cannot be complemented")
	}
	// involution
	inv := true
	var bad []string
	for k, v := range got {
		if k == 'U' || k == 'u' {
			continue
		}
		if got[v] != k {
			inv = false
			bad = append(bad, fmt.Sprintf("%c→%c→%c", k, v, got[v]))
		}
	}
	sort.Strings(bad)
	L.Check(inv, "complement-table", fn, "involution", c.P.Pos(t.Pos), "table[table[x]] == x for every key except U/u", "not an involution: "+strings.Join(bad, " "))
	L.Floor("complement-table", 18, "35 rows + involution (floor = half of the instances on the pinned tree: a clean-up may merge instances, a rule that sees nothing must still fail)")
	c.checkTableImmutable("align", "complement_nuc_mapping")
}

func (c *Ctx) checkComplementFunc() {
	L := c.L
	L.Rule("complement-loop", "Complement reads seq[i], looks it up in complement_nuc_mapping, returns a non-nil error when the key is absent and otherwise stores the looked-up value at the same index i; every index of the range loop is treated")
	r := c.fn("align", "", "Complement")
	if !r.ok() {
		return
	}
	fn := r.F
	lc := newLinCtx(c, fn)
	var st *ssa.Store
	nSt := 0
	allInstrs(fn, func(in ssa.Instruction) {
		if s, ok := in.(*ssa.Store); ok {
			if ia, ok := s.Addr.(*ssa.IndexAddr); ok {
				if _, local := ia.X.(*ssa.Alloc); local {
					return // varargs array of fmt.Errorf
				}
				st = s
				nSt++
			}
		}
	})
	if nSt != 1 {
		L.Unknown("complement-loop", r.label, "element store", c.P.Pos(fn.Pos()), fmt.Sprintf("%d element stores, want 1", nSt))
		return
	}
	ia := st.Addr.(*ssa.IndexAddr)
	ok := false
	det := "stored value is not the table entry of the byte at the same index"
	if ex, isEx := st.Val.(*ssa.Extract); isEx && ex.Index == 0 {
		if lk, isLk := ex.Tuple.(*ssa.Lookup); isLk && lk.CommaOk {
			tabOK := false
			if u, isU := lk.X.(*ssa.UnOp); isU {
				if g, isG := u.X.(*ssa.Global); isG && g.Name() == "complement_nuc_mapping" {
					tabOK = true
				}
			}
			keyOK := false
			if ku, isU := lk.Index.(*ssa.UnOp); isU && ku.Op == token.MUL {
				if kia, isIA := ku.X.(*ssa.IndexAddr); isIA && kia.X == ia.X && lc.of(kia.Index).equal(lc.of(ia.Index)) {
					keyOK = true
				}
			}
			// the not-found branch returns an error
			errOK := false
			for _, ref := range *lk.Referrers() {
				if ex1, isEx1 := ref.(*ssa.Extract); isEx1 && ex1.Index == 1 {
					for _, rr := range *ex1.Referrers() {
						if ifi, isIf := rr.(*ssa.If); isIf {
							nf := ifi.Block().Succs[1]
							for _, e := range returnEdges(fn) {
								if e.kind == "err" && (e.block == nf || nf.Dominates(e.block)) {
									errOK = true
								}
							}
							if !(ifi.Block().Succs[0] == st.Block() || ifi.Block().Succs[0].Dominates(st.Block())) {
								errOK = false
							}
							// the error may be reported through a flag that also stops the loop:
							// from the not-found edge only error returns are reachable, and no
							// further element is complemented on the way
							if !errOK && (ifi.Block().Succs[0] == st.Block() || ifi.Block().Succs[0].Dominates(st.Block())) {
								nRet, allErr, storesAgain := 0, true, false
								flagWalk(fn, ifi.Block(), nf, func(b, _ *ssa.BasicBlock) bool {
									if b == st.Block() {
										storesAgain = true
									}
									return true
								}, func(_ *ssa.Return, kind string) {
									nRet++
									if kind != "err" {
										allErr = false
									}
								})
								errOK = nRet > 0 && allErr && !storesAgain
							}
						}
					}
				}
			}
			ok = tabOK && keyOK && errOK
			det = fmt.Sprintf("table is complement_nuc_mapping: %v; key is seq[i] of the stored index: %v; absent key returns an error and skips the store: %v", tabOK, keyOK, errOK)
		}
	}
	// the loop is a range loop over the parameter
	rls := lc.rangeLoopsOver(fn, func(v ssa.Value) bool { return v == ia.X })
	full := len(rls) == 1 && lc.of(ia.Index).equal(lc.of(rls[0].idx))
	L.Check(ok && full, "complement-loop", r.label, "seq[i] = table[seq[i]]", c.P.Pos(st.Pos()), det+"; range loop over the whole slice", det+fmt.Sprintf("; range loop over the whole slice with the store at the loop index: %v", full))
	L.Floor("complement-loop", 1, "one loop")

	// (*seq).Complement delegates
	rs := c.fn("align", "*seq", "Complement")
	if rs.ok() {
		del := false
		allInstrs(rs.F, func(in ssa.Instruction) {
			if cc := callOf(in); cc != nil && cc.StaticCallee() == r.F {
				if _, f, base := loadedField(cc.Args[0]); base != nil && f == "sequence" && base == ssa.Value(rs.F.Params[0]) {
					del = true
				}
			}
		})
		L.Check(del, "complement-loop", rs.label, "delegates to Complement(s.sequence)", c.P.Pos(rs.F.Pos()), "complements its own buffer", "does not complement its own buffer through Complement")
	}
}

func (c *Ctx) checkReverseFunc() {
	L := c.L
	L.Rule("reverse-swap", "Reverse performs, per iteration, exactly the two stores seq[i] = old seq[j] and seq[j] = old seq[i]; i starts at 0 and j at len-1 with i+j invariant (steps +1/-1, or j = len-1-i); the loop condition implies i <= j and its negation implies i >= j (so i < j, i < len/2 … are accepted, i < j-1 or i <= len/2+1 are not)")
	r := c.fn("align", "", "Reverse")
	if !r.ok() {
		return
	}
	fn := r.F
	lc := newLinCtx(c, fn)
	var sts []*ssa.Store
	allInstrs(fn, func(in ssa.Instruction) {
		if s, ok := in.(*ssa.Store); ok {
			if ia, ok := s.Addr.(*ssa.IndexAddr); ok {
				if _, local := ia.X.(*ssa.Alloc); !local {
					sts = append(sts, s)
				}
			}
		}
	})
	if len(sts) == 0 {
		// delegated to the standard library: slices.Reverse(seq) on the whole parameter, called
		// exactly once on every path
		var calls []*ssa.Call
		other := false
		allInstrs(fn, func(in ssa.Instruction) {
			if call, ok := in.(*ssa.Call); ok {
				f := call.Common().StaticCallee()
				if f != nil && f.Origin() != nil {
					f = f.Origin()
				}
				if f != nil && f.Pkg != nil && f.Pkg.Pkg.Path() == "slices" && f.Name() == "Reverse" {
					calls = append(calls, call)
				} else {
					other = true
				}
			}
		})
		if len(calls) == 1 && !other && len(fn.Params) == 1 && calls[0].Common().Args[0] == ssa.Value(fn.Params[0]) && calls[0].Block() == fn.Blocks[0] {
			L.OK("reverse-swap", r.label, "swap of mirrored positions", c.P.Pos(calls[0].Pos()), "slices.Reverse on the whole slice, unconditionally (standard library)")
			L.Floor("reverse-swap", 1, "one loop")
			return
		}
	}
	if len(sts) != 2 {
		L.Bad("reverse-swap", r.label, "swap", c.P.Pos(fn.Pos()), fmt.Sprintf("%d element stores in Reverse, want the 2 of a swap", len(sts)))
		return
	}
	a0, a1 := sts[0].Addr.(*ssa.IndexAddr), sts[1].Addr.(*ssa.IndexAddr)
	isLoadOf := func(v ssa.Value, ia *ssa.IndexAddr) bool {
		u, ok := v.(*ssa.UnOp)
		if !ok || u.Op != token.MUL {
			return false
		}
		k, ok := u.X.(*ssa.IndexAddr)
		return ok && k.X == ia.X && lc.of(k.Index).equal(lc.of(ia.Index))
	}
	swap := a0.X == a1.X && isLoadOf(sts[0].Val, a1) && isLoadOf(sts[1].Val, a0)
	// both loads precede both stores
	if swap {
		for _, s := range sts {
			ld := s.Val.(*ssa.UnOp)
			for _, s2 := range sts {
				if !instrDominates(ld, s2) {
					swap = false
				}
			}
		}
	}
	i, j := lc.of(a0.Index), lc.of(a1.Index)
	sum := i.add(j)
	ln := lc.lenOf(a0.X)
	inv := false
	how := ""
	if sum.equal(ln.addc(-1)) {
		inv, how = true, "j is len-1-i"
	} else {
		// two φ counters: inits sum to len-1, steps sum to 0
		pi, okI := a0.Index.(*ssa.Phi)
		pj, okJ := a1.Index.(*ssa.Phi)
		if okI && okJ && pi.Block() == pj.Block() && len(pi.Edges) == 2 && len(pj.Edges) == 2 {
			okAll := true
			for k := 0; k < 2; k++ {
				ei, ej := lc.of(pi.Edges[k]), lc.of(pj.Edges[k])
				s := ei.add(ej)
				if s.equal(ln.addc(-1)) || s.equal(sum) {
					continue
				}
				okAll = false
			}
			if okAll {
				inv, how = true, "i and j are loop counters whose sum stays len-1 (init 0 + len-1, steps +1 and -1)"
			}
		}
	}
	// the ascending counter starts at 0 and advances by 1
	startOK := false
	for _, ix := range []ssa.Value{a0.Index, a1.Index} {
		if p, ok := ix.(*ssa.Phi); ok && len(p.Edges) == 2 {
			self := lc.of(p)
			for k := 0; k < 2; k++ {
				if e := lc.of(p.Edges[k]); e.isConst() && e.c == 0 && lc.of(p.Edges[1-k]).equal(self.addc(1)) {
					startOK = true
				}
			}
		}
	}
	inv = inv && startOK
	// loop condition: the loop is entered only with i <= j (no pair swapped twice) and left only
	// with i >= j (no pair left out); decided as two infeasibility queries so that `i < j`,
	// `i < len/2`, `j > i` … are all accepted
	condOK := false
	for _, lp := range naturalLoops(fn) {
		if !lp.Blocks[sts[0].Block()] {
			continue
		}
		if ifi, ok := lp.Head.Instrs[len(lp.Head.Instrs)-1].(*ssa.If); ok {
			enter := lp.Blocks[lp.Head.Succs[0]]
			in, out := lc.condCons(ifi.Cond, enter), lc.condCons(ifi.Cond, !enter)
			if len(in) == 0 || len(out) == 0 {
				continue
			}
			vi := valueIndex(fn)
			query := func(H []cons, extra cons) bool {
				H = append(append([]cons{}, H...), extra)
				var forms []lin
				for _, h := range H {
					forms = append(forms, h.e)
				}
				H = append(H, lc.factsFor(forms, vi)...)
				feas, ok := feasible(H)
				return ok && !feas
			}
			if query(in, consLT(j, i, "i > j")) && query(out, consLT(i, j, "i < j")) {
				condOK = true
			}
		}
	}
	L.Check(swap && inv && condOK, "reverse-swap", r.label, "swap of mirrored positions", c.P.Pos(sts[0].Pos()),
		"two stores exchange seq[i] and seq[j]; "+how+"; loop runs while i < j",
		fmt.Sprintf("swap pattern: %v; mirrored indices (i+j = len-1): %v; loop entered only with i<=j and left only with i>=j: %v", swap, inv, condOK))
	L.Floor("reverse-swap", 1, "one loop")
}

// checkRevCompCallers: ReverseComplement and ReverseComplementSequences.
func (c *Ctx) checkRevCompCallers() {
	L := c.L
	L.Rule("revcomp-once", "every path through one iteration of the row loop that goes on to the next row performs the event word `Complement(row) Reverse(row)` — calls reached through helpers of the module are expanded in place — and a path that leaves the loop early has performed `Complement(row)` only (its error is returned at every level); the alphabet guard returns an error unless the alphabet is NUCLEOTIDS")
	comp := c.P.Func("align", "", "Complement")
	rev := c.P.Func("align", "", "Reverse")
	for _, nme := range []string{"ReverseComplement", "ReverseComplementSequences"} {
		r := c.fn("align", "*seqbag", nme)
		if !r.ok() {
			continue
		}
		fn := r.F
		lc := newLinCtx(c, fn)
		root := rootFrame(fn)
		// events: calls of Complement / Reverse, wherever they are reached from this function
		// (directly or through helpers of the module); the label carries the buffer, resolved
		// to a value of this function
		type ev struct {
			call *ssa.Call
			fr   *ipFrame
			arg  ssa.Value // resolved into the root frame (or the deepest frame it resolves to)
			afr  *ipFrame
		}
		var cs, rs []ev
		label := func(in ssa.Instruction, fr *ipFrame) string {
			call, ok := in.(*ssa.Call)
			if !ok {
				return ""
			}
			g := call.Common().StaticCallee()
			if g == nil || (g != comp && g != rev) {
				return ""
			}
			v, f := fr.resolveDeep(call.Common().Args[0])
			name := newLinCtx(c, f.fn).canon(v)
			if f.up != nil {
				name += "@" + f.fn.Name()
			}
			name = strings.ReplaceAll(name, " ", "")
			if g == comp {
				return "C:" + name
			}
			return "R:" + name
		}
		c.ipWalk(root, func(in ssa.Instruction, fr *ipFrame) bool {
			if label(in, fr) == "" {
				return false
			}
			call := in.(*ssa.Call)
			v, f := fr.resolveDeep(call.Common().Args[0])
			e := ev{call, fr, v, f}
			if call.Common().StaticCallee() == comp {
				cs = append(cs, e)
			} else {
				rs = append(rs, e)
			}
			return true
		})
		if len(cs) != 1 || len(rs) != 1 {
			L.Bad("revcomp-once", r.label, "Complement and Reverse per row", c.P.Pos(fn.Pos()), fmt.Sprintf("%d calls of Complement and %d calls of Reverse, want one each (every residue must be complemented, including the middle one of an odd-length row)", len(cs), len(rs)))
			continue
		}
		// the instruction of this function through which the Complement is reached
		var unit ssa.Instruction = cs[0].call
		if ts := cs[0].fr.topSite(); ts != nil {
			unit = ts
		}
		var runit ssa.Instruction = rs[0].call
		if ts := rs[0].fr.topSite(); ts != nil {
			runit = ts
		}
		lp := innermostLoopOf(naturalLoops(fn), unit.Block())
		cl, rl := label(cs[0].call, cs[0].fr), label(rs[0].call, rs[0].fr)
		sameBuf := cl[2:] == rl[2:]
		full := cl + " " + rl
		okCnt, order := false, false
		wordsTxt := "no row loop"
		if lp != nil && lp.Blocks[runit.Block()] {
			ws := c.loopWords(root, lp, label)
			next, exit := ws["next"], ws["exit"]
			wordsTxt = "continuing iterations " + next.String() + ", iterations that leave the loop " + exit.String()
			order = next[full]
			okCnt = order
			for w := range next {
				// an iteration that goes on to the next row did both, in this order — or, in the
				// by-name variant, skipped a name that was not found
				if w != full && !(nme == "ReverseComplementSequences" && w == "") {
					okCnt = false
				}
			}
			for w := range exit {
				// leaving the loop early is only the error of Complement being returned
				if w != cl {
					okCnt = false
				}
			}
		}
		// row provenance
		prov := false
		arg := cs[0].arg
		if cs[0].afr.up == nil {
			if nme == "ReverseComplement" {
				if _, f, base := loadedField(arg); base != nil && f == "sequence" {
					if _, isRow := lc.rowOwner(base); isRow {
						prov = true
					}
				}
			} else {
				if call, ok := arg.(*ssa.Call); ok && getterName(call.Common()) == "SequenceChar" {
					if _, isRow := lc.rowOwner(lc.recvOf(call.Common())); isRow {
						prov = true
					}
				}
			}
		}
		// the error of Complement is returned, at every level of the call chain
		errProp := func(call *ssa.Call) bool {
			for _, e := range returnEdges(call.Parent()) {
				if e.kind != "ok" && call.Block().Dominates(e.block) {
					return true
				}
			}
			if refs := call.Referrers(); refs != nil {
				for _, ref := range *refs {
					if bo, ok := ref.(*ssa.BinOp); ok && bo.Op == token.NEQ {
						return true
					}
					if _, ok := ref.(*ssa.Phi); ok {
						return true
					}
					if _, ok := ref.(*ssa.Return); ok {
						return true
					}
				}
			}
			return false
		}
		errRet := errProp(cs[0].call)
		for f := cs[0].fr; f.up != nil; f = f.up {
			errRet = errRet && errProp(f.site)
		}
		// alphabet guard
		guard := false
		allInstrs(fn, func(in ssa.Instruction) {
			if bo, ok := in.(*ssa.BinOp); ok && bo.Op == token.NEQ {
				if k, ok := constInt(bo.Y); ok && k == 1 { // NUCLEOTIDS
					if bo.Block().Dominates(unit.Block()) {
						guard = true
					}
				}
			}
		})
		okAll := sameBuf && order && okCnt && prov && errRet && guard
		L.Check(okAll, "revcomp-once", r.label, "Complement then Reverse per row", c.P.Pos(unit.Pos()),
			"same row buffer, Complement before Reverse, once per row ("+wordsTxt+"), error propagated, nucleotide guard dominates",
			fmt.Sprintf("same buffer: %v; order: %v; once per row: %v (%s); buffer is a row of the receiver: %v; error propagated: %v; alphabet guard: %v", sameBuf, order, okCnt, wordsTxt, prov, errRet, guard))
	}
	L.Floor("revcomp-once", 2, "two functions")
}

func (c *Ctx) checkCaseFold() {
	L := c.L
	L.Rule("case-fold", "ToUpper/ToLower store unicode.ToUpper/ToLower of the byte loaded from the same row and index, for every index of every row")
	for nme, lib := range map[string]string{"ToUpper": "ToUpper", "ToLower": "ToLower"} {
		r := c.fn("align", "*seqbag", nme)
		if !r.ok() {
			continue
		}
		fn := r.F
		// stores into a row buffer, in the function or in helpers of the module it calls
		type rst struct {
			st *ssa.Store
			fr *ipFrame
		}
		var sts []rst
		lcs := map[*ssa.Function]*linCtx{}
		lcOf := func(f *ssa.Function) *linCtx {
			if lcs[f] == nil {
				lcs[f] = newLinCtx(c, f)
			}
			return lcs[f]
		}
		c.ipWalk(rootFrame(fn), func(in ssa.Instruction, fr *ipFrame) bool {
			if st, ok := in.(*ssa.Store); ok {
				if ia, ok := st.Addr.(*ssa.IndexAddr); ok && lcOf(fr.fn).isRowBuffer(ia.X) {
					sts = append(sts, rst{st, fr})
				}
			}
			return false
		})
		if len(sts) != 1 {
			L.Bad("case-fold", r.label, "row store", c.P.Pos(fn.Pos()), fmt.Sprintf("%d row stores, want 1", len(sts)))
			continue
		}
		st, fr := sts[0].st, sts[0].fr
		lc := lcOf(fr.fn)
		ia := st.Addr.(*ssa.IndexAddr)
		ok := false
		if call, isCall := stripConv(st.Val).(*ssa.Call); isCall {
			// the mapping applied: a direct call of unicode.ToUpper/ToLower, or a function-valued
			// parameter of the helper that the call chain binds to it
			isLib := isPkgFunc(call.Common(), "unicode", lib)
			if !isLib && !call.Common().IsInvoke() {
				if v, _ := fr.resolve(call.Common().Value); v != nil {
					if f, isF := v.(*ssa.Function); isF && f.Pkg != nil && f.Pkg.Pkg.Path() == "unicode" && f.Name() == lib {
						isLib = true
					}
				}
			}
			if isLib && len(call.Common().Args) == 1 {
				if u, isU := stripConv(call.Common().Args[0]).(*ssa.UnOp); isU && u.Op == token.MUL {
					if kia, isIA := u.X.(*ssa.IndexAddr); isIA && lc.canon(kia.X) == lc.canon(ia.X) && lc.of(kia.Index).equal(lc.of(ia.Index)) {
						ok = true
					}
				}
			}
		}
		// a table of the mapping over the whole byte domain, built once by the package initialiser:
		// seq[i] = table[seq[i]]
		if u, isU := st.Val.(*ssa.UnOp); isU && u.Op == token.MUL && !ok {
			if tia, isIA := u.X.(*ssa.IndexAddr); isIA {
				tab, _ := fr.resolve(tia.X)
				if tab == nil {
					tab = tia.X
				}
				if f := c.tabulatedFunc(tab); f != nil && f.Pkg != nil && f.Pkg.Pkg.Path() == "unicode" && f.Name() == lib {
					if ku, isU := stripConv(tia.Index).(*ssa.UnOp); isU && ku.Op == token.MUL {
						if kia, isIA := ku.X.(*ssa.IndexAddr); isIA && lc.canon(kia.X) == lc.canon(ia.X) && lc.of(kia.Index).equal(lc.of(ia.Index)) {
							if b, isB := tia.Index.Type().Underlying().(*types.Basic); isB && b.Kind() == types.Uint8 {
								ok = true
							}
						}
					}
				}
			}
		}
		nLoops := loopDepthIP(st, fr)
		// every index of every row: the column loop scans the whole row and stores on every
		// iteration; the row is the element of a whole scan of the container's rows
		scanCols, colHead := lc.fullScanLoopAt(fr.fn, ia.X, ia.Index, st.Block())
		scanRows := false
		if scanCols {
			v, f := fr.resolveDeep(ia.X)
			at := colHead
			if f != fr {
				for g := fr; g != nil && g != f; g = g.up {
					at = g.site.Block()
				}
			}
			// v = elem.sequence with elem = rows[k]
			for hops := 0; hops < 3 && v != nil; hops++ {
				_, fld, base := loadedField(v)
				if base == nil || fld != "sequence" {
					break
				}
				b, bf := f.resolveDeep(base)
				for g := f; g != nil && g != bf; g = g.up {
					at = g.site.Block()
				}
				if u, isU := b.(*ssa.UnOp); isU && u.Op == token.MUL {
					if ria, isIA := u.X.(*ssa.IndexAddr); isIA {
						scanRows = lcOf(bf.fn).fullScanAt(bf.fn, ria.X, ria.Index, at)
					}
				}
				break
			}
		}
		ok = ok && scanCols && scanRows
		L.Check(ok && nLoops == 2, "case-fold", r.label, "seq[i] = unicode."+lib+"(seq[i])", c.P.Pos(st.Pos()), "stored at the index it was loaded from, inside the row loop and the column loop",
			fmt.Sprintf("the stored value is not unicode.%s of the byte at the same row and index, or some index is skipped (mapping and index ok=%v, enclosing loops=%d, column loop scans the whole row=%v, row loop scans every row=%v)", lib, ok, nLoops, scanCols, scanRows))
	}
	L.Floor("case-fold", 2, "two functions")
}

// gapFilterLoop: fn contains a range loop over a row buffer that appends the element to an
// accumulator (empty before the loop) on exactly the paths where the element differs from the gap
// character, and the string of the accumulator after the loop is what is added to the result.
func (c *Ctx) gapFilterLoop(fn *ssa.Function, gap int64) (bool, string) {
	lc := newLinCtx(c, fn)
	bf := computeBranchFacts(fn)
	isRow := func(v ssa.Value) bool {
		_, f, base := loadedField(v)
		return base != nil && f == "sequence"
	}
	for _, rl := range lc.rangeLoopsOver(fn, isRow) {
		if len(rl.elems) == 0 {
			continue
		}
		isElem := func(v ssa.Value) bool {
			for _, e := range rl.elems {
				if v == ssa.Value(e) {
					return true
				}
			}
			return false
		}
		// the comparison elem != GAP (or ==)
		var cmps []*ssa.BinOp
		for b := range rl.lp.Blocks {
			for _, in := range b.Instrs {
				if bo, ok := in.(*ssa.BinOp); ok && (bo.Op == token.NEQ || bo.Op == token.EQL) && isElem(bo.X) {
					if k, ok := constInt(bo.Y); ok && k == gap {
						cmps = append(cmps, bo)
					}
				}
			}
		}
		if len(cmps) == 0 {
			continue
		}
		isNotGapAt := func(b *ssa.BasicBlock, want bool) bool {
			for _, bo := range cmps {
				if bf.knownAt(b, bo, (bo.Op == token.NEQ) == want) {
					return true
				}
			}
			return false
		}
		// accumulator: a []uint8 φ of the loop header, empty on entry
		for _, in := range rl.header.Instrs {
			acc, ok := in.(*ssa.Phi)
			if !ok {
				continue
			}
			sl, isSl := acc.Type().Underlying().(*types.Slice)
			if !isSl {
				continue
			}
			if b, isB := sl.Elem().Underlying().(*types.Basic); !isB || b.Kind() != types.Uint8 {
				continue
			}
			good := true
			var app *ssa.Call
			var visit func(v ssa.Value, from, to *ssa.BasicBlock, seen map[ssa.Value]bool)
			visit = func(v ssa.Value, from, to *ssa.BasicBlock, seen map[ssa.Value]bool) {
				switch x := v.(type) {
				case *ssa.Phi:
					if x == acc {
						// unchanged on this path: the element was the gap
						isGap := false
						for _, bo := range cmps {
							if bf.knownOnEdge(from, to, bo, bo.Op == token.EQL) {
								isGap = true
							}
						}
						if !isGap {
							good = false
						}
						return
					}
					if seen[x] || !rl.lp.Blocks[x.Block()] {
						good = false
						return
					}
					seen[x] = true
					for k, e := range x.Edges {
						visit(e, x.Block().Preds[k], x.Block(), seen)
					}
				case *ssa.Call:
					base, one := appendOne(x)
					if !one || base != ssa.Value(acc) || (app != nil && app != x) {
						good = false
						return
					}
					// the appended element is the loop element, and the append runs only for non-gaps
					sl := x.Common().Args[1].(*ssa.Slice)
					stored := false
					if refs := sl.X.Referrers(); refs != nil {
						for _, ref := range *refs {
							if ia, ok := ref.(*ssa.IndexAddr); ok && ia.Referrers() != nil {
								for _, r2 := range *ia.Referrers() {
									if st, ok := r2.(*ssa.Store); ok && isElem(st.Val) {
										stored = true
									}
								}
							}
						}
					}
					if !stored || !isNotGapAt(x.Block(), true) {
						good = false
					}
					app = x
				default:
					good = false
				}
			}
			entryEmpty := false
			for k, e := range acc.Edges {
				if !rl.lp.Blocks[rl.header.Preds[k]] {
					if ms, ok := e.(*ssa.MakeSlice); ok {
						if n, ok := constInt(ms.Len); ok && n == 0 {
							entryEmpty = true
						}
					} else if isEmptySlice(e) {
						entryEmpty = true
					}
					continue
				}
				visit(e, rl.header.Preds[k], rl.header, map[ssa.Value]bool{})
			}
			if !good || app == nil || !entryEmpty {
				continue
			}
			// string(acc) reaches AddSequence
			used := false
			if refs := acc.Referrers(); refs != nil {
				for _, ref := range *refs {
					if cv, ok := ref.(*ssa.Convert); ok && !rl.lp.Blocks[cv.Block()] {
						if cr := cv.Referrers(); cr != nil {
							for _, u := range *cr {
								if call, ok := u.(*ssa.Call); ok {
									if f := call.Common().StaticCallee(); (f != nil && f.Name() == "AddSequence") || (call.Common().IsInvoke() && call.Common().Method.Name() == "AddSequence") {
										used = true
									}
								}
							}
						}
					}
				}
			}
			if used {
				return true, "filter loop over the row: the element is appended to an accumulator that is empty before the loop exactly when it differs from GAP, and string(accumulator) is added"
			}
		}
	}
	return false, "no filter loop `if c != GAP { out = append(out, c) }` over the row either"
}

func (c *Ctx) checkUnalign() {
	L := c.L
	L.Rule("unalign-gap", "Unalign adds, for every row, strings.Replace(row, GAP, \"\", -1) under the row's own name and comment to a container created in the function")
	r := c.fn("align", "*seqbag", "Unalign")
	if !r.ok() {
		return
	}
	fn := r.F
	gap := "-"
	if g := constByName(c.P.Pkg("align"), "GAP"); g != nil {
		if k, ok := cInt(g); ok {
			gap = string(rune(k))
		}
	}
	ok := false
	det := "no strings.Replace / ReplaceAll of the row found"
	allInstrs(fn, func(in ssa.Instruction) {
		call, isCall := in.(*ssa.Call)
		if !isCall {
			return
		}
		cc := call.Common()
		if isPkgFunc(cc, "strings", "Replace") || isPkgFunc(cc, "strings", "ReplaceAll") {
			old, _ := cStr(constOf(cc.Args[1]))
			nw, isNew := cStr(constOf(cc.Args[2]))
			all := true
			if isPkgFunc(cc, "strings", "Replace") {
				n, isN := constInt(cc.Args[3])
				all = isN && n < 0
			}
			src := false
			if cv, isCv := cc.Args[0].(*ssa.Convert); isCv {
				if _, f, base := loadedField(cv.X); base != nil && f == "sequence" {
					src = true
				}
			}
			ok = old == gap && isNew && nw == "" && all && src
			det = fmt.Sprintf("replaces %q by %q, all occurrences: %v, source is the row: %v", old, nw, all, src)
		}
		// a package-level strings.Replacer built once from the constant pair (GAP, "")
		if f := cc.StaticCallee(); f != nil && f.Name() == "Replace" && f.Pkg != nil && f.Pkg.Pkg.Path() == "strings" && f.Signature.Recv() != nil && len(cc.Args) == 2 {
			if pairs, isRep := c.replacerPairs(cc.Args[0]); isRep && len(pairs) == 2 {
				src := false
				if cv, isCv := cc.Args[1].(*ssa.Convert); isCv {
					if _, f, base := loadedField(cv.X); base != nil && f == "sequence" {
						src = true
					}
				}
				ok = pairs[0] == gap && pairs[1] == "" && src
				det = fmt.Sprintf("package-level replacer of %q by %q, source is the row: %v", pairs[0], pairs[1], src)
			}
		}
	})
	if !ok {
		// the same thing written as a filter loop: out = append(out, c) for exactly the c != GAP
		if fok, fdet := c.gapFilterLoop(fn, int64(gap[0])); fok {
			ok, det = true, fdet
		} else if fdet != "" {
			det += "; " + fdet
		}
	}
	L.Check(ok, "unalign-gap", r.label, "strings.Replace(row, GAP, \"\", -1)", c.P.Pos(fn.Pos()), det, det)
	L.Floor("unalign-gap", 1, "one call")
}
