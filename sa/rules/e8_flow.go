package rules

import (
	"go/constant"
	"go/token"
	"go/types"

	"golang.org/x/tools/go/ssa"
)

// Small value-flow helpers shared by the E8 rules.

// eventCounts: possible numbers (0, 1, 2 = two or more) of event instructions
// executed on a path from the head of the loop to a back edge.
func eventCounts(lp *loop, isEvent func(ssa.Instruction) bool) map[int]bool {
	type cnt = map[int]bool
	inS := map[*ssa.BasicBlock]cnt{lp.Head: {0: true}}
	work := []*ssa.BasicBlock{lp.Head}
	latch := cnt{}
	for len(work) > 0 {
		b := work[0]
		work = work[1:]
		cur := cnt{}
		for k := range inS[b] {
			cur[k] = true
		}
		for _, in := range b.Instrs {
			if isEvent(in) {
				nc := cnt{}
				for k := range cur {
					if k+1 > 2 {
						nc[2] = true
					} else {
						nc[k+1] = true
					}
				}
				cur = nc
			}
		}
		for _, s := range b.Succs {
			if !lp.Blocks[s] {
				continue
			}
			if s == lp.Head {
				for k := range cur {
					latch[k] = true
				}
				continue
			}
			old := inS[s]
			if old == nil {
				old = cnt{}
				inS[s] = old
			}
			grew := false
			for k := range cur {
				if !old[k] {
					old[k] = true
					grew = true
				}
			}
			if grew {
				work = append(work, s)
			}
		}
	}
	return latch
}

func countsString(m map[int]bool) string {
	s := ""
	for _, k := range []int{0, 1, 2} {
		if m[k] {
			if s != "" {
				s += ","
			}
			s += map[int]string{0: "0", 1: "1", 2: ">=2"}[k]
		}
	}
	return "{" + s + "}"
}

// throughPhis: the set of values v can take its value from, looking through
// φ-nodes, value-preserving conversions and (optionally) the base of append.
func throughPhis(v ssa.Value, viaAppend bool) map[ssa.Value]bool {
	seen := map[ssa.Value]bool{}
	var rec func(v ssa.Value)
	rec = func(v ssa.Value) {
		if v == nil || seen[v] {
			return
		}
		seen[v] = true
		switch x := v.(type) {
		case *ssa.Phi:
			for _, e := range x.Edges {
				rec(e)
			}
		case *ssa.Convert:
			rec(x.X)
		case *ssa.ChangeType:
			rec(x.X)
		case *ssa.Call:
			if viaAppend && builtinName(x.Common()) == "append" {
				rec(x.Common().Args[0])
			}
		}
	}
	rec(v)
	return seen
}

// flowsInto: does value src reach dst through φ-nodes / conversions / append bases?
func flowsInto(src, dst ssa.Value, viaAppend bool) bool {
	return throughPhis(dst, viaAppend)[src]
}

// paramByName returns the named parameter of fn.
// paramByName resolves a parameter by the name the rules use for its role. The function's own
// parameter names come first; when the implementation renamed them, the names declared for the
// same method in an interface of the package (the documented signature, e.g. Alignment.Mask) give
// the position; last, the table of positions of the few non-interface functions the rules name a
// parameter of. Parameter order and types of these functions are API or are fixed by their
// callers, so positions survive a behaviour-preserving edit where names do not.
func paramByName(fn *ssa.Function, name string) *ssa.Parameter {
	for _, p := range fn.Params {
		if p.Name() == name {
			return p
		}
	}
	off := 0
	if fn.Signature.Recv() != nil {
		off = 1
	}
	for i, dn := range declaredParamNames(fn) {
		if dn == name && i+off < len(fn.Params) {
			return fn.Params[i+off]
		}
	}
	return nil
}

// paramPositions: role name -> position (receiver excluded) for functions that implement no
// interface method.
var paramPositions = map[string][]string{
	"countMutations":             {"seq1", "seq2", "selectedSites", "weights"},
	"countDiffs":                 {"seq1", "seq2", "selectedSites", "weights", "removeAmbiguous"},
	"countDiffsWithGaps":         {"seq1", "seq2", "selectedSites", "weights", "removeAmbiguous"},
	"countDiffsWithInternalGaps": {"seq1", "seq2", "selectedSites", "weights", "removeAmbiguous"},
	"countMutationsNoAmbiguous":  {"seq1", "seq2", "selectedSites", "weights"},
	"ReadAlign":                  {"file", "format"},
}

// declaredParamNames: the documented parameter names of fn (receiver excluded): those of the
// interface method of the same name and arity in fn's package if there is one, else the table.
func declaredParamNames(fn *ssa.Function) []string {
	n := fn.Signature.Params().Len()
	if fn.Pkg != nil && fn.Signature.Recv() != nil {
		sc := fn.Pkg.Pkg.Scope()
		for _, nm := range sc.Names() {
			tn, ok := sc.Lookup(nm).(*types.TypeName)
			if !ok {
				continue
			}
			it, ok := tn.Type().Underlying().(*types.Interface)
			if !ok {
				continue
			}
			for i := 0; i < it.NumMethods(); i++ {
				m := it.Method(i)
				sig := m.Type().(*types.Signature)
				if m.Name() != fn.Name() || sig.Params().Len() != n {
					continue
				}
				same := true
				var names []string
				for k := 0; k < n; k++ {
					if !types.Identical(sig.Params().At(k).Type(), fn.Signature.Params().At(k).Type()) {
						same = false
					}
					names = append(names, sig.Params().At(k).Name())
				}
				if same {
					return names
				}
			}
		}
	}
	if t, ok := paramPositions[fn.Name()]; ok && len(t) <= n {
		return t
	}
	return nil
}

// mentions: v is computed (through arithmetic, conversions, φ) from target.
func mentions(v, target ssa.Value) bool {
	seen := map[ssa.Value]bool{}
	var rec func(v ssa.Value) bool
	rec = func(v ssa.Value) bool {
		if v == target {
			return true
		}
		if v == nil || seen[v] {
			return false
		}
		seen[v] = true
		switch x := v.(type) {
		case *ssa.Phi:
			for _, e := range x.Edges {
				if rec(e) {
					return true
				}
			}
		case *ssa.Convert:
			return rec(x.X)
		case *ssa.ChangeType:
			return rec(x.X)
		case *ssa.BinOp:
			return rec(x.X) || rec(x.Y)
		case *ssa.UnOp:
			return rec(x.X)
		}
		return false
	}
	return rec(v)
}

func isFloatConst(v ssa.Value, want float64) bool {
	c := constOf(v)
	if c == nil {
		return false
	}
	if c.Kind() != constant.Float && c.Kind() != constant.Int {
		return false
	}
	f, _ := constant.Float64Val(constant.ToFloat(c))
	return f == want
}

func isFloatValue(v ssa.Value) bool {
	b, ok := v.Type().Underlying().(*types.Basic)
	return ok && b.Info()&types.IsFloat != 0
}

// cmpNorm normalises a comparison so that `a` is on the left:  a OP b.
func cmpNorm(bo *ssa.BinOp, left ssa.Value) (token.Token, ssa.Value, bool) {
	if bo.X == left {
		return bo.Op, bo.Y, true
	}
	if bo.Y == left {
		switch bo.Op {
		case token.LSS:
			return token.GTR, bo.X, true
		case token.LEQ:
			return token.GEQ, bo.X, true
		case token.GTR:
			return token.LSS, bo.X, true
		case token.GEQ:
			return token.LEQ, bo.X, true
		case token.EQL, token.NEQ:
			return bo.Op, bo.X, true
		}
	}
	return token.ILLEGAL, nil, false
}

// guardedByBool: block b is dominated by the branch of an `If cond` on which
// the boolean value `flag` has the given truth.
func guardedByBool(b *ssa.BasicBlock, flag ssa.Value, truth bool) bool {
	for d := b; d != nil; d = d.Idom() {
		for _, p := range d.Preds {
			if len(p.Instrs) == 0 {
				continue
			}
			ifi, ok := p.Instrs[len(p.Instrs)-1].(*ssa.If)
			if !ok || p.Succs[0] == p.Succs[1] {
				continue
			}
			cond, neg := ifi.Cond, false
			for {
				if u, ok := cond.(*ssa.UnOp); ok && u.Op == token.NOT {
					cond, neg = u.X, !neg
					continue
				}
				break
			}
			if cond != flag {
				continue
			}
			want := truth != neg
			var succ *ssa.BasicBlock
			if want {
				succ = p.Succs[0]
			} else {
				succ = p.Succs[1]
			}
			if succ == d && len(d.Preds) == 1 && (d == b || d.Dominates(b)) {
				return true
			}
		}
	}
	return false
}

// isCallTo reports a static call to pkg.name and returns its arguments.
func isCallTo(v ssa.Value, pkg, name string) ([]ssa.Value, bool) {
	call, ok := v.(*ssa.Call)
	if !ok || !isPkgFunc(call.Common(), pkg, name) {
		return nil, false
	}
	return call.Common().Args, true
}

// storesToField lists the stores in fn whose address is field f of type T.
func storesToField(fn *ssa.Function, T, f string) []*ssa.Store {
	var out []*ssa.Store
	for _, g := range withAnons(fn) {
		allInstrs(g, func(in ssa.Instruction) {
			if st, ok := in.(*ssa.Store); ok {
				if t, fl, fa := fieldAddrOf(st.Addr); fa != nil && t == T && fl == f {
					out = append(out, st)
				}
			}
		})
	}
	return out
}

// innermostLoopOf returns the smallest natural loop of fn that contains b.
func innermostLoopOf(loops []*loop, b *ssa.BasicBlock) *loop {
	var best *loop
	for _, lp := range loops {
		if lp.Blocks[b] && (best == nil || len(lp.Blocks) < len(best.Blocks)) {
			best = lp
		}
	}
	return best
}
