package rules

import (
	"fmt"
	"go/ast"
	"go/token"
	"go/types"
	"strings"

	"golang.org/x/tools/go/ssa"
)

func init() {
	register(&Property{ID: "C08", Run: runC08,
		Explanation: "Static decision of the concurrency clauses of C08 on distance/dna.DistMatrix: (a) the call returns — every worker executes wg.Done on all paths, the producer closes the work channel on all paths, a Wait exists; (b) no data race on scalar shared state (lockset on every captured variable, parent accesses between spawn and join included); (c) thread-count independence — cross-item accumulations in workers are exact and commutative (a guarded maximum under the mutex) and the collected pair list is consumed by a loop that only writes per-item cells; (d) no random draw is reachable from the goroutines; (e) an error returned by the model is stored to the function's error result where it is produced. Not decided: invariance under column permutation/replication/reverse complement, linear scaling (relational, value level); disjointness of matrix cell writes is assumed from the producer enumerating each pair once."})
}

func runC08(c *Ctx) {
	L := c.L
	c.checkNoLibraryGlobalWrites("library-global-state")
	r := c.fn("distance/dna", "", "DistMatrix")
	if !r.ok() {
		return
	}
	c.checkJoinProtocol(r, "")
	L.Floor("wg-done", 2, "worker goroutines + Wait")
	L.Floor("chan-close", 1, "distchan")
	c.checkLockset(r, "lockset")
	L.Floor("lockset", 1, "err, max, uncompute (+ range bounds) (floor = half of the instances on the pinned tree: a clean-up may merge instances, a rule that sees nothing must still fail)")

	// (d) RNG in these goroutines
	L.Rule("rng-in-goroutine", "no top-level math/rand function is reachable through the call graph from the goroutines of DistMatrix")
	cg := c.CallGraph(c.P)
	n := 0
	for _, gs := range goSites(c.P) {
		if gs.fn != r.F || gs.root == nil {
			continue
		}
		n++
		reach := cg.Reachable(gs.root, c.P.InModule)
		bad := ""
		for f, path := range reach {
			if isGlobalRandDraw(f) || isDistRand(f) {
				var ps []string
				for _, x := range path {
					ps = append(ps, x.String())
				}
				bad = strings.Join(ps, " → ")
			}
		}
		name := "go " + c.P.FuncName(gs.root)
		if bad == "" {
			L.OK("rng-in-goroutine", r.label, name, c.P.Pos(gs.g.Pos()), fmt.Sprintf("%d functions reachable, none draws from the global stream", len(reach)))
		} else {
			L.Bad("rng-in-goroutine", r.label, name, c.P.Pos(gs.g.Pos()), "random draw reachable from a worker: "+bad)
		}
	}
	L.Floor("rng-in-goroutine", 2, "producer + workers")

	// (a') every Lock is released on every path (a worker that keeps the mutex blocks all others and wg.Wait forever)
	L.Rule("lock-released", "in DistMatrix and each of its closures, every mux.Lock() is followed by mux.Unlock() on every path before the function returns or starts its next loop iteration (a continue/return between Lock and Unlock leaves the mutex held)")
	for _, g := range withAnons(r.F) {
		var locks []ssa.Instruction
		allInstrs(g, func(in ssa.Instruction) {
			if cc := callOf(in); cc != nil && isSyncMethod(cc, "Mutex", "Lock") {
				if _, isDefer := in.(*ssa.Defer); !isDefer {
					locks = append(locks, in)
				}
			}
		})
		for _, lk := range locks {
			isUnlock := func(in ssa.Instruction) bool {
				cc := callOf(in)
				return cc != nil && isSyncMethod(cc, "Mutex", "Unlock")
			}
			ok := lockReleasedBeforeNextLock(g, lk, isUnlock)
			name := "mux.Lock in " + c.P.FuncName(g)
			if ok {
				L.OK("lock-released", r.label, name, c.P.Pos(lk.Pos()), "every path from this Lock reaches Unlock before a return or another Lock")
			} else {
				L.Bad("lock-released", r.label, name, c.P.Pos(lk.Pos()), "a path from this Lock reaches a return, the next loop iteration's Lock, or the end of the goroutine without Unlock: the other workers block on the mutex and DistMatrix never returns")
			}
		}
	}
	L.Floor("lock-released", 2, "setErr and the worker's max/uncompute section")
	c.checkWorkersDrain(r, "workers-drain")
	L.Floor("workers-drain", 1, "worker loop")
	c.checkWeightedAccumulation("weighted-accumulation")
	L.Floor("weighted-accumulation", 6, "accumulations in the five counters and probaNt (floor = half of the instances on the pinned tree: a clean-up may merge instances, a rule that sees nothing must still fail)")

	c.checkErrorStoredWhereProduced(r)
	c.checkWorkerAccumulations(r)
	L.Note("function analysed: %s with %d closures", r.label, len(r.F.AnonFuncs))
}

// (e) the error component of every call to a DistModel method inside
// DistMatrix (and its closures) is stored to the named error result.
func (c *Ctx) checkErrorStoredWhereProduced(r *fnRef) {
	L := c.L
	L.Rule("error-propagated", "the error returned by model.Distance / model.Sequence / model.InitModel inside DistMatrix is stored to the function's error result in the block where it is produced (and the function returns that variable), so a failing model evaluation comes back to the caller")
	F := r.F
	_, bind := closuresOf(F)
	// the error result cell
	var errCell ssa.Value
	for _, b := range F.Blocks {
		for _, in := range b.Instrs {
			if a, ok := in.(*ssa.Alloc); ok && a.Comment == "err" {
				errCell = a
			}
		}
	}
	n := 0
	for _, f := range withAnons(F) {
		allInstrs(f, func(in ssa.Instruction) {
			call, ok := in.(*ssa.Call)
			if !ok || !call.Common().IsInvoke() {
				return
			}
			nt := namedOf(call.Common().Value.Type())
			if nt == nil || nt.Obj().Name() != "DistModel" {
				return
			}
			n++
			name := "call " + call.Common().Method.Name() + " in " + c.P.FuncName(f)
			// error component
			var errVal ssa.Value
			if call.Type().String() == "error" {
				errVal = call
			} else if refs := call.Referrers(); refs != nil {
				for _, rr := range *refs {
					if ex, ok := rr.(*ssa.Extract); ok && ex.Type().String() == "error" {
						errVal = ex
					}
				}
			}
			if errVal == nil {
				L.Bad("error-propagated", r.label, name, c.P.Pos(call.Pos()), "the error result of the model call is discarded")
				return
			}
			stored := false
			if refs := errVal.Referrers(); refs != nil {
				for _, rr := range *refs {
					switch x := rr.(type) {
					case *ssa.Store:
						if errCell != nil && resolveCell(x.Addr, bind) == errCell {
							stored = true
						}
						// stored to a local that is then copied to err under a lock
						if a, ok := x.Addr.(*ssa.Alloc); ok && flowsToCell(a, errCell, bind) {
							stored = true
						}
					case *ssa.Return:
						stored = true
					}
				}
				if !stored && valueFlowsToCell(errVal, errCell, bind) {
					stored = true
				}
			}
			if errCell == nil {
				// err is a register: the call's error must reach a Return
				stored = stored || reachesReturn(errVal)
			}
			L.Check(stored, "error-propagated", r.label, name, c.P.Pos(call.Pos()), "error component is stored to the error result", "the error of the model call never reaches the function's error result: the failure is silently lost")
		})
	}
	L.Floor("error-propagated", 2, "InitModel, Sequence x3+, Distance (floor = half of the instances on the pinned tree: a clean-up may merge instances, a rule that sees nothing must still fail)")
	_ = n
}

func reachesReturn(v ssa.Value) bool {
	seen := map[ssa.Value]bool{}
	var rec func(v ssa.Value) bool
	rec = func(v ssa.Value) bool {
		if seen[v] {
			return false
		}
		seen[v] = true
		refs := v.Referrers()
		if refs == nil {
			return false
		}
		for _, r := range *refs {
			switch x := r.(type) {
			case *ssa.Return:
				return true
			case *ssa.Phi:
				if rec(x) {
					return true
				}
			}
		}
		return false
	}
	return rec(v)
}

// valueFlowsToCell: v (through phis / conditionals) is stored to cell.
func valueFlowsToCell(v ssa.Value, cell ssa.Value, bind map[*ssa.FreeVar]ssa.Value) bool {
	if cell == nil {
		return false
	}
	seen := map[ssa.Value]bool{}
	var rec func(v ssa.Value) bool
	rec = func(v ssa.Value) bool {
		if seen[v] {
			return false
		}
		seen[v] = true
		refs := v.Referrers()
		if refs == nil {
			return false
		}
		for _, r := range *refs {
			switch x := r.(type) {
			case *ssa.Store:
				if x.Val == v && resolveCell(x.Addr, bind) == cell {
					return true
				}
				if a, ok := x.Addr.(*ssa.Alloc); ok && x.Val == v && flowsToCell(a, cell, bind) {
					return true
				}
			case *ssa.Phi:
				if rec(x) {
					return true
				}
			case *ssa.Call:
				// argument of a helper closure of the enclosing function
				if g := closureTarget(x.Common().Value, x.Parent(), bind); g != nil {
					for i, a := range x.Common().Args {
						if a == v && i < len(g.Params) && rec(g.Params[i]) {
							return true
						}
					}
				}
			case *ssa.MakeInterface:
				if rec(x) {
					return true
				}
			}
		}
		return false
	}
	return rec(v)
}

func flowsToCell(a *ssa.Alloc, cell ssa.Value, bind map[*ssa.FreeVar]ssa.Value) bool {
	if cell == nil || a == cell {
		return a == cell
	}
	refs := a.Referrers()
	if refs == nil {
		return false
	}
	for _, r := range *refs {
		if u, ok := r.(*ssa.UnOp); ok && u.Op == token.MUL {
			if valueFlowsToCell(u, cell, bind) {
				return true
			}
		}
	}
	return false
}

// (c) cross-item accumulations in workers
func (c *Ctx) checkWorkerAccumulations(r *fnRef) {
	L := c.L
	L.Rule("order-free-accumulation", "every store by a worker goroutine to a shared scalar is either the error result or a guarded maximum (`if x > m { m = x }`, exact and commutative); every shared slice that workers append to is consumed after the join by a loop whose body only writes per-item cells (classified like a map traversal); so the result does not depend on which worker handles which pair")
	F := r.F
	decl := c.P.Decl(F)
	if decl == nil {
		L.Unknown("order-free-accumulation", r.label, "syntax", "-", "no syntax for the function")
		return
	}
	pk, file := c.P.FileOf(F.Pos())
	info := pk.TypesInfo
	// go-closures launched in a loop = workers
	n := 0
	ast.Inspect(decl.Body, func(nd ast.Node) bool {
		gs, ok := nd.(*ast.GoStmt)
		if !ok {
			return true
		}
		fl, ok := gs.Call.Fun.(*ast.FuncLit)
		if !ok || !enclosedByLoop(decl.Body, gs) {
			return true
		}
		// assignments to variables declared outside the literal
		ast.Inspect(fl.Body, func(m ast.Node) bool {
			as, ok := m.(*ast.AssignStmt)
			if !ok || as.Tok == token.DEFINE {
				return true
			}
			for i, l := range as.Lhs {
				root := rootObj(info, l)
				if root == nil || (root.Pos() >= fl.Pos() && root.Pos() <= fl.End()) {
					continue // worker-local
				}
				if _, isIdx := l.(*ast.IndexExpr); isIdx {
					continue // per-item cell (assumed partitioned, see lockset rule)
				}
				n++
				name := "worker store to " + root.Name()
				pos := c.P.Pos(as.Pos())
				switch {
				case isErrorT(root.Type()):
					L.OK("order-free-accumulation", r.label, name, pos, "error result: any failing pair makes the call fail")
				case len(as.Rhs) == len(as.Lhs) && isAppendTo(info, as.Rhs[i], l):
					// consumer loop after the join
					ok, why := c.collectionConsumedOrderFree(info, file, decl, root)
					if ok {
						L.OK("order-free-accumulation", r.label, name, pos, why)
					} else {
						L.Bad("order-free-accumulation", r.label, name, pos, why)
					}
				case isGuardedMax(info, fl.Body, as, l) || c.guardedMaxSSA(F, l.Pos()):
					L.OK("order-free-accumulation", r.label, name, pos, "guarded maximum `if x > m { m = x }`: exact and commutative")
				default:
					L.Bad("order-free-accumulation", r.label, name, pos, "a worker updates shared state in a way that depends on the order in which pairs are processed")
				}
			}
			return true
		})
		return true
	})
	if n == 0 {
		c.checkWorkerAccumulationsSSA(r, decl, info, file)
	}
	L.Floor("order-free-accumulation", 2, "uncompute, max")
}

// checkWorkerAccumulationsSSA: the same classification on the SSA of the worker closures (through
// the inlined view when the worker body has been moved into a helper that receives the shared
// variables by pointer): every store of a worker to a cell shared with the parent is the error
// result, an append to a slice that is consumed order-free after the join, or a guarded maximum.
func (c *Ctx) checkWorkerAccumulationsSSA(r *fnRef, decl *ast.FuncDecl, info *types.Info, file *ast.File) {
	L := c.L
	F := r.F
	clos, bind := closuresOf(F)
	objByName := func(name string) types.Object {
		var o types.Object
		ast.Inspect(decl, func(n ast.Node) bool {
			if id, ok := n.(*ast.Ident); ok && id.Name == name {
				if d := info.Defs[id]; d != nil && o == nil {
					o = d
				}
			}
			return true
		})
		return o
	}
	for _, ci := range clos {
		if ci.via == nil || !ci.loop {
			continue
		}
		g := ci.fn
		bf := computeBranchFacts(g)
		lc := newLinCtx(c, g)
		allInstrs(g, func(in ssa.Instruction) {
			st, ok := in.(*ssa.Store)
			if !ok {
				return
			}
			fv, ok := st.Addr.(*ssa.FreeVar)
			if !ok {
				return
			}
			cell := bind[fv]
			if cell == nil {
				return
			}
			name := "worker store to " + fv.Name()
			pos := c.P.Pos(st.Pos())
			elem := fv.Type().Underlying().(*types.Pointer).Elem()
			switch {
			case isErrorT(elem):
				L.OK("order-free-accumulation", r.label, name, pos, "error result: any failing pair makes the call fail")
			case func() bool {
				call, ok := st.Val.(*ssa.Call)
				if !ok || builtinName(call.Common()) != "append" {
					return false
				}
				ld, ok := call.Common().Args[0].(*ssa.UnOp)
				return ok && ld.X == ssa.Value(fv)
			}():
				coll := objByName(fv.Name())
				if coll == nil {
					L.Unknown("order-free-accumulation", r.label, name, pos, "cannot find the declaration of the shared slice to inspect its consumers")
					return
				}
				if ok, why := c.collectionConsumedOrderFree(info, file, decl, coll); ok {
					L.OK("order-free-accumulation", r.label, name, pos, why)
				} else {
					L.Bad("order-free-accumulation", r.label, name, pos, why)
				}
			default:
				// guarded maximum: the store is reached only when `value > *cell` is known true
				same := func(a, b ssa.Value) bool { return a == b || sameOperand(a, b) || lc.canon(a) == lc.canon(b) }
				guarded := false
				allInstrs(g, func(in2 ssa.Instruction) {
					bo, ok := in2.(*ssa.BinOp)
					if !ok {
						return
					}
					isLoad := func(v ssa.Value) bool {
						u, ok := v.(*ssa.UnOp)
						return ok && u.Op == token.MUL && u.X == ssa.Value(fv)
					}
					var gd bool
					switch bo.Op {
					case token.GTR, token.GEQ:
						gd = same(bo.X, st.Val) && isLoad(bo.Y)
					case token.LSS, token.LEQ:
						gd = same(bo.Y, st.Val) && isLoad(bo.X)
					}
					if gd && bf.knownAt(st.Block(), bo, true) {
						guarded = true
					}
				})
				if guarded {
					L.OK("order-free-accumulation", r.label, name, pos, "guarded maximum `if x > m { m = x }`: exact and commutative")
				} else {
					L.Bad("order-free-accumulation", r.label, name, pos, "a worker updates shared state in a way that depends on the order in which pairs are processed")
				}
			}
		})
	}
}

// guardedMaxSSA: the store at the given position assigns x to a shared cell m and is reached only
// when `x > m` (or `m < x`, or the non-strict forms) is known true, whatever statement form
// (if, else-if, tagless switch, named boolean) expresses the guard.
func (c *Ctx) guardedMaxSSA(F *ssa.Function, at token.Pos) bool {
	for _, g := range withAnons(F) {
		var st *ssa.Store
		allInstrs(g, func(in ssa.Instruction) {
			if s, ok := in.(*ssa.Store); ok && s.Pos() == at {
				st = s
			}
		})
		if st == nil {
			continue
		}
		bf := computeBranchFacts(g)
		lc := newLinCtx(c, g)
		same := func(a, b ssa.Value) bool { return a == b || sameOperand(a, b) || lc.canon(a) == lc.canon(b) }
		isCellLoad := func(v ssa.Value) bool {
			u, ok := v.(*ssa.UnOp)
			return ok && u.Op == token.MUL && u.X == st.Addr
		}
		ok := false
		allInstrs(g, func(in ssa.Instruction) {
			bo, isBO := in.(*ssa.BinOp)
			if !isBO {
				return
			}
			var guard bool
			switch bo.Op {
			case token.GTR, token.GEQ:
				guard = same(bo.X, st.Val) && isCellLoad(bo.Y)
			case token.LSS, token.LEQ:
				guard = same(bo.Y, st.Val) && isCellLoad(bo.X)
			}
			if guard && bf.knownAt(st.Block(), bo, true) {
				ok = true
			}
		})
		return ok
	}
	return false
}

func isAppendTo(info interface{}, rhs ast.Expr, lhs ast.Expr) bool {
	ce, ok := rhs.(*ast.CallExpr)
	if !ok {
		return false
	}
	id, ok := ce.Fun.(*ast.Ident)
	if !ok || id.Name != "append" || len(ce.Args) == 0 {
		return false
	}
	return exprStr(nil, ce.Args[0]) == exprStr(nil, lhs)
}

// isGuardedMax: the assignment m = x is the only statement of an if/else-if
// body whose condition is x > m (or m < x).
func isGuardedMax(info interface{}, body *ast.BlockStmt, as *ast.AssignStmt, lhs ast.Expr) bool {
	if len(as.Lhs) != 1 || len(as.Rhs) != 1 {
		return false
	}
	ok := false
	ast.Inspect(body, func(n ast.Node) bool {
		ifs, isIf := n.(*ast.IfStmt)
		if !isIf || len(ifs.Body.List) != 1 || ifs.Body.List[0] != ast.Stmt(as) {
			return true
		}
		be, isBin := ifs.Cond.(*ast.BinaryExpr)
		if !isBin {
			return true
		}
		m, x := exprStr(nil, lhs), exprStr(nil, as.Rhs[0])
		switch be.Op {
		case token.GTR, token.GEQ:
			ok = exprStr(nil, be.X) == x && exprStr(nil, be.Y) == m
		case token.LSS, token.LEQ:
			ok = exprStr(nil, be.X) == m && exprStr(nil, be.Y) == x
		}
		return true
	})
	return ok
}

// collectionConsumedOrderFree: every range loop over the collected slice in
// the function body (outside goroutines) is order-insensitive.
func (c *Ctx) collectionConsumedOrderFree(info *types.Info, file *ast.File, decl *ast.FuncDecl, coll types.Object) (bool, string) {
	found := 0
	bad := ""
	ast.Inspect(decl.Body, func(n ast.Node) bool {
		if _, isLit := n.(*ast.FuncLit); isLit {
			return false
		}
		rs, ok := n.(*ast.RangeStmt)
		if !ok || objOf(info, rs.X) != coll {
			return true
		}
		found++
		v := classifyRangeBody(info, file, rs)
		if v.class != "insensitive" && v.class != "collect-then-sort" {
			bad = "the loop over " + coll.Name() + " at " + c.P.Pos(rs.Pos()) + " is order-sensitive: " + strings.Join(dedupe(v.reasons), "; ")
		}
		return true
	})
	if bad != "" {
		return false, bad
	}
	// any other use of the collection in the parent (index, len, pass to call) after the join is order-revealing
	other := ""
	ast.Inspect(decl.Body, func(n ast.Node) bool {
		if _, isLit := n.(*ast.FuncLit); isLit {
			return false
		}
		switch x := n.(type) {
		case *ast.IndexExpr:
			if objOf(info, x.X) == coll {
				other = "indexed at " + c.P.Pos(x.Pos())
			}
		case *ast.ReturnStmt:
			for _, e := range x.Results {
				if objOf(info, e) == coll {
					other = "returned at " + c.P.Pos(x.Pos())
				}
			}
		}
		return true
	})
	if other != "" {
		return false, "the slice filled in arrival order is " + other
	}
	return true, fmt.Sprintf("appended in arrival order, consumed by %d loop(s) that only write per-item cells", found)
}

// lockReleasedBeforeNextLock: forward search from the Lock: every path hits an
// Unlock before it hits a Return, a RunDefers without deferred unlock, or the
// same/another Lock.
func lockReleasedBeforeNextLock(fn *ssa.Function, lock ssa.Instruction, isUnlock func(ssa.Instruction) bool) bool {
	type pt struct {
		b *ssa.BasicBlock
		i int
	}
	seen := map[*ssa.BasicBlock]bool{}
	ok := true
	var walk func(b *ssa.BasicBlock, start int)
	walk = func(b *ssa.BasicBlock, start int) {
		for i := start; i < len(b.Instrs); i++ {
			in := b.Instrs[i]
			if isUnlock(in) {
				if _, isDefer := in.(*ssa.Defer); !isDefer {
					return
				}
			}
			if cc := callOf(in); cc != nil && isSyncMethod(cc, "Mutex", "Lock") && in != lock {
				ok = false
				return
			}
			if in == lock && !(b == lock.Block() && i == start-1) {
				ok = false // came around a loop back to the Lock while holding it
				return
			}
			if _, isRet := in.(*ssa.Return); isRet {
				ok = false
				return
			}
		}
		for _, s := range b.Succs {
			if s == lock.Block() {
				// re-entering the lock's block from its start: scan up to the lock
				for i := 0; i < len(s.Instrs); i++ {
					if isUnlock(s.Instrs[i]) {
						goto next
					}
					if s.Instrs[i] == lock {
						ok = false
						goto next
					}
				}
			}
			if !seen[s] {
				seen[s] = true
				walk(s, 0)
			}
		next:
		}
	}
	walk(lock.Block(), indexIn(lock.Block(), lock)+1)
	return ok
}
