package rules

import (
	"fmt"
	"go/token"
	"go/types"
	"strings"

	"golang.org/x/tools/go/ssa"
)

// A share computed with an integer division. `float64(1/len(ids))` divides two integers first —
// the result is 0 for every len > 1 — and converts afterwards; `1/float64(len(ids))` was meant.
// Rule: no conversion to a floating-point type of an integer quotient whose dividend is a
// constant (the truncated quotient of a constant by a count is almost never what a weight or a
// frequency needs).
func intQuotientConversions(fn *ssa.Function) []ssa.Instruction {
	var out []ssa.Instruction
	allInstrs(fn, func(in ssa.Instruction) {
		cv, ok := in.(*ssa.Convert)
		if !ok {
			return
		}
		bt, ok := cv.Type().Underlying().(*types.Basic)
		if !ok || bt.Info()&types.IsFloat == 0 {
			return
		}
		q, ok := cv.X.(*ssa.BinOp)
		if !ok || q.Op != token.QUO || !isIntType(q.X.Type()) {
			return
		}
		if _, isK := q.X.(*ssa.Const); !isK {
			return
		}
		if _, isK := q.Y.(*ssa.Const); isK {
			return
		}
		out = append(out, in)
	})
	return out
}

func (c *Ctx) checkIntQuotientShares(rule string, rels ...string) {
	L := c.L
	L.Rule(rule, "no floating-point conversion of an integer quotient with a constant dividend (float64(1/n) is 0 for n > 1): shares and frequencies are divided in floating point")
	n, nf := 0, 0
	for _, fn := range c.P.SrcFuncs(rels...) {
		nf++
		for _, in := range intQuotientConversions(fn) {
			n++
			L.Bad(rule, c.P.FuncName(fn), "integer quotient converted to float", c.P.Pos(in.Pos()), "a constant is divided by an integer before the conversion to floating point: the quotient is truncated (0 as soon as the divisor exceeds the constant), the share it was meant to be is lost")
		}
	}
	L.Trivial(rule, strings.Join(rels, ","), "functions scanned", "-", fmt.Sprintf("%d functions, %d truncated shares", nf, n))
	if cp := c.Controls(); cp != nil {
		fired, silent := false, true
		for _, fn := range cp.SrcFuncs() {
			k := len(intQuotientConversions(fn))
			if fn.Name() == "TruncatedShare" && k > 0 {
				fired = true
			}
			if fn.Name() == "FloatShare" && k > 0 {
				silent = false
			}
		}
		L.ControlMustFire(rule, fired && silent, "controls/intquo.go: float64(1/len(x)) must be flagged, 1/float64(len(x)) must not")
	}
}
