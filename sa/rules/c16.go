package rules

import (
	"fmt"
	"go/token"
	"regexp"
	"strings"

	"golang.org/x/tools/go/ssa"
)

func init() {
	register(&Property{ID: "C16", Run: runC16,
		Explanation: "Static decision of the fan-out protocol, frame-arithmetic and input-immutability clauses of C16: in (*phaser).Phase every worker defers wg.Done, the result channel is closed exactly once after wg.Wait in a goroutine that always runs, the producer channel of SequencesChan is closed after its last send, each worker iteration that completes performs exactly one send on the result channel, no random draw is reachable from the goroutines; in alignAgainstRefsAA the nucleotide cut positions are (phase%3)+3·seqstart and (phase%3)+3·(seqend+1), the amino-acid cut positions seqstart and seqend+1, and NtSeq/CodonSeq are cut with the same two values; in alignAgainstRefsNT the codon offset is (3−nbgapstart%3)%3 added to the same start; the input sequences are only read (effects engine: reverse/complement act on clones, the aligner holds clones). Not decided: longest-ORF optimality, that the chosen frame is the best one, trimming at a verbatim ORF."})
}

func runC16(c *Ctx) {
	L := c.L
	c.checkOrfNormalisation("orf-normalisation")
	c.checkBestLengthComparison("best-length-comparison")
	c.checkReverseSearchEveryRow("reverse-search-every-row")
	ph := c.fn("align", "*phaser", "Phase")
	sc := c.fn("align", "*seqbag", "SequencesChan")
	c.checkJoinProtocol(ph, "")
	c.checkJoinProtocol(sc, "")
	L.Floor("wg-done", 2, "Phase workers + Wait")
	L.Floor("chan-close", 2, "phased, seqs")
	// per-worker state must be private: no scalar or struct variable shared between the workers
	// is written without a lock (the shared err is written only when an alignment error occurred)
	c.locksetErrOnly = map[string]string{"err": "C16 is stated for runs in which no alignment error is reported"}
	c.checkLockset(ph, "lockset")
	c.locksetErrOnly = nil
	c.checkWorkersDrain(ph, "workers-drain")
	L.Floor("workers-drain", 1, "worker loop")
	L.Rule("best-record-replaced", "in the search for the best reference/frame, when a candidate with a better score is found every field of the best record (start, end, sequence, alignment, leading-gap count, ratios) is recomputed from that candidate alone, never from its own previous value")
	nb := 0
	for _, nme := range []string{"alignAgainstRefsAA", "alignAgainstRefsNT"} {
		nb += c.checkBestRecordReplaced("best-record-replaced", c.fn("align", "*phaser", nme))
	}
	L.Floor("best-record-replaced", 4, "fields of the best record in the two search loops (floor = half of the instances on the pinned tree: a clean-up may merge instances, a rule that sees nothing must still fail)")
	L.Floor("lockset", 1, "err (workers' result variables are closure-local)")

	c.checkOneSendPerItem(ph, "one-send-per-item", func(mk *ssa.MakeChan) bool {
		return strings.Contains(mk.Type().String(), "PhasedSequence")
	})
	L.Floor("one-send-per-item", 1, "worker loop of Phase")

	// the closing goroutine: close(phased) after wg.Wait()
	c.checkCloseAfterWait(ph)

	L.Rule("rng-in-goroutine", "no top-level math/rand function is reachable through the call graph from the goroutines of Phase and SequencesChan")
	cg := c.CallGraph(c.P)
	for _, r := range []*fnRef{ph, sc} {
		if !r.ok() {
			continue
		}
		for _, gs := range goSites(c.P) {
			if gs.fn != r.F || gs.root == nil {
				continue
			}
			reach := cg.Reachable(gs.root, c.P.InModule)
			bad := ""
			for f, path := range reach {
				if isGlobalRandDraw(f) || isDistRand(f) {
					var ps []string
					for _, x := range path {
						ps = append(ps, x.String())
					}
					bad = strings.Join(ps, " → ")
				}
			}
			name := "go " + c.P.FuncName(gs.root)
			if bad == "" {
				L.OK("rng-in-goroutine", r.label, name, c.P.Pos(gs.g.Pos()), fmt.Sprintf("%d functions reachable, none draws from the global stream", len(reach)))
			} else {
				L.Bad("rng-in-goroutine", r.label, name, c.P.Pos(gs.g.Pos()), "random draw reachable from a worker: "+bad)
			}
		}
	}
	L.Floor("rng-in-goroutine", 1, "Phase workers, closer, SequencesChan producer (floor = half of the instances on the pinned tree: a clean-up may merge instances, a rule that sees nothing must still fail)")

	c.checkPhaseCoordinatesAA()
	c.checkPhaseCoordinatesNT()
	c.checkC16Purity()
	c.checkSetters("setter-records-arguments", "align", "*phaser", "*pwaligner")
	c.L.Floor("setter-records-arguments", 7, "14 parameters of the phaser and aligner setters (floor = half)")
	c.checkMatrixScans("matrix-scan-full", "fillMatrix_SW", "backTrack")
	c.checkPairedLines("paired-lines", "align")
}

// close(phased) must be preceded by wg.Wait() in the same goroutine.
func (c *Ctx) checkCloseAfterWait(r *fnRef) {
	L := c.L
	L.Rule("close-after-join", "the result channel is closed only after wg.Wait() returned in the same goroutine (no worker can send on a closed channel), and that goroutine is started on every path of Phase that started workers")
	if !r.ok() {
		return
	}
	F := r.F
	clos, bind := closuresOf(F)
	found := false
	for _, ci := range clos {
		var closeIn, waitIn ssa.Instruction
		allInstrs(ci.fn, func(in ssa.Instruction) {
			cc := callOf(in)
			if cc == nil {
				return
			}
			if builtinName(cc) == "close" {
				if t := cc.Args[0].Type().String(); strings.Contains(t, "PhasedSequence") {
					closeIn = in
				}
			}
			if isSyncMethod(cc, "WaitGroup", "Wait") {
				waitIn = in
			}
		})
		if closeIn == nil {
			continue
		}
		found = true
		name := "close in " + c.P.FuncName(ci.fn)
		switch {
		case waitIn == nil:
			L.Bad("close-after-join", r.label, name, c.P.Pos(closeIn.Pos()), "the result channel is closed without waiting for the workers: a worker may send on a closed channel (panic) or results are lost")
		case !instrDominates(waitIn, closeIn):
			L.Bad("close-after-join", r.label, name, c.P.Pos(closeIn.Pos()), "wg.Wait() does not precede close on every path")
		case ci.via == nil:
			L.Bad("close-after-join", r.label, name, c.P.Pos(closeIn.Pos()), "the closing function is not started as a goroutine")
		default:
			// the go statement is reached on every path after the workers were started:
			// it must post-dominate the worker loop header / be in a block that post-dominates the first worker go
			pd := newPostDom(F, nil)
			okAll := true
			for _, cj := range clos {
				if cj.via != nil && cj.fn != ci.fn && !pd.instrPostDominates(ci.via, cj.via) {
					okAll = false
				}
			}
			L.Check(okAll, "close-after-join", r.label, name, c.P.Pos(closeIn.Pos()), "Wait dominates close; the closing goroutine is started on every path that started a worker",
				"a path starts workers but not the closing goroutine: the result stream is never closed")
		}
	}
	if !found {
		L.Bad("close-after-join", r.label, "close of result channel", c.P.Pos(F.Pos()), "no goroutine closes the result channel")
	}
	_ = bind
	L.Floor("close-after-join", 1, "closing goroutine of Phase")
}

var remPhaseRE = regexp.MustCompile(`^\((.*)\)%\(3\)$`)

// sliceOfField finds, in fn, the Slice instructions that feed the composite
// PhasedSequence fields: NewSequence(name, X[lo:hi], comment) stored to field f.
type cutSite struct {
	field string
	sl    *ssa.Slice
}

func phasedCuts(fn *ssa.Function) []cutSite {
	var out []cutSite
	allInstrs(fn, func(in ssa.Instruction) {
		st, ok := in.(*ssa.Store)
		if !ok {
			return
		}
		tn, f, fa := fieldAddrOf(st.Addr)
		if fa == nil || tn != "PhasedSequence" {
			return
		}
		// value: MakeInterface(call NewSequence(name, slice, comment))
		v := stripConv(st.Val)
		call, ok := v.(*ssa.Call)
		if !ok {
			return
		}
		cf := call.Common().StaticCallee()
		if cf == nil || cf.Name() != "NewSequence" {
			return
		}
		if sl, ok := call.Common().Args[1].(*ssa.Slice); ok {
			out = append(out, cutSite{f, sl})
		}
	})
	return out
}

func extractOfMethod(fn *ssa.Function, method string, idx int) ssa.Value {
	var out ssa.Value
	allInstrs(fn, func(in ssa.Instruction) {
		ex, ok := in.(*ssa.Extract)
		if !ok || ex.Index != idx {
			return
		}
		call, ok := ex.Tuple.(*ssa.Call)
		if !ok {
			return
		}
		cc := call.Common()
		name := ""
		if cc.IsInvoke() {
			name = cc.Method.Name()
		} else if f := cc.StaticCallee(); f != nil {
			name = f.Name()
		}
		if name == method {
			out = ex
		}
	})
	return out
}

func (c *Ctx) checkPhaseCoordinatesAA() {
	L := c.L
	L.Rule("frame-arith", "aa→nt coordinate conversion: every value that can reach a cut position is the initial 0, the full length, or the required linear form — nt start (phase%3)+3·seqstart, nt end (phase%3)+3·(seqend+1), aa start seqstart, aa end seqend+1 — and NtSeq and CodonSeq are cut with the same bounds (frame consistency)")
	r := c.fn("align", "*phaser", "alignAgainstRefsAA")
	if !r.ok() {
		return
	}
	fn := r.F
	lc := newLinCtx(c, fn)
	seqstart := extractOfMethod(fn, "AlignStarts", 1)
	seqend := extractOfMethod(fn, "AlignEnds", 1)
	if seqstart == nil || seqend == nil {
		L.Unknown("frame-arith", r.label, "alignment start/end", c.P.Pos(fn.Pos()), "cannot find the second results of AlignStarts()/AlignEnds()")
		return
	}
	sAtom := lc.of(seqstart)
	eAtom := lc.of(seqend)
	cuts := phasedCuts(fn)
	byField := map[string]*ssa.Slice{}
	for _, ct := range cuts {
		byField[ct.field] = ct.sl
	}
	// helper: classify leaves of a bound
	check := func(field, which string, v ssa.Value, want func(l lin) bool, wantStr string) {
		name := field + " " + which
		if v == nil {
			L.Bad("frame-arith", r.label, name, c.P.Pos(fn.Pos()), "bound missing")
			return
		}
		var bad []string
		n := 0
		for _, lf := range phiLeaves(v) {
			l := lc.of(lf)
			if l.isConst() && l.c == 0 {
				continue // initial value
			}
			if which == "end" && isLenLike(lf) {
				continue // full length when ends are not cut
			}
			n++
			if !want(l) {
				bad = append(bad, stable(l.String()))
			}
		}
		if len(bad) > 0 {
			L.Bad("frame-arith", r.label, name, c.P.Pos(v.Pos()), "cut position can be "+strings.Join(bad, " or ")+", want "+wantStr)
		} else if n == 0 {
			L.Bad("frame-arith", r.label, name, c.P.Pos(fn.Pos()), "cut position is never computed from the alignment ("+wantStr+" expected)")
		} else {
			L.OK("frame-arith", r.label, name, c.P.Pos(v.Pos()), "every non-initial value is "+wantStr)
		}
	}
	isFrame := func(l lin, seq lin, k int64) bool {
		// l = REM(phaseφ,3) + 3*seq + k
		rest := l.sub(seq.scale(3)).addc(-k)
		if rest.c != 0 || len(rest.t) != 1 {
			return false
		}
		for a, co := range rest.t {
			if co != 1 {
				return false
			}
			m := remPhaseRE.FindStringSubmatch(a)
			if m == nil {
				return false
			}
			// dividend must be the loop counter over phases (a φ of this function)
			if !ssaTempRE.MatchString(m[1]) || strings.ContainsAny(m[1], "+-*") {
				return false
			}
		}
		return true
	}
	for _, f := range []string{"NtSeq", "CodonSeq"} {
		sl := byField[f]
		if sl == nil {
			L.Bad("frame-arith", r.label, f+" cut", c.P.Pos(fn.Pos()), "field is not built from a slice of the best sequence")
			continue
		}
		check(f, "start", sl.Low, func(l lin) bool { return isFrame(l, sAtom, 0) }, "(phase%3)+3·seqstart")
		check(f, "end", sl.High, func(l lin) bool { return isFrame(l, eAtom, 3) }, "(phase%3)+3·(seqend+1)")
	}
	if a, b := byField["NtSeq"], byField["CodonSeq"]; a != nil && b != nil {
		same := a.Low == b.Low && a.High == b.High && lc.canon(a.X) == lc.canon(b.X)
		L.Check(same, "frame-arith", r.label, "NtSeq and CodonSeq cut alike", c.P.Pos(a.Pos()), "same sequence, same bounds", "the nucleotide and codon sequences are cut with different bounds: the codon sequence is out of frame with the reported position")
	}
	if sl := byField["AaSeq"]; sl != nil {
		check("AaSeq", "start", sl.Low, func(l lin) bool { return l.equal(sAtom) }, "seqstart")
		check("AaSeq", "end", sl.High, func(l lin) bool { return l.equal(eAtom.addc(1)) }, "seqend+1")
	} else {
		L.Bad("frame-arith", r.label, "AaSeq cut", c.P.Pos(fn.Pos()), "field is not built from a slice of the translated sequence")
	}
	// Position field = nt start
	allInstrs(fn, func(in ssa.Instruction) {
		st, ok := in.(*ssa.Store)
		if !ok {
			return
		}
		if tn, f, fa := fieldAddrOf(st.Addr); fa != nil && tn == "PhasedSequence" && f == "Position" {
			nt := byField["NtSeq"]
			L.Check(nt != nil && st.Val == nt.Low, "frame-arith", r.label, "Position = NtSeq start", c.P.Pos(st.Pos()), "reported position is the cut start", "reported position differs from the position the nucleotides were cut at")
		}
	})
	L.Floor("frame-arith", 4, "NtSeq/CodonSeq/AaSeq bounds + consistency + Position (floor = half of the instances on the pinned tree: a clean-up may merge instances, a rule that sees nothing must still fail)")
}

func isLenLike(v ssa.Value) bool {
	call, ok := v.(*ssa.Call)
	if !ok {
		return false
	}
	cc := call.Common()
	if builtinName(cc) == "len" {
		return true
	}
	name := ""
	if cc.IsInvoke() {
		name = cc.Method.Name()
	} else if f := cc.StaticCallee(); f != nil {
		name = f.Name()
	}
	return name == "Length"
}

var ntPhaseRE = regexp.MustCompile(`^\(-\(.*\)%\(3\) \+ 3\)%\(3\)$`)

func (c *Ctx) checkPhaseCoordinatesNT() {
	L := c.L
	r := c.fn("align", "*phaser", "alignAgainstRefsNT")
	if !r.ok() {
		return
	}
	fn := r.F
	lc := newLinCtx(c, fn)
	byField := map[string]*ssa.Slice{}
	for _, ct := range phasedCuts(fn) {
		byField[ct.field] = ct.sl
	}
	nt, cod, aa := byField["NtSeq"], byField["CodonSeq"], byField["AaSeq"]
	if nt == nil || cod == nil || aa == nil {
		L.Bad("frame-arith", r.label, "cuts", c.P.Pos(fn.Pos()), "NtSeq/CodonSeq/AaSeq are not all built from slices of the best sequence")
		return
	}
	seqstart := extractOfMethod(fn, "AlignStarts", 1)
	seqend := extractOfMethod(fn, "AlignEnds", 1)
	if seqstart == nil || seqend == nil {
		L.Unknown("frame-arith", r.label, "alignment start/end", c.P.Pos(fn.Pos()), "cannot find AlignStarts()/AlignEnds() results")
		return
	}
	// NtSeq start leaves: 0 or seqstart
	okStart := true
	for _, lf := range phiLeaves(nt.Low) {
		l := lc.of(lf)
		if !(l.isConst() && l.c == 0) && !l.equal(lc.of(seqstart)) {
			okStart = false
		}
	}
	L.Check(okStart, "frame-arith", r.label, "NtSeq start", c.P.Pos(nt.Pos()), "start is the alignment start on the sequence", "NtSeq start is not the alignment start")
	okEnd := true
	for _, lf := range phiLeaves(nt.High) {
		l := lc.of(lf)
		if !(l.isConst() && l.c == 0) && !isLenLike(lf) && !l.equal(lc.of(seqend).addc(1)) {
			okEnd = false
		}
	}
	L.Check(okEnd, "frame-arith", r.label, "NtSeq end", c.P.Pos(nt.Pos()), "end is the full length or seqend+1", "NtSeq end is neither the full length nor seqend+1")
	// Codon offset
	diff := lc.of(cod.Low).sub(lc.of(nt.Low))
	okOff := len(diff.t) == 1 && diff.c == 0
	for a, co := range diff.t {
		if co != 1 || !ntPhaseRE.MatchString(a) {
			okOff = false
		}
	}
	L.Check(okOff, "frame-arith", r.label, "CodonSeq offset", c.P.Pos(cod.Pos()), "CodonSeq starts (3 − nbgapstart%3)%3 after NtSeq", "CodonSeq start − NtSeq start = "+stable(diff.String())+", want (3 − nbgapstart%3)%3")
	L.Check(lc.of(cod.High).equal(lc.of(nt.High)) && lc.canon(cod.X) == lc.canon(nt.X), "frame-arith", r.label, "CodonSeq end", c.P.Pos(cod.Pos()), "same end as NtSeq", "CodonSeq and NtSeq end differently")
	L.Check(lc.of(aa.Low).equal(lc.of(cod.Low)) && lc.of(aa.High).equal(lc.of(cod.High)) && lc.canon(aa.X) == lc.canon(cod.X), "frame-arith", r.label, "AaSeq source", c.P.Pos(aa.Pos()), "translated from exactly the codon sequence", "the amino-acid sequence is translated from a different window than the codon sequence")
}

func (c *Ctx) checkC16Purity() {
	// effects engine (E3): see e3_effects.go
	c.purityObligations("input-unmodified", []purityTarget{
		{"align", "*phaser", "alignAgainstRefsAA", []int{1, 2}},
		{"align", "*phaser", "alignAgainstRefsNT", []int{1, 2}},
		{"align", "*phaser", "Phase", []int{1, 2}},
		{"align", "*seqbag", "LongestORF", []int{0}},
		{"align", "*seq", "LongestORF", []int{0}},
	})
}

var _ = token.ADD
