package rules

import (
	"fmt"
	"go/token"
	"go/types"
	"sort"

	"golang.org/x/tools/go/ssa"
)

// checkScanComplete: a loop of a column statistic that adds to the element of a result slice
// selected by the loop's own index makes one independent contribution per row (or site). Leaving
// such a loop before its last iteration drops the contributions of the remaining rows, so every
// early exit must lie on paths where a condition that does not change during the loop (a nil test
// of an optional argument, a boolean option) rules the contribution out. The pinned tree has one
// such pair: NumGapsUniquePerSequence stops at the second gap of a column only when no profile is
// given, and counts gaps that are new with respect to the profile only when one is given.
func (c *Ctx) checkScanComplete(rule string, targets [][3]string) {
	L := c.L
	L.Rule(rule, "in a column statistic, a loop that adds to result[k] for its own index k (one contribution per row or site) is left before its last iteration only on paths where a condition that is invariant in the loop excludes that contribution; an early exit that can be taken while the contribution is enabled loses the counts of the remaining rows")
	for _, t := range targets {
		r := c.fn(t[0], t[1], t[2])
		if !r.ok() {
			continue
		}
		for _, fn := range withAnons(r.F) {
			c.scanCompleteIn(rule, r.label, fn)
		}
	}
}

func (c *Ctx) scanCompleteIn(rule, label string, fn *ssa.Function) {
	L := c.L
	loops := naturalLoops(fn)
	if len(loops) == 0 {
		return
	}
	bf := computeBranchFacts(fn)
	byName := map[string]ssa.Value{}
	for _, p := range fn.Params {
		byName[p.Name()] = p
	}
	for _, fv := range fn.FreeVars {
		byName[fv.Name()] = fv
	}
	allInstrs(fn, func(in ssa.Instruction) {
		if v, ok := in.(ssa.Value); ok {
			byName[v.Name()] = v
		}
	})
	lc := newLinCtx(c, fn)
	sort.Slice(loops, func(i, j int) bool { return loops[i].Head.Index < loops[j].Head.Index })
	seenWhat := map[string]int{}
	for _, lp := range loops {
		// the loop's own index: a header φ stepped by one on the back edges, or φ+1 of the range form
		idx := map[ssa.Value]bool{}
		for _, in := range lp.Head.Instrs {
			phi, ok := in.(*ssa.Phi)
			if !ok {
				break
			}
			if !isIntType(phi.Type()) {
				continue
			}
			stepped := false
			for i, e := range phi.Edges {
				if !lp.Blocks[lp.Head.Preds[i]] {
					continue
				}
				if bo, ok := e.(*ssa.BinOp); ok && bo.Op == token.ADD && bo.X == ssa.Value(phi) {
					if one, ok := constInt(bo.Y); ok && one == 1 {
						stepped = true
						if k, isK := constInt(phi.Edges[0]); isK && k == -1 || func() bool {
							for j, e0 := range phi.Edges {
								if !lp.Blocks[lp.Head.Preds[j]] {
									if k, ok := constInt(e0); ok && k == -1 {
										return true
									}
								}
							}
							return false
						}() {
							idx[bo] = true // range form: the index is φ+1
						}
					}
				}
			}
			if stepped {
				idx[phi] = true
			}
		}
		if len(idx) == 0 {
			continue
		}
		// contributions: stores to out[k]
		var contribs []*ssa.Store
		for b := range lp.Blocks {
			for _, in := range b.Instrs {
				st, ok := in.(*ssa.Store)
				if !ok {
					continue
				}
				ia, ok := st.Addr.(*ssa.IndexAddr)
				if !ok || !idx[stripConv(ia.Index)] {
					continue
				}
				if _, isSlice := ia.X.Type().Underlying().(*types.Slice); !isSlice {
					continue
				}
				// the stored value is built from the element itself (a count): out[k] = out[k] + …
				if bo, ok := st.Val.(*ssa.BinOp); ok && bo.Op == token.ADD {
					if u, ok := bo.X.(*ssa.UnOp); ok && u.Op == token.MUL {
						if oia, ok := u.X.(*ssa.IndexAddr); ok && lc.canon(oia.X) == lc.canon(ia.X) && oia.Index == ia.Index {
							contribs = append(contribs, st)
						}
					}
				}
			}
		}
		if len(contribs) == 0 {
			continue
		}
		sort.Slice(contribs, func(i, j int) bool { return contribs[i].Pos() < contribs[j].Pos() })
		// early exits: edges that leave the loop from a block other than the header
		type edge struct{ from, to *ssa.BasicBlock }
		var exits []edge
		for b := range lp.Blocks {
			if b == lp.Head {
				continue
			}
			for _, s := range b.Succs {
				if !lp.Blocks[s] {
					exits = append(exits, edge{b, s})
				}
			}
		}
		sort.Slice(exits, func(i, j int) bool { return exits[i].from.Index < exits[j].from.Index })
		invariant := func(v ssa.Value) bool {
			switch x := v.(type) {
			case *ssa.Parameter, *ssa.FreeVar, *ssa.Const, *ssa.Global:
				return true
			case ssa.Instruction:
				return !lp.Blocks[x.Block()]
			}
			return false
		}
		// normalised invariant facts: "<operand> == <const>" -> truth
		norm := func(fs factSet) map[string]bool {
			out := map[string]bool{}
			for k := range fs {
				name, truth := k[:len(k)-2], k[len(k)-1] == 'T'
				v := byName[name]
				if v == nil {
					continue
				}
				switch x := v.(type) {
				case *ssa.BinOp:
					if x.Op != token.EQL && x.Op != token.NEQ {
						continue
					}
					a, b := x.X, x.Y
					if _, isK := a.(*ssa.Const); isK {
						a, b = b, a
					}
					kb, isK := b.(*ssa.Const)
					if !isK || !invariant(a) {
						continue
					}
					key := lc.canonKey(a) + " == " + kb.String()
					out[key] = truth == (x.Op == token.EQL)
				case *ssa.Parameter, *ssa.FreeVar:
					out[x.Name()] = truth
				default:
					if in, ok := v.(ssa.Instruction); ok && !lp.Blocks[in.Block()] {
						out[v.Name()] = truth
					}
				}
			}
			return out
		}
		for _, st := range contribs {
			at := norm(bf.in[st.Block()])
			var open []string
			for _, e := range exits {
				fs := copyFacts(bf.out[e.from])
				for k := range edgeFactsOf(e.from, e.to, bf.valueFacts, 0) {
					fs[k] = true
				}
				ex := norm(fs)
				excluded := false
				for k, tv := range ex {
					if sv, ok := at[k]; ok && sv != tv {
						excluded = true
					}
				}
				if !excluded {
					pos := token.NoPos
					if ifi, ok := e.from.Instrs[len(e.from.Instrs)-1].(*ssa.If); ok {
						pos = ifi.Cond.Pos()
					}
					for i := len(e.from.Instrs) - 1; i >= 0 && !pos.IsValid(); i-- {
						pos = e.from.Instrs[i].Pos()
					}
					open = append(open, c.P.Pos(pos))
				}
			}
			what := fmt.Sprintf("per-index contribution to %s", lc.canon(st.Addr.(*ssa.IndexAddr).X))
			seenWhat[what]++
			if seenWhat[what] > 1 {
				what = fmt.Sprintf("%s #%d", what, seenWhat[what])
			}
			L.Check(len(open) == 0, rule, label, what, c.P.Pos(st.Pos()),
				fmt.Sprintf("%d early exit(s), each excluded by a loop-invariant condition of the contribution", len(exits)),
				fmt.Sprintf("the loop can be left early (exit at %v) on a path where this per-row contribution is still enabled: the rows after the exit are not counted", open))
		}
	}
}

