package rules

import (
	"fmt"
	"go/token"
	"strings"

	"golang.org/x/tools/go/ssa"
)

func init() {
	register(&Property{ID: "C04", Run: runC04,
		Explanation: "Static decision of the boundary clause of C04 (\"positions or windows outside the alignment are rejected with an error rather than a crash or a silently shifted window\") and of the gap-padding clause of Concat: for every coordinate-taking operation the set of arguments reaching a success return is compared, as a system of linear inequalities derived from the guards on every path, with the documented domain (both directions: nothing outside is accepted, nothing inside is rejected), every index into a row buffer or partition table in those functions is proven within bounds on every path, and the two pads of Concat have the other alignment's length and the GAP constant. Not decided: that the copied columns are the addressed ones in the addressed order, reference-coordinate mapping, re-assembly identities."})
}

func runC04(c *Ctx) {
	L := c.L
	c.checkFlagsNotRewritten("option-not-rewritten")
	c.checkMappedCoordinatesUsed("converted-coordinates-used")
	L.Assumes("alignment shape invariant: every row reached through the receiver has the cached length (protected by the C01 rules)")
	L.Trusts("dominance and acyclic path enumeration give path conditions; Fourier-Motzkin elimination over the rationals; integer overflow ignored for sizes")

	L.Rule("window-domain", "on every path to a success return the integer arguments satisfy the documented window domain, and no error return guarded by a comparison on those arguments is reachable for arguments inside the domain")
	L.Rule("element-domain", "a validation loop over the slice argument establishes the documented bound for every element before any success return, and rejects no element inside the domain")
	L.Rule("row-index-safe", "every index or slice expression on a row buffer in the function is within [0,len) on every path (linear entailment from the path conditions, loop induction facts and element facts)")
	L.Rule("table-index-safe", "every index into the partition table is within bounds on every path, using the struct invariant length == len(partitions)")
	L.Rule("struct-invariant", "the two fields are written only in the constructor, from the same value")
	L.Rule("pad-length", "the gap pad appended for a row absent from one alignment has the length of that alignment and is made of the GAP constant")
	L.Rule("split-guard", "the column loop of Split is dominated by the partition-length == alignment-length check")

	window := []string{"0 <= start", "0 <= length", "start + length <= L"}
	c.checkDomain(c.fn("align", "*align", "SubAlign"), domainSpec{Rule: "window-domain", Domain: window})
	c.checkDomain(c.fn("align", "*align", "InverseCoordinates"), domainSpec{Rule: "window-domain", Domain: window})
	c.checkDomain(c.fn("align", "*align", "TrimSequences"), domainSpec{Rule: "window-domain", Domain: []string{"0 <= trimsize", "trimsize <= L - 1"}})
	c.checkDomain(c.fn("align", "*align", "ReplaceChar"), domainSpec{Rule: "window-domain", Domain: []string{"0 <= site", "site <= L - 1"}})
	c.checkDomain(c.fn("align", "*align", "CharStatsSite"), domainSpec{Rule: "window-domain", Domain: []string{"0 <= site", "site <= L - 1"}})
	c.checkDomain(c.fn("align", "*align", "SiteConservation"), domainSpec{Rule: "window-domain", Domain: []string{"0 <= position", "position <= L - 1"}})
	L.Floor("window-domain", 10, "6 functions, 2-3 domain constraints each, both directions (floor = half of the instances on the pinned tree: a clean-up may merge instances, a rule that sees nothing must still fail)")

	elem := []string{"0 <= ELEM", "ELEM <= L - 1"}
	for _, name := range []string{"SelectSites", "InversePositions", "RefSites"} {
		r := c.fn("align", "*align", name)
		if !r.ok() {
			continue
		}
		lc := newLinCtx(c, r.F)
		c.checkElemDomain(r, lc, elemDomainSpec{Rule: "element-domain", Slice: "sites", Domain: elem})
		if name == "SelectSites" {
			n := c.checkIndexSafety(r, "row-index-safe", lc, rowSites)
			if n == 0 {
				L.Unknown("row-index-safe", r.label, "row index sites", c.P.Pos(r.F.Pos()), "no index into a row buffer found (the column copy is no longer recognised)")
			}
		}
	}
	L.Floor("element-domain", 3, "3 functions x 2 bounds (floor = half of the instances on the pinned tree: a clean-up may merge instances, a rule that sees nothing must still fail)")

	for _, name := range []string{"SubAlign", "TrimSequences", "Transpose", "Split"} {
		r := c.fn("align", "*align", name)
		if !r.ok() {
			continue
		}
		lc := newLinCtx(c, r.F)
		extra := c.splitGuard(r, lc, name == "Split")
		n := c.checkIndexSafetyExtra(r, "row-index-safe", lc, rowSites, extra)
		if n == 0 {
			L.Unknown("row-index-safe", r.label, "row index sites", c.P.Pos(r.F.Pos()), "no index into a row buffer found")
		}
	}
	L.Floor("row-index-safe", 3, "SelectSites 1, SubAlign 1, TrimSequences 2, Transpose 1, Split 1+ (floor = half of the instances on the pinned tree: a clean-up may merge instances, a rule that sees nothing must still fail)")

	c.checkPartitionSet()
	c.checkConcatPads()
	L.Rule("range-args-fresh", "the start, end and modulo handed to PartitionSet.AddRange by the partition parser are computed from the tokens of the current interval (or constants) on every path: no interval inherits a bound or a step from the previous one")
	c.checkCallArgsFresh("range-args-fresh", c.fn("io/partition", "*Parser", "parse"), "AddRange", []int{3, 4, 5}, []string{"start", "end", "modulo"})
	L.Floor("range-args-fresh", 1, "three numeric arguments (floor = half of the instances on the pinned tree: a clean-up may merge instances, a rule that sees nothing must still fail)")
	c.checkComplementShape("complement-shape")
	c.checkStaleState("stale-iteration-state", "cmd", "align")
	c.L.Floor("stale-iteration-state", 3, "listed state machines of cmd and align plus the scope line")
	c.checkSumGuards("sum-guard-overflow", "SubAlign", "InverseCoordinates", "Mask", "RefCoordinates")
	c.L.Floor("sum-guard-overflow", 1, "SubAlign and InverseCoordinates (floor = half)")
	c.checkArgNameOrder("arg-name-order", "align", "cmd")
}

// splitGuard: in Split, CharAt(pos)/sequence[pos] are safe because
// pos < part.AliLength() and part.AliLength() == a.Length() dominates the loop.
// Returns the equality as extra hypotheses when (and only when) the guard
// `part.AliLength() != a.Length() → return err` dominates every row index site.
func (c *Ctx) splitGuard(r *fnRef, lc *linCtx, want bool) []cons {
	if !want {
		return nil
	}
	fn := r.F
	L := c.L
	for _, b := range fn.Blocks {
		if len(b.Instrs) == 0 {
			continue
		}
		ifi, ok := b.Instrs[len(b.Instrs)-1].(*ssa.If)
		if !ok {
			continue
		}
		bo, ok := ifi.Cond.(*ssa.BinOp)
		if !ok || (bo.Op != token.NEQ && bo.Op != token.EQL) || !isIntType(bo.X.Type()) {
			continue
		}
		x, y := lc.of(bo.X), lc.of(bo.Y)
		s := x.String() + " " + y.String()
		if !strings.Contains(s, "AliLength(part)") || !strings.Contains(s, "L(a)") {
			continue
		}
		// successor on which equality holds
		eqSucc := b.Succs[1]
		neSucc := b.Succs[0]
		if bo.Op == token.EQL {
			eqSucc, neSucc = neSucc, eqSucc
		}
		// the inequality branch must leave with an error
		leaves := false
		for _, e := range returnEdges(fn) {
			if e.kind == "err" && (e.block == neSucc || neSucc.Dominates(e.block)) {
				leaves = true
			}
		}
		okDom := true
		for _, s := range indexSites(fn) {
			if _, isRow := rowSites(lc, s); isRow && !eqSucc.Dominates(s.in.Block()) {
				okDom = false
			}
		}
		if leaves && okDom {
			L.OK("split-guard", r.label, "AliLength(part) == L(a) dominates the column loop", c.P.Pos(ifi.Pos()),
				"the branch taken when the lengths differ returns an error; every row index site is dominated by the equal branch")
			return []cons{consLE(x, y, "AliLength(part) == L(a)"), consLE(y, x, "AliLength(part) == L(a)")}
		}
	}
	L.Bad("split-guard", r.label, "AliLength(part) == L(a) dominates the column loop", c.P.Pos(fn.Pos()),
		"no dominating comparison of the partition set's length with the alignment length whose unequal branch returns an error: a partition map of another length is split silently (or panics)")
	return nil
}

// checkIndexSafetyExtra is checkIndexSafety with extra hypotheses and with
// CharAt(i) calls treated as row index sites.
func (c *Ctx) checkIndexSafetyExtra(r *fnRef, rule string, lc *linCtx, filter func(*linCtx, indexSite) (string, bool), extra []cons) int {
	_ = c.L
	n := 0
	for _, fn := range withAnons(r.F) {
		label := c.P.FuncName(fn)
		if fn == r.F {
			label = r.label
		}
		for _, s := range indexSites(fn) {
			name, ok := filter(lc, s)
			if !ok {
				continue
			}
			n++
			b := s.in.Block()
			ln := lc.lenOf(s.base)
			var goals []cons
			if s.slice {
				lo := linConst(0)
				if s.lo != nil {
					lo = lc.of(s.lo)
				}
				hi := ln
				if s.hi != nil {
					hi = lc.of(s.hi)
				}
				goals = append(goals, consLE(linConst(0), lo, "0 <= low"), consLE(lo, hi, "low <= high"), consLE(hi, ln, "high <= len"))
			} else {
				ix := lc.of(s.idx)
				goals = append(goals, consLE(linConst(0), ix, "0 <= index"), consLT(ix, ln, "index < len"))
			}
			c.proveGoals(rule, label, name, s.in, b, lc, goals, extra)
		}
		// CharAt(i): index into the receiver row
		allInstrs(fn, func(in ssa.Instruction) {
			call, ok := in.(*ssa.Call)
			if !ok || getterName(call.Common()) != "CharAt" {
				return
			}
			cc := call.Common()
			recv := lc.recvOf(cc)
			var idx ssa.Value
			if cc.IsInvoke() {
				idx = cc.Args[0]
			} else {
				idx = cc.Args[1]
			}
			var ln lin
			if owner, ok := lc.rowOwner(recv); ok {
				ln = linAtom("L(" + owner + ")")
			} else {
				ln = linAtom("len(" + lc.canon(recv) + ".sequence)")
			}
			ix := lc.of(idx)
			n++
			goals := []cons{consLE(linConst(0), ix, "0 <= index"), consLT(ix, ln, "index < len")}
			c.proveGoals(rule, label, stable(fmt.Sprintf("%s.CharAt(%s)", lc.canon(recv), ix.String())), in, in.Block(), lc, goals, extra)
		})
	}
	return n
}

func (c *Ctx) proveGoals(rule, label, name string, in ssa.Instruction, b *ssa.BasicBlock, lc *linCtx, goals []cons, extra []cons) {
	allOK := true
	var dets []string
	for _, g := range goals {
		if g.e.isConst() && g.e.c <= 0 {
			continue
		}
		ok, det := lc.proveAll(b, extra, g)
		if !ok {
			allOK = false
			dets = append(dets, g.why+": "+det)
		} else {
			dets = append(dets, g.why+" ✓ "+det)
		}
	}
	if allOK {
		c.L.OK(rule, label, name, c.P.Pos(in.Pos()), strings.Join(dets, " | "))
	} else {
		c.L.Bad(rule, label, name, c.P.Pos(in.Pos()), "index not proven in bounds on every path: "+strings.Join(dets, " | "))
	}
}

// checkPartitionSet: struct invariant + AddRange domain + table index safety.
func (c *Ctx) checkPartitionSet() {
	L := c.L
	// struct invariant: PartitionSet.length and .partitions are stored only in
	// NewPartitionSet, where partitions = make([]int, n) and length = n.
	inv := false
	ctor := c.fn("align", "", "NewPartitionSet")
	var writers = map[string][]string{}
	for _, fn := range c.P.SrcFuncs() {
		allInstrs(fn, func(in ssa.Instruction) {
			st, ok := in.(*ssa.Store)
			if !ok {
				return
			}
			t, f, fa := fieldAddrOf(st.Addr)
			if fa == nil || t != "PartitionSet" || (f != "length" && f != "partitions") {
				return
			}
			writers[f] = append(writers[f], c.P.FuncName(fn))
		})
	}
	if ctor.ok() {
		var lenForm, partLen *lin
		allInstrs(ctor.F, func(in ssa.Instruction) {
			st, ok := in.(*ssa.Store)
			if !ok {
				return
			}
			t, f, fa := fieldAddrOf(st.Addr)
			if fa == nil || t != "PartitionSet" {
				return
			}
			lc := newLinCtx(c, ctor.F)
			switch f {
			case "length":
				l := lc.of(st.Val)
				lenForm = &l
			case "partitions":
				l := lc.lenOf(st.Val)
				partLen = &l
			}
		})
		onlyCtor := len(writers["length"]) == 1 && len(writers["partitions"]) == 1 &&
			writers["length"][0] == ctor.label && writers["partitions"][0] == ctor.label
		if lenForm != nil && partLen != nil && lenForm.equal(*partLen) && onlyCtor {
			inv = true
			L.OK("struct-invariant", "align.PartitionSet", "length == len(partitions)", c.P.Pos(ctor.F.Pos()),
				fmt.Sprintf("both fields are stored only in %s: length = %s, len(partitions) = %s", ctor.label, lenForm.String(), partLen.String()))
		} else {
			L.Bad("struct-invariant", "align.PartitionSet", "length == len(partitions)", c.P.Pos(ctor.F.Pos()),
				fmt.Sprintf("writers of length: %v, of partitions: %v; constructor forms %s / %s", writers["length"], writers["partitions"], strOrNil(lenForm), strOrNil(partLen)))
		}
	}
	r := c.fn("align", "*PartitionSet", "AddRange")
	if r.ok() {
		roles := func(lc *linCtx) roleMap {
			return roleMap{"PL": linAtom("ps.length")}
		}
		c.checkDomain(r, domainSpec{Rule: "window-domain", Domain: []string{"0 <= start", "end <= PL - 1", "1 <= modulo"}, Roles: roles})
		lc := newLinCtx(c, r.F)
		var extra []cons
		if inv {
			a, b := linAtom("ps.length"), linAtom("len(ps.partitions)")
			extra = []cons{consLE(a, b, "length == len(partitions)"), consLE(b, a, "length == len(partitions)")}
		}
		n := c.checkIndexSafetyExtra(r, "table-index-safe", lc, func(lc *linCtx, s indexSite) (string, bool) {
			if strings.HasSuffix(lc.canon(s.base), ".partitions") {
				return lc.siteName(s), true
			}
			return "", false
		}, extra)
		if n < 2 {
			L.Unknown("table-index-safe", r.label, "partition table sites", c.P.Pos(r.F.Pos()), "fewer than 2 index sites on ps.partitions recognised")
		}
	}
	r2 := c.fn("align", "*PartitionSet", "Partition")
	if r2.ok() {
		lc := newLinCtx(c, r2.F)
		c.checkIndexSafetyExtra(r2, "table-index-safe", lc, func(lc *linCtx, s indexSite) (string, bool) {
			if strings.HasSuffix(lc.canon(s.base), ".partitions") {
				return lc.siteName(s), true
			}
			return "", false
		}, nil)
	}
	L.Floor("table-index-safe", 1, "AddRange read+write, Partition read (floor = half of the instances on the pinned tree: a clean-up may merge instances, a rule that sees nothing must still fail)")
}

// checkConcatPads: the two strings.Repeat(string(GAP), X.Length()) calls.
func (c *Ctx) checkConcatPads() {
	L := c.L
	r := c.fn("align", "*align", "Concat")
	if !r.ok() {
		return
	}
	gap := constByName(c.P.Pkg("align"), "GAP")
	type pad struct {
		call   *ssa.Call
		fn     *ssa.Function
		lenArg lin
		absent string // which alignment lacks the row: canonical name of the receiver of the failing GetSequenceChar
	}
	n := 0
	for _, fn := range withAnons(r.F) {
		lc := newLinCtx(c, fn)
		allInstrs(fn, func(in ssa.Instruction) {
			call, ok := in.(*ssa.Call)
			if !ok || !isPkgFunc(call.Common(), "strings", "Repeat") {
				return
			}
			n++
			args := call.Common().Args
			// the repeated string must be the GAP constant
			okGap := false
			if k := constOf(args[0]); k != nil && gap != nil {
				if s, ok := cStr(k); ok {
					if g, ok2 := cInt(gap); ok2 && s == string(rune(g)) {
						okGap = true
					}
				}
			}
			// which GetSequenceChar lookup failed on the path to this block?
			absent := ""
			for d := in.Block(); d != nil; d = d.Idom() {
				for _, p := range d.Preds {
					if len(p.Instrs) == 0 {
						continue
					}
					ifi, ok := p.Instrs[len(p.Instrs)-1].(*ssa.If)
					if !ok || !p.Dominates(in.Block()) {
						continue
					}
					ex, ok := ifi.Cond.(*ssa.Extract)
					if !ok {
						continue
					}
					cl, ok := ex.Tuple.(*ssa.Call)
					if !ok {
						continue
					}
					nm := ""
					if cl.Common().IsInvoke() {
						nm = cl.Common().Method.Name()
					} else if f := cl.Common().StaticCallee(); f != nil {
						nm = f.Name()
					}
					if nm != "GetSequenceChar" || ex.Index != 1 {
						continue
					}
					// false successor = not found
					if p.Succs[1] == d || p.Succs[1].Dominates(in.Block()) {
						absent = lc.canon(lc.recvOf(cl.Common()))
					}
				}
			}
			ln := lc.of(args[1])
			// required: row absent from X is padded with the length of X
			// (Concat appends c's columns to a: a row missing in c gets L(c)
			// gaps; a row missing in a is created with L(a) gaps)
			want := "L(" + absent + ")"
			name := "pad for a row absent from " + strings.TrimPrefix(absent, "^")
			switch {
			case absent == "":
				L.Unknown("pad-length", c.P.FuncName(fn), "pad", c.P.Pos(call.Pos()), "cannot relate the pad to a failed GetSequenceChar lookup")
			case !okGap:
				L.Bad("pad-length", c.P.FuncName(fn), name, c.P.Pos(call.Pos()), "the repeated string is not the GAP constant")
			case ln.String() == want:
				L.OK("pad-length", c.P.FuncName(fn), name, c.P.Pos(call.Pos()), "strings.Repeat(GAP, "+ln.String()+")")
			default:
				L.Bad("pad-length", c.P.FuncName(fn), name, c.P.Pos(call.Pos()), "pad length is "+ln.String()+", want "+want+": rows would become ragged or shifted")
			}
		})
	}
	_ = n
	L.Floor("pad-length", 2, "two pads in Concat")
}
