package rules

import (
	"fmt"
	"go/token"
	"go/types"
	"sort"
	"strings"

	"golang.org/x/tools/go/ssa"
)

// E3 — write effects and ownership.
//
// A whole-query abstract interpretation over go/ssa with allocation-site
// abstraction: every top-level parameter k is one closed region "Pk" (anything
// reachable from it at entry), every global "G:name" likewise, every
// allocation instruction (qualified by the last two call sites) is a fresh
// site with one level of field sensitivity. Callees are re-analysed in the
// caller's terms (origins are passed down unchanged), so no summary
// instantiation is needed; closures and callbacks are analysed at the call.
// The heap is flow-insensitive (weak updates) except for address-taken locals
// whose stores all sit in the declaring function (reaching stores).

type loc struct {
	o string // origin: "P0", "G:pkg.name", "F12"
	f string // field path inside a fresh site ("" for closed regions)
}

type clos struct {
	fn *ssa.Function
	mc *ssa.MakeClosure // nil for plain functions
	fr *frame           // frame that created it (for bindings)
}

type aval struct {
	locs map[loc]bool
	fns  map[clos]bool
}

func (a *aval) empty() bool { return a == nil || (len(a.locs) == 0 && len(a.fns) == 0) }

func (a *aval) addLoc(l loc) bool {
	if a.locs == nil {
		a.locs = map[loc]bool{}
	}
	if a.locs[l] {
		return false
	}
	a.locs[l] = true
	return true
}

func (a *aval) join(b *aval) bool {
	if b == nil {
		return false
	}
	ch := false
	for l := range b.locs {
		if a.addLoc(l) {
			ch = true
		}
	}
	for f := range b.fns {
		if a.fns == nil {
			a.fns = map[clos]bool{}
		}
		if !a.fns[f] {
			a.fns[f] = true
			ch = true
		}
	}
	return ch
}

type writeRec struct {
	origin string
	in     ssa.Instruction
	fn     *ssa.Function
	what   string
	stack  string
}

type siteInfo struct {
	id   string
	in   ssa.Instruction
	typ  types.Type
	ctx  string
	what string
}

type frame struct {
	e     *effects
	fn    *ssa.Function
	args  []*aval
	fvs   []*aval
	regs  map[ssa.Value]*aval
	tup   map[ssa.Value][]*aval
	res   []*aval
	ctx   []ssa.Instruction // call string (most recent last)
	depth int
	dirty bool
	reach map[*ssa.UnOp][]*ssa.Store // reaching stores for loads of local cells (nil = flow-insensitive)
}

type memoEntry struct {
	args, fvs []*aval
	res       []*aval
	busy      bool
	done      bool // analysed in the current global iteration with current args
	iter      int
}

type effects struct {
	c        *Ctx
	contents map[loc]*aval
	sites    map[string]*siteInfo // key ctx|instr -> site
	siteByID map[string]*siteInfo
	writes   []writeRec
	wseen    map[string]bool
	memo     map[string]*memoEntry
	changed  bool
	iter     int
	unknown  []string // constructs the interpreter could not model (→ undecided)
	maxDepth int
	implCache map[string][]*ssa.Function
	nAnalysed int
	stackNames []string
}

func newEffects(c *Ctx) *effects {
	return &effects{c: c, contents: map[loc]*aval{}, sites: map[string]*siteInfo{}, siteByID: map[string]*siteInfo{},
		wseen: map[string]bool{}, memo: map[string]*memoEntry{}, maxDepth: 40, implCache: map[string][]*ssa.Function{}}
}

func isClosed(o string) bool { return strings.HasPrefix(o, "P") || strings.HasPrefix(o, "G:") || o == "EXT" }

func joinField(p, f string) string {
	if p == "" {
		return f
	}
	// one level of field sensitivity (plus the embedded-struct level)
	if strings.Count(p, ".") >= 2 {
		return p
	}
	return p + "." + f
}

func isRefT(t types.Type) bool {
	if t == nil {
		return false
	}
	switch u := t.Underlying().(type) {
	case *types.Basic:
		return u.Kind() == types.UnsafePointer
	case *types.Map, *types.Slice, *types.Pointer, *types.Interface, *types.Chan, *types.Signature:
		return true
	case *types.Tuple:
		for i := 0; i < u.Len(); i++ {
			if isRefT(u.At(i).Type()) {
				return true
			}
		}
	case *types.Struct:
		for i := 0; i < u.NumFields(); i++ {
			if isRefT(u.Field(i).Type()) {
				return true
			}
		}
	case *types.Array:
		return isRefT(u.Elem())
	}
	return false
}

func (e *effects) ctxKey(ctx []ssa.Instruction) string {
	var sb strings.Builder
	n := len(ctx)
	start := n - 2
	if start < 0 {
		start = 0
	}
	for _, in := range ctx[start:] {
		fmt.Fprintf(&sb, "%p/", in)
	}
	return sb.String()
}

func (e *effects) site(fr *frame, in ssa.Instruction, t types.Type, what string) loc {
	key := e.ctxKey(fr.ctx) + fmt.Sprintf("%p", in) + what
	s := e.sites[key]
	if s == nil {
		s = &siteInfo{id: fmt.Sprintf("F%d", len(e.sites)+1), in: in, typ: t, ctx: e.ctxKey(fr.ctx), what: what}
		e.sites[key] = s
		e.siteByID[s.id] = s
	}
	return loc{s.id, ""}
}

func (e *effects) recordWrite(fr *frame, o string, in ssa.Instruction, what string) {
	if !isClosed(o) {
		return
	}
	k := fmt.Sprintf("%s|%p", o, in)
	if e.wseen[k] {
		return
	}
	e.wseen[k] = true
	e.writes = append(e.writes, writeRec{o, in, fr.fn, what, strings.Join(e.stackNames, " → ")})
}

// store: contents[l] ∪= v
func (e *effects) put(l loc, v *aval) {
	if v.empty() {
		return
	}
	if isClosed(l.o) {
		l.f = ""
	}
	c := e.contents[l]
	if c == nil {
		c = &aval{}
		e.contents[l] = c
	}
	if c.join(v) {
		e.changed = true
	}
}

// load from location l (with wildcard lookups for struct copies)
func (e *effects) get(l loc, whole bool) *aval {
	out := &aval{}
	if isClosed(l.o) {
		out.addLoc(loc{l.o, ""})
		out.join(e.contents[loc{l.o, ""}])
		return out
	}
	out.join(e.contents[l])
	// struct values stored over a prefix
	p := l.f
	for {
		i := strings.LastIndex(p, ".")
		if i < 0 {
			break
		}
		p = p[:i]
		out.join(e.contents[loc{l.o, p + ".*"}])
	}
	out.join(e.contents[loc{l.o, "*"}])
	if whole {
		// loading a whole struct value: everything stored below it
		pre := l.f
		for k, v := range e.contents {
			if k.o == l.o && (pre == "" || strings.HasPrefix(k.f, pre+".")) {
				out.join(v)
			}
		}
	}
	return out
}

func isStructT(t types.Type) bool {
	switch t.Underlying().(type) {
	case *types.Struct, *types.Array:
		return true
	}
	return false
}

// ---------------------------------------------------------------------------

func (fr *frame) val(v ssa.Value) *aval {
	switch x := v.(type) {
	case *ssa.Const:
		return nil
	case *ssa.Parameter:
		for i, p := range fr.fn.Params {
			if p == x && i < len(fr.args) {
				return fr.args[i]
			}
		}
		return nil
	case *ssa.FreeVar:
		for i, p := range fr.fn.FreeVars {
			if p == x && i < len(fr.fvs) {
				return fr.fvs[i]
			}
		}
		return nil
	case *ssa.Global:
		a := &aval{}
		a.addLoc(loc{"G:" + x.Pkg.Pkg.Name() + "." + x.Name(), ""})
		return a
	case *ssa.Function:
		a := &aval{fns: map[clos]bool{{fn: x}: true}}
		return a
	case *ssa.Builtin:
		return nil
	}
	return fr.regs[v]
}

func (fr *frame) set(v ssa.Value, a *aval) {
	if a.empty() {
		return
	}
	r := fr.regs[v]
	if r == nil {
		r = &aval{}
		fr.regs[v] = r
	}
	if r.join(a) {
		fr.e.changed = true
		fr.dirty = true
	}
}

// analyze runs the transfer functions of fn to a local fixpoint.
func (e *effects) analyze(fn *ssa.Function, args, fvs []*aval, ctx []ssa.Instruction, depth int) []*aval {
	key := fmt.Sprintf("%p|%s", fn, e.ctxKey(ctx))
	m := e.memo[key]
	if m == nil {
		m = &memoEntry{}
		e.memo[key] = m
		m.args = make([]*aval, len(fn.Params))
		m.fvs = make([]*aval, len(fn.FreeVars))
		for i := range m.args {
			m.args[i] = &aval{}
		}
		for i := range m.fvs {
			m.fvs[i] = &aval{}
		}
	}
	grew := false
	for i := range m.args {
		if i < len(args) && m.args[i].join(args[i]) {
			grew = true
		}
	}
	for i := range m.fvs {
		if i < len(fvs) && m.fvs[i].join(fvs[i]) {
			grew = true
		}
	}
	if m.busy {
		return m.res // recursion: current approximation
	}
	if m.done && m.iter == e.iter && !grew {
		return m.res
	}
	if depth > e.maxDepth {
		e.unknown = append(e.unknown, "call depth limit reached at "+fn.String())
		return m.res
	}
	m.busy = true
	e.nAnalysed++
	e.stackNames = append(e.stackNames, e.c.P.FuncName(fn))
	fr := &frame{e: e, fn: fn, args: m.args, fvs: m.fvs, regs: map[ssa.Value]*aval{}, tup: map[ssa.Value][]*aval{}, ctx: ctx, depth: depth}
	nres := fn.Signature.Results().Len()
	fr.res = make([]*aval, nres)
	for i := range fr.res {
		fr.res[i] = &aval{}
	}
	fr.reach = reachingStores(fn)
	for pass := 0; pass < 30; pass++ {
		fr.dirty = false
		before := e.heapSize()
		for _, b := range fn.Blocks {
			for _, in := range b.Instrs {
				fr.step(in)
			}
		}
		if !fr.dirty && e.heapSize() == before {
			break
		}
	}
	e.stackNames = e.stackNames[:len(e.stackNames)-1]
	m.busy = false
	m.done = true
	m.iter = e.iter
	if m.res == nil {
		m.res = make([]*aval, nres)
		for i := range m.res {
			m.res[i] = &aval{}
		}
	}
	for i := range fr.res {
		if m.res[i].join(fr.res[i]) {
			e.changed = true
		}
	}
	return m.res
}

func (e *effects) heapSize() int {
	n := 0
	for _, v := range e.contents {
		n += len(v.locs) + len(v.fns)
	}
	return n + len(e.writes)
}

// reachingStores: for loads of Alloc cells whose every store is a direct
// Store in fn (no closure captures the cell for writing), the set of stores
// that may reach the load. Cells not in the map are treated flow-insensitively.
func reachingStores(fn *ssa.Function) map[*ssa.UnOp][]*ssa.Store {
	out := map[*ssa.UnOp][]*ssa.Store{}
	var cells []*ssa.Alloc
	for _, b := range fn.Blocks {
		for _, in := range b.Instrs {
			a, ok := in.(*ssa.Alloc)
			if !ok {
				continue
			}
			okCell := true
			nStores := 0
			if refs := a.Referrers(); refs != nil {
				for _, r := range *refs {
					switch x := r.(type) {
					case *ssa.Store:
						if x.Addr != ssa.Value(a) {
							okCell = false // address stored somewhere
						} else {
							nStores++
						}
					case *ssa.UnOp:
					case *ssa.MakeClosure:
						// fine if the closure (transitively) never stores to the cell
						cf := x.Fn.(*ssa.Function)
						for i, bd := range x.Bindings {
							if bd == ssa.Value(a) && closureStoresTo(cf, cf.FreeVars[i], map[*ssa.Function]bool{}) {
								okCell = false
							}
						}
					case *ssa.DebugRef:
					default:
						okCell = false // FieldAddr/IndexAddr/call argument: not a scalar cell
					}
				}
			}
			if okCell && nStores > 1 {
				cells = append(cells, a)
			}
		}
	}
	if len(cells) == 0 {
		return out
	}
	for _, cell := range cells {
		// forward dataflow: set of stores reaching block entry
		type set = map[*ssa.Store]bool
		in := map[*ssa.BasicBlock]set{}
		outS := map[*ssa.BasicBlock]set{}
		for _, b := range fn.Blocks {
			in[b], outS[b] = set{}, set{}
		}
		changed := true
		for changed {
			changed = false
			for _, b := range fn.Blocks {
				cur := set{}
				for _, p := range b.Preds {
					for s := range outS[p] {
						cur[s] = true
					}
				}
				in[b] = cur
				o := set{}
				for s := range cur {
					o[s] = true
				}
				for _, ins := range b.Instrs {
					if st, ok := ins.(*ssa.Store); ok && st.Addr == ssa.Value(cell) {
						o = set{st: true}
					}
				}
				if len(o) != len(outS[b]) {
					changed = true
				} else {
					for s := range o {
						if !outS[b][s] {
							changed = true
						}
					}
				}
				outS[b] = o
			}
		}
		for _, b := range fn.Blocks {
			cur := set{}
			for s := range in[b] {
				cur[s] = true
			}
			for _, ins := range b.Instrs {
				switch x := ins.(type) {
				case *ssa.Store:
					if x.Addr == ssa.Value(cell) {
						cur = set{x: true}
					}
				case *ssa.UnOp:
					if x.Op == token.MUL && x.X == ssa.Value(cell) {
						var lst []*ssa.Store
						for s := range cur {
							lst = append(lst, s)
						}
						if len(lst) > 0 {
							out[x] = lst
						}
					}
				}
			}
		}
	}
	return out
}

func closureStoresTo(fn *ssa.Function, fv *ssa.FreeVar, seen map[*ssa.Function]bool) bool {
	if seen[fn] {
		return false
	}
	seen[fn] = true
	found := false
	allInstrs(fn, func(in ssa.Instruction) {
		switch x := in.(type) {
		case *ssa.Store:
			if x.Addr == ssa.Value(fv) {
				found = true
			}
		case *ssa.MakeClosure:
			cf := x.Fn.(*ssa.Function)
			for i, b := range x.Bindings {
				if b == ssa.Value(fv) && closureStoresTo(cf, cf.FreeVars[i], seen) {
					found = true
				}
			}
		}
	})
	return found
}

func (fr *frame) fresh(in ssa.Instruction, t types.Type, what string) *aval {
	a := &aval{}
	a.addLoc(fr.e.site(fr, in, t, what))
	return a
}

func (fr *frame) step(in ssa.Instruction) {
	e := fr.e
	switch x := in.(type) {
	case *ssa.Alloc:
		fr.set(x, fr.fresh(x, x.Type().(*types.Pointer).Elem(), ""))
	case *ssa.MakeSlice, *ssa.MakeMap, *ssa.MakeChan:
		v := x.(ssa.Value)
		fr.set(v, fr.fresh(in, v.Type(), ""))
	case *ssa.MakeClosure:
		a := &aval{fns: map[clos]bool{{fn: x.Fn.(*ssa.Function), mc: x, fr: fr}: true}}
		fr.set(x, a)
	case *ssa.FieldAddr:
		base := fr.val(x.X)
		if base == nil {
			return
		}
		out := &aval{}
		fname := fieldName(x.X.Type(), x.Field)
		for l := range base.locs {
			if isClosed(l.o) {
				out.addLoc(loc{l.o, ""})
			} else {
				out.addLoc(loc{l.o, joinField(l.f, fname)})
			}
		}
		fr.set(x, out)
	case *ssa.IndexAddr:
		base := fr.val(x.X)
		if base == nil {
			return
		}
		out := &aval{}
		for l := range base.locs {
			if isClosed(l.o) {
				out.addLoc(loc{l.o, ""})
			} else {
				out.addLoc(loc{l.o, joinField(l.f, "[]")})
			}
		}
		fr.set(x, out)
	case *ssa.Field:
		fr.set(x, fr.val(x.X))
	case *ssa.Index:
		fr.set(x, fr.val(x.X))
	case *ssa.UnOp:
		switch x.Op {
		case token.MUL:
			if !isRefT(x.Type()) {
				return
			}
			if sts, ok := fr.reach[x]; ok {
				for _, st := range sts {
					fr.set(x, fr.val(st.Val))
				}
				return
			}
			addr := fr.val(x.X)
			if addr == nil {
				return
			}
			whole := isStructT(x.Type())
			for l := range addr.locs {
				fr.set(x, e.get(l, whole))
			}
		case token.ARROW:
			ch := fr.val(x.X)
			if ch == nil {
				return
			}
			out := &aval{}
			for l := range ch.locs {
				out.join(e.get(loc{l.o, joinField(l.f, "[]")}, true))
			}
			if x.CommaOk {
				fr.setTuple(x, 0, out)
			} else {
				fr.set(x, out)
			}
		}
	case *ssa.Store:
		addr := fr.val(x.Addr)
		if addr == nil {
			return
		}
		v := fr.val(x.Val)
		isStruct := isStructT(x.Val.Type())
		for l := range addr.locs {
			// a store into a local cell (Alloc of this very frame) is not an effect
			e.recordWrite(fr, l.o, in, "store")
			if isRefT(x.Val.Type()) {
				tl := l
				if isStruct && !isClosed(l.o) {
					tl = loc{l.o, joinField(l.f, "*")}
					if l.f == "" {
						tl = loc{l.o, "*"}
					}
				}
				e.put(tl, v)
			}
		}
	case *ssa.MapUpdate:
		m := fr.val(x.Map)
		if m == nil {
			return
		}
		for l := range m.locs {
			e.recordWrite(fr, l.o, in, "map update")
			el := loc{l.o, joinField(l.f, "[]")}
			e.put(el, fr.val(x.Value))
			e.put(el, fr.val(x.Key))
		}
	case *ssa.Lookup:
		if !isRefT(x.Type()) {
			return
		}
		m := fr.val(x.X)
		if m == nil {
			return
		}
		out := &aval{}
		for l := range m.locs {
			out.join(e.get(loc{l.o, joinField(l.f, "[]")}, true))
		}
		if x.CommaOk {
			fr.setTuple(x, 0, out)
		} else {
			fr.set(x, out)
		}
	case *ssa.Phi:
		for _, ed := range x.Edges {
			fr.set(x, fr.val(ed))
		}
	case *ssa.ChangeType:
		fr.set(x, fr.val(x.X))
	case *ssa.ChangeInterface:
		fr.set(x, fr.val(x.X))
	case *ssa.MakeInterface:
		fr.set(x, fr.val(x.X))
	case *ssa.SliceToArrayPointer:
		fr.set(x, fr.val(x.X))
	case *ssa.TypeAssert:
		if x.CommaOk {
			fr.setTuple(x, 0, fr.val(x.X))
		} else {
			fr.set(x, fr.val(x.X))
		}
	case *ssa.Convert:
		if !isRefT(x.Type()) {
			return
		}
		// []byte(string), []rune(string): fresh buffer; pointer conversions keep the value
		if _, ok := x.Type().Underlying().(*types.Slice); ok {
			if b, ok := x.X.Type().Underlying().(*types.Basic); ok && b.Info()&types.IsString != 0 {
				fr.set(x, fr.fresh(x, x.Type(), "conv"))
				return
			}
		}
		fr.set(x, fr.val(x.X))
	case *ssa.Slice:
		base := fr.val(x.X)
		if base == nil {
			return
		}
		// slicing a pointer-to-array yields a slice of that array object
		fr.set(x, base)
	case *ssa.Extract:
		if t := fr.tup[x.Tuple]; t != nil && x.Index < len(t) {
			fr.set(x, t[x.Index])
		}
	case *ssa.Range:
		fr.set(x, fr.val(x.X))
	case *ssa.Next:
		it := fr.val(x.Iter)
		if it == nil {
			return
		}
		out := &aval{}
		for l := range it.locs {
			out.join(e.get(loc{l.o, joinField(l.f, "[]")}, true))
		}
		fr.setTuple(x, 1, out)
		fr.setTuple(x, 2, out)
	case *ssa.Send:
		ch := fr.val(x.Chan)
		if ch == nil {
			return
		}
		for l := range ch.locs {
			e.recordWrite(fr, l.o, in, "channel send")
			e.put(loc{l.o, joinField(l.f, "[]")}, fr.val(x.X))
		}
	case *ssa.Select:
		for i, st := range x.States {
			ch := fr.val(st.Chan)
			if ch == nil {
				continue
			}
			for l := range ch.locs {
				if st.Dir == types.SendOnly {
					e.put(loc{l.o, joinField(l.f, "[]")}, fr.val(st.Send))
				} else {
					fr.setTuple(x, 2+i, e.get(loc{l.o, joinField(l.f, "[]")}, true))
				}
			}
		}
	case *ssa.Return:
		for i, r := range x.Results {
			if i < len(fr.res) && fr.res[i].join(fr.val(r)) {
				fr.dirty = true
			}
		}
	case *ssa.Call:
		res := fr.call(x)
		fr.bindResults(x, res)
	case *ssa.Go:
		fr.call(x)
	case *ssa.Defer:
		fr.call(x)
	case *ssa.BinOp, *ssa.If, *ssa.Jump, *ssa.Panic, *ssa.RunDefers, *ssa.DebugRef:
	default:
		e.unknown = append(e.unknown, fmt.Sprintf("instruction %T in %s", in, fr.fn))
	}
}

func (fr *frame) setTuple(v ssa.Value, i int, a *aval) {
	t := fr.tup[v]
	for len(t) <= i {
		t = append(t, &aval{})
	}
	if t[i].join(a) {
		fr.dirty = true
	}
	fr.tup[v] = t
}

func (fr *frame) bindResults(call *ssa.Call, res []*aval) {
	if len(res) == 0 {
		return
	}
	if _, isTuple := call.Type().(*types.Tuple); isTuple {
		for i, r := range res {
			fr.setTuple(call, i, r)
		}
		return
	}
	fr.set(call, res[0])
}

// ---------------------------------------------------------------------------
// calls

func (fr *frame) call(site ssa.CallInstruction) []*aval {
	e := fr.e
	cc := site.Common()
	var args []*aval
	if b, ok := cc.Value.(*ssa.Builtin); ok {
		for _, a := range cc.Args {
			args = append(args, fr.val(a))
		}
		return fr.builtin(site, b.Name(), cc, args)
	}
	ctx := append(append([]ssa.Instruction{}, fr.ctx...), site.(ssa.Instruction))
	var results []*aval
	merge := func(r []*aval) {
		for i, x := range r {
			for len(results) <= i {
				results = append(results, &aval{})
			}
			results[i].join(x)
		}
	}
	if cc.IsInvoke() {
		recv := fr.val(cc.Value)
		args = append(args, recv)
		for _, a := range cc.Args {
			args = append(args, fr.val(a))
		}
		targets := e.invokeTargets(cc, recv)
		if len(targets) == 0 {
			merge(fr.external(site, nil, cc, args))
		}
		for _, t := range targets {
			if t.Blocks != nil && (e.c.P.InModule(t) || t.Synthetic != "") {
				merge(e.analyze(t, args, nil, ctx, fr.depth+1))
			} else {
				merge(fr.external(site, t, cc, args))
			}
		}
		return results
	}
	for _, a := range cc.Args {
		args = append(args, fr.val(a))
	}
	var targets []clos
	switch v := cc.Value.(type) {
	case *ssa.Function:
		targets = append(targets, clos{fn: v})
	case *ssa.MakeClosure:
		targets = append(targets, clos{fn: v.Fn.(*ssa.Function), mc: v, fr: fr})
	default:
		if av := fr.val(cc.Value); av != nil {
			for c := range av.fns {
				targets = append(targets, c)
			}
		}
		sort.Slice(targets, func(i, j int) bool { return targets[i].fn.String() < targets[j].fn.String() })
		if len(targets) == 0 {
			// unknown function value (e.g. a callback parameter at top level): no effect assumed
			// beyond its arguments being readable; record for transparency
			return fr.freshResults(site, cc)
		}
	}
	for _, t := range targets {
		var fvs []*aval
		if t.mc != nil {
			for _, b := range t.mc.Bindings {
				fvs = append(fvs, t.fr.val(b))
			}
		}
		if t.fn.Blocks != nil && (e.c.P.InModule(t.fn) || t.fn.Synthetic != "") {
			merge(e.analyze(t.fn, args, fvs, ctx, fr.depth+1))
		} else {
			merge(fr.external(site, t.fn, cc, args))
		}
	}
	return results
}

func (fr *frame) freshResults(site ssa.CallInstruction, cc *ssa.CallCommon) []*aval {
	sig := cc.Signature()
	var out []*aval
	for i := 0; i < sig.Results().Len(); i++ {
		t := sig.Results().At(i).Type()
		if isRefT(t) && !isErrorT(t) {
			out = append(out, fr.fresh(site.(ssa.Instruction), t, fmt.Sprintf("ret%d", i)))
		} else {
			out = append(out, &aval{})
		}
	}
	return out
}

// invokeTargets resolves an interface method call: by the concrete types of
// fresh receivers when all are known, else by class hierarchy over the types
// of the analysed module (and the method sets of the program).
func (e *effects) invokeTargets(cc *ssa.CallCommon, recv *aval) []*ssa.Function {
	prog := e.c.P.SSA
	var out []*ssa.Function
	seen := map[*ssa.Function]bool{}
	add := func(f *ssa.Function) {
		if f != nil && !seen[f] {
			seen[f] = true
			out = append(out, f)
		}
	}
	allKnown := recv != nil && len(recv.locs) > 0
	if recv != nil {
		for l := range recv.locs {
			s := e.siteByID[l.o]
			if s == nil || s.typ == nil || l.f != "" {
				allKnown = false
				continue
			}
			// the allocated type is T; the interface holds *T (or T)
			found := false
			for _, t := range []types.Type{types.NewPointer(s.typ), s.typ} {
				if sel := prog.MethodSets.MethodSet(t).Lookup(cc.Method.Pkg(), cc.Method.Name()); sel != nil {
					add(prog.MethodValue(sel))
					found = true
					break
				}
			}
			if !found {
				allKnown = false
			}
		}
	}
	if allKnown {
		sort.Slice(out, func(i, j int) bool { return out[i].String() < out[j].String() })
		return out
	}
	key := cc.Value.Type().String() + "." + cc.Method.Name()
	if c, ok := e.implCache[key]; ok {
		for _, f := range c {
			add(f)
		}
		return out
	}
	var impl []*ssa.Function
	iface, _ := cc.Value.Type().Underlying().(*types.Interface)
	if iface != nil {
		for _, t := range prog.RuntimeTypes() {
			if types.Implements(t, iface) {
				if sel := prog.MethodSets.MethodSet(t).Lookup(cc.Method.Pkg(), cc.Method.Name()); sel != nil {
					f := prog.MethodValue(sel)
					if f != nil {
						impl = append(impl, f)
					}
				}
			}
		}
		// module types that are not runtime types (never converted to an interface) cannot be receivers
	}
	sort.Slice(impl, func(i, j int) bool { return impl[i].String() < impl[j].String() })
	e.implCache[key] = impl
	for _, f := range impl {
		add(f)
	}
	return out
}

func (fr *frame) builtin(site ssa.CallInstruction, name string, cc *ssa.CallCommon, args []*aval) []*aval {
	e := fr.e
	in := site.(ssa.Instruction)
	switch name {
	case "append":
		out := &aval{}
		out.join(args[0])
		out.join(fr.fresh(in, cc.Args[0].Type(), "append"))
		if len(args) > 1 && args[1] != nil && isRefT(elemType(cc.Args[0].Type())) {
			for r := range out.locs {
				for s := range args[1].locs {
					e.put(loc{r.o, joinField(r.f, "[]")}, e.get(loc{s.o, joinField(s.f, "[]")}, true))
				}
			}
		}
		return []*aval{out}
	case "copy":
		if args[0] != nil {
			for d := range args[0].locs {
				e.recordWrite(fr, d.o, in, "copy destination")
				if args[1] != nil && isRefT(elemType(cc.Args[0].Type())) {
					for s := range args[1].locs {
						e.put(loc{d.o, joinField(d.f, "[]")}, e.get(loc{s.o, joinField(s.f, "[]")}, true))
					}
				}
			}
		}
		return []*aval{nil}
	case "delete", "clear":
		if args[0] != nil {
			for d := range args[0].locs {
				e.recordWrite(fr, d.o, in, name)
			}
		}
		return nil
	case "close":
		return nil
	case "len", "cap", "print", "println", "panic", "recover", "real", "imag", "complex", "min", "max", "new", "make":
		return []*aval{nil}
	case "ssa:wrapnilchk":
		return []*aval{args[0]}
	}
	e.unknown = append(e.unknown, "builtin "+name)
	return []*aval{nil}
}

func elemType(t types.Type) types.Type {
	switch u := t.Underlying().(type) {
	case *types.Slice:
		return u.Elem()
	case *types.Array:
		return u.Elem()
	case *types.Pointer:
		return elemType(u.Elem())
	case *types.Map:
		return u.Elem()
	}
	return nil
}

// external models a call whose body is not analysed (standard library,
// third-party). Default: no write through arguments, reference-typed results
// are fresh, closures passed as arguments are invoked with argument-free
// frames. The table lists the callees that write through or alias arguments.
func (fr *frame) external(site ssa.CallInstruction, fn *ssa.Function, cc *ssa.CallCommon, args []*aval) []*aval {
	e := fr.e
	in := site.(ssa.Instruction)
	name := ""
	if fn != nil {
		name = fn.String()
	} else if cc.IsInvoke() {
		name = "(" + cc.Value.Type().String() + ")." + cc.Method.Name()
	}
	writeArg := func(i int, what string) {
		if i < len(args) && args[i] != nil {
			for l := range args[i].locs {
				e.recordWrite(fr, l.o, in, what+" "+name)
			}
		}
	}
	res := fr.freshResults(site, cc)
	retArg := func(i int) {
		if len(res) > 0 && i < len(args) {
			res[0] = &aval{}
			res[0].join(args[i])
		}
	}
	pkg, fname, recvT := "", "", ""
	if fn != nil {
		fname = fn.Name()
		if fn.Pkg != nil {
			pkg = fn.Pkg.Pkg.Path()
		} else if fn.Object() != nil && fn.Object().Pkg() != nil {
			pkg = fn.Object().Pkg().Path()
		}
		if r := fn.Signature.Recv(); r != nil {
			if n := namedOf(r.Type()); n != nil {
				recvT = n.Obj().Name()
			}
		}
	} else if cc.IsInvoke() {
		fname = cc.Method.Name()
		if n := namedOf(cc.Value.Type()); n != nil && n.Obj().Pkg() != nil {
			pkg = n.Obj().Pkg().Path()
			recvT = n.Obj().Name()
		}
	}
	switch {
	case pkg == "sort" && recvT == "":
		writeArg(0, "sorted by")
	case pkg == "slices" && (strings.HasPrefix(fname, "Sort") || fname == "Reverse"):
		writeArg(0, "reordered by")
	case pkg == "math/rand" && fname == "Shuffle":
	case pkg == "bytes" && recvT == "Buffer":
		switch fname {
		case "String", "Len", "Bytes", "Cap":
			if fname == "Bytes" {
				retArg(0)
			}
		default:
			writeArg(0, "buffer mutated by")
			if fname == "Write" || fname == "ReadFrom" {
				// reads its argument only
			}
			if fname == "Read" {
				writeArg(1, "filled by")
			}
		}
	case pkg == "strings" && recvT == "Builder":
		if fname != "String" && fname != "Len" {
			writeArg(0, "builder mutated by")
		}
	case pkg == "io" && (fname == "ReadFull" || fname == "ReadAtLeast"):
		writeArg(1, "filled by")
	case fname == "Read" && cc.IsInvoke():
		writeArg(1, "filled by")
	case pkg == "bufio":
		if fname != "NewReader" && fname != "NewWriter" && fname != "NewScanner" && fname != "NewReaderSize" && fname != "NewWriterSize" {
			writeArg(0, "stream state mutated by")
		} else {
			// wraps its argument
			if len(res) > 0 && res[0] != nil {
				for r := range res[0].locs {
					e.put(loc{r.o, "wrapped"}, args[0])
				}
			}
		}
	case pkg == "github.com/armon/go-radix" && recvT == "Tree":
		switch fname {
		case "Insert":
			writeArg(0, "radix insert")
			if len(args) > 2 && args[0] != nil {
				for l := range args[0].locs {
					e.put(loc{l.o, joinField(l.f, "[]")}, args[2])
				}
			}
			if len(res) > 0 && args[0] != nil {
				res[0] = &aval{}
				for l := range args[0].locs {
					res[0].join(e.get(loc{l.o, joinField(l.f, "[]")}, true))
				}
			}
		case "Get", "LongestPrefix", "Minimum", "Maximum", "Delete":
			if len(res) > 0 && args[0] != nil {
				k := 0
				if fname == "LongestPrefix" || fname == "Minimum" || fname == "Maximum" {
					k = 1
				}
				if k < len(res) {
					res[k] = &aval{}
					for l := range args[0].locs {
						res[k].join(e.get(loc{l.o, joinField(l.f, "[]")}, true))
					}
				}
			}
		case "Walk", "WalkPrefix", "WalkPath":
			// callback receives (key string, stored value)
			ai := len(args) - 1
			if args[ai] != nil && args[0] != nil {
				stored := &aval{}
				for l := range args[0].locs {
					stored.join(e.get(loc{l.o, joinField(l.f, "[]")}, true))
				}
				for c := range args[ai].fns {
					fr.invokeClosure(site, c, []*aval{nil, stored})
				}
			}
			return res
		}
	case strings.HasPrefix(pkg, "gonum.org/v1/gonum/floats"):
		switch fname {
		case "Scale", "AddConst":
			writeArg(1, "scaled in place by")
		case "Add", "Sub", "Mul", "Div", "AddScaled", "CumSum", "CumProd":
			writeArg(0, "written by")
		}
	case strings.HasPrefix(pkg, "gonum.org/v1/gonum/mat"):
		if recvT != "" && fn != nil && fn.Signature.Recv() != nil {
			if _, ptr := fn.Signature.Recv().Type().(*types.Pointer); ptr {
				switch fname {
				case "At", "Dims", "T", "RawMatrix", "Values", "Vectors", "VectorsTo", "Det", "Cond":
				default:
					writeArg(0, "matrix written by")
				}
			}
		}
		if fname == "NewDense" || fname == "NewVecDense" || fname == "NewSymDense" {
			// the backing slice is captured, not copied
			if len(res) > 0 && res[0] != nil {
				for r := range res[0].locs {
					e.put(loc{r.o, "data"}, args[len(args)-1])
				}
			}
		}
	case pkg == "sync" || pkg == "sync/atomic":
	case pkg == "os" || pkg == "compress/gzip" || pkg == "archive/tar" || strings.HasPrefix(pkg, "github.com/ulikunitz/xz"):
		// file/stream objects: receivers are never alignment data
	}
	// callbacks passed to unmodelled callees: invoked with argument-free frames
	for _, a := range args {
		if a == nil {
			continue
		}
		for c := range a.fns {
			fr.invokeClosure(site, c, nil)
		}
	}
	return res
}

func (fr *frame) invokeClosure(site ssa.CallInstruction, c clos, args []*aval) {
	e := fr.e
	if c.fn.Blocks == nil || !(e.c.P.InModule(c.fn) || c.fn.Synthetic != "") {
		return
	}
	var fvs []*aval
	if c.mc != nil {
		for _, b := range c.mc.Bindings {
			fvs = append(fvs, c.fr.val(b))
		}
	}
	ctx := append(append([]ssa.Instruction{}, fr.ctx...), site.(ssa.Instruction))
	e.analyze(c.fn, args, fvs, ctx, fr.depth+1)
}

// ---------------------------------------------------------------------------
// queries

type effResult struct {
	e       *effects
	fn      *ssa.Function
	results []*aval
}

// runEffects analyses fn with each reference-typed parameter k bound to the
// closed region Pk, to a global fixpoint.
func (c *Ctx) runEffects(fn *ssa.Function) *effResult {
	e := newEffects(c)
	args := make([]*aval, len(fn.Params))
	for i, p := range fn.Params {
		args[i] = &aval{}
		if isRefT(p.Type()) {
			if _, isFunc := p.Type().Underlying().(*types.Signature); isFunc {
				continue
			}
			args[i].addLoc(loc{fmt.Sprintf("P%d", i), ""})
		}
	}
	var res []*aval
	for e.iter = 1; e.iter <= 12; e.iter++ {
		e.changed = false
		before := e.heapSize()
		res = e.analyze(fn, args, nil, nil, 0)
		if !e.changed && e.heapSize() == before {
			break
		}
	}
	return &effResult{e, fn, res}
}

// writesTo lists the recorded writes into parameter k's region.
func (r *effResult) writesTo(k int) []writeRec {
	var out []writeRec
	o := fmt.Sprintf("P%d", k)
	for _, w := range r.e.writes {
		if w.origin == o {
			out = append(out, w)
		}
	}
	sort.Slice(out, func(i, j int) bool { return out[i].in.Pos() < out[j].in.Pos() })
	return out
}

// reachFromResult: closed regions reachable from result i through the heap.
func (r *effResult) reachFromResult(i int) map[string][]string {
	out := map[string][]string{}
	if i >= len(r.results) || r.results[i] == nil {
		return out
	}
	seen := map[loc]bool{}
	type item struct {
		l    loc
		path []string
	}
	var work []item
	for l := range r.results[i].locs {
		work = append(work, item{l, []string{r.describe(l)}})
	}
	for len(work) > 0 {
		it := work[0]
		work = work[1:]
		if seen[it.l] {
			continue
		}
		seen[it.l] = true
		if isClosed(it.l.o) {
			if _, ok := out[it.l.o]; !ok {
				out[it.l.o] = it.path
			}
			continue
		}
		// everything stored anywhere in this site
		for k, v := range r.e.contents {
			if k.o != it.l.o {
				continue
			}
			for l2 := range v.locs {
				if !seen[l2] {
					p := append(append([]string{}, it.path...), "."+k.f+" → "+r.describe(l2))
					work = append(work, item{loc{l2.o, ""}, p})
				}
			}
		}
	}
	return out
}

func (r *effResult) describe(l loc) string {
	if isClosed(l.o) {
		if strings.HasPrefix(l.o, "P") {
			var k int
			fmt.Sscanf(l.o, "P%d", &k)
			if k < len(r.fn.Params) {
				return "memory of parameter " + r.fn.Params[k].Name()
			}
		}
		return l.o
	}
	if s := r.e.siteByID[l.o]; s != nil {
		what := "allocation"
		if s.what != "" {
			what = s.what
		}
		return fmt.Sprintf("%s at %s", what, r.e.c.P.Pos(s.in.Pos()))
	}
	return l.o
}

type purityTarget struct {
	Rel, Recv, Name string
	Params          []int // parameter indices (receiver = 0) that must not be written
}

// purityObligations: F never writes memory reachable from the listed
// parameters.
func (c *Ctx) purityObligations(rule string, targets []purityTarget) {
	L := c.L
	L.Rule(rule, "the function (with everything it calls, closures and callbacks included) contains no store, map update, copy, delete, sort or mutating library call whose target address may point into memory reachable from the listed input parameter; decided by an allocation-site abstract interpretation of go/ssa in which each input parameter is a closed region")
	for _, t := range targets {
		r := c.fn(t.Rel, t.Recv, t.Name)
		if !r.ok() {
			continue
		}
		res := c.runEffects(r.F)
		if len(res.e.unknown) > 0 {
			L.Unknown(rule, r.label, "analysis complete", c.P.Pos(r.F.Pos()), "constructs outside the interpreter's model: "+strings.Join(dedupe(res.e.unknown), "; "))
			continue
		}
		for _, k := range t.Params {
			if k >= len(r.F.Params) {
				L.Unknown(rule, r.label, fmt.Sprintf("parameter #%d", k), c.P.Pos(r.F.Pos()), "no such parameter")
				continue
			}
			pname := r.F.Params[k].Name()
			ws := res.writesTo(k)
			if len(ws) == 0 {
				L.OK(rule, r.label, "parameter "+pname, c.P.Pos(r.F.Pos()),
					fmt.Sprintf("%d function bodies analysed (contexts included), %d allocation sites, no write lands in memory reachable from %s", res.e.nAnalysed, len(res.e.sites), pname))
				continue
			}
			var ds []string
			for i, w := range ws {
				if i >= 3 {
					ds = append(ds, "…")
					break
				}
				ds = append(ds, fmt.Sprintf("%s at %s in %s (via %s)", w.what, c.P.Pos(w.in.Pos()), c.P.FuncName(w.fn), w.stack))
			}
			L.Bad(rule, r.label, "parameter "+pname, c.P.Pos(ws[0].in.Pos()), "input is modified: "+strings.Join(ds, "; "))
		}
	}
}

type ownTarget struct {
	Rel, Recv, Name string
	Result          int
}

// ownershipObligations: nothing reachable from the result lives in memory
// reachable from any parameter (strings are immutable and ignored).
func (c *Ctx) ownershipObligations(rule string, targets []ownTarget) {
	L := c.L
	L.Rule(rule, "no pointer, slice or map reachable from the returned object points into memory reachable from a parameter of the call: the copy owns its row buffers, row objects and containers")
	for _, t := range targets {
		r := c.fn(t.Rel, t.Recv, t.Name)
		if !r.ok() {
			continue
		}
		res := c.runEffects(r.F)
		if len(res.e.unknown) > 0 {
			L.Unknown(rule, r.label, "analysis complete", c.P.Pos(r.F.Pos()), "constructs outside the interpreter's model: "+strings.Join(dedupe(res.e.unknown), "; "))
			continue
		}
		reach := res.reachFromResult(t.Result)
		var bad []string
		for o, path := range reach {
			if strings.HasPrefix(o, "P") {
				bad = append(bad, strings.Join(path, " "))
			}
		}
		sort.Strings(bad)
		name := fmt.Sprintf("result #%d", t.Result)
		if len(bad) == 0 {
			n := 0
			if t.Result < len(res.results) && res.results[t.Result] != nil {
				n = len(res.results[t.Result].locs)
			}
			if n == 0 {
				L.Unknown(rule, r.label, name, c.P.Pos(r.F.Pos()), "the result has no abstract value (analysis did not reach a return)")
				continue
			}
			L.OK(rule, r.label, name, c.P.Pos(r.F.Pos()), fmt.Sprintf("result is built from %d fresh allocation site(s); nothing reachable from it lies in a parameter's memory", n))
		} else {
			L.Bad(rule, r.label, name, c.P.Pos(r.F.Pos()), "the returned object shares memory with its input: "+bad[0])
		}
	}
}
