package rules

import (
	"fmt"
	"strings"

	"golang.org/x/tools/go/ssa"
)

// checkSetters: every parameter of a configuration setter `Set…` of the given receiver types is
// stored into a field of the receiver on every path that returns without an error. A setter that
// keeps one of its arguments only when another argument has some value leaves the object with the
// configuration of an earlier call.
func (c *Ctx) checkSetters(rule, rel string, recvs ...string) {
	L := c.L
	L.Rule(rule, "every parameter of a Set… method is stored into a receiver field on every path that returns without an error (validation may reject the call, but an accepted call records all its arguments): an argument that is only kept under a condition on another argument leaves the value of an earlier call in force")
	n := 0
	for _, fn := range c.srcFuncs(rel) {
		if fn.Signature.Recv() == nil || !strings.HasPrefix(fn.Name(), "Set") || len(fn.Params) < 2 {
			continue
		}
		rt := recvKindName(fn)
		match := false
		for _, r := range recvs {
			if rt == r {
				match = true
			}
		}
		if !match {
			continue
		}
		recv := fn.Params[0]
		okEdges := []*ssa.BasicBlock{}
		for _, e := range returnEdges(fn) {
			if e.kind != "err" {
				okEdges = append(okEdges, e.block)
			}
		}
		for _, p := range fn.Params[1:] {
			n++
			var stores []*ssa.Store
			allInstrs(fn, func(in ssa.Instruction) {
				st, ok := in.(*ssa.Store)
				if !ok {
					return
				}
				fa, ok := st.Addr.(*ssa.FieldAddr)
				if !ok || fa.X != ssa.Value(recv) {
					return
				}
				if stripConv(st.Val) == ssa.Value(p) {
					stores = append(stores, st)
				}
			})
			good := len(stores) > 0 && len(okEdges) > 0
			for _, rb := range okEdges {
				covered := false
				for _, st := range stores {
					if st.Block() == rb || st.Block().Dominates(rb) {
						covered = true
					}
				}
				if !covered {
					good = false
				}
			}
			L.Check(good, rule, c.P.FuncName(c.origFn(fn)), "parameter "+paramRole(fn, p), c.P.Pos(fn.Pos()),
				"stored into a receiver field before every successful return",
				fmt.Sprintf("the argument is not recorded on every accepted call (%d store(s) into receiver fields, %d successful return path(s)): a later use sees the value of an earlier call", len(stores), len(okEdges)))
		}
	}
	_ = n
}

func recvKindName(fn *ssa.Function) string {
	t := fn.Signature.Recv().Type().String()
	if i := strings.LastIndex(t, "."); i >= 0 {
		pre := ""
		if strings.HasPrefix(t, "*") {
			pre = "*"
		}
		return pre + t[i+1:]
	}
	return t
}

// paramRole: the documented name of the parameter (interface declaration or position), so that a
// rename does not change the obligation key.
func paramRole(fn *ssa.Function, p *ssa.Parameter) string {
	names := declaredParamNames(fn)
	for i, q := range fn.Params {
		if q == p {
			j := i
			if fn.Signature.Recv() != nil {
				j = i - 1
			}
			if j >= 0 && j < len(names) && names[j] != "" {
				return names[j]
			}
			return fmt.Sprintf("#%d", j+1)
		}
	}
	return p.Name()
}

// checkRecordedParams: the initialisers `name` of package rel (InitModel of the distance models)
// take options next to their data. An option that the method stores into a field of its receiver
// at all is stored on every path that returns without a rejection: a model object that is
// initialised twice must not keep the option of the first call (gamma correction requested once,
// plain distances later).
func (c *Ctx) checkRecordedParams(rule, rel, name string) {
	L := c.L
	L.Rule(rule, "a scalar parameter of "+name+" that the method records in a receiver field is recorded before every return that is not a rejection of the arguments: re-initialising a model replaces its options")
	n := 0
	for _, fn := range c.srcFuncs(rel) {
		if fn.Signature.Recv() == nil || fn.Name() != name || len(fn.Params) < 2 {
			continue
		}
		recv := fn.Params[0]
		for _, p := range fn.Params[1:] {
			if !isSmallScalar(p.Type()) && p.Type().String() != "float64" {
				continue
			}
			var stores []*ssa.Store
			allInstrs(fn, func(in ssa.Instruction) {
				st, ok := in.(*ssa.Store)
				if !ok {
					return
				}
				fa, ok := st.Addr.(*ssa.FieldAddr)
				if !ok || !isRecvValue(fa.X, recv) {
					return
				}
				if stripConv(st.Val) == ssa.Value(p) {
					stores = append(stores, st)
				}
			})
			if len(stores) == 0 {
				continue
			}
			n++
			// every return is reached through one of the stores, except returns that reject the
			// arguments before anything is computed (an error return that no store precedes and that is
			// controlled by a test on a parameter)
			good := true
			for _, b := range fn.Blocks {
				ret, ok := b.Instrs[len(b.Instrs)-1].(*ssa.Return)
				if !ok {
					continue
				}
				covered := false
				for _, st := range stores {
					if st.Block() == b || st.Block().Dominates(b) {
						covered = true
					}
				}
				if covered {
					continue
				}
				// a rejection: returns a non-nil error constant-built in this block
				rej := false
				for _, rv := range ret.Results {
					if rv.Type().String() == "error" {
						// an error built here (fmt.Errorf / errors.New): the arguments are refused
						if call, isCall := rv.(*ssa.Call); isCall {
							if g := call.Common().StaticCallee(); g != nil && g.Pkg != nil && (g.Pkg.Pkg.Path() == "fmt" || g.Pkg.Pkg.Path() == "errors") {
								rej = true
							}
						}
					}
				}
				if !rej {
					good = false
				}
			}
			L.Check(good, rule, c.P.FuncName(c.origFn(fn)), "parameter "+paramRole(fn, p), c.P.Pos(fn.Pos()),
				"recorded before every return that does not reject the call",
				"the option is recorded on some paths only: a model initialised a second time keeps the value of the first call on the others")
		}
	}
	if n == 0 {
		L.Unknown(rule, rel, name+" options", "-", "no initialiser that records a scalar parameter found")
	}
}
