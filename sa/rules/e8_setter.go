package rules

import (
	"fmt"
	"strings"

	"golang.org/x/tools/go/ssa"
)

// checkSetters: every parameter of a configuration setter `Set…` of the given receiver types is
// stored into a field of the receiver on every path that returns without an error. A setter that
// keeps one of its arguments only when another argument has some value leaves the object with the
// configuration of an earlier call.
func (c *Ctx) checkSetters(rule, rel string, recvs ...string) {
	L := c.L
	L.Rule(rule, "every parameter of a Set… method is stored into a receiver field on every path that returns without an error (validation may reject the call, but an accepted call records all its arguments): an argument that is only kept under a condition on another argument leaves the value of an earlier call in force")
	n := 0
	for _, fn := range c.srcFuncs(rel) {
		if fn.Signature.Recv() == nil || !strings.HasPrefix(fn.Name(), "Set") || len(fn.Params) < 2 {
			continue
		}
		rt := recvKindName(fn)
		match := false
		for _, r := range recvs {
			if rt == r {
				match = true
			}
		}
		if !match {
			continue
		}
		recv := fn.Params[0]
		okEdges := []*ssa.BasicBlock{}
		for _, e := range returnEdges(fn) {
			if e.kind != "err" {
				okEdges = append(okEdges, e.block)
			}
		}
		for _, p := range fn.Params[1:] {
			n++
			var stores []*ssa.Store
			allInstrs(fn, func(in ssa.Instruction) {
				st, ok := in.(*ssa.Store)
				if !ok {
					return
				}
				fa, ok := st.Addr.(*ssa.FieldAddr)
				if !ok || fa.X != ssa.Value(recv) {
					return
				}
				if stripConv(st.Val) == ssa.Value(p) {
					stores = append(stores, st)
				}
			})
			good := len(stores) > 0 && len(okEdges) > 0
			for _, rb := range okEdges {
				covered := false
				for _, st := range stores {
					if st.Block() == rb || st.Block().Dominates(rb) {
						covered = true
					}
				}
				if !covered {
					good = false
				}
			}
			L.Check(good, rule, c.P.FuncName(c.origFn(fn)), "parameter "+paramRole(fn, p), c.P.Pos(fn.Pos()),
				"stored into a receiver field before every successful return",
				fmt.Sprintf("the argument is not recorded on every accepted call (%d store(s) into receiver fields, %d successful return path(s)): a later use sees the value of an earlier call", len(stores), len(okEdges)))
		}
	}
	_ = n
}

func recvKindName(fn *ssa.Function) string {
	t := fn.Signature.Recv().Type().String()
	if i := strings.LastIndex(t, "."); i >= 0 {
		pre := ""
		if strings.HasPrefix(t, "*") {
			pre = "*"
		}
		return pre + t[i+1:]
	}
	return t
}

// paramRole: the documented name of the parameter (interface declaration or position), so that a
// rename does not change the obligation key.
func paramRole(fn *ssa.Function, p *ssa.Parameter) string {
	names := declaredParamNames(fn)
	for i, q := range fn.Params {
		if q == p {
			j := i
			if fn.Signature.Recv() != nil {
				j = i - 1
			}
			if j >= 0 && j < len(names) && names[j] != "" {
				return names[j]
			}
			return fmt.Sprintf("#%d", j+1)
		}
	}
	return p.Name()
}
