package rules

import (
	"go/ast"
	"go/token"
	"go/types"
	"math/big"
)

// Fractions with factored denominators. Plain numerator/denominator pairs of polynomials explode
// when sums of quotients are nested (no multivariate gcd here). The denominators that occur in a
// symbolic eigen system are products of a few fixed polynomials (πR, πY, πG, πT, the normaliser);
// ffrac keeps the denominator as exponents over a growing list of such factors, adds with the least
// common multiple and compares by cross-multiplication with the missing factors only.
type ffCtx struct {
	factors []poly
	leaf    func(name string) (poly, bool) // symbol -> polynomial (substitutions such as πT = 1 − πA − πC − πG)
}

type ffrac struct {
	num poly
	den map[int]int
}

func polyClean(p poly) poly { return poly{}.add(p, 1) }

func polyEqual(a, b poly) bool { return polyClean(a).add(polyClean(b), -1).isZero() }

// constMultiple: a = k·b for a rational k ≠ 0; returns k.
func constMultiple(a, b poly) (*big.Rat, bool) {
	a, b = polyClean(a), polyClean(b)
	if len(a) != len(b) || len(a) == 0 {
		return nil, false
	}
	var k *big.Rat
	for m, ca := range a {
		cb, ok := b[m]
		if !ok {
			return nil, false
		}
		q := new(big.Rat).Quo(ca, cb)
		if k == nil {
			k = q
		} else if k.Cmp(q) != 0 {
			return nil, false
		}
	}
	return k, true
}

func (fc *ffCtx) constant(r *big.Rat) ffrac { return ffrac{polyConst(r), map[int]int{}} }

func (fc *ffCtx) fromPoly(p poly) ffrac { return ffrac{polyClean(p), map[int]int{}} }

func (fc *ffCtx) denPoly(d map[int]int, minus map[int]int) poly {
	out := polyConst(big.NewRat(1, 1))
	for i, e := range d {
		e -= minus[i]
		for ; e > 0; e-- {
			out = out.mul(fc.factors[i])
		}
	}
	return out
}

func (fc *ffCtx) add(a, b ffrac, sign int64) ffrac {
	l := map[int]int{}
	for i, e := range a.den {
		l[i] = e
	}
	for i, e := range b.den {
		if e > l[i] {
			l[i] = e
		}
	}
	// a.num · (l / a.den) ± b.num · (l / b.den)
	na := a.num.mul(fc.denPoly(l, a.den))
	nb := b.num.mul(fc.denPoly(l, b.den))
	return ffrac{na.add(nb, sign), l}
}

func (fc *ffCtx) mul(a, b ffrac) ffrac {
	d := map[int]int{}
	for i, e := range a.den {
		d[i] += e
	}
	for i, e := range b.den {
		d[i] += e
	}
	return ffrac{a.num.mul(b.num), d}
}

// inv: 1/a. The numerator of a becomes a denominator factor (an existing one when it is a constant
// multiple of it).
func (fc *ffCtx) inv(a ffrac) (ffrac, bool) {
	n := polyClean(a.num)
	if n.isZero() {
		return ffrac{}, false
	}
	num := fc.denPoly(a.den, nil)
	// a constant numerator
	if len(n) == 1 {
		if c, ok := n[""]; ok {
			return ffrac{num.mul(polyConst(new(big.Rat).Inv(c))), map[int]int{}}, true
		}
	}
	for i, f := range fc.factors {
		if k, ok := constMultiple(n, f); ok {
			return ffrac{num.mul(polyConst(new(big.Rat).Inv(k))), map[int]int{i: 1}}, true
		}
	}
	fc.factors = append(fc.factors, n)
	return ffrac{num, map[int]int{len(fc.factors) - 1: 1}}, true
}

func (fc *ffCtx) eq(a, b ffrac) bool {
	l := map[int]int{}
	for i, e := range a.den {
		l[i] = e
	}
	for i, e := range b.den {
		if e > l[i] {
			l[i] = e
		}
	}
	na := a.num.mul(fc.denPoly(l, a.den))
	nb := b.num.mul(fc.denPoly(l, b.den))
	return na.add(nb, -1).isZero()
}

// parse reads an arithmetic expression (+ − · / over constants, identifiers resolved through the
// single-assignment locals, selectors as symbols).
func (fc *ffCtx) parse(info *types.Info, e ast.Expr, depth int) (ffrac, bool) {
	if depth > 40 {
		return ffrac{}, false
	}
	if r := ratExpr(info, e); r != nil {
		return fc.constant(r), true
	}
	switch x := e.(type) {
	case *ast.ParenExpr:
		return fc.parse(info, x.X, depth+1)
	case *ast.Ident:
		if ratLocals != nil {
			if def, ok := ratLocals[info.Uses[x]]; ok && def != nil {
				return fc.parse(info, def, depth+1)
			}
		}
		if p, ok := fc.leaf(x.Name); ok {
			return fc.fromPoly(p), true
		}
	case *ast.SelectorExpr:
		if p, ok := fc.leaf(x.Sel.Name); ok {
			return fc.fromPoly(p), true
		}
	case *ast.UnaryExpr:
		a, ok := fc.parse(info, x.X, depth+1)
		if !ok {
			return ffrac{}, false
		}
		switch x.Op {
		case token.SUB:
			return ffrac{poly{}.add(a.num, -1), a.den}, true
		case token.ADD:
			return a, true
		}
	case *ast.BinaryExpr:
		a, ok1 := fc.parse(info, x.X, depth+1)
		b, ok2 := fc.parse(info, x.Y, depth+1)
		if !ok1 || !ok2 {
			return ffrac{}, false
		}
		switch x.Op {
		case token.ADD:
			return fc.add(a, b, 1), true
		case token.SUB:
			return fc.add(a, b, -1), true
		case token.MUL:
			return fc.mul(a, b), true
		case token.QUO:
			ib, ok := fc.inv(b)
			if !ok {
				return ffrac{}, false
			}
			return fc.mul(a, ib), true
		}
	}
	return ffrac{}, false
}
