package rules

import (
	"fmt"
	"go/constant"
	"go/token"
	"go/types"
	"strings"

	"golang.org/x/tools/go/ssa"
)

func (c *Ctx) alignConst(name string) (int64, bool) {
	k := constByName(c.P.Pkg("align"), name)
	if k == nil {
		return 0, false
	}
	i, ok := constant.Int64Val(constant.ToInt(k))
	return i, ok
}

// checkEntropyFilter: which residues Entropy counts. Decision table over the residue classes
// {'*', '.', '-', a letter} and the removegaps flag, read from the branch cascade of the row loop:
// counted exactly when the residue is neither '*' nor '.', and is not a gap while gaps are removed.
func (c *Ctx) checkEntropyFilter(rule string) {
	L := c.L
	L.Rule(rule, "decision table of the residue filter of Entropy (residue classes '*', '.', '-', letter x removegaps), read from the branch cascade of the row loop: a residue is counted iff it is neither '*' nor '.' and (removegaps is false or it is not '-')")
	r := c.fn("align", "*align", "Entropy")
	if !r.ok() {
		return
	}
	fn := r.F
	other, ok1 := c.alignConst("OTHER")
	point, ok2 := c.alignConst("POINT")
	gap, ok3 := c.alignConst("GAP")
	if !ok1 || !ok2 || !ok3 {
		L.Unknown(rule, r.label, "constants", "-", "OTHER/POINT/GAP not found in package align")
		return
	}
	// the flag
	var flag *ssa.Parameter
	for _, p := range fn.Params {
		if b, ok := p.Type().Underlying().(*types.Basic); ok && b.Kind() == types.Bool {
			flag = p
		}
	}
	// the residue: a byte compared with OTHER
	var res ssa.Value
	allInstrs(fn, func(in ssa.Instruction) {
		bo, ok := in.(*ssa.BinOp)
		if !ok || (bo.Op != token.EQL && bo.Op != token.NEQ) {
			return
		}
		for _, pr := range [][2]ssa.Value{{bo.X, bo.Y}, {bo.Y, bo.X}} {
			if k, isK := constInt(pr[1]); isK && k == other {
				if b, ok := pr[0].Type().Underlying().(*types.Basic); ok && b.Kind() == types.Uint8 {
					if _, isConst := pr[0].(*ssa.Const); !isConst && res == nil {
						res = pr[0]
					}
				}
			}
		}
	})
	if flag == nil || res == nil {
		L.Unknown(rule, r.label, "residue filter", c.P.Pos(fn.Pos()), "no byte compared with OTHER, or no boolean parameter: the filter is not written as a branch cascade over the residue")
		return
	}
	ri, isInstr := res.(ssa.Instruction)
	if !isInstr {
		L.Unknown(rule, r.label, "residue filter", c.P.Pos(fn.Pos()), "the residue is not read inside the function")
		return
	}
	start := ri.Block()
	var lp *loop
	for _, l := range naturalLoops(fn) {
		if l.Blocks[start] && (lp == nil || len(l.Blocks) < len(lp.Blocks)) {
			lp = l
		}
	}
	if lp == nil {
		L.Unknown(rule, r.label, "residue filter", c.P.Pos(ri.Pos()), "the residue is not read inside a loop over the rows")
		return
	}
	counts := func(b *ssa.BasicBlock) bool {
		for _, in := range b.Instrs {
			switch x := in.(type) {
			case *ssa.MapUpdate:
				return true
			case *ssa.Lookup:
				if _, isMap := x.X.Type().Underlying().(*types.Map); isMap {
					return true
				}
			case *ssa.Store:
				if _, ok := x.Addr.(*ssa.IndexAddr); ok {
					return true
				}
			}
		}
		return false
	}
	type row struct {
		name string
		v    int64
	}
	rows := []row{{"'*'", other}, {"'.'", point}, {"'-'", gap}, {"a letter", 'A'}}
	var bad, und []string
	n := 0
	for _, rw := range rows {
		for _, rg := range []int64{0, 1} {
			n++
			env := map[ssa.Value]dval{res: {known: true, k: rw.v}, flag: {known: true, k: rg}}
			wr, ok := walkDecide(start, env, func(b *ssa.BasicBlock) bool { return counts(b) || b == lp.Head || !lp.Blocks[b] })
			what := fmt.Sprintf("%s with removegaps=%v", rw.name, rg == 1)
			if !ok {
				und = append(und, what)
				continue
			}
			got := counts(wr.at) && lp.Blocks[wr.at]
			want := rw.v != other && rw.v != point && (rg == 0 || rw.v != gap)
			if got != want {
				if got {
					bad = append(bad, what+" is counted")
				} else {
					bad = append(bad, what+" is not counted")
				}
			}
		}
	}
	switch {
	case len(bad) > 0:
		L.Bad(rule, r.label, "residue filter", c.P.Pos(ri.Pos()), "the filter differs from its definition: "+strings.Join(bad, "; "))
	case len(und) == n:
		L.Trivial(rule, r.label, "residue filter", c.P.Pos(ri.Pos()), "the filter is not written as a branch cascade over the residue and the flag: no row can be read off, nothing is decided by this rule")
	case len(und) > 0:
		L.Unknown(rule, r.label, "residue filter", c.P.Pos(ri.Pos()), "the branch cascade depends on something else than the residue and the flag for: "+strings.Join(und, "; "))
	default:
		L.OK(rule, r.label, "residue filter", c.P.Pos(ri.Pos()), fmt.Sprintf("%d rows of the table equal the definition", n))
	}
	L.Floor(rule, 1, "one filter")
}
