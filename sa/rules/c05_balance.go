package rules

import (
	"fmt"
	"os"
	"go/token"
	"sort"
	"strings"

	"golang.org/x/tools/go/ssa"
)

// Write balance of TranslateByReference. For every reference codon the function appends to the
// buffer of every row; the result is rectangular only if each row receives the same number of
// bytes per codon (naa, the number of amino acids the codon window can hold). The rule counts,
// symbolically, the WriteByte calls on a row buffer along every path through one iteration:
// a single call counts 1; a loop whose counter is stepped once and that writes once per iteration
// counts (value of the counter at the exit) − (its initial value), the exit value being the bound
// of a `c < hi` loop or the counter itself otherwise (so that `n` translated codons followed by
// `for i := n; i < naa` padding gives n + (naa − n)). All paths of the reference row and of the
// other rows must give one and the same total.
func (c *Ctx) checkWriteBalance(rule string) {
	L := c.L
	L.Rule(rule, "in TranslateByReference every path through one iteration of the codon loop appends the same symbolic number of bytes (the number of amino acids of the codon window) to the reference row's buffer, and every path through the handling of another row appends that same number to that row's buffer: the translated alignment is rectangular")
	r := c.fn("align", "*align", "TranslateByReference")
	if !r.ok() {
		return
	}
	fn := r.F
	lc := newLinCtx(c, fn)
	loops := naturalLoops(fn)
	isWrite := func(in ssa.Instruction) bool {
		call, ok := in.(*ssa.Call)
		if !ok {
			return false
		}
		g := call.Common().StaticCallee()
		if g == nil || g.Name() != "WriteByte" || len(call.Common().Args) == 0 {
			return false
		}
		_, isElem := call.Common().Args[0].(*ssa.IndexAddr)
		return isElem
	}
	hasWrite := func(lp *loop) bool {
		for b := range lp.Blocks {
			for _, in := range b.Instrs {
				if isWrite(in) {
					return true
				}
			}
		}
		return false
	}
	// the codon loop: outermost loop that contains a write; the row loop: the loop nested directly
	// in it that contains writes and another loop with writes (the per-row handling)
	var codon *loop
	for _, lp := range loops {
		if !hasWrite(lp) {
			continue
		}
		if codon == nil || len(lp.Blocks) > len(codon.Blocks) {
			codon = lp
		}
	}
	if codon == nil {
		L.Unknown(rule, r.label, "codon loop", c.P.Pos(fn.Pos()), "no loop appends to the row buffers")
		return
	}
	parentOf := func(lp *loop) *loop {
		var best *loop
		for _, o := range loops {
			if o != lp && o.Blocks[lp.Head] && (best == nil || len(o.Blocks) < len(best.Blocks)) {
				best = o
			}
		}
		return best
	}
	var rowLoop *loop
	for _, lp := range loops {
		if lp == codon || parentOf(lp) != codon || !hasWrite(lp) {
			continue
		}
		nested := 0
		for _, o := range loops {
			if parentOf(o) == lp && hasWrite(o) {
				nested++
			}
		}
		if nested >= 2 {
			rowLoop = lp
		}
	}
	// contribution of a write loop
	contribution := func(lp *loop, from *ssa.BasicBlock) (lin, bool) {
		if !hasWrite(lp) {
			return linConst(0), true
		}
		one := pathSums(lp, func(in ssa.Instruction) int {
			if isWrite(in) {
				return 1
			}
			return 0
		}, func(*ssa.BasicBlock) bool { return false })
		if len(one) != 1 || !one[1] {
			return lin{}, false
		}
		for _, in := range lp.Head.Instrs {
			p, ok := in.(*ssa.Phi)
			if !ok {
				break
			}
			if !isIntType(p.Type()) {
				continue
			}
			var init ssa.Value
			stepped := true
			nIn := 0
			for i, e := range p.Edges {
				if !lp.Blocks[lp.Head.Preds[i]] {
					// the value on the edge the loop is entered by
					if from == nil || lp.Head.Preds[i] == from {
						init = e
					}
					continue
				}
				nIn++
				bo, ok := e.(*ssa.BinOp)
				if !ok || bo.Op != token.ADD || bo.X != ssa.Value(p) {
					stepped = false
					continue
				}
				if k, ok := constInt(bo.Y); !ok || k != 1 {
					stepped = false
				}
			}
			if !stepped || init == nil || nIn == 0 {
				continue
			}
			exit := lc.of(p)
			if ifi, ok := lp.Head.Instrs[len(lp.Head.Instrs)-1].(*ssa.If); ok {
				if bo, ok := ifi.Cond.(*ssa.BinOp); ok && bo.Op == token.LSS && bo.X == ssa.Value(p) && lp.Blocks[lp.Head.Succs[0]] {
					exit = lc.of(bo.Y)
				}
			}
			if os.Getenv("VERIF_DEBUG_BAL") != "" {
				fmt.Fprintf(os.Stderr, "BAL loop head %d phi %s exit %s init %s\n", lp.Head.Index, p.Name(), exit.String(), lc.of(init).String())
			}
			return exit.add(lc.of(init).scale(-1)), true
		}
		return lin{}, false
	}
	// rename: on the edge from→to, a quantity that a φ-node of `to` takes over under its own name
	// (naa computed in either branch, then used as one variable) is counted under that name
	// constBind: the φ-nodes of a merge block that take a constant on this edge (written := 0 on
	// the path that skips the translation loop)
	constBind := func(env map[string]int64, from, to *ssa.BasicBlock) map[string]int64 {
		idx := -1
		for i, p := range to.Preds {
			if p == from {
				idx = i
			}
		}
		if idx < 0 || hasBackEdge(to) {
			return env
		}
		out := env
		copied := false
		for _, in := range to.Instrs {
			phi, ok := in.(*ssa.Phi)
			if !ok {
				break
			}
			if !isIntType(phi.Type()) || idx >= len(phi.Edges) {
				continue
			}
			pv := lc.of(phi)
			if len(pv.t) != 1 || pv.c != 0 {
				continue
			}
			var pa string
			for a := range pv.t {
				pa = a
			}
			if !copied {
				out = map[string]int64{}
				for k, v := range env {
					out[k] = v
				}
				copied = true
			}
			if k, isK := constInt(phi.Edges[idx]); isK {
				out[pa] = k
			} else {
				delete(out, pa)
			}
		}
		return out
	}
	applyEnv := func(l lin, env map[string]int64) lin {
		n := l.clone()
		for a, v := range env {
			if k, has := n.t[a]; has {
				delete(n.t, a)
				n.c += k * v
			}
		}
		return n
	}
	envKey := func(env map[string]int64) string {
		var ks []string
		for a, v := range env {
			ks = append(ks, fmt.Sprintf("%s=%d", a, v))
		}
		sort.Strings(ks)
		return strings.Join(ks, ",")
	}
	rename := func(sum lin, from, to *ssa.BasicBlock) lin {
		idx := -1
		for i, p := range to.Preds {
			if p == from {
				idx = i
			}
		}
		if idx < 0 || hasBackEdge(to) {
			return sum // a loop head: its φ-nodes are counters, not renamings
		}
		for _, in := range to.Instrs {
			phi, ok := in.(*ssa.Phi)
			if !ok {
				break
			}
			if !isIntType(phi.Type()) || idx >= len(phi.Edges) {
				continue
			}
			ev, pv := lc.of(phi.Edges[idx]), lc.of(phi)
			if len(ev.t) != 1 || ev.c != 0 || len(pv.t) != 1 || pv.c != 0 {
				continue
			}
			var ea, pa string
			for a, k := range ev.t {
				if k == 1 {
					ea = a
				}
			}
			for a, k := range pv.t {
				if k == 1 {
					pa = a
				}
			}
			if ea == "" || pa == "" {
				continue
			}
			if k, has := sum.t[ea]; has {
				n := sum.clone()
				delete(n.t, ea)
				n.t[pa] += k
				if n.t[pa] == 0 {
					delete(n.t, pa)
				}
				sum = n
			}
		}
		return sum
	}
	// totals over one iteration of `region`, with the loops nested directly in it collapsed;
	// `skip` is a nested loop that is not part of the count (the row loop inside the codon loop)
	totals := func(region *loop, skip *loop) (map[string]bool, bool) {
		var inner []*loop
		for _, lp := range loops {
			if parentOf(lp) == region {
				inner = append(inner, lp)
			}
		}
		innerOf := func(b *ssa.BasicBlock) *loop {
			for _, lp := range inner {
				if lp.Head == b {
					return lp
				}
			}
			return nil
		}
		out := map[string]bool{}
		okAll := true
		type key struct {
			b   *ssa.BasicBlock
			sum string
			env string
		}
		seen := map[key]bool{}
		var walk func(b, from *ssa.BasicBlock, sum lin, env map[string]int64)
		walk = func(b, from *ssa.BasicBlock, sum lin, env map[string]int64) {
			if !okAll {
				return
			}
			if !region.Blocks[b] {
				return // left the region (break / return): not a completed iteration
			}
			k := key{b, sum.String(), envKey(env) + fmt.Sprint(from != nil && innerOf(b) != nil, func() int {
				if from != nil {
					return from.Index
				}
				return -1
			}())}
			if seen[k] {
				return
			}
			seen[k] = true
			if lp := innerOf(b); lp != nil {
				s2 := sum
				if lp != skip {
					cb, ok := contribution(lp, from)
					if !ok {
						okAll = false
						return
					}
					s2 = sum.add(applyEnv(cb, env))
				}
				for blk := range lp.Blocks {
					for _, sc := range blk.Succs {
						if !lp.Blocks[sc] {
							if sc == region.Head {
								out[s2.String()] = true
							} else {
								walk(sc, blk, rename(s2, blk, sc), constBind(env, blk, sc))
							}
						}
					}
				}
				return
			}
			s2 := sum
			for _, in := range b.Instrs {
				if isWrite(in) {
					s2 = s2.addc(1)
				}
			}
			for _, sc := range b.Succs {
				if sc == region.Head {
					out[s2.String()] = true
					continue
				}
				walk(sc, b, rename(s2, b, sc), constBind(env, b, sc))
			}
		}
		for _, sc := range region.Head.Succs {
			if region.Blocks[sc] {
				walk(sc, region.Head, linConst(0), map[string]int64{})
			}
		}
		return out, okAll
	}
	show := func(m map[string]bool) string {
		var s []string
		for k := range m {
			if os.Getenv("VERIF_DEBUG_BAL") != "" {
				s = append(s, k)
				continue
			}
			s = append(s, stable(k))
		}
		sort.Strings(s)
		return "{" + strings.Join(s, " ; ") + "}"
	}
	refT, ok1 := totals(codon, rowLoop)
	if !ok1 || len(refT) == 0 {
		L.Unknown(rule, r.label, "bytes appended per codon", c.P.Pos(fn.Pos()), "a loop that appends to a row buffer could not be summarised (one write and one counter step per iteration expected)")
		return
	}
	L.Check(len(refT) == 1, rule, r.label, "reference row: bytes per codon", c.P.Pos(codon.Head.Instrs[0].Pos()),
		"every path appends "+show(refT), "the reference row receives a different number of bytes on different paths through a codon: "+show(refT)+": the rows of the result no longer have one length")
	if rowLoop == nil {
		L.Unknown(rule, r.label, "other rows: bytes per codon", c.P.Pos(fn.Pos()), "the loop over the other rows was not found")
		return
	}
	rowT, ok2 := totals(rowLoop, nil)
	if !ok2 {
		L.Unknown(rule, r.label, "other rows: bytes per codon", c.P.Pos(rowLoop.Head.Instrs[0].Pos()), "a loop that appends to a row buffer could not be summarised (one write and one counter step per iteration expected)")
		return
	}
	// the reference row itself is skipped by the row loop: a path without any write
	delete(rowT, linConst(0).String())
	same := len(rowT) == 1 && len(refT) == 1
	if same {
		for k := range rowT {
			if !refT[k] {
				same = false
			}
		}
	}
	L.Check(same, rule, r.label, "other rows: bytes per codon", c.P.Pos(rowLoop.Head.Instrs[0].Pos()),
		"every path appends "+show(rowT)+", as for the reference row",
		fmt.Sprintf("the other rows receive %s bytes per codon where the reference row receives %s: the translated rows have different lengths", show(rowT), show(refT)))
	L.Floor(rule, 1, "reference row and other rows")
}
