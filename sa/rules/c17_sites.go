package rules

import (
	"fmt"
	"go/token"
	"go/types"
	"math/big"

	"golang.org/x/tools/go/ssa"
)

// checkSiteSelectionFresh: in the protein distance code every []bool mask of selected sites that
// is read (indexed, or passed to JC69Dist / aaFrequency) inside MLDist and InitModel is the second
// result of selectedSites called in the same invocation on the function's own alignment parameter
// — never a mask kept in the model from an earlier alignment.
func (c *Ctx) checkSiteSelectionFresh(rule string) {
	L := c.L
	L.Rule(rule, "in ProtDistModel.MLDist and InitModel the mask of selected sites that is indexed or handed to JC69Dist/aaFrequency is, on every path, the result of selectedSites(a, …) called in the same invocation with the function's own alignment parameter: a mask cached in the model belongs to the alignment of an earlier call (bootstrap replicate, shuffled columns)")
	for _, nme := range []string{"MLDist", "InitModel"} {
		r := c.fn("distance/protein", "*ProtDistModel", nme)
		if !r.ok() {
			continue
		}
		fn := r.F
		var aliParam *ssa.Parameter
		for _, p := range fn.Params {
			if namedOf(p.Type()) != nil && namedOf(p.Type()).Obj().Name() == "Alignment" {
				aliParam = p
			}
		}
		// masks in use: []bool values that are indexed or passed on
		uses := map[ssa.Value]ssa.Instruction{}
		for _, f := range withAnons(fn) {
			allInstrs(f, func(in ssa.Instruction) {
				switch x := in.(type) {
				case *ssa.IndexAddr:
					if isBoolSlice(x.X.Type()) {
						uses[x.X] = in
					}
				case *ssa.Call:
					if g := x.Common().StaticCallee(); g != nil && (g.Name() == "JC69Dist" || g.Name() == "aaFrequency") {
						for _, a := range x.Common().Args {
							if isBoolSlice(a.Type()) {
								uses[a] = in
							}
						}
					}
				}
			})
		}
		n, bad := 0, 0
		var where ssa.Instruction
		recv := fn.Params[0]
		for v, at := range uses {
			// only masks that come from selectedSites or out of the model are site selections
			// (the per-pair ambiguity masks live in a local record)
			relevant := false
			for lf := range throughPhis(v, false) {
				if ex, ok := lf.(*ssa.Extract); ok {
					if call, ok := ex.Tuple.(*ssa.Call); ok && call.Common().StaticCallee() != nil {
						relevant = true
					}
				}
				if call, ok := lf.(*ssa.Call); ok && call.Common().StaticCallee() != nil {
					relevant = true
				}
				if _, _, base := loadedField(lf); base == ssa.Value(recv) {
					relevant = true
				}
			}
			if !relevant {
				continue
			}
			n++
			okAll := true
			leaves := 0
			for lf := range throughPhis(v, false) {
				if _, isPhi := lf.(*ssa.Phi); isPhi {
					continue
				}
				leaves++
				ex, ok := lf.(*ssa.Extract)
				if !ok {
					okAll = false
					continue
				}
				call, ok := ex.Tuple.(*ssa.Call)
				if !ok || call.Common().StaticCallee() == nil || call.Common().StaticCallee().Name() != "selectedSites" {
					okAll = false
					continue
				}
				if aliParam == nil || len(call.Common().Args) == 0 || call.Common().Args[0] != ssa.Value(aliParam) {
					okAll = false
				}
			}
			if !okAll || leaves == 0 {
				bad++
				where = at
			}
		}
		if n == 0 {
			L.Unknown(rule, r.label, "site mask", c.P.Pos(fn.Pos()), "no use of a []bool site mask found")
			continue
		}
		pos := c.P.Pos(fn.Pos())
		if where != nil {
			pos = c.P.Pos(where.Pos())
		}
		L.Check(bad == 0, rule, r.label, "site mask", pos,
			fmt.Sprintf("%d use(s), each of the result of selectedSites(a, …) of this invocation", n),
			"a mask of selected sites is read that is not (on every path) the result of selectedSites on this call's own alignment: a selection computed for another alignment of the same length is applied")
	}
	L.Floor(rule, 1, "MLDist and InitModel")
}

func isBoolSlice(t types.Type) bool {
	sl, ok := t.Underlying().(*types.Slice)
	if !ok {
		return false
	}
	b, ok := sl.Elem().Underlying().(*types.Basic)
	return ok && b.Kind() == types.Bool
}

// checkPairScanFull: the identical-pair shortcut of MLDist (check2SequencesDiff) looks at every
// position of the pair: its loop starts at 0, advances by one and continues while the counter is
// below len(pair.seq1); it may only be left early by returning that a difference was found.
func (c *Ctx) checkPairScanFull(rule string) {
	L := c.L
	L.Rule(rule, "check2SequencesDiff examines every position of the pair: counter from 0, step 1, while counter < len(seq1); a scan that stops before the last column reports a pair that differs only there as identical (distance 0)")
	r := c.fn("distance/protein", "", "check2SequencesDiff")
	if !r.ok() {
		return
	}
	fn := r.F
	lc := newLinCtx(c, fn)
	isSeq := func(v ssa.Value) bool {
		_, f, base := loadedField(v)
		return base != nil && (f == "seq1" || f == "seq2")
	}
	n := 0
	for _, rl := range lc.rangeLoopsOver(fn, isSeq) {
		if len(rl.elems) > 0 {
			n++
		}
	}
	nLoops := len(naturalLoops(fn))
	L.Check(n >= 1 && n == nLoops, rule, r.label, "scan of the pair", c.P.Pos(fn.Pos()),
		"one loop: counter from 0, step 1, while counter < len(seq)",
		fmt.Sprintf("%d of %d loop(s) of the function scan the whole pair (from 0, by 1, up to len): some positions are never compared", n, nLoops))
	L.Floor(rule, 1, "one loop")
}

// checkProteinJCFormula: the initial distance of the protein models is the Jukes-Cantor estimator
// for ns states, d = −(ns−1)/ns · ln(1 − ns/(ns−1) · p), with p the entry of the matrix of observed
// proportions that the function returns first — compared as a rational function with ln as an
// uninterpreted function of its argument.
func (c *Ctx) checkProteinJCFormula(rule string) {
	L := c.L
	L.Rule(rule, "JC69Dist stores, for every pair, −(ns−1)/ns · ln(1 − ns/(ns−1) · p[i][j]) into the distance matrix (identity of rational functions, ln uninterpreted), where p is the matrix of proportions it returns and ns the number of states of the model")
	r := c.fn("distance/protein", "*ProtDistModel", "JC69Dist")
	if !r.ok() {
		return
	}
	fn := r.F
	// the matrices returned: p first, dist third
	var pMat, dMat ssa.Value
	allInstrs(fn, func(in ssa.Instruction) {
		if ret, ok := in.(*ssa.Return); ok && len(ret.Results) == 3 {
			pMat, dMat = ret.Results[0], ret.Results[2]
		}
	})
	if pMat == nil {
		L.Unknown(rule, r.label, "results", c.P.Pos(fn.Pos()), "the three result matrices were not found")
		return
	}
	sc := &symCtx{recv: fn.Params[0]}
	// a proportion kept in a local and stored into p once is p's entry as well
	storedInP := map[ssa.Value]bool{}
	allInstrs(fn, func(in ssa.Instruction) {
		if call, ok := in.(*ssa.Call); ok {
			cc := call.Common()
			if g := cc.StaticCallee(); g != nil && g.Name() == "Set" && len(cc.Args) == 4 && cc.Args[0] == pMat {
				if _, isK := cc.Args[3].(*ssa.Const); !isK {
					storedInP[cc.Args[3]] = true
				}
			}
		}
	})
	var sym func(v ssa.Value, d int) (frac, bool)
	sym = func(v ssa.Value, d int) (frac, bool) {
		if d > 40 {
			return frac{}, false
		}
		if storedInP[v] && d > 0 {
			return fracSym("p"), true
		}
		switch x := v.(type) {
		case *ssa.Call:
			cc := x.Common()
			if g := cc.StaticCallee(); g != nil {
				switch {
				case g.Name() == "Ns" || g.Name() == "NState":
					return fracSym("ns"), true
				case g.Name() == "At" && len(cc.Args) == 3 && cc.Args[0] == pMat:
					return fracSym("p"), true
				case isPkgFunc(cc, "math", "Log"):
					a, ok := sym(cc.Args[0], d+1)
					if !ok {
						return frac{}, false
					}
					return sc.apply("log", a), true
				}
			}
			return frac{}, false
		case *ssa.Convert:
			return sym(x.X, d+1)
		case *ssa.BinOp:
			a, ok1 := sym(x.X, d+1)
			b, ok2 := sym(x.Y, d+1)
			if !ok1 || !ok2 {
				return frac{}, false
			}
			switch x.Op {
			case token.ADD:
				return a.add(b), true
			case token.SUB:
				return a.sub(b), true
			case token.MUL:
				return a.mul(b), true
			case token.QUO:
				return a.div(b), true
			}
			return frac{}, false
		case *ssa.UnOp:
			if x.Op == token.SUB {
				a, ok := sym(x.X, d+1)
				return a.neg(), ok
			}
			return frac{}, false
		case *ssa.Const:
			if rr := ratOf(x.Value); rr != nil {
				return frac{polyConst(rr), polyConst(big.NewRat(1, 1))}, true
			}
		}
		return frac{}, false
	}
	ns, p, one := fracSym("ns"), fracSym("p"), fracConst(1, 1)
	want := ns.sub(one).div(ns).neg().mul(sc.apply("log", one.sub(ns.div(ns.sub(one)).mul(p))))
	n, okAll := 0, true
	allInstrs(fn, func(in ssa.Instruction) {
		call, ok := in.(*ssa.Call)
		if !ok {
			return
		}
		cc := call.Common()
		g := cc.StaticCallee()
		if g == nil || g.Name() != "Set" || len(cc.Args) != 4 || cc.Args[0] != dMat {
			return
		}
		// stores of computed values (not the cap constant, not the mirrored copy)
		v := cc.Args[3]
		if _, isK := v.(*ssa.Const); isK {
			return
		}
		if vc, isCall := v.(*ssa.Call); isCall {
			if h := vc.Common().StaticCallee(); h != nil && h.Name() == "At" {
				return // dist[j][i] = dist[i][j]
			}
		}
		if _, isLoad := v.(*ssa.UnOp); isLoad {
			return // a named constant (PROT_DIST_MAX)
		}
		if _, isG := v.(*ssa.Global); isG {
			return
		}
		// a capped value merges the cap (a constant or a named constant) with the estimator
		var leaves []ssa.Value
		for lf := range throughPhis(v, false) {
			switch y := lf.(type) {
			case *ssa.Phi, *ssa.Const, *ssa.Global:
				continue
			case *ssa.UnOp:
				if _, isG := y.X.(*ssa.Global); isG {
					continue
				}
			}
			leaves = append(leaves, lf)
		}
		for _, lf := range leaves {
			n++
			got, ok := sym(lf, 0)
			if !ok || !got.eq(want) {
				okAll = false
			}
		}
	})
	L.Check(n >= 1 && okAll, rule, r.label, "stored estimator", c.P.Pos(fn.Pos()),
		fmt.Sprintf("%d computed store(s) into the distance matrix, each equal to −(ns−1)/ns · ln(1 − ns/(ns−1)·p)", n),
		"a value stored into the initial distance matrix is not the ns-state Jukes-Cantor estimator of the pair's observed proportion")
	L.Floor(rule, 1, "one store")
}
