package rules

import (
	"fmt"
	"go/token"
	"go/types"
	"strings"

	"golang.org/x/tools/go/ssa"
)

// pathSums: the possible totals (capped at 3) of the weights of the instructions executed on a path
// from the head of the loop to a back edge, over the blocks that are not excluded.
func pathSums(lp *loop, weight func(ssa.Instruction) int, excluded func(*ssa.BasicBlock) bool) map[int]bool {
	type set = map[int]bool
	capAt := func(v int) int {
		if v > 3 {
			return 3
		}
		if v < -3 {
			return -3
		}
		return v
	}
	inS := map[*ssa.BasicBlock]set{lp.Head: {0: true}}
	work := []*ssa.BasicBlock{lp.Head}
	latch := set{}
	for len(work) > 0 {
		b := work[0]
		work = work[1:]
		cur := set{}
		for k := range inS[b] {
			cur[k] = true
		}
		for _, in := range b.Instrs {
			if w := weight(in); w != 0 {
				nc := set{}
				for k := range cur {
					nc[capAt(k+w)] = true
				}
				cur = nc
			}
		}
		for _, s := range b.Succs {
			if !lp.Blocks[s] || (s != lp.Head && excluded(s)) {
				continue
			}
			if s == lp.Head {
				for k := range cur {
					latch[k] = true
				}
				continue
			}
			old := inS[s]
			if old == nil {
				old = set{}
				inS[s] = old
			}
			grew := false
			for k := range cur {
				if !old[k] {
					old[k] = true
					grew = true
				}
			}
			if grew {
				work = append(work, s)
			}
		}
	}
	return latch
}

func sumsString(m map[int]bool) string {
	var s []string
	for k := -3; k <= 3; k++ {
		if m[k] {
			s = append(s, fmt.Sprint(k))
		}
	}
	return "{" + strings.Join(s, ",") + "}"
}

// compressCountByPaths decides the counting clause of Compress on the two classes of iterations of
// the site loop, told apart by the `found` result of the lookup in the pattern table: on each class
// the integer field of the pattern's record receives a total of exactly one (an increment of the
// record that was found; for a new record its initial value plus its increments), a new record is
// inserted exactly once under the key that was looked up, and any other counter stepped in the
// loop besides the site index (the number of distinct patterns) is stepped exactly on the
// iterations that insert. Shapes accepted alike: `if !found { rec = &T{0}; npat++ }; rec.n++;
// Insert(k, rec)` and `if found { rec.n++; continue }; Insert(k, &T{1}); npat++`.
func (c *Ctx) compressCountByPaths(fn *ssa.Function) (bool, string) {
	var ins []*ssa.Call
	var get *ssa.Call
	allInstrs(fn, func(in ssa.Instruction) {
		if call, ok := in.(*ssa.Call); ok {
			if f := call.Common().StaticCallee(); f != nil && f.Pkg != nil && strings.HasSuffix(f.Pkg.Pkg.Path(), "go-radix") {
				switch f.Name() {
				case "Insert":
					ins = append(ins, call)
				case "Get":
					get = call
				}
			}
		}
	})
	if get == nil || len(ins) == 0 {
		return false, "lookup or insertion in the pattern table not found"
	}
	lp := innermostLoopOf(naturalLoops(fn), get.Block())
	if lp == nil {
		return false, "the lookup is not inside a site loop"
	}
	var found, val ssa.Value
	for _, ref := range *get.Referrers() {
		if ex, ok := ref.(*ssa.Extract); ok {
			if ex.Index == 1 {
				found = ex
			} else {
				val = ex
			}
		}
	}
	if found == nil {
		return false, "the found result of the lookup is not used"
	}
	// the record type and its counter field
	var recT *types.Pointer
	for _, call := range ins {
		if mi, ok := call.Common().Args[2].(*ssa.MakeInterface); ok {
			if p, ok := mi.X.Type().Underlying().(*types.Pointer); ok {
				recT = p
			}
		}
	}
	if recT == nil {
		return false, "the value inserted is not a pointer to a record"
	}
	fidx := -1
	plainInt := false
	if b, isB := recT.Elem().Underlying().(*types.Basic); isB {
		// the record is the counter itself: *int
		if b.Kind() != types.Int {
			return false, fmt.Sprintf("the counter has type %s, not int", b.Name())
		}
		plainInt = true
	}
	st, ok := recT.Elem().Underlying().(*types.Struct)
	if !ok && !plainInt {
		return false, "the value inserted is not a pointer to a record"
	}
	for i := 0; !plainInt && i < st.NumFields(); i++ {
		if b, ok := st.Field(i).Type().Underlying().(*types.Basic); ok && b.Info()&types.IsInteger != 0 {
			if fidx >= 0 {
				return false, "the record has several integer fields"
			}
			fidx = i
			if b.Kind() != types.Int {
				return false, fmt.Sprintf("the counter field has type %s, not int", b.Name())
			}
		}
	}
	if fidx < 0 && !plainInt {
		return false, "the record has no integer field"
	}
	isRecField := func(v ssa.Value) (ssa.Value, bool) {
		if plainInt {
			if types.Identical(v.Type().Underlying(), recT) {
				return v, true
			}
			return nil, false
		}
		fa, ok := v.(*ssa.FieldAddr)
		if !ok || fa.Field != fidx || !types.Identical(fa.X.Type().Underlying(), recT) {
			return nil, false
		}
		return fa.X, true
	}
	// provenance of a record value: the lookup result or a record created in this iteration
	recOK := func(v ssa.Value) bool {
		okAll := true
		seen := map[ssa.Value]bool{}
		var rec func(v ssa.Value)
		rec = func(v ssa.Value) {
			if seen[v] {
				return
			}
			seen[v] = true
			switch x := v.(type) {
			case *ssa.Phi:
				for _, e := range x.Edges {
					rec(e)
				}
			case *ssa.TypeAssert:
				rec(x.X)
			case *ssa.MakeInterface:
				rec(x.X)
			case *ssa.ChangeType:
				rec(x.X)
			case *ssa.Alloc:
				if !lp.Blocks[x.Block()] {
					okAll = false
				}
			case *ssa.Extract:
				if ssa.Value(x) != val {
					okAll = false
				}
			case *ssa.Const:
				// nil interface on the edge that is overwritten before use
			default:
				okAll = false
			}
		}
		rec(v)
		return okAll
	}
	bad := ""
	weight := func(in ssa.Instruction) int {
		s, ok := in.(*ssa.Store)
		if !ok {
			return 0
		}
		rec, ok := isRecField(s.Addr)
		if !ok {
			return 0
		}
		if !recOK(rec) {
			bad = "a counter of a record that is neither the one looked up nor a new one is written"
			return 0
		}
		if k, ok := constInt(s.Val); ok {
			if _, isNew := rec.(*ssa.Alloc); !isNew {
				bad = "the counter of an existing record is overwritten with a constant"
			}
			return int(k)
		}
		if bo, ok := s.Val.(*ssa.BinOp); ok && bo.Op == token.ADD {
			if k, ok := constInt(bo.Y); ok {
				if u, ok := bo.X.(*ssa.UnOp); ok && u.Op == token.MUL {
					if r2, ok := isRecField(u.X); ok && r2 == rec {
						return int(k)
					}
				}
			}
		}
		bad = "the counter is assigned something other than a constant or itself plus a constant"
		return 0
	}
	bf := computeBranchFacts(fn)
	exclFound := func(b *ssa.BasicBlock) bool { return bf.knownAt(b, found, false) }
	exclNew := func(b *ssa.BasicBlock) bool { return bf.knownAt(b, found, true) }
	sF := pathSums(lp, weight, exclFound)
	sN := pathSums(lp, weight, exclNew)
	if bad != "" {
		return false, bad
	}
	isIns := func(in ssa.Instruction) int {
		for _, call := range ins {
			if in == ssa.Instruction(call) {
				return 1
			}
		}
		return 0
	}
	iF := pathSums(lp, isIns, exclFound)
	iN := pathSums(lp, isIns, exclNew)
	okSums := len(sF) == 1 && sF[1] && len(sN) == 1 && sN[1]
	okIns := len(iN) == 1 && iN[1] && !iF[2] && !iF[3] && len(iF) > 0
	okKey := true
	for _, call := range ins {
		if call.Common().Args[1] != get.Common().Args[1] || !recOK(call.Common().Args[2]) {
			okKey = false
		}
	}
	// other counters of the loop
	okOther := true
	var cond ssa.Value
	if ifi, ok := lp.Head.Instrs[len(lp.Head.Instrs)-1].(*ssa.If); ok {
		cond = ifi.Cond
	}
	for b := range lp.Blocks {
		for _, in := range b.Instrs {
			bo, ok := in.(*ssa.BinOp)
			if !ok || bo.Op != token.ADD || !isIntType(bo.Type()) {
				continue
			}
			if k, ok := constInt(bo.Y); !ok || k != 1 {
				continue
			}
			steppedCell := false
			if u, ok := bo.X.(*ssa.UnOp); ok && u.Op == token.MUL {
				if _, isCell := u.X.(*ssa.Alloc); isCell {
					steppedCell = true
				} else {
					continue // field or element: not a loop counter
				}
			}
			ph, isPhi := bo.X.(*ssa.Phi)
			if !steppedCell && !(isPhi && ph.Block() == lp.Head) {
				continue
			}
			if isPhi && cond != nil && mentions(cond, ph) {
				continue // the site index
			}
			if innermostLoopOf(naturalLoops(fn), b) != lp {
				continue // counter of an inner loop
			}
			if !bf.knownAt(b, found, false) {
				okOther = false
			}
		}
	}
	det := fmt.Sprintf("counter total per iteration: found %s, new %s (want {1} each); insertions: found %s, new %s (want at most one / exactly one); key and record of the insertion are the ones looked up or created: %v; distinct-pattern counter stepped only on new patterns: %v",
		sumsString(sF), sumsString(sN), sumsString(iF), sumsString(iN), okKey, okOther)
	return okSums && okIns && okKey && okOther, det
}
