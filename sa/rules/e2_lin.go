package rules

import (
	"fmt"
	"regexp"
	"go/token"
	"go/types"
	"math/big"
	"sort"
	"strconv"
	"strings"

	"golang.org/x/tools/go/ssa"
)

// E2 — canonical linear forms over SSA integer values, hypotheses from
// dominating conditions, and a small Fourier–Motzkin entailment check.

// lin = Σ coef[atom]·atom + c
type lin struct {
	t map[string]int64
	c int64
}

func linConst(c int64) lin { return lin{t: map[string]int64{}, c: c} }
func linAtom(a string) lin { return lin{t: map[string]int64{a: 1}} }

func (a lin) clone() lin {
	n := lin{t: make(map[string]int64, len(a.t)), c: a.c}
	for k, v := range a.t {
		n.t[k] = v
	}
	return n
}
func (a lin) add(b lin) lin {
	n := a.clone()
	for k, v := range b.t {
		n.t[k] += v
		if n.t[k] == 0 {
			delete(n.t, k)
		}
	}
	n.c += b.c
	return n
}
func (a lin) scale(k int64) lin {
	n := lin{t: map[string]int64{}, c: a.c * k}
	if k == 0 {
		return n
	}
	for a, v := range a.t {
		n.t[a] = v * k
	}
	return n
}
func (a lin) sub(b lin) lin    { return a.add(b.scale(-1)) }
func (a lin) addc(c int64) lin { n := a.clone(); n.c += c; return n }
func (a lin) isConst() bool    { return len(a.t) == 0 }
func (a lin) equal(b lin) bool {
	if a.c != b.c || len(a.t) != len(b.t) {
		return false
	}
	for k, v := range a.t {
		if b.t[k] != v {
			return false
		}
	}
	return true
}
func (a lin) atoms() []string {
	var ks []string
	for k := range a.t {
		ks = append(ks, k)
	}
	sort.Strings(ks)
	return ks
}
func (a lin) String() string {
	var sb strings.Builder
	for i, k := range a.atoms() {
		v := a.t[k]
		switch {
		case v == 1 && i == 0:
			sb.WriteString(k)
		case v == 1:
			sb.WriteString(" + " + k)
		case v == -1 && i == 0:
			sb.WriteString("-" + k)
		case v == -1:
			sb.WriteString(" - " + k)
		case v < 0:
			sb.WriteString(fmt.Sprintf(" - %d*%s", -v, k))
		case i == 0:
			sb.WriteString(fmt.Sprintf("%d*%s", v, k))
		default:
			sb.WriteString(fmt.Sprintf(" + %d*%s", v, k))
		}
	}
	if a.c != 0 || len(a.t) == 0 {
		if len(a.t) == 0 {
			sb.WriteString(strconv.FormatInt(a.c, 10))
		} else if a.c > 0 {
			sb.WriteString(fmt.Sprintf(" + %d", a.c))
		} else {
			sb.WriteString(fmt.Sprintf(" - %d", -a.c))
		}
	}
	return sb.String()
}

// a constraint is  e <= 0
type cons struct {
	e   lin
	why string
}

func (c cons) String() string { return c.e.String() + " <= 0" }

// le: a <= b ; lt: a < b (integers: a - b + 1 <= 0)
func consLE(a, b lin, why string) cons { return cons{a.sub(b), why} }
func consLT(a, b lin, why string) cons { return cons{a.sub(b).addc(1), why} }

// ---------------------------------------------------------------------------
// Fourier–Motzkin over rationals

type row struct {
	t map[string]*big.Rat
	c *big.Rat
}

func toRow(c cons) row {
	r := row{t: map[string]*big.Rat{}, c: new(big.Rat).SetInt64(c.e.c)}
	for k, v := range c.e.t {
		r.t[k] = new(big.Rat).SetInt64(v)
	}
	return r
}

// feasible reports whether the conjunction of constraints (each e <= 0) has a
// rational solution. ok=false when the elimination exceeded its budget.
func feasible(cs []cons) (feas bool, ok bool) {
	rows := make([]row, 0, len(cs))
	for _, c := range cs {
		rows = append(rows, toRow(c))
	}
	for iter := 0; iter < 64; iter++ {
		// constant rows
		var rest []row
		for _, r := range rows {
			if len(r.t) == 0 {
				if r.c.Sign() > 0 {
					return false, true
				}
				continue
			}
			rest = append(rest, r)
		}
		rows = rest
		if len(rows) == 0 {
			return true, true
		}
		// pick the variable with the smallest pos*neg product
		count := map[string][2]int{}
		for _, r := range rows {
			for k, v := range r.t {
				x := count[k]
				if v.Sign() > 0 {
					x[0]++
				} else {
					x[1]++
				}
				count[k] = x
			}
		}
		var best string
		bestCost := -1
		var names []string
		for k := range count {
			names = append(names, k)
		}
		sort.Strings(names)
		for _, k := range names {
			x := count[k]
			cost := x[0] * x[1]
			if bestCost < 0 || cost < bestCost {
				best, bestCost = k, cost
			}
		}
		var pos, neg, other []row
		for _, r := range rows {
			v, has := r.t[best]
			switch {
			case !has:
				other = append(other, r)
			case v.Sign() > 0:
				pos = append(pos, r)
			default:
				neg = append(neg, r)
			}
		}
		if len(pos)*len(neg) > 400 {
			return true, false
		}
		for _, p := range pos {
			for _, n := range neg {
				// p: a*x + P <= 0 (a>0) ; n: -b*x + N <= 0 (b>0)  ⇒  b*P + a*N <= 0
				a := p.t[best]
				b := new(big.Rat).Neg(n.t[best])
				nr := row{t: map[string]*big.Rat{}, c: new(big.Rat)}
				nr.c.Add(new(big.Rat).Mul(b, p.c), new(big.Rat).Mul(a, n.c))
				for k, v := range p.t {
					if k == best {
						continue
					}
					nr.t[k] = new(big.Rat).Mul(b, v)
				}
				for k, v := range n.t {
					if k == best {
						continue
					}
					x := new(big.Rat).Mul(a, v)
					if old, ok := nr.t[k]; ok {
						x.Add(x, old)
					}
					if x.Sign() == 0 {
						delete(nr.t, k)
					} else {
						nr.t[k] = x
					}
				}
				other = append(other, nr)
			}
		}
		rows = other
		if len(rows) > 600 {
			return true, false
		}
	}
	return true, false
}

// entails: H ⊨ (g <= 0)  iff  H ∧ (g >= 1) infeasible (integers).
func entails(H []cons, g cons) bool {
	neg := cons{e: g.e.scale(-1).addc(1)} // -g + 1 <= 0  ⇔ g >= 1
	cs := append(relevant(H, g.e), neg)
	feas, ok := feasible(cs)
	return ok && !feas
}

// relevant keeps hypotheses connected to the goal through shared atoms.
func relevant(H []cons, g lin) []cons {
	atoms := map[string]bool{}
	for k := range g.t {
		atoms[k] = true
	}
	used := make([]bool, len(H))
	changed := true
	for changed {
		changed = false
		for i, h := range H {
			if used[i] {
				continue
			}
			share := false
			for k := range h.e.t {
				if atoms[k] {
					share = true
				}
			}
			if share || len(h.e.t) == 0 {
				used[i] = true
				changed = true
				for k := range h.e.t {
					atoms[k] = true
				}
			}
		}
	}
	var out []cons
	for i, h := range H {
		if used[i] {
			out = append(out, h)
		}
	}
	return out
}

// ---------------------------------------------------------------------------
// linearisation of SSA values

type linCtx struct {
	c    *Ctx
	fn   *ssa.Function
	memo map[ssa.Value]lin
	// element facts: slice value (canonical key) -> constraints over atom "ELEM"
	elemFacts map[string][]cons
	noElemFallback bool
	// values that are loads of an element of a slice with facts: atom -> slice key
	elemAtoms map[string]string
	elemVals  map[string]ssa.Value // atom of an element load -> the slice value it was loaded from
	// extra facts attached to atoms (Intn results, induction …)
	atomFacts map[string][]cons
	depth     int
	vi        map[string]ssa.Value
	lenRep    map[ssa.Value]ssa.Value // paired slices: value -> representative (same length)
	mergeMemo map[*ssa.Phi][]cons
	wrapAtoms map[string]bool // while set: comparisons on sums that mention these atoms give no facts
}

func newLinCtx(c *Ctx, fn *ssa.Function) *linCtx {
	return &linCtx{c: c, fn: fn, memo: map[ssa.Value]lin{}, elemFacts: map[string][]cons{},
		elemAtoms: map[string]string{}, elemVals: map[string]ssa.Value{}, atomFacts: map[string][]cons{}}
}

func isIntType(t types.Type) bool {
	b, ok := t.Underlying().(*types.Basic)
	return ok && b.Info()&types.IsInteger != 0
}

// canon gives a canonical, structure-based name of a (non-integer) value:
// parameters, field paths, rows.
func (lc *linCtx) canon(v ssa.Value) string {
	switch x := v.(type) {
	case *ssa.Parameter:
		return x.Name()
	case *ssa.FreeVar:
		return "^" + x.Name()
	case *ssa.Global:
		return "g:" + x.Name()
	case *ssa.ChangeType:
		return lc.canon(x.X)
	case *ssa.MakeInterface:
		return lc.canon(x.X)
	case *ssa.ChangeInterface:
		return lc.canon(x.X)
	case *ssa.TypeAssert:
		return lc.canon(x.X)
	case *ssa.FieldAddr:
		f := fieldName(x.X.Type(), x.Field)
		if f == "seqbag" { // embedded container: same object
			return lc.canon(x.X)
		}
		return lc.canon(x.X) + "." + f
	case *ssa.UnOp:
		if x.Op == token.MUL {
			switch a := x.X.(type) {
			case *ssa.FieldAddr:
				return lc.canon(a)
			case *ssa.IndexAddr:
				return lc.canon(a.X) + "[" + lc.of(a.Index).String() + "]"
			case *ssa.Alloc:
				if v := singleCellValue(a); v != nil {
					return lc.canon(v)
				}
				return "*" + a.Name() + ":" + a.Comment
			case *ssa.FreeVar:
				return "*^" + a.Name()
			case *ssa.Global:
				return "g:" + a.Name()
			}
		}
	case *ssa.Call:
		cc := x.Common()
		// trivial getters
		if m := getterName(cc); m != "" {
			recv := lc.recvOf(cc)
			switch m {
			case "SequenceChar":
				return lc.canon(recv) + ".sequence"
			}
		}
	case *ssa.Extract:
		if lk, ok := x.Tuple.(*ssa.Lookup); ok && x.Index == 0 {
			return lc.canon(lk.X) + "{" + lc.canonKey(lk.Index) + "}"
		}
	case *ssa.Lookup:
		return lc.canon(x.X) + "{" + lc.canonKey(x.Index) + "}"
	}
	return v.Name() + "@" + shortFn(v)
}

// singleCellValue: the address-taken local is stored exactly once (its
// initialisation, e.g. a captured parameter) and no closure stores to it:
// every load yields that value.
func singleCellValue(a *ssa.Alloc) ssa.Value {
	var val ssa.Value
	n := 0
	refs := a.Referrers()
	if refs == nil {
		return nil
	}
	for _, r := range *refs {
		switch s := r.(type) {
		case *ssa.Store:
			if s.Addr != ssa.Value(a) {
				return nil
			}
			n++
			val = s.Val
		case *ssa.UnOp, *ssa.DebugRef:
		case *ssa.MakeClosure:
			cf, _ := s.Fn.(*ssa.Function)
			if cf == nil {
				return nil
			}
			for i, b := range s.Bindings {
				if b == ssa.Value(a) && i < len(cf.FreeVars) {
					if closureStoresTo(cf, cf.FreeVars[i], map[*ssa.Function]bool{}) {
						return nil
					}
				}
			}
		default:
			return nil
		}
	}
	if n != 1 {
		return nil
	}
	return val
}

func shortFn(v ssa.Value) string {
	if in, ok := v.(ssa.Instruction); ok && in.Parent() != nil {
		return in.Parent().Name()
	}
	return ""
}

func (lc *linCtx) canonKey(v ssa.Value) string {
	if isIntType(v.Type()) {
		return lc.of(v).String()
	}
	return lc.canon(v)
}

func getterName(cc *ssa.CallCommon) string {
	name := ""
	if cc.IsInvoke() {
		name = cc.Method.Name()
		n := namedOf(cc.Value.Type())
		if n == nil || n.Obj().Pkg() == nil || !strings.HasSuffix(n.Obj().Pkg().Path(), "/align") {
			return ""
		}
	} else if f := cc.StaticCallee(); f != nil && f.Signature.Recv() != nil && f.Pkg != nil && strings.HasSuffix(f.Pkg.Pkg.Path(), "/align") {
		name = f.Name()
	}
	switch name {
	case "Length", "NbSequences", "SequenceChar", "CharAt", "AliLength":
		return name
	}
	return ""
}

func (lc *linCtx) recvOf(cc *ssa.CallCommon) ssa.Value {
	if cc.IsInvoke() {
		return cc.Value
	}
	if len(cc.Args) > 0 {
		return cc.Args[0]
	}
	return nil
}

// recvKind classifies the static type of a getter receiver.
func recvKind(v ssa.Value) string {
	n := namedOf(v.Type())
	if n == nil {
		return ""
	}
	return n.Obj().Name()
}

// rowOwner: if v is a row (*seq / Sequence) obtained from a container's seqs
// slice or seqmap, return the canonical name of that container.
func (lc *linCtx) rowOwner(v ssa.Value) (string, bool) {
	seen := map[ssa.Value]bool{}
	var rec func(v ssa.Value) (string, bool)
	rec = func(v ssa.Value) (string, bool) {
		if seen[v] {
			return "", false
		}
		seen[v] = true
		v = stripConv(v)
		switch x := v.(type) {
		case *ssa.UnOp:
			if x.Op != token.MUL {
				return "", false
			}
			if ia, ok := x.X.(*ssa.IndexAddr); ok {
				if t, f, base := loadedField(ia.X); base != nil && f == "seqs" && (t == "seqbag" || t == "align") {
					return lc.canon(x.X.(*ssa.IndexAddr).X.(*ssa.UnOp).X.(*ssa.FieldAddr).X), true
				}
			}
		case *ssa.Extract:
			if lk, ok := x.Tuple.(*ssa.Lookup); ok && x.Index == 0 {
				if _, f, base := loadedField(lk.X); base != nil && f == "seqmap" {
					return lc.canon(lk.X.(*ssa.UnOp).X.(*ssa.FieldAddr).X), true
				}
			}
			// s, ok := a.GetSequenceByName(name) / a.Sequence(i)
			if call, ok := x.Tuple.(*ssa.Call); ok && x.Index == 0 {
				cc := call.Common()
				nm := ""
				if cc.IsInvoke() {
					nm = cc.Method.Name()
				} else if f := cc.StaticCallee(); f != nil {
					nm = f.Name()
				}
				switch nm {
				case "GetSequenceByName", "SequenceByName", "Sequence":
					if r := lc.recvOf(cc); r != nil {
						k := recvKind(r)
						if k == "align" || k == "seqbag" || k == "Alignment" || k == "SeqBag" {
							return lc.canon(r), true
						}
					}
				}
			}
		case *ssa.Lookup:
			if _, f, base := loadedField(x.X); base != nil && f == "seqmap" {
				return lc.canon(x.X.(*ssa.UnOp).X.(*ssa.FieldAddr).X), true
			}
		case *ssa.Phi:
			owner := ""
			for _, e := range x.Edges {
				if k := constOf(e); k == nil {
					if c, ok := e.(*ssa.Const); ok && c.IsNil() {
						continue
					}
				}
				if c, ok := e.(*ssa.Const); ok && c.IsNil() {
					continue
				}
				o, ok := rec(e)
				if !ok || (owner != "" && o != owner) {
					return "", false
				}
				owner = o
			}
			return owner, owner != ""
		}
		return "", false
	}
	o, ok := rec(v)
	// the embedded seqbag is the same container
	return o, ok
}

// lenOf returns the canonical length of a slice/string/array value.
func (lc *linCtx) lenOf(v ssa.Value) lin {
	v0 := v
	v = stripConvKeepIface(v)
	// slices that grow in lock-step have one length (see pairedSlices)
	if _, isPhi := v.(*ssa.Phi); isPhi {
		if rep := lc.lenRepOf(v); rep != nil && rep != v {
			return lc.lenOf(rep)
		}
	}
	switch x := v.(type) {
	case *ssa.MakeSlice:
		return lc.of(x.Len)
	case *ssa.Slice:
		var lo, hi lin
		if x.Low != nil {
			lo = lc.of(x.Low)
		} else {
			lo = linConst(0)
		}
		if x.High != nil {
			hi = lc.of(x.High)
		} else {
			hi = lc.lenOf(x.X)
		}
		return hi.sub(lo)
	case *ssa.Const:
		if x.Value != nil && x.Value.Kind() == 1<<0 { // unreachable placeholder
		}
		if s, ok := cStr(x.Value); ok && x.Value != nil {
			return linConst(int64(len(s)))
		}
	case *ssa.Convert:
		// []byte(string) / string([]byte): same length
		if isStringOrBytes(x.Type()) && isStringOrBytes(x.X.Type()) {
			return lc.lenOf(x.X)
		}
		// []rune(string): the number of runes (the value utf8.RuneCountInString gives)
		if sl, ok := x.Type().Underlying().(*types.Slice); ok {
			if eb, ok := sl.Elem().Underlying().(*types.Basic); ok && eb.Kind() == types.Int32 {
				if sb, ok := x.X.Type().Underlying().(*types.Basic); ok && sb.Info()&types.IsString != 0 {
					return linAtom("runes(" + lc.canon(x.X) + ")")
				}
			}
		}
	case *ssa.Call:
		cc := x.Common()
		if isPkgFunc(cc, "math/rand", "Perm") {
			return lc.of(cc.Args[0])
		}
		if builtinName(cc) == "append" && len(cc.Args) == 2 {
			// len(append(a, b...)) = len(a) + len(b); b is the packed variadic slice or a spread slice
			if k, isK := cc.Args[1].(*ssa.Const); isK && k.IsNil() {
				return lc.lenOf(cc.Args[0])
			}
			return lc.lenOf(cc.Args[0]).add(lc.lenOf(cc.Args[1]))
		}
		if getterName(cc) == "SequenceChar" {
			if owner, ok := lc.rowOwner(lc.recvOf(cc)); ok {
				return linAtom("L(" + owner + ")")
			}
			return linAtom("len(" + lc.canon(lc.recvOf(cc)) + ".sequence)")
		}
	case *ssa.UnOp:
		if x.Op == token.MUL {
			if t, f, base := loadedField(x); base != nil {
				switch {
				case f == "seqs" && (t == "seqbag" || t == "align"):
					return linAtom("N(" + lc.canon(x.X.(*ssa.FieldAddr).X) + ")")
				case f == "sequence" && t == "seq":
					if owner, ok := lc.rowOwner(base); ok {
						return linAtom("L(" + owner + ")")
					}
					return linAtom("len(" + lc.canon(base) + ".sequence)")
				}
			}
		}
	case *ssa.Alloc:
		// pointer to array
		if p, ok := x.Type().Underlying().(*types.Pointer); ok {
			if a, ok := p.Elem().Underlying().(*types.Array); ok {
				return linConst(a.Len())
			}
		}
	}
	if p, ok := v0.Type().Underlying().(*types.Pointer); ok {
		if a, ok := p.Elem().Underlying().(*types.Array); ok {
			return linConst(a.Len())
		}
	}
	if a, ok := v0.Type().Underlying().(*types.Array); ok {
		return linConst(a.Len())
	}
	return linAtom("len(" + lc.canon(v) + ")")
}

func isStringOrBytes(t types.Type) bool {
	switch u := t.Underlying().(type) {
	case *types.Basic:
		return u.Kind() == types.String
	case *types.Slice:
		b, ok := u.Elem().Underlying().(*types.Basic)
		return ok && (b.Kind() == types.Uint8)
	}
	return false
}

func stripConvKeepIface(v ssa.Value) ssa.Value {
	for {
		switch x := v.(type) {
		case *ssa.ChangeType:
			v = x.X
		default:
			return v
		}
	}
}

// of linearises an integer SSA value.
func (lc *linCtx) of(v ssa.Value) lin {
	if l, ok := lc.memo[v]; ok {
		return l
	}
	lc.depth++
	defer func() { lc.depth-- }()
	if lc.depth > 40 {
		return linAtom(v.Name() + "@" + shortFn(v))
	}
	// provisional atom to cut cycles
	lc.memo[v] = linAtom(v.Name() + "@" + shortFn(v))
	l := lc.of1(v)
	lc.memo[v] = l
	return l
}

func (lc *linCtx) of1(v ssa.Value) lin {
	self := func() lin { return linAtom(v.Name() + "@" + shortFn(v)) }
	switch x := v.(type) {
	case *ssa.Const:
		if k, ok := constInt(x); ok {
			return linConst(k)
		}
		return self()
	case *ssa.Parameter:
		return linAtom(x.Name())
	case *ssa.FreeVar:
		return linAtom("^" + x.Name())
	case *ssa.Convert:
		if isIntType(x.Type()) && isIntType(x.X.Type()) {
			// widening or same-width conversion of sizes: value preserving
			// (overflow ignored, see DESIGN §2 E2)
			src := x.X.Type().Underlying().(*types.Basic)
			dst := x.Type().Underlying().(*types.Basic)
			if intWidth(dst) >= intWidth(src) || src.Kind() == types.Int || dst.Kind() == types.Int {
				return lc.of(x.X)
			}
		}
		return self()
	case *ssa.ChangeType:
		return lc.of(x.X)
	case *ssa.BinOp:
		switch x.Op {
		case token.ADD:
			if isIntType(x.Type()) {
				return lc.of(x.X).add(lc.of(x.Y))
			}
		case token.SUB:
			if isIntType(x.Type()) {
				return lc.of(x.X).sub(lc.of(x.Y))
			}
		case token.MUL:
			if isIntType(x.Type()) {
				a, b := lc.of(x.X), lc.of(x.Y)
				if a.isConst() {
					return b.scale(a.c)
				}
				if b.isConst() {
					return a.scale(b.c)
				}
			}
		case token.REM, token.QUO, token.AND, token.SHL, token.SHR:
			if isIntType(x.Type()) {
				a, b := lc.of(x.X), lc.of(x.Y)
				key := fmt.Sprintf("(%s)%s(%s)", a.String(), x.Op.String(), b.String())
				if x.Op == token.QUO && b.isConst() && b.c > 0 {
					// truncated division by k>0: |a - k·q| <= k-1, and k·q <= a when a >= 0
					q := linAtom(key)
					fs := []cons{
						consLE(a.sub(q.scale(b.c)), linConst(b.c-1), "a - k·(a/k) <= k-1"),
						consLE(q.scale(b.c).sub(a), linConst(b.c-1), "k·(a/k) - a <= k-1"),
					}
					nonneg := a.c >= 0
					for at, k := range a.t {
						if k < 0 || !(strings.HasPrefix(at, "len(") || strings.HasPrefix(at, "L(") || strings.HasPrefix(at, "N(")) {
							nonneg = false
						}
					}
					if nonneg {
						fs = append(fs, consLE(q.scale(b.c), a, "k·(a/k) <= a for a >= 0"))
					}
					lc.atomFacts[key] = fs
				}
				if x.Op == token.REM && b.isConst() && b.c > 0 {
					// result of x % k for k>0 lies in (-k, k); for x>=0 in [0,k)
					lc.atomFacts[key] = []cons{
						consLE(linAtom(key), linConst(b.c-1), "x%k <= k-1"),
						consLE(linConst(-(b.c - 1)), linAtom(key), "x%k >= -(k-1)"),
					}
				}
				return linAtom(key)
			}
		}
		return self()
	case *ssa.UnOp:
		if x.Op == token.SUB && isIntType(x.Type()) {
			return lc.of(x.X).scale(-1)
		}
		if x.Op == token.MUL {
			if t, f, base := loadedField(x); base != nil {
				if f == "length" && t == "align" {
					return linAtom("L(" + lc.canon(x.X.(*ssa.FieldAddr).X) + ")")
				}
				_ = base
				return linAtom(lc.canon(x))
			}
			if ia, ok := x.X.(*ssa.IndexAddr); ok {
				// element load: unique atom + element facts of the container
				atom := v.Name() + "@" + shortFn(v)
				lc.elemAtoms[atom] = lc.sliceKey(ia.X)
				lc.elemVals[atom] = ia.X
				return linAtom(atom)
			}
			if _, ok := x.X.(*ssa.Alloc); ok {
				return lc.cellLoad(x)
			}
		}
		return self()
	case *ssa.Call:
		cc := x.Common()
		switch builtinName(cc) {
		case "len":
			return lc.lenOf(cc.Args[0])
		case "cap":
			return linAtom("cap(" + lc.canon(cc.Args[0]) + ")")
		case "min", "max":
			if isIntType(x.Type()) && len(cc.Args) >= 1 {
				atom := v.Name() + "@" + shortFn(v)
				var fs []cons
				for _, a := range cc.Args {
					if builtinName(cc) == "min" {
						fs = append(fs, consLE(linAtom(atom), lc.of(a), "min(…) <= each argument"))
					} else {
						fs = append(fs, consLE(lc.of(a), linAtom(atom), "max(…) >= each argument"))
					}
				}
				lc.atomFacts[atom] = fs
				return linAtom(atom)
			}
		}
		if m := getterName(cc); m != "" {
			recv := lc.recvOf(cc)
			k := recvKind(recv)
			switch m {
			case "Length":
				switch k {
				case "align", "Alignment":
					return linAtom("L(" + lc.canon(recv) + ")")
				case "seq", "Sequence":
					if owner, ok := lc.rowOwner(recv); ok {
						return linAtom("L(" + owner + ")")
					}
					return linAtom("len(" + lc.canon(recv) + ".sequence)")
				}
			case "NbSequences":
				return linAtom("N(" + lc.canon(recv) + ")")
			case "AliLength":
				return linAtom("AliLength(" + lc.canon(recv) + ")")
			}
		}
		if isPkgFunc(cc, "unicode/utf8", "RuneCountInString") && len(cc.Args) == 1 {
			return linAtom("runes(" + lc.canon(cc.Args[0]) + ")")
		}
		if isPkgFunc(cc, "math/rand", "Intn") {
			atom := v.Name() + "@" + shortFn(v)
			n := lc.of(cc.Args[0])
			lc.atomFacts[atom] = []cons{
				consLE(linConst(0), linAtom(atom), "rand.Intn(n) >= 0"),
				consLE(linAtom(atom), n.addc(-1), "rand.Intn(n) <= n-1"),
			}
			return linAtom(atom)
		}
		return self()
	case *ssa.Extract:
		return self()
	case *ssa.Phi:
		return self()
	}
	return self()
}

func intWidth(b *types.Basic) int {
	switch b.Kind() {
	case types.Int8, types.Uint8:
		return 8
	case types.Int16, types.Uint16:
		return 16
	case types.Int32, types.Uint32:
		return 32
	default:
		return 64
	}
}

// cellLoad: load of an address-taken local. If every store to the cell in the
// function (and its closures) stores the same linear form, use it.
func (lc *linCtx) cellLoad(u *ssa.UnOp) lin {
	a := u.X.(*ssa.Alloc)
	var forms []lin
	okAll := true
	if refs := a.Referrers(); refs != nil {
		for _, r := range *refs {
			switch s := r.(type) {
			case *ssa.Store:
				if s.Addr == a {
					forms = append(forms, lc.of(s.Val))
				} else {
					okAll = false
				}
			case *ssa.UnOp:
			case *ssa.MakeClosure:
				// captured by reference: fine as long as the closure (and
				// closures nested in it) never store to the variable
				cf, _ := s.Fn.(*ssa.Function)
				if cf == nil {
					okAll = false
					break
				}
				for i, b := range s.Bindings {
					if b == ssa.Value(a) && i < len(cf.FreeVars) {
						if closureStoresTo(cf, cf.FreeVars[i], map[*ssa.Function]bool{}) {
							okAll = false
						}
					}
				}
			case *ssa.DebugRef:
			default:
				okAll = false
			}
		}
	}
	if okAll && len(forms) > 0 {
		same := true
		for _, f := range forms[1:] {
			if !f.equal(forms[0]) {
				same = false
			}
		}
		if same {
			return forms[0]
		}
	}
	return linAtom(u.Name() + "@" + shortFn(u))
}

func (lc *linCtx) sliceKey(v ssa.Value) string {
	v = stripConvKeepIface(v)
	return lc.canon(v)
}

// ---------------------------------------------------------------------------
// hypotheses

// condCons translates a boolean SSA condition (taken = truth value) into
// constraints; unknown shapes give nothing.
func (lc *linCtx) condCons(cond ssa.Value, taken bool) []cons {
	switch x := cond.(type) {
	case *ssa.UnOp:
		if x.Op == token.NOT {
			return lc.condCons(x.X, !taken)
		}
	case *ssa.BinOp:
		if v, trueIsNil, ok := nilTestOf(x); ok {
			// nil error of a validating helper: its summary holds on the nil edge
			if trueIsNil == taken {
				if call := errCallOf(v); call != nil {
					return lc.nilErrSummary(call)
				}
			}
			return nil
		}
		if !isIntType(x.X.Type()) {
			return nil
		}
		if len(lc.wrapAtoms) > 0 && (lc.mayWrap(x.X) || lc.mayWrap(x.Y)) {
			// the comparison was made on a sum that may have wrapped around: it says nothing
			// about the mathematical sum
			return nil
		}
		a, b := lc.of(x.X), lc.of(x.Y)
		op := x.Op
		if !taken {
			switch op {
			case token.LSS:
				op = token.GEQ
			case token.LEQ:
				op = token.GTR
			case token.GTR:
				op = token.LEQ
			case token.GEQ:
				op = token.LSS
			case token.EQL:
				op = token.NEQ
			case token.NEQ:
				op = token.EQL
			}
		}
		why := fmt.Sprintf("%s %s %s", a.String(), op.String(), b.String())
		switch op {
		case token.LSS:
			return []cons{consLT(a, b, why)}
		case token.LEQ:
			return []cons{consLE(a, b, why)}
		case token.GTR:
			return []cons{consLT(b, a, why)}
		case token.GEQ:
			return []cons{consLE(b, a, why)}
		case token.EQL:
			return []cons{consLE(a, b, why), consLE(b, a, why)}
		case token.NEQ:
			// x != 0 for a length (never negative) means x >= 1
			nonnegLen := func(l lin) bool {
				if l.c != 0 || len(l.t) != 1 {
					return false
				}
				for at, k := range l.t {
					if k != 1 || !(strings.HasPrefix(at, "len(") || strings.HasPrefix(at, "L(") || strings.HasPrefix(at, "N(")) {
						return false
					}
				}
				return true
			}
			if b.isConst() && b.c == 0 && nonnegLen(a) {
				return []cons{consLE(linConst(1), a, why)}
			}
			if a.isConst() && a.c == 0 && nonnegLen(b) {
				return []cons{consLE(linConst(1), b, why)}
			}
		}
	}
	return nil
}

// hypAtBlock collects constraints from every If that dominates b through
// exactly one successor.
func (lc *linCtx) hypAtBlock(b *ssa.BasicBlock) []cons {
	var out []cons
	for d := b.Idom(); d != nil; d = d.Idom() {
		out = append(out, lc.edgeHyp(d, b)...)
	}
	return out
}

// edgeHyp: constraints known in block b because of the If terminating d.
func (lc *linCtx) edgeHyp(d, b *ssa.BasicBlock) []cons {
	if len(d.Instrs) == 0 {
		return nil
	}
	ifi, ok := d.Instrs[len(d.Instrs)-1].(*ssa.If)
	if !ok || d.Succs[0] == d.Succs[1] {
		return nil
	}
	t, f := d.Succs[0], d.Succs[1]
	tOK := len(t.Preds) == 1 && t.Dominates(b)
	fOK := len(f.Preds) == 1 && f.Dominates(b)
	// b reachable only through one side: all paths d→b start with that edge
	if !tOK && !fOK {
		// b itself may be the join-free successor with several preds all of
		// which are dominated by one side — check reachability without the edge
		if onlyVia(d, t, b) {
			tOK = true
		} else if onlyVia(d, f, b) {
			fOK = true
		}
	}
	switch {
	case tOK && !fOK:
		return lc.condCons(ifi.Cond, true)
	case fOK && !tOK:
		return lc.condCons(ifi.Cond, false)
	}
	return nil
}

// diseqAt: integer disequalities x != y (as the form x - y, known to be non-zero) established by
// the tests that dominate b through exactly one successor.
func (lc *linCtx) diseqAt(b *ssa.BasicBlock) []lin {
	var out []lin
	for d := b.Idom(); d != nil; d = d.Idom() {
		if len(d.Instrs) == 0 {
			continue
		}
		ifi, ok := d.Instrs[len(d.Instrs)-1].(*ssa.If)
		if !ok || d.Succs[0] == d.Succs[1] {
			continue
		}
		t, f := d.Succs[0], d.Succs[1]
		tOK := (len(t.Preds) == 1 && t.Dominates(b)) || onlyVia(d, t, b)
		fOK := (len(f.Preds) == 1 && f.Dominates(b)) || onlyVia(d, f, b)
		if tOK == fOK {
			continue
		}
		cond, taken := ifi.Cond, tOK
		for {
			u, ok := cond.(*ssa.UnOp)
			if !ok || u.Op != token.NOT {
				break
			}
			cond, taken = u.X, !taken
		}
		bo, ok := cond.(*ssa.BinOp)
		if !ok || !isIntType(bo.X.Type()) {
			continue
		}
		if (bo.Op == token.EQL && !taken) || (bo.Op == token.NEQ && taken) {
			out = append(out, lc.of(bo.X).sub(lc.of(bo.Y)))
		}
	}
	return out
}

// onlyVia: every path from d to b passes through the edge d→s first, i.e. b
// is not reachable from the other successor without re-entering d.
func onlyVia(d, s, b *ssa.BasicBlock) bool {
	other := d.Succs[0]
	if other == s {
		other = d.Succs[1]
	}
	if other == s {
		return false
	}
	// is b reachable from `other` without passing through d?
	seen := map[*ssa.BasicBlock]bool{d: true}
	w := []*ssa.BasicBlock{other}
	for len(w) > 0 {
		x := w[len(w)-1]
		w = w[:len(w)-1]
		if seen[x] {
			continue
		}
		seen[x] = true
		if x == b {
			return false
		}
		w = append(w, x.Succs...)
	}
	// and b must be reachable from s
	seen = map[*ssa.BasicBlock]bool{d: true}
	w = []*ssa.BasicBlock{s}
	for len(w) > 0 {
		x := w[len(w)-1]
		w = w[:len(w)-1]
		if seen[x] {
			continue
		}
		seen[x] = true
		if x == b {
			return true
		}
		w = append(w, x.Succs...)
	}
	return false
}

// inductionFacts: for a phi i = φ(init, i ± c …) derive i >= init (all steps
// non-negative) or i <= init (all steps non-positive).
func (lc *linCtx) inductionFacts(p *ssa.Phi) []cons {
	atom := p.Name() + "@" + shortFn(p)
	var inits []lin
	allUp, allDown := true, true
	// flatten nested φ-nodes (i = φ(init, φ(i+1, i)) after an if inside the loop)
	var leaves []ssa.Value
	seenPhi := map[*ssa.Phi]bool{p: true}
	var flat func(v ssa.Value)
	flat = func(v ssa.Value) {
		if q, ok := v.(*ssa.Phi); ok && q != p {
			if seenPhi[q] {
				return
			}
			seenPhi[q] = true
			for _, e := range q.Edges {
				flat(e)
			}
			return
		}
		leaves = append(leaves, v)
	}
	for _, e := range p.Edges {
		flat(e)
	}
	for _, e := range leaves {
		l := lc.of(e)
		if v, ok := l.t[atom]; ok && v == 1 && len(l.t) == 1 {
			if l.c < 0 {
				allUp = false
			}
			if l.c > 0 {
				allDown = false
			}
			continue
		}
		if v, self := l.t[atom]; self {
			if v != 1 {
				return nil
			}
			// symbolic step: i = φ(init, i + s); the sign of s is taken from
			// the conditions that dominate the loop header (s must not
			// depend on the loop)
			step := l.clone()
			delete(step.t, atom)
			H := lc.hypAtBlock(p.Block())
			if !entails(H, consLE(linConst(0), step, "step >= 0")) {
				allUp = false
			}
			if !entails(H, consLE(step, linConst(0), "step <= 0")) {
				allDown = false
			}
			if !allUp && !allDown {
				return nil
			}
			// a symbolic step is file- or caller-controlled: i + s may wrap around unless the
			// loop itself keeps i + s below a program quantity on the back edge. Require that
			// the latch entails i + s <= B for the bound B of the loop condition (i <= B / i < B).
			if !lc.stepCannotOverflow(p, step) {
				return nil
			}
			for _, a := range step.atoms() {
				if v, ok := valueIndexCached(lc)[a]; ok {
					if in, ok := v.(ssa.Instruction); ok && in.Block() != nil && p.Block().Dominates(in.Block()) && in.Block() != p.Block() {
						return nil // step computed inside the loop
					}
					if _, isPhi := v.(*ssa.Phi); isPhi {
						return nil
					}
				}
			}
			continue
		}
		inits = append(inits, l)
	}
	if len(inits) == 0 {
		return nil
	}
	var out []cons
	for _, in := range inits[1:] {
		if !in.equal(inits[0]) {
			// several entry values: i >= each? only sound for min; skip unless all equal
			return nil
		}
	}
	if allUp {
		out = append(out, consLE(inits[0], linAtom(atom), fmt.Sprintf("induction: %s starts at %s and only increases", atom, inits[0])))
	}
	if allDown {
		out = append(out, consLE(linAtom(atom), inits[0], fmt.Sprintf("induction: %s starts at %s and only decreases", atom, inits[0])))
	}
	return out
}

// mayWrap: v is computed by an addition, subtraction or multiplication one of whose operands
// mentions an atom of lc.wrapAtoms (an unbounded, caller- or file-controlled quantity).
func (lc *linCtx) mayWrap(v ssa.Value) bool {
	for {
		if cv, ok := v.(*ssa.Convert); ok {
			v = cv.X
			continue
		}
		break
	}
	bo, ok := v.(*ssa.BinOp)
	if !ok {
		return false
	}
	switch bo.Op {
	case token.ADD, token.SUB, token.MUL:
	default:
		return false
	}
	for _, o := range []ssa.Value{bo.X, bo.Y} {
		for _, a := range lc.of(o).atoms() {
			if lc.wrapAtoms[a] {
				return true
			}
		}
		if lc.mayWrap(o) {
			return true
		}
	}
	return false
}

// stepCannotOverflow: for i = φ(init, i + s) with a symbolic s >= 0, the value i + s
// computed on the back edge is bounded by the loop bound B (from the header condition
// i <= B or i < B) on every back edge: hypotheses at the latch entail i + s <= B.
// Then i + s never exceeds a quantity that already fits in an int.
func (lc *linCtx) stepCannotOverflow(p *ssa.Phi, step lin) bool {
	h := p.Block()
	ifi, ok := h.Instrs[len(h.Instrs)-1].(*ssa.If)
	if !ok {
		return false
	}
	bo, ok := ifi.Cond.(*ssa.BinOp)
	if !ok {
		return false
	}
	var B lin
	switch {
	case (bo.Op == token.LEQ || bo.Op == token.LSS) && bo.X == ssa.Value(p):
		B = lc.of(bo.Y)
	case (bo.Op == token.GEQ || bo.Op == token.GTR) && bo.Y == ssa.Value(p):
		B = lc.of(bo.X)
	default:
		return false
	}
	atom := p.Name() + "@" + shortFn(p)
	next := linAtom(atom).add(step)
	// the bound must not be established by comparing the (possibly wrapped) sum i + s itself
	lc.wrapAtoms = map[string]bool{}
	for _, a := range step.atoms() {
		lc.wrapAtoms[a] = true
	}
	defer func() { lc.wrapAtoms = nil }()
	for i, e := range p.Edges {
		pred := h.Preds[i]
		if !h.Dominates(pred) {
			continue // entry edge
		}
		_ = e
		// hypotheses on the back edge: dominators of the latch plus the latch's own branch
		H := lc.hypAtBlock(pred)
		if lifi, ok := pred.Instrs[len(pred.Instrs)-1].(*ssa.If); ok && pred.Succs[0] != pred.Succs[1] {
			H = append(H, lc.condCons(lifi.Cond, pred.Succs[0] == h)...)
		}
		if !entails(H, consLE(next, B, "i + step <= bound")) {
			return false
		}
	}
	return true
}

// factsFor gathers derived facts for every atom occurring in the forms
// (induction on phis, Intn ranges, x%k ranges, element facts, len >= 0).
func (lc *linCtx) factsFor(forms []lin, byName map[string]ssa.Value) []cons {
	var out []cons
	done := map[string]bool{}
	var work []string
	for _, f := range forms {
		work = append(work, f.atoms()...)
	}
	for len(work) > 0 {
		a := work[len(work)-1]
		work = work[:len(work)-1]
		if done[a] {
			continue
		}
		done[a] = true
		var add []cons
		if fs, ok := lc.atomFacts[a]; ok {
			add = append(add, fs...)
		}
		if v, ok := byName[a]; ok {
			if p, ok := v.(*ssa.Phi); ok {
				add = append(add, lc.inductionFacts(p)...)
				add = append(add, lc.mergeBoundFacts(p)...)
			}
		}
		if strings.HasPrefix(a, "len(") || strings.HasPrefix(a, "N(") {
			add = append(add, consLE(linConst(0), linAtom(a), a+" >= 0"))
		}
		if strings.HasPrefix(a, "len(") && strings.HasSuffix(a, ")") {
			if v, ok := byName[a[4:len(a)-1]]; ok {
				if p, ok := v.(*ssa.Phi); ok {
					add = append(add, lc.countedFacts(p)...)
				}
			}
		}
		if sk, ok := lc.elemAtoms[a]; ok {
			efs := lc.elemFacts[sk]
			if len(efs) == 0 {
				efs = lc.elemFactsOf(lc.elemVals[a], map[ssa.Value]bool{})
			}
			for _, ef := range efs {
				// instantiate ELEM := a
				e := ef.e.clone()
				if k, ok := e.t["ELEM"]; ok {
					delete(e.t, "ELEM")
					e.t[a] += k
				}
				add = append(add, cons{e, ef.why + " (for every element of " + sk + ")"})
			}
		}
		for _, c := range add {
			out = append(out, c)
			for _, k := range c.e.atoms() {
				if !done[k] {
					work = append(work, k)
				}
			}
		}
	}
	return out
}

// mergeBoundFacts: for a φ that merges alternatives at a join (not a loop header), every edge value
// B such that each incoming edge proves "its value <= B" (from the hypotheses of its predecessor and
// the condition of the edge) is an upper bound of the φ; symmetrically for lower bounds. This is
// how `end := x; if end > L { end = L }` (or min/max written with if) yields end <= x and end <= L.
func (lc *linCtx) mergeBoundFacts(p *ssa.Phi) []cons {
	if lc.mergeMemo == nil {
		lc.mergeMemo = map[*ssa.Phi][]cons{}
	}
	if fs, ok := lc.mergeMemo[p]; ok {
		return fs
	}
	lc.mergeMemo[p] = nil // recursion guard
	b := p.Block()
	if !isIntType(p.Type()) || len(p.Edges) < 2 || len(p.Edges) > 4 {
		return nil
	}
	for _, pr := range b.Preds {
		if b.Dominates(pr) {
			return nil // loop header
		}
	}
	self := linAtom(p.Name() + "@" + shortFn(p))
	vals := make([]lin, len(p.Edges))
	hyps := make([][]cons, len(p.Edges))
	for k, e := range p.Edges {
		vals[k] = lc.of(e)
		pr := b.Preds[k]
		H := append([]cons{}, lc.hypAtBlock(pr)...)
		if len(pr.Instrs) > 0 {
			if ifi, ok := pr.Instrs[len(pr.Instrs)-1].(*ssa.If); ok && pr.Succs[0] != pr.Succs[1] {
				H = append(H, lc.condCons(ifi.Cond, pr.Succs[0] == b)...)
			}
		}
		hyps[k] = H
	}
	var out []cons
	for _, B := range vals {
		if _, mentionsSelf := B.t[p.Name()+"@"+shortFn(p)]; mentionsSelf {
			continue
		}
		up, down := true, true
		for k := range vals {
			if !entails(hyps[k], consLE(vals[k], B, "")) {
				up = false
			}
			if !entails(hyps[k], consLE(B, vals[k], "")) {
				down = false
			}
		}
		if up {
			out = append(out, consLE(self, B, "merge of alternatives each <= "+B.String()))
		}
		if down {
			out = append(out, consLE(B, self, "merge of alternatives each >= "+B.String()))
		}
	}
	lc.mergeMemo[p] = out
	return out
}

func valueIndexCached(lc *linCtx) map[string]ssa.Value {
	if lc.vi == nil {
		lc.vi = valueIndex(lc.fn)
	}
	return lc.vi
}

// elemFactsOf: facts that hold for every element of the slice value v:
// a re-slice keeps the element set of its operand, a φ keeps the facts common
// to all its inputs.
func (lc *linCtx) elemFactsOf(v ssa.Value, seen map[ssa.Value]bool) []cons {
	if v == nil || seen[v] {
		return nil
	}
	seen[v] = true
	if fs := lc.elemFacts[lc.sliceKey(v)]; len(fs) > 0 {
		return fs
	}
	switch x := v.(type) {
	case *ssa.Slice:
		return lc.elemFactsOf(x.X, seen)
	case *ssa.ChangeType:
		return lc.elemFactsOf(x.X, seen)
	case *ssa.Phi:
		var common []cons
		for i, e := range x.Edges {
			fs := lc.elemFactsOf(e, seen)
			if i == 0 {
				common = fs
				continue
			}
			var keep []cons
			for _, c := range common {
				for _, d := range fs {
					if c.e.equal(d.e) {
						keep = append(keep, c)
						break
					}
				}
			}
			common = keep
		}
		return common
	}
	return nil
}

// valueIndex maps atom names of SSA registers to their values (for induction).
func valueIndex(fn *ssa.Function) map[string]ssa.Value {
	m := map[string]ssa.Value{}
	for _, f := range withAnons(fn) {
		for _, b := range f.Blocks {
			for _, in := range b.Instrs {
				if v, ok := in.(ssa.Value); ok {
					m[v.Name()+"@"+f.Name()] = v
				}
			}
		}
	}
	return m
}

// prove: do the hypotheses at block b (plus derived facts) entail g?
func (lc *linCtx) prove(b *ssa.BasicBlock, extra []cons, g cons) (bool, []cons) {
	H := append([]cons{}, lc.hypAtBlock(b)...)
	H = append(H, extra...)
	forms := []lin{g.e}
	for _, h := range H {
		forms = append(forms, h.e)
	}
	H = append(H, lc.factsFor(forms, valueIndex(lc.fn))...)
	rel := relevant(H, g.e)
	return entails(H, g), rel
}

var ssaTempRE = regexp.MustCompile(`t\d+@[\w$]+`)

// stable removes SSA register names from a rendered form so that obligation
// keys do not change when unrelated edits renumber registers.
func stable(s string) string { return ssaTempRE.ReplaceAllString(s, "·") }

func consList(cs []cons) string {
	var s []string
	seen := map[string]bool{}
	for _, c := range cs {
		x := c.String()
		if !seen[x] {
			seen[x] = true
			s = append(s, x)
		}
	}
	sort.Strings(s)
	return strings.Join(s, "; ")
}
