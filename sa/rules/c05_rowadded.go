package rules

import (
	"fmt"
	"go/constant"
	"strings"

	"golang.org/x/tools/go/ssa"
)

// checkCodonAlignRowAdded: CodonAlign returns one codon row per protein row or an error. In the
// per-row callback every return of `false` (go on with the next row) is reached only through the
// call that adds the row to the result; a `return false` that skips it (a tolerated remainder of
// one or two nucleotides handled by an early return) drops the row silently.
func (c *Ctx) checkCodonAlignRowAdded(rule string) {
	L := c.L
	L.Rule(rule, "in the per-row callback of CodonAlign every `return false` (continue with the next row) is preceded on every path by the call that adds the codon row to the result: a row is either added or the error is reported")
	r := c.fn("align", "*align", "CodonAlign")
	if !r.ok() {
		return
	}
	n := 0
	for _, f := range withAnons(r.F) {
		if f == r.F || f.Signature.Results().Len() != 1 || f.Signature.Results().At(0).Type().String() != "bool" {
			continue
		}
		addBlocks := map[*ssa.BasicBlock]bool{}
		allInstrs(f, func(in ssa.Instruction) {
			cc := callOf(in)
			if cc == nil {
				return
			}
			name := ""
			if cc.IsInvoke() {
				name = cc.Method.Name()
			} else if g := cc.StaticCallee(); g != nil {
				name = g.Name()
			}
			if name == "AddSequence" || name == "AddSequenceChar" {
				addBlocks[in.Block()] = true
			}
		})
		if len(addBlocks) == 0 {
			continue
		}
		n++
		// blocks reachable from the entry without passing an adding block
		reach := map[*ssa.BasicBlock]bool{}
		work := []*ssa.BasicBlock{f.Blocks[0]}
		for len(work) > 0 {
			b := work[len(work)-1]
			work = work[:len(work)-1]
			if reach[b] || addBlocks[b] {
				continue
			}
			reach[b] = true
			work = append(work, b.Succs...)
		}
		var bad []string
		for b := range reach {
			ret, ok := b.Instrs[len(b.Instrs)-1].(*ssa.Return)
			if !ok || len(ret.Results) != 1 {
				continue
			}
			falsy := func(v ssa.Value) bool {
				k, ok := v.(*ssa.Const)
				return ok && k.Value != nil && k.Value.Kind() == constant.Bool && !constant.BoolVal(k.Value)
			}
			v := ret.Results[0]
			if falsy(v) {
				bad = append(bad, c.P.Pos(ret.Pos()))
			} else if phi, ok := v.(*ssa.Phi); ok {
				for i, e := range phi.Edges {
					if falsy(e) && reach[phi.Block().Preds[i]] {
						bad = append(bad, c.P.Pos(ret.Pos()))
					}
				}
			}
		}
		L.Check(len(bad) == 0, rule, r.label, "row added before the next row", c.P.Pos(f.Pos()),
			fmt.Sprintf("%d adding call site(s); no `return false` is reachable without one", len(addBlocks)),
			"the callback can return false (next row) without having added the codon row: the row is missing from the result and no error is reported — "+strings.Join(dedupe(bad), ", "))
	}
	if n == 0 {
		L.Unknown(rule, r.label, "row added before the next row", c.P.Pos(r.F.Pos()), "no per-row callback that adds rows found")
	}
	L.Floor(rule, 1, "one callback")
}
