package rules

import (
	"fmt"
	"go/token"
	"go/types"
	"strings"

	"golang.org/x/tools/go/ssa"
)

func init() {
	register(&Property{ID: "C09", Run: runC09,
		Explanation: "Static decision of the table, bookkeeping and input clauses of C09: the DNAfull (16x16) and BLOSUM62 (24x24) substitution matrices are square and symmetric, the character index maps address exactly their rows (largest index + 1 = dimension), U scores like T and X like N, and none of the four tables is written after initialisation; in the trace-back every step that lengthens the alignment appends exactly one byte to each of the two rows (never two gap characters) and increments exactly one of the match, mismatch and gap counters, and no counter is incremented elsewhere (so the rows have equal length, no all-gap column, and the counts add up to the length); the aligner works on clones of its inputs and never writes them, and in the ORF-anchored mode every in-place reversal before the fill is undone after the trace-back. Not decided: optimality, that the reported score is the score of the returned alignment, start/end consistency, in-bounds-ness of the trace matrix walk (these depend on the values of the dynamic program)."})
}

func runC09(c *Ctx) {
	L := c.L
	c.checkSchemeSelection("scheme-selection")
	c.checkCellNonNegative("cell-nonnegative")
	L.Trusts("go/constant evaluation of the composite literals")
	c.checkSubstMatrices()
	c.checkBacktrackCounters()
	c.checkAlignerHoldsClones()
	c.purityObligations("input-unmodified", []purityTarget{
		{"align", "", "NewPwAligner", []int{0, 1}},
	})
	c.checkReverseMatched()
	c.checkGapRecurrence()
	L.Rule("match-mode", "without a substitution matrix matchScore compares the two residues (its uint8 parameters) and returns the match score exactly when they are equal; with a matrix it returns submatrix[i1][i2]")
	if r := c.fn("align", "*pwaligner", "matchScore"); r.ok() {
		fn := r.F
		okCmp, okIdx := false, false
		allInstrs(fn, func(in ssa.Instruction) {
			switch x := in.(type) {
			case *ssa.BinOp:
				if x.Op == token.NEQ || x.Op == token.EQL {
					px, okx := x.X.(*ssa.Parameter)
					py, oky := x.Y.(*ssa.Parameter)
					if okx && oky && px != py && isUint8(px.Type()) && isUint8(py.Type()) {
						okCmp = true
					}
				}
			case *ssa.IndexAddr:
				if p, ok := x.Index.(*ssa.Parameter); ok && isIntType(p.Type()) && !isUint8(p.Type()) {
					okIdx = true
				}
			}
		})
		L.Check(okCmp && okIdx, "match-mode", r.label, "residue comparison / matrix lookup", c.P.Pos(fn.Pos()), "compares c1 with c2; indexes the matrix with i1, i2", fmt.Sprintf("matchScore no longer compares the two residues themselves (residue comparison: %v, matrix lookup by index: %v): distinct characters sharing a matrix index would count as matches", okCmp, okIdx))
	}
	L.Floor("match-mode", 1, "one function")
	c.checkSetters("setter-records-arguments", "align", "*pwaligner")
	c.L.Floor("setter-records-arguments", 2, "4 parameters of the aligner setters (floor = half)")
	c.checkMatrixScans("matrix-scan-full", "fillMatrix_SW", "backTrack")
	c.L.Floor("matrix-scan-full", 2, "fill loops and the last-row scan (floor = half)")
	c.checkStaleState("stale-iteration-state", "align")
	c.L.Floor("stale-iteration-state", 2, "two listed state machines of package align plus the scope line")
	c.checkArgNameOrder("arg-name-order", "align")
	c.checkPairedLines("paired-lines", "align")
}

func isUint8(t types.Type) bool {
	b, ok := t.Underlying().(*types.Basic)
	return ok && b.Kind() == types.Uint8
}

func (c *Ctx) checkSubstMatrices() {
	L := c.L
	pk := c.P.Pkg("align")
	L.Rule("subst-matrix", "the substitution matrix literal is square with the stated dimension and symmetric (m[i][j] == m[j][i] for all i < j)")
	L.Rule("index-map", "the character index map has values 0..dim-1, its largest value + 1 equals the matrix dimension, aliases (U~T, X~N) score identically, and the map is written nowhere")
	for _, spec := range []struct {
		mat, idx string
		dim      int
		aliases  [][2]byte
	}{
		{"dnafull_subst_matrix", "dna_to_matrix_pos", 16, [][2]byte{{'U', 'T'}}},
		{"blosum62_subst_matrix", "prot_to_matrix_pos", 24, nil},
	} {
		t, err := findTable(pk, spec.mat)
		if err != nil {
			if c.waiveIfNotLiteral("subst-matrix", err) {
				return
			}
			L.Unknown("subst-matrix", "align."+spec.mat, "literal evaluates", "-", err.Error())
			continue
		}
		rows, ok := t.Val.([]interface{})
		var m [][]float64
		if ok {
			for _, r := range rows {
				rr, ok2 := r.([]interface{})
				if !ok2 {
					ok = false
					break
				}
				var row []float64
				for _, x := range rr {
					f, ok3 := cFloat(x)
					if !ok3 {
						ok = false
					}
					row = append(row, f)
				}
				m = append(m, row)
			}
		}
		if !ok {
			L.Unknown("subst-matrix", "align."+spec.mat, "literal is a constant matrix", c.P.Pos(t.Pos), "not a [][]float64 literal of constants")
			continue
		}
		square := len(m) == spec.dim
		for _, r := range m {
			if len(r) != spec.dim {
				square = false
			}
		}
		L.Check(square, "subst-matrix", "align."+spec.mat, fmt.Sprintf("%dx%d", spec.dim, spec.dim), c.P.Pos(t.Pos), "square", fmt.Sprintf("matrix is not %dx%d (%d rows)", spec.dim, spec.dim, len(m)))
		if square {
			var asym []string
			for i := 0; i < spec.dim; i++ {
				for j := i + 1; j < spec.dim; j++ {
					if m[i][j] != m[j][i] {
						asym = append(asym, fmt.Sprintf("[%d][%d]=%g vs [%d][%d]=%g", i, j, m[i][j], j, i, m[j][i]))
					}
				}
			}
			L.Check(len(asym) == 0, "subst-matrix", "align."+spec.mat, "symmetric", c.P.Pos(t.Pos), fmt.Sprintf("%d pairs compared", spec.dim*(spec.dim-1)/2), "asymmetric entries: "+strings.Join(asym, ", "))
		}
		ti, err := findTable(pk, spec.idx)
		if err != nil {
			if c.waiveIfNotLiteral("index-map", err) {
				return
			}
			L.Unknown("index-map", "align."+spec.idx, "literal evaluates", "-", err.Error())
			continue
		}
		kvs, _ := ti.Val.([]kv)
		max := int64(-1)
		idx := map[byte]int64{}
		okVals := true
		for _, e := range kvs {
			k, ok1 := cInt(e.K)
			v, ok2 := cInt(e.V)
			if !ok1 || !ok2 || v < 0 {
				okVals = false
				continue
			}
			idx[byte(k)] = v
			if v > max {
				max = v
			}
		}
		L.Check(okVals && int(max)+1 == spec.dim, "index-map", "align."+spec.idx, "values address exactly the matrix rows", c.P.Pos(ti.Pos),
			fmt.Sprintf("%d characters, largest index %d = dimension-1", len(idx), max), fmt.Sprintf("largest index %d but the matrix has %d rows (an index outside the matrix, or rows that can never be addressed)", max, spec.dim))
		for _, al := range spec.aliases {
			a, b := idx[al[0]], idx[al[1]]
			same := square && int(a) < spec.dim && int(b) < spec.dim
			if same {
				for k := 0; k < spec.dim; k++ {
					if m[a][k] != m[b][k] || m[k][a] != m[k][b] {
						same = false
					}
				}
			}
			L.Check(same, "index-map", "align."+spec.idx, fmt.Sprintf("%c scores like %c", al[0], al[1]), c.P.Pos(ti.Pos), "identical row and column", "the alias has a different row or column")
		}
		if spec.idx == "dna_to_matrix_pos" {
			L.Check(idx['X'] == idx['N'], "index-map", "align."+spec.idx, "X scores like N", c.P.Pos(ti.Pos), "same index", "X and N have different indices")
		}
		c.checkTableImmutable("align", spec.mat)
		c.checkTableImmutable("align", spec.idx)
	}
	L.Floor("subst-matrix", 2, "two matrices: square + symmetric (floor = half of the instances on the pinned tree: a clean-up may merge instances, a rule that sees nothing must still fail)")
	L.Floor("index-map", 2, "two maps + aliases (floor = half of the instances on the pinned tree: a clean-up may merge instances, a rule that sees nothing must still fail)")
}

// checkBacktrackCounters: per block that lengthens the alignment.
func (c *Ctx) checkBacktrackCounters() {
	L := c.L
	L.Rule("traceback-step", "on every path through backTrack_SW the number of bytes appended to each aligned row and the number of increments of nbgaps / nbmatches / nbmismatches equal the number of increments of the alignment length (dataflow on the differences, zero at every return, bounded in every loop); a column never pairs two gap constants")
	r := c.fn("align", "*pwaligner", "backTrack_SW")
	if !r.ok() {
		return
	}
	fn := r.F
	isInc := func(in ssa.Instruction, field string) bool {
		st, ok := in.(*ssa.Store)
		if !ok {
			return false
		}
		t, f, fa := fieldAddrOf(st.Addr)
		if fa == nil || t != "pwaligner" || f != field {
			return false
		}
		bo, ok := st.Val.(*ssa.BinOp)
		if !ok || bo.Op != token.ADD {
			return false
		}
		k, ok := constInt(bo.Y)
		return ok && k == 1
	}
	counters := []string{"nbgaps", "nbmatches", "nbmismatches"}
	// which local slices end up in seq1ali / seq2ali
	rowOf := map[ssa.Value]string{}
	allInstrs(fn, func(in ssa.Instruction) {
		st, ok := in.(*ssa.Store)
		if !ok {
			return
		}
		t, f, fa := fieldAddrOf(st.Addr)
		if fa == nil || t != "pwaligner" || (f != "seq1ali" && f != "seq2ali") {
			return
		}
		for v := range throughPhis(st.Val, true) {
			if call, ok := v.(*ssa.Call); ok && builtinName(call.Common()) == "append" {
				rowOf[call] = f
			}
		}
	})
	appended := func(call *ssa.Call) (ssa.Value, bool) {
		if sl, ok := call.Common().Args[1].(*ssa.Slice); ok {
			if al, ok := sl.X.(*ssa.Alloc); ok {
				for _, ref := range *al.Referrers() {
					if ia, ok := ref.(*ssa.IndexAddr); ok {
						for _, rr := range *ia.Referrers() {
							if st, ok := rr.(*ssa.Store); ok {
								return st.Val, true
							}
						}
					}
				}
			}
		}
		return nil, false
	}
	// Balance along every path: the numbers of bytes appended to row 1, of bytes appended to row 2
	// and of counter increments each stay equal to the number of length increments — as a forward
	// dataflow on the three differences, which must all be zero at every return. A loop whose
	// iteration is not balanced makes a difference grow without bound and is reported. Where in
	// the iteration the four events sit (one block, the arms of a branch, a helper expanded in the
	// view) does not matter.
	type vec [3]int8
	classify := func(in ssa.Instruction) (dl, d1, d2, dc int8) {
		if isInc(in, "length") {
			dl = 1
		}
		for _, f := range counters {
			if isInc(in, f) {
				dc++
			}
		}
		if call, ok := in.(*ssa.Call); ok {
			switch rowOf[call] {
			case "seq1ali":
				d1 = 1
			case "seq2ali":
				d2 = 1
			}
		}
		return
	}
	nLenTotal := 0
	allInstrs(fn, func(in ssa.Instruction) {
		if isInc(in, "length") {
			nLenTotal++
		}
	})
	inS := map[*ssa.BasicBlock]map[vec]bool{fn.Blocks[0]: {vec{}: true}}
	work := []*ssa.BasicBlock{fn.Blocks[0]}
	unbounded := ""
	for len(work) > 0 && unbounded == "" {
		b := work[0]
		work = work[1:]
		out := map[vec]bool{}
		for v := range inS[b] {
			cur := v
			for _, in := range b.Instrs {
				dl, d1, d2, dc := classify(in)
				cur[0] += d1 - dl
				cur[1] += d2 - dl
				cur[2] += dc - dl
			}
			for k := range cur {
				if cur[k] > 3 || cur[k] < -3 {
					what := []string{"bytes appended to row 1", "bytes appended to row 2", "counter increments"}[k]
					pos := "-"
					for _, in := range b.Instrs {
						if in.Pos().IsValid() {
							pos = c.P.Pos(in.Pos())
							break
						}
					}
					unbounded = fmt.Sprintf("around block %s (%s) the number of %s drifts away from the number of length increments", b.Comment, pos, what)
				}
			}
			out[cur] = true
		}
		for _, sc := range b.Succs {
			m := inS[sc]
			if m == nil {
				m = map[vec]bool{}
				inS[sc] = m
			}
			grew := false
			for v := range out {
				if !m[v] {
					m[v] = true
					grew = true
				}
			}
			if grew {
				work = append(work, sc)
			}
		}
	}
	balanced := unbounded == ""
	det := unbounded
	if balanced {
		for _, b := range fn.Blocks {
			if _, isRet := b.Instrs[len(b.Instrs)-1].(*ssa.Return); !isRet {
				continue
			}
			for v := range inS[b] {
				cur := v
				for _, in := range b.Instrs {
					dl, d1, d2, dc := classify(in)
					cur[0] += d1 - dl
					cur[1] += d2 - dl
					cur[2] += dc - dl
				}
				if cur != (vec{}) {
					balanced = false
					det = fmt.Sprintf("a path reaches the return with (row 1 bytes, row 2 bytes, counter increments) − length increments = (%d, %d, %d)", cur[0], cur[1], cur[2])
				}
			}
		}
	}
	L.Check(balanced && nLenTotal >= 3, "traceback-step", r.label, "rows, counters and length advance together", c.P.Pos(fn.Pos()),
		fmt.Sprintf("%d length increments; on every path to the return each row got one byte and one counter was incremented per length increment", nLenTotal),
		"a step that lengthens the alignment is unbalanced: "+det+" (rows of unequal length, or counts that do not add up)")
	// an aligned column never pairs two gaps: wherever one straight-line piece of code appends to
	// both rows, the two bytes are not both the gap constant
	nPairs := 0
	for _, b := range fn.Blocks {
		var v1, v2 ssa.Value
		for _, in := range b.Instrs {
			if call, ok := in.(*ssa.Call); ok {
				switch rowOf[call] {
				case "seq1ali":
					v1, _ = appended(call)
				case "seq2ali":
					v2, _ = appended(call)
				}
			}
		}
		if v1 == nil || v2 == nil {
			continue
		}
		nPairs++
		k1, ok1 := constInt(v1)
		k2, ok2 := constInt(v2)
		bothGap := ok1 && ok2 && k1 == '-' && k2 == '-'
		pos := "-"
		for _, in := range b.Instrs {
			if in.Pos().IsValid() {
				pos = c.P.Pos(in.Pos())
				break
			}
		}
		L.Check(!bothGap, "traceback-step", r.label, fmt.Sprintf("column #%d", nPairs), pos, "the two bytes of the column are not both the gap", "an all-gap column is appended")
	}
	// counters are not written anywhere else in the package (except reset in constructors)
	L.Floor("traceback-step", 2, "balance + at least one column")
}

// checkReverseMatched: ATG mode reverses seq1, seq2 before the fill and after the trace-back.
func (c *Ctx) checkReverseMatched() {
	L := c.L
	L.Rule("reverse-matched", "in the ORF-anchored mode fillMatrix reverses the aligner's own two sequences once each before the fill, and backTrack reverses the same two sequences once each after backTrack_SW, together with the three result rows")
	count := func(fn *ssa.Function) map[string]int {
		out := map[string]int{}
		allInstrs(fn, func(in ssa.Instruction) {
			cc := callOf(in)
			if cc == nil {
				return
			}
			name := ""
			var recv ssa.Value
			if cc.IsInvoke() && cc.Method.Name() == "Reverse" {
				name, recv = "Reverse", cc.Value
			} else if f := cc.StaticCallee(); f != nil && f.Name() == "Reverse" && len(cc.Args) == 1 {
				name, recv = "Reverse", cc.Args[0]
			}
			if name == "" {
				return
			}
			if _, f, base := loadedField(recv); base != nil {
				out[f]++
			}
		})
		return out
	}
	rf := c.fn("align", "*pwaligner", "fillMatrix")
	rb := c.fn("align", "*pwaligner", "backTrack")
	if !rf.ok() || !rb.ok() {
		return
	}
	cf, cb := count(rf.F), count(rb.F)
	okF := cf["seq1"] == 1 && cf["seq2"] == 1 && len(cf) == 2
	okB := cb["seq1"] == 1 && cb["seq2"] == 1 && cb["seq1ali"] == 1 && cb["seq2ali"] == 1 && cb["alistr"] == 1
	// the reversals in backTrack come after backTrack_SW
	after := true
	var sw ssa.Instruction
	allInstrs(rb.F, func(in ssa.Instruction) {
		if isCallToMethod(in, "pwaligner", "backTrack_SW") {
			if sw == nil || instrDominates(in, sw) {
				sw = in
			}
		}
	})
	allInstrs(rb.F, func(in ssa.Instruction) {
		cc := callOf(in)
		if cc == nil {
			return
		}
		isRev := (cc.IsInvoke() && cc.Method.Name() == "Reverse")
		if f := cc.StaticCallee(); f != nil && f.Name() == "Reverse" {
			isRev = true
		}
		if isRev && sw != nil && in.Block() == sw.Block() && !instrDominates(sw, in) {
			after = false
		}
	})
	L.Check(okF && okB && after, "reverse-matched", "align.(*pwaligner).fillMatrix/backTrack", "reversals paired", c.P.Pos(rb.F.Pos()),
		fmt.Sprintf("fill reverses %v; trace-back reverses %v after backTrack_SW", cf, cb),
		fmt.Sprintf("reversals of the ORF-anchored mode are not paired: fill %v, trace-back %v (after backTrack_SW: %v)", cf, cb, after))
	L.Floor("reverse-matched", 1, "one pair of functions")
}

// checkGapRecurrence: in the main loop of fillMatrix_SW the two affine-gap
// states are updated as guarded maxima of the *extended* old value and the
// newly opened gap.
func (c *Ctx) checkGapRecurrence() {
	L := c.L
	L.Rule("gap-recurrence", "in the main fill loop each affine-gap state (the per-column array maxa[j] for vertical gaps, the running value bx for horizontal gaps) is first extended by gapextend, then compared with matrix[previous cell] + gapopen, and replaced by the latter exactly when it is larger: the comparison reads the extended value (opening and extending a gap compete on equal footing), and the extension is unconditional")
	r := c.fn("align", "*pwaligner", "fillMatrix_SW")
	if !r.ok() {
		return
	}
	fn := r.F
	loadsField := func(v ssa.Value, field string) bool {
		_, f, base := loadedField(v)
		return base != nil && f == field
	}
	isOpen := func(v ssa.Value) bool { // load(matrix cell) + gapopen, possibly via a φ-free chain
		bo, ok := v.(*ssa.BinOp)
		if !ok || bo.Op != token.ADD {
			return false
		}
		return (loadsField(bo.Y, "gapopen") && isMatrixCellLoad(bo.X)) || (loadsField(bo.X, "gapopen") && isMatrixCellLoad(bo.Y))
	}
	isExtendOf := func(v ssa.Value) (ssa.Value, bool) {
		bo, ok := v.(*ssa.BinOp)
		if !ok || bo.Op != token.ADD {
			return nil, false
		}
		if loadsField(bo.Y, "gapextend") {
			return bo.X, true
		}
		if loadsField(bo.X, "gapextend") {
			return bo.Y, true
		}
		return nil, false
	}
	// main loop: the innermost loop containing a store of a gap direction to trace under a comparison
	loops := naturalLoops(fn)
	var main *loop
	for _, lp := range loops {
		depth := 0
		for _, o := range loops {
			if o != lp && o.Blocks[lp.Head] {
				depth++
			}
		}
		if depth == 1 && (main == nil || lp.Head.Index > main.Head.Index) {
			main = lp
		}
	}
	if main == nil {
		L.Unknown("gap-recurrence", r.label, "main loop", c.P.Pos(fn.Pos()), "nested fill loop not found")
		return
	}
	lc := newLinCtx(c, fn)
	// (1) array state
	var ext, open *ssa.Store
	for b := range main.Blocks {
		for _, in := range b.Instrs {
			st, ok := in.(*ssa.Store)
			if !ok {
				continue
			}
			ia, ok := st.Addr.(*ssa.IndexAddr)
			if !ok || !loadsField(ia.X, "maxa") {
				continue
			}
			if old, ok := isExtendOf(st.Val); ok {
				if u, ok := old.(*ssa.UnOp); ok {
					if oia, ok := u.X.(*ssa.IndexAddr); ok && loadsField(oia.X, "maxa") && lc.of(oia.Index).equal(lc.of(ia.Index)) {
						ext = st
					}
				}
			} else if isOpen(st.Val) {
				open = st
			}
		}
	}
	okArr := false
	det := "extension or opening store of maxa[j] not found"
	// written as one store of max(extended, opened)
	if ext == nil || open == nil {
		for b := range main.Blocks {
			for _, in := range b.Instrs {
				st, ok := in.(*ssa.Store)
				if !ok {
					continue
				}
				ia, ok := st.Addr.(*ssa.IndexAddr)
				if !ok || !loadsField(ia.X, "maxa") {
					continue
				}
				x, y, isMax := maxExpr(st.Val)
				if !isMax {
					continue
				}
				for _, pr := range [][2]ssa.Value{{x, y}, {y, x}} {
					old, isExt := isExtendOf(pr[0])
					if !isExt || !isOpen(pr[1]) {
						continue
					}
					if u, ok := old.(*ssa.UnOp); ok {
						if oia, ok := u.X.(*ssa.IndexAddr); ok && loadsField(oia.X, "maxa") && lc.of(oia.Index).equal(lc.of(ia.Index)) {
							okArr = true
							det = "maxa[j] = max(maxa[j] + gapextend, matrix[i-1][j] + gapopen)"
						}
					}
				}
			}
		}
	}
	if ext != nil && open != nil {
		// open store is the true successor of `open value > load maxa[j]` where that load follows ext
		ob := open.Block()
		for _, p := range ob.Preds {
			ifi, ok := p.Instrs[len(p.Instrs)-1].(*ssa.If)
			if !ok || p.Succs[0] != ob || len(ob.Preds) != 1 {
				continue
			}
			bo, ok := ifi.Cond.(*ssa.BinOp)
			if !ok || bo.Op != token.GTR || bo.X != open.Val {
				continue
			}
			u, ok := bo.Y.(*ssa.UnOp)
			if !ok {
				continue
			}
			oia, ok := u.X.(*ssa.IndexAddr)
			if !ok || !loadsField(oia.X, "maxa") {
				continue
			}
			readsExtended := instrDominates(ext, u)
			unconditional := ext.Block() == p || ext.Block().Dominates(p)
			okArr = readsExtended && unconditional
			det = fmt.Sprintf("comparison reads the extended value: %v; extension is unconditional (dominates the comparison): %v", readsExtended, unconditional)
		}
	}
	L.Check(okArr, "gap-recurrence", r.label, "vertical gap state maxa[j]", c.P.Pos(fn.Pos()), "maxa[j] += gapextend; if matrix[i-1][j]+gapopen > maxa[j] { maxa[j] = that }", "the vertical-gap recurrence is not max(extended, opened): "+det)

	// (2) register state: a header φ of the main loop of float type
	okReg := false
	det2 := "no running horizontal-gap value found"
	for _, in := range main.Head.Instrs {
		p, ok := in.(*ssa.Phi)
		if !ok || !isFloatValue(p) {
			continue
		}
		// the back-edge value is φ(extended, opened) under opened > extended
		for i, e := range p.Edges {
			if !main.Blocks[main.Head.Preds[i]] {
				continue
			}
			sel, ok := e.(*ssa.Phi)
			if !ok || len(sel.Edges) != 2 {
				continue
			}
			var extended, opened ssa.Value
			for _, se := range sel.Edges {
				if old, ok := isExtendOf(se); ok && old == ssa.Value(p) {
					extended = se
				} else if isOpen(se) {
					opened = se
				}
			}
			if x, y, isMax := maxExpr(sel); isMax && extended != nil && opened != nil && ((x == extended && y == opened) || (x == opened && y == extended)) {
				okReg = true
				det2 = "running value = max(extended, opened)"
				continue
			}
			if extended == nil || opened == nil {
				det2 = "the running value is not a selection between (old + gapextend) and (matrix cell + gapopen)"
				continue
			}
			// the selecting branch
			sb := sel.Block()
			good := false
			for _, q := range sb.Preds {
				if ifi, ok := q.Instrs[len(q.Instrs)-1].(*ssa.If); ok {
					if bo, ok := ifi.Cond.(*ssa.BinOp); ok && bo.Op == token.GTR && bo.X == opened && bo.Y == extended {
						good = true
					}
				}
				for _, qq := range q.Preds {
					if ifi, ok := qq.Instrs[len(qq.Instrs)-1].(*ssa.If); ok {
						if bo, ok := ifi.Cond.(*ssa.BinOp); ok && bo.Op == token.GTR && bo.X == opened && bo.Y == extended {
							good = true
						}
					}
				}
			}
			okReg = okReg || good
			det2 = fmt.Sprintf("selection between extended and opened value under `opened > extended`: %v", good)
		}
	}
	// the running horizontal value is re-initialised for every row: its value on entry of the
	// column loop does not come from the previous row's loop (no outer loop-carried dependence)
	okInit := false
	detInit := "no running horizontal-gap value found"
	for _, in := range main.Head.Instrs {
		p, ok := in.(*ssa.Phi)
		if !ok || !isFloatValue(p) {
			continue
		}
		for i, e := range p.Edges {
			if main.Blocks[main.Head.Preds[i]] {
				continue
			}
			// entry value
			isGapState := false
			for k, e2 := range p.Edges {
				if main.Blocks[main.Head.Preds[k]] {
					if sel, ok := e2.(*ssa.Phi); ok {
						for _, se := range sel.Edges {
							if old, ok := isExtendOf(se); ok && old == ssa.Value(p) {
								isGapState = true
							}
						}
					}
				}
			}
			if !isGapState {
				continue
			}
			deps := headerPhiDeps(fn, e)
			okInit = len(deps) == 0
			detInit = fmt.Sprintf("entry value of the column loop depends on %d loop-carried value(s) of the row loop", len(deps))
			if bo, ok := e.(*ssa.BinOp); ok {
				_ = bo
			}
		}
	}
	L.Check(okInit, "gap-recurrence", r.label, "horizontal gap state starts afresh in every row", c.P.Pos(fn.Pos()), "initialised from the row's first cell before the column loop", "the horizontal-gap value of one row leaks into the next row: "+detInit)
	L.Check(okReg, "gap-recurrence", r.label, "horizontal gap state", c.P.Pos(fn.Pos()), "bx += gapextend; if matrix[i][j-1]+gapopen > bx { bx = that }", "the horizontal-gap recurrence is not max(extended, opened): "+det2)
	L.Floor("gap-recurrence", 1, "two directions + per-row initialisation (floor = half of the instances on the pinned tree: a clean-up may merge instances, a rule that sees nothing must still fail)")
}

func isMatrixCellLoad(v ssa.Value) bool {
	u, ok := v.(*ssa.UnOp)
	if !ok || u.Op != token.MUL {
		return false
	}
	ia, ok := u.X.(*ssa.IndexAddr)
	if !ok {
		return false
	}
	row, ok := ia.X.(*ssa.UnOp)
	if !ok {
		return false
	}
	ria, ok := row.X.(*ssa.IndexAddr)
	if !ok {
		return false
	}
	_, f, base := loadedField(ria.X)
	return base != nil && f == "matrix"
}

// maxExpr: v is the larger of two values: a φ of x and y selected by a comparison of x with y that
// sends the larger one down each branch (ties may go either way: the value is the same), or a call
// of the builtin max / math.Max.
func maxExpr(v ssa.Value) (ssa.Value, ssa.Value, bool) {
	if call, ok := v.(*ssa.Call); ok {
		cc := call.Common()
		if (builtinName(cc) == "max" || isPkgFunc(cc, "math", "Max")) && len(cc.Args) == 2 {
			return cc.Args[0], cc.Args[1], true
		}
		return nil, nil, false
	}
	sel, ok := v.(*ssa.Phi)
	if !ok || len(sel.Edges) != 2 {
		return nil, nil, false
	}
	sb := sel.Block()
	d := sb.Idom()
	if d == nil || len(d.Instrs) == 0 {
		return nil, nil, false
	}
	ifi, ok := d.Instrs[len(d.Instrs)-1].(*ssa.If)
	if !ok || d.Succs[0] == d.Succs[1] {
		return nil, nil, false
	}
	bo, ok := ifi.Cond.(*ssa.BinOp)
	if !ok {
		return nil, nil, false
	}
	var vt, vf ssa.Value
	for i, e := range sel.Edges {
		p := sb.Preds[i]
		viaT := (p == d && d.Succs[0] == sb) || (d.Succs[0] != sb && (d.Succs[0] == p || d.Succs[0].Dominates(p)))
		viaF := (p == d && d.Succs[1] == sb) || (d.Succs[1] != sb && (d.Succs[1] == p || d.Succs[1].Dominates(p)))
		if viaT == viaF {
			return nil, nil, false
		}
		if viaT {
			vt = e
		} else {
			vf = e
		}
	}
	if vt == nil || vf == nil {
		return nil, nil, false
	}
	switch bo.Op {
	case token.GTR, token.GEQ:
		if bo.X == vt && bo.Y == vf {
			return vt, vf, true
		}
	case token.LSS, token.LEQ:
		if bo.Y == vt && bo.X == vf {
			return vt, vf, true
		}
	}
	return nil, nil, false
}
