package rules

import (
	"fmt"
	"go/token"
	"go/types"
	"sort"
	"strings"

	"golang.org/x/tools/go/ssa"
)

func init() {
	register(&Property{ID: "C09", Run: runC09,
		Explanation: "Static decision of the table, bookkeeping and input clauses of C09: the DNAfull (16x16) and BLOSUM62 (24x24) substitution matrices are square and symmetric, the character index maps address exactly their rows (largest index + 1 = dimension), U scores like T and X like N, and none of the four tables is written after initialisation; in the trace-back every step that lengthens the alignment appends exactly one byte to each of the two rows (never two gap characters) and increments exactly one of the match, mismatch and gap counters, and no counter is incremented elsewhere (so the rows have equal length, no all-gap column, and the counts add up to the length); the aligner works on clones of its inputs and never writes them, and in the ORF-anchored mode every in-place reversal before the fill is undone after the trace-back. Not decided: optimality, that the reported score is the score of the returned alignment, start/end consistency, in-bounds-ness of the trace matrix walk (these depend on the values of the dynamic program)."})
}

func runC09(c *Ctx) {
	L := c.L
	L.Trusts("go/constant evaluation of the composite literals")
	c.checkSubstMatrices()
	c.checkBacktrackCounters()
	c.checkAlignerHoldsClones()
	c.purityObligations("input-unmodified", []purityTarget{
		{"align", "", "NewPwAligner", []int{0, 1}},
	})
	c.checkReverseMatched()
	c.checkGapRecurrence()
	L.Rule("match-mode", "without a substitution matrix matchScore compares the two residues (its uint8 parameters) and returns the match score exactly when they are equal; with a matrix it returns submatrix[i1][i2]")
	if r := c.fn("align", "*pwaligner", "matchScore"); r.ok() {
		fn := r.F
		okCmp, okIdx := false, false
		allInstrs(fn, func(in ssa.Instruction) {
			switch x := in.(type) {
			case *ssa.BinOp:
				if x.Op == token.NEQ || x.Op == token.EQL {
					px, okx := x.X.(*ssa.Parameter)
					py, oky := x.Y.(*ssa.Parameter)
					if okx && oky && px != py && isUint8(px.Type()) && isUint8(py.Type()) {
						okCmp = true
					}
				}
			case *ssa.IndexAddr:
				if p, ok := x.Index.(*ssa.Parameter); ok && isIntType(p.Type()) && !isUint8(p.Type()) {
					okIdx = true
				}
			}
		})
		L.Check(okCmp && okIdx, "match-mode", r.label, "residue comparison / matrix lookup", c.P.Pos(fn.Pos()), "compares c1 with c2; indexes the matrix with i1, i2", fmt.Sprintf("matchScore no longer compares the two residues themselves (residue comparison: %v, matrix lookup by index: %v): distinct characters sharing a matrix index would count as matches", okCmp, okIdx))
	}
	L.Floor("match-mode", 1, "one function")
}

func isUint8(t types.Type) bool {
	b, ok := t.Underlying().(*types.Basic)
	return ok && b.Kind() == types.Uint8
}

func (c *Ctx) checkSubstMatrices() {
	L := c.L
	pk := c.P.Pkg("align")
	L.Rule("subst-matrix", "the substitution matrix literal is square with the stated dimension and symmetric (m[i][j] == m[j][i] for all i < j)")
	L.Rule("index-map", "the character index map has values 0..dim-1, its largest value + 1 equals the matrix dimension, aliases (U~T, X~N) score identically, and the map is written nowhere")
	for _, spec := range []struct {
		mat, idx string
		dim      int
		aliases  [][2]byte
	}{
		{"dnafull_subst_matrix", "dna_to_matrix_pos", 16, [][2]byte{{'U', 'T'}}},
		{"blosum62_subst_matrix", "prot_to_matrix_pos", 24, nil},
	} {
		t, err := findTable(pk, spec.mat)
		if err != nil {
			L.Unknown("subst-matrix", "align."+spec.mat, "literal evaluates", "-", err.Error())
			continue
		}
		rows, ok := t.Val.([]interface{})
		var m [][]float64
		if ok {
			for _, r := range rows {
				rr, ok2 := r.([]interface{})
				if !ok2 {
					ok = false
					break
				}
				var row []float64
				for _, x := range rr {
					f, ok3 := cFloat(x)
					if !ok3 {
						ok = false
					}
					row = append(row, f)
				}
				m = append(m, row)
			}
		}
		if !ok {
			L.Unknown("subst-matrix", "align."+spec.mat, "literal is a constant matrix", c.P.Pos(t.Pos), "not a [][]float64 literal of constants")
			continue
		}
		square := len(m) == spec.dim
		for _, r := range m {
			if len(r) != spec.dim {
				square = false
			}
		}
		L.Check(square, "subst-matrix", "align."+spec.mat, fmt.Sprintf("%dx%d", spec.dim, spec.dim), c.P.Pos(t.Pos), "square", fmt.Sprintf("matrix is not %dx%d (%d rows)", spec.dim, spec.dim, len(m)))
		if square {
			var asym []string
			for i := 0; i < spec.dim; i++ {
				for j := i + 1; j < spec.dim; j++ {
					if m[i][j] != m[j][i] {
						asym = append(asym, fmt.Sprintf("[%d][%d]=%g vs [%d][%d]=%g", i, j, m[i][j], j, i, m[j][i]))
					}
				}
			}
			L.Check(len(asym) == 0, "subst-matrix", "align."+spec.mat, "symmetric", c.P.Pos(t.Pos), fmt.Sprintf("%d pairs compared", spec.dim*(spec.dim-1)/2), "asymmetric entries: "+strings.Join(asym, ", "))
		}
		ti, err := findTable(pk, spec.idx)
		if err != nil {
			L.Unknown("index-map", "align."+spec.idx, "literal evaluates", "-", err.Error())
			continue
		}
		kvs, _ := ti.Val.([]kv)
		max := int64(-1)
		idx := map[byte]int64{}
		okVals := true
		for _, e := range kvs {
			k, ok1 := cInt(e.K)
			v, ok2 := cInt(e.V)
			if !ok1 || !ok2 || v < 0 {
				okVals = false
				continue
			}
			idx[byte(k)] = v
			if v > max {
				max = v
			}
		}
		L.Check(okVals && int(max)+1 == spec.dim, "index-map", "align."+spec.idx, "values address exactly the matrix rows", c.P.Pos(ti.Pos),
			fmt.Sprintf("%d characters, largest index %d = dimension-1", len(idx), max), fmt.Sprintf("largest index %d but the matrix has %d rows (an index outside the matrix, or rows that can never be addressed)", max, spec.dim))
		for _, al := range spec.aliases {
			a, b := idx[al[0]], idx[al[1]]
			same := square && int(a) < spec.dim && int(b) < spec.dim
			if same {
				for k := 0; k < spec.dim; k++ {
					if m[a][k] != m[b][k] || m[k][a] != m[k][b] {
						same = false
					}
				}
			}
			L.Check(same, "index-map", "align."+spec.idx, fmt.Sprintf("%c scores like %c", al[0], al[1]), c.P.Pos(ti.Pos), "identical row and column", "the alias has a different row or column")
		}
		if spec.idx == "dna_to_matrix_pos" {
			L.Check(idx['X'] == idx['N'], "index-map", "align."+spec.idx, "X scores like N", c.P.Pos(ti.Pos), "same index", "X and N have different indices")
		}
		c.checkTableImmutable("align", spec.mat)
		c.checkTableImmutable("align", spec.idx)
	}
	L.Floor("subst-matrix", 4, "two matrices: square + symmetric")
	L.Floor("index-map", 4, "two maps + aliases")
}

// checkBacktrackCounters: per block that lengthens the alignment.
func (c *Ctx) checkBacktrackCounters() {
	L := c.L
	L.Rule("traceback-step", "every block of backTrack_SW that increments the alignment length appends exactly one byte to each aligned row (the two bytes are never both the gap constant) and increments exactly one of nbgaps / nbmatches / nbmismatches, either in the same block or in each of the two arms of the branch that ends it; no such counter is incremented in any other block")
	r := c.fn("align", "*pwaligner", "backTrack_SW")
	if !r.ok() {
		return
	}
	fn := r.F
	isInc := func(in ssa.Instruction, field string) bool {
		st, ok := in.(*ssa.Store)
		if !ok {
			return false
		}
		t, f, fa := fieldAddrOf(st.Addr)
		if fa == nil || t != "pwaligner" || f != field {
			return false
		}
		bo, ok := st.Val.(*ssa.BinOp)
		if !ok || bo.Op != token.ADD {
			return false
		}
		k, ok := constInt(bo.Y)
		return ok && k == 1
	}
	counters := []string{"nbgaps", "nbmatches", "nbmismatches"}
	countIncs := func(b *ssa.BasicBlock) (n int, which []string) {
		for _, in := range b.Instrs {
			for _, f := range counters {
				if isInc(in, f) {
					n++
					which = append(which, f)
				}
			}
		}
		return
	}
	// which local slices end up in seq1ali / seq2ali
	rowOf := map[ssa.Value]string{}
	allInstrs(fn, func(in ssa.Instruction) {
		st, ok := in.(*ssa.Store)
		if !ok {
			return
		}
		t, f, fa := fieldAddrOf(st.Addr)
		if fa == nil || t != "pwaligner" || (f != "seq1ali" && f != "seq2ali") {
			return
		}
		for v := range throughPhis(st.Val, true) {
			if call, ok := v.(*ssa.Call); ok && builtinName(call.Common()) == "append" {
				rowOf[call] = f
			}
		}
	})
	appended := func(call *ssa.Call) (ssa.Value, bool) {
		if sl, ok := call.Common().Args[1].(*ssa.Slice); ok {
			if al, ok := sl.X.(*ssa.Alloc); ok {
				for _, ref := range *al.Referrers() {
					if ia, ok := ref.(*ssa.IndexAddr); ok {
						for _, rr := range *ia.Referrers() {
							if st, ok := rr.(*ssa.Store); ok {
								return st.Val, true
							}
						}
					}
				}
			}
		}
		return nil, false
	}
	owned := map[*ssa.BasicBlock]bool{}
	nSteps := 0
	for _, b := range fn.Blocks {
		nLen := 0
		for _, in := range b.Instrs {
			if isInc(in, "length") {
				nLen++
			}
		}
		if nLen == 0 {
			continue
		}
		nSteps++
		name := fmt.Sprintf("step block %s", b.Comment)
		pos := "-"
		for _, in := range b.Instrs {
			if isInc(in, "length") {
				pos = c.P.Pos(in.Pos())
			}
		}
		// appends
		n1, n2 := 0, 0
		var v1, v2 ssa.Value
		for _, in := range b.Instrs {
			if call, ok := in.(*ssa.Call); ok {
				switch rowOf[call] {
				case "seq1ali":
					n1++
					v1, _ = appended(call)
				case "seq2ali":
					n2++
					v2, _ = appended(call)
				}
			}
		}
		bothGap := false
		if v1 != nil && v2 != nil {
			k1, ok1 := constInt(v1)
			k2, ok2 := constInt(v2)
			bothGap = ok1 && ok2 && k1 == '-' && k2 == '-'
		}
		// counters
		owned[b] = true
		nc, which := countIncs(b)
		okCnt := nc == 1
		how := strings.Join(which, ",")
		if nc == 0 {
			if _, isIf := b.Instrs[len(b.Instrs)-1].(*ssa.If); isIf {
				a0, w0 := countIncs(b.Succs[0])
				a1, w1 := countIncs(b.Succs[1])
				owned[b.Succs[0]], owned[b.Succs[1]] = true, true
				okCnt = a0 == 1 && a1 == 1 && len(b.Succs[0].Preds) == 1 && len(b.Succs[1].Preds) == 1
				how = strings.Join(w0, ",") + " | " + strings.Join(w1, ",")
			}
		}
		okAll := nLen == 1 && n1 == 1 && n2 == 1 && !bothGap && okCnt
		L.Check(okAll, "traceback-step", r.label, name+" #"+fmt.Sprint(nSteps), pos,
			"length++ with one byte appended to each row and exactly one counter ("+how+")",
			fmt.Sprintf("a step that lengthens the alignment is unbalanced (length++ x%d, appends to row1/row2: %d/%d, both gap: %v, counters: %s): rows of unequal length, an all-gap column, or counts that do not add up", nLen, n1, n2, bothGap, how))
	}
	// no stray counter increments
	var stray []string
	for _, b := range fn.Blocks {
		if owned[b] {
			continue
		}
		if n, which := countIncs(b); n > 0 {
			stray = append(stray, strings.Join(which, ","))
		}
	}
	sort.Strings(stray)
	L.Check(len(stray) == 0, "traceback-step", r.label, "no counter incremented outside a step", c.P.Pos(fn.Pos()), "all match/mismatch/gap increments belong to a step", "counter incremented outside a step: "+strings.Join(stray, "; "))
	// counters are not written anywhere else in the package (except reset in constructors)
	L.Floor("traceback-step", 4, "three step blocks + stray check")
}

// checkReverseMatched: ATG mode reverses seq1, seq2 before the fill and after the trace-back.
func (c *Ctx) checkReverseMatched() {
	L := c.L
	L.Rule("reverse-matched", "in the ORF-anchored mode fillMatrix reverses the aligner's own two sequences once each before the fill, and backTrack reverses the same two sequences once each after backTrack_SW, together with the three result rows")
	count := func(fn *ssa.Function) map[string]int {
		out := map[string]int{}
		allInstrs(fn, func(in ssa.Instruction) {
			cc := callOf(in)
			if cc == nil {
				return
			}
			name := ""
			var recv ssa.Value
			if cc.IsInvoke() && cc.Method.Name() == "Reverse" {
				name, recv = "Reverse", cc.Value
			} else if f := cc.StaticCallee(); f != nil && f.Name() == "Reverse" && len(cc.Args) == 1 {
				name, recv = "Reverse", cc.Args[0]
			}
			if name == "" {
				return
			}
			if _, f, base := loadedField(recv); base != nil {
				out[f]++
			}
		})
		return out
	}
	rf := c.fn("align", "*pwaligner", "fillMatrix")
	rb := c.fn("align", "*pwaligner", "backTrack")
	if !rf.ok() || !rb.ok() {
		return
	}
	cf, cb := count(rf.F), count(rb.F)
	okF := cf["seq1"] == 1 && cf["seq2"] == 1 && len(cf) == 2
	okB := cb["seq1"] == 1 && cb["seq2"] == 1 && cb["seq1ali"] == 1 && cb["seq2ali"] == 1 && cb["alistr"] == 1
	// the reversals in backTrack come after backTrack_SW
	after := true
	var sw ssa.Instruction
	allInstrs(rb.F, func(in ssa.Instruction) {
		if isCallToMethod(in, "pwaligner", "backTrack_SW") {
			if sw == nil || instrDominates(in, sw) {
				sw = in
			}
		}
	})
	allInstrs(rb.F, func(in ssa.Instruction) {
		cc := callOf(in)
		if cc == nil {
			return
		}
		isRev := (cc.IsInvoke() && cc.Method.Name() == "Reverse")
		if f := cc.StaticCallee(); f != nil && f.Name() == "Reverse" {
			isRev = true
		}
		if isRev && sw != nil && in.Block() == sw.Block() && !instrDominates(sw, in) {
			after = false
		}
	})
	L.Check(okF && okB && after, "reverse-matched", "align.(*pwaligner).fillMatrix/backTrack", "reversals paired", c.P.Pos(rb.F.Pos()),
		fmt.Sprintf("fill reverses %v; trace-back reverses %v after backTrack_SW", cf, cb),
		fmt.Sprintf("reversals of the ORF-anchored mode are not paired: fill %v, trace-back %v (after backTrack_SW: %v)", cf, cb, after))
	L.Floor("reverse-matched", 1, "one pair of functions")
}

// checkGapRecurrence: in the main loop of fillMatrix_SW the two affine-gap
// states are updated as guarded maxima of the *extended* old value and the
// newly opened gap.
func (c *Ctx) checkGapRecurrence() {
	L := c.L
	L.Rule("gap-recurrence", "in the main fill loop each affine-gap state (the per-column array maxa[j] for vertical gaps, the running value bx for horizontal gaps) is first extended by gapextend, then compared with matrix[previous cell] + gapopen, and replaced by the latter exactly when it is larger: the comparison reads the extended value (opening and extending a gap compete on equal footing), and the extension is unconditional")
	r := c.fn("align", "*pwaligner", "fillMatrix_SW")
	if !r.ok() {
		return
	}
	fn := r.F
	loadsField := func(v ssa.Value, field string) bool {
		_, f, base := loadedField(v)
		return base != nil && f == field
	}
	isOpen := func(v ssa.Value) bool { // load(matrix cell) + gapopen, possibly via a φ-free chain
		bo, ok := v.(*ssa.BinOp)
		if !ok || bo.Op != token.ADD {
			return false
		}
		return (loadsField(bo.Y, "gapopen") && isMatrixCellLoad(bo.X)) || (loadsField(bo.X, "gapopen") && isMatrixCellLoad(bo.Y))
	}
	isExtendOf := func(v ssa.Value) (ssa.Value, bool) {
		bo, ok := v.(*ssa.BinOp)
		if !ok || bo.Op != token.ADD {
			return nil, false
		}
		if loadsField(bo.Y, "gapextend") {
			return bo.X, true
		}
		if loadsField(bo.X, "gapextend") {
			return bo.Y, true
		}
		return nil, false
	}
	// main loop: the innermost loop containing a store of a gap direction to trace under a comparison
	loops := naturalLoops(fn)
	var main *loop
	for _, lp := range loops {
		depth := 0
		for _, o := range loops {
			if o != lp && o.Blocks[lp.Head] {
				depth++
			}
		}
		if depth == 1 && (main == nil || lp.Head.Index > main.Head.Index) {
			main = lp
		}
	}
	if main == nil {
		L.Unknown("gap-recurrence", r.label, "main loop", c.P.Pos(fn.Pos()), "nested fill loop not found")
		return
	}
	lc := newLinCtx(c, fn)
	// (1) array state
	var ext, open *ssa.Store
	for b := range main.Blocks {
		for _, in := range b.Instrs {
			st, ok := in.(*ssa.Store)
			if !ok {
				continue
			}
			ia, ok := st.Addr.(*ssa.IndexAddr)
			if !ok || !loadsField(ia.X, "maxa") {
				continue
			}
			if old, ok := isExtendOf(st.Val); ok {
				if u, ok := old.(*ssa.UnOp); ok {
					if oia, ok := u.X.(*ssa.IndexAddr); ok && loadsField(oia.X, "maxa") && lc.of(oia.Index).equal(lc.of(ia.Index)) {
						ext = st
					}
				}
			} else if isOpen(st.Val) {
				open = st
			}
		}
	}
	okArr := false
	det := "extension or opening store of maxa[j] not found"
	if ext != nil && open != nil {
		// open store is the true successor of `open value > load maxa[j]` where that load follows ext
		ob := open.Block()
		for _, p := range ob.Preds {
			ifi, ok := p.Instrs[len(p.Instrs)-1].(*ssa.If)
			if !ok || p.Succs[0] != ob || len(ob.Preds) != 1 {
				continue
			}
			bo, ok := ifi.Cond.(*ssa.BinOp)
			if !ok || bo.Op != token.GTR || bo.X != open.Val {
				continue
			}
			u, ok := bo.Y.(*ssa.UnOp)
			if !ok {
				continue
			}
			oia, ok := u.X.(*ssa.IndexAddr)
			if !ok || !loadsField(oia.X, "maxa") {
				continue
			}
			readsExtended := instrDominates(ext, u)
			unconditional := ext.Block() == p || ext.Block().Dominates(p)
			okArr = readsExtended && unconditional
			det = fmt.Sprintf("comparison reads the extended value: %v; extension is unconditional (dominates the comparison): %v", readsExtended, unconditional)
		}
	}
	L.Check(okArr, "gap-recurrence", r.label, "vertical gap state maxa[j]", c.P.Pos(fn.Pos()), "maxa[j] += gapextend; if matrix[i-1][j]+gapopen > maxa[j] { maxa[j] = that }", "the vertical-gap recurrence is not max(extended, opened): "+det)

	// (2) register state: a header φ of the main loop of float type
	okReg := false
	det2 := "no running horizontal-gap value found"
	for _, in := range main.Head.Instrs {
		p, ok := in.(*ssa.Phi)
		if !ok || !isFloatValue(p) {
			continue
		}
		// the back-edge value is φ(extended, opened) under opened > extended
		for i, e := range p.Edges {
			if !main.Blocks[main.Head.Preds[i]] {
				continue
			}
			sel, ok := e.(*ssa.Phi)
			if !ok || len(sel.Edges) != 2 {
				continue
			}
			var extended, opened ssa.Value
			for _, se := range sel.Edges {
				if old, ok := isExtendOf(se); ok && old == ssa.Value(p) {
					extended = se
				} else if isOpen(se) {
					opened = se
				}
			}
			if extended == nil || opened == nil {
				det2 = "the running value is not a selection between (old + gapextend) and (matrix cell + gapopen)"
				continue
			}
			// the selecting branch
			sb := sel.Block()
			good := false
			for _, q := range sb.Preds {
				if ifi, ok := q.Instrs[len(q.Instrs)-1].(*ssa.If); ok {
					if bo, ok := ifi.Cond.(*ssa.BinOp); ok && bo.Op == token.GTR && bo.X == opened && bo.Y == extended {
						good = true
					}
				}
				for _, qq := range q.Preds {
					if ifi, ok := qq.Instrs[len(qq.Instrs)-1].(*ssa.If); ok {
						if bo, ok := ifi.Cond.(*ssa.BinOp); ok && bo.Op == token.GTR && bo.X == opened && bo.Y == extended {
							good = true
						}
					}
				}
			}
			okReg = good
			det2 = fmt.Sprintf("selection between extended and opened value under `opened > extended`: %v", good)
		}
	}
	// the running horizontal value is re-initialised for every row: its value on entry of the
	// column loop does not come from the previous row's loop (no outer loop-carried dependence)
	okInit := false
	detInit := "no running horizontal-gap value found"
	for _, in := range main.Head.Instrs {
		p, ok := in.(*ssa.Phi)
		if !ok || !isFloatValue(p) {
			continue
		}
		for i, e := range p.Edges {
			if main.Blocks[main.Head.Preds[i]] {
				continue
			}
			// entry value
			isGapState := false
			for k, e2 := range p.Edges {
				if main.Blocks[main.Head.Preds[k]] {
					if sel, ok := e2.(*ssa.Phi); ok {
						for _, se := range sel.Edges {
							if old, ok := isExtendOf(se); ok && old == ssa.Value(p) {
								isGapState = true
							}
						}
					}
				}
			}
			if !isGapState {
				continue
			}
			deps := headerPhiDeps(fn, e)
			okInit = len(deps) == 0
			detInit = fmt.Sprintf("entry value of the column loop depends on %d loop-carried value(s) of the row loop", len(deps))
			if bo, ok := e.(*ssa.BinOp); ok {
				_ = bo
			}
		}
	}
	L.Check(okInit, "gap-recurrence", r.label, "horizontal gap state starts afresh in every row", c.P.Pos(fn.Pos()), "initialised from the row's first cell before the column loop", "the horizontal-gap value of one row leaks into the next row: "+detInit)
	L.Check(okReg, "gap-recurrence", r.label, "horizontal gap state", c.P.Pos(fn.Pos()), "bx += gapextend; if matrix[i][j-1]+gapopen > bx { bx = that }", "the horizontal-gap recurrence is not max(extended, opened): "+det2)
	L.Floor("gap-recurrence", 3, "two directions + per-row initialisation")
}

func isMatrixCellLoad(v ssa.Value) bool {
	u, ok := v.(*ssa.UnOp)
	if !ok || u.Op != token.MUL {
		return false
	}
	ia, ok := u.X.(*ssa.IndexAddr)
	if !ok {
		return false
	}
	row, ok := ia.X.(*ssa.UnOp)
	if !ok {
		return false
	}
	ria, ok := row.X.(*ssa.IndexAddr)
	if !ok {
		return false
	}
	_, f, base := loadedField(ria.X)
	return base != nil && f == "matrix"
}
