package rules

import (
	"fmt"
	"strings"

	"golang.org/x/tools/go/ssa"
)

// checkSchemeSelection: which substitution matrix NewPwAligner installs. Decision table over the
// detected alphabets of the two sequences (AMINOACIDS, NUCLEOTIDS, BOTH, UNKNOWN)², read from the
// branch cascade: the nucleotide matrix iff both sequences are compatible with nucleotides,
// otherwise the protein matrix iff both are compatible with amino acids, otherwise none; the
// character index installed next to it belongs to the same scheme.
func (c *Ctx) checkSchemeSelection(rule string) {
	L := c.L
	L.Rule(rule, "decision table of the scoring scheme chosen by NewPwAligner over the detected alphabets of both sequences: DNAfull iff both are NUCLEOTIDS or BOTH, else BLOSUM62 iff both are AMINOACIDS or BOTH, else none; matrix and character index of the same scheme")
	r := c.fn("align", "", "NewPwAligner")
	if !r.ok() {
		return
	}
	fn := r.F
	names := []string{"AMINOACIDS", "NUCLEOTIDS", "BOTH", "UNKNOWN"}
	vals := map[string]int64{}
	for _, n := range names {
		v, ok := c.alignConst(n)
		if !ok {
			L.Unknown(rule, r.label, "constants", "-", "alphabet constant "+n+" not found")
			return
		}
		vals[n] = v
	}
	// the two detected alphabets: DetectAlphabet() on the first and on the second parameter
	var det [2]ssa.Value
	allInstrs(fn, func(in ssa.Instruction) {
		call, ok := in.(*ssa.Call)
		if !ok {
			return
		}
		cc := call.Common()
		if !cc.IsInvoke() || cc.Method.Name() != "DetectAlphabet" {
			return
		}
		for i := 0; i < 2 && i < len(fn.Params); i++ {
			if cc.Value == ssa.Value(fn.Params[i]) && det[i] == nil {
				det[i] = call
			}
		}
	})
	if det[0] == nil || det[1] == nil {
		L.Unknown(rule, r.label, "scheme selection", c.P.Pos(fn.Pos()), "DetectAlphabet is not called on both sequences")
		return
	}
	// the stores into the new aligner's submatrix / chartopos fields
	var stMat, stIdx *ssa.Store
	allInstrs(fn, func(in ssa.Instruction) {
		st, ok := in.(*ssa.Store)
		if !ok {
			return
		}
		if t, f, fa := fieldAddrOf(st.Addr); fa != nil && t == "pwaligner" {
			switch f {
			case "submatrix":
				stMat = st
			case "chartopos":
				stIdx = st
			}
		}
	})
	if stMat == nil || stIdx == nil {
		L.Unknown(rule, r.label, "scheme selection", c.P.Pos(fn.Pos()), "the stores of the substitution matrix and of the character index into the new aligner were not found")
		return
	}
	start := det[1].(ssa.Instruction).Block()
	if b0 := det[0].(ssa.Instruction).Block(); b0 != start && !b0.Dominates(start) {
		start = b0
	}
	globalOf := func(d dval) string {
		v := d.ref
		if v == nil {
			return "?"
		}
		if k, ok := v.(*ssa.Const); ok && k.IsNil() {
			return "none"
		}
		if u, ok := v.(*ssa.UnOp); ok {
			if g, ok := u.X.(*ssa.Global); ok {
				return g.Name()
			}
		}
		return "?"
	}
	compat := func(a string, with string) bool { return a == with || a == "BOTH" }
	var bad, und []string
	n := 0
	for _, a1 := range names {
		for _, a2 := range names {
			n++
			env := map[ssa.Value]dval{det[0]: {known: true, k: vals[a1]}, det[1]: {known: true, k: vals[a2]}}
			wr, ok := walkDecide(start, env, func(b *ssa.BasicBlock) bool { return b == stMat.Block() })
			what := a1 + "/" + a2
			if !ok || wr.at != stMat.Block() {
				und = append(und, what)
				continue
			}
			// φ-nodes of the stop block take the value of the edge the walk arrived on: walkDecide
			// stops before entering it, so resolve the stored values through the last edge
			get := func(v ssa.Value) dval {
				if d, ok := constDval(v); ok {
					return d
				}
				if d, ok := wr.env[v]; ok {
					return d
				}
				return dval{ref: v}
			}
			mat, idx := globalOf(get(stMat.Val)), globalOf(get(stIdx.Val))
			want := "none"
			switch {
			case compat(a1, "NUCLEOTIDS") && compat(a2, "NUCLEOTIDS"):
				want = "dna"
			case compat(a1, "AMINOACIDS") && compat(a2, "AMINOACIDS"):
				want = "prot"
			}
			kind := func(g string) string {
				switch {
				case g == "none":
					return "none"
				case strings.HasPrefix(g, "dna"):
					return "dna"
				case strings.HasPrefix(g, "blosum") || strings.HasPrefix(g, "prot"):
					return "prot"
				}
				return "?"
			}
			if kind(mat) == "?" || kind(idx) == "?" {
				und = append(und, what+" (selected value not a package table)")
				continue
			}
			if kind(mat) != want || kind(idx) != want {
				bad = append(bad, fmt.Sprintf("%s selects matrix %s and index %s, want the %s scheme", what, mat, idx, want))
			}
		}
	}
	switch {
	case len(bad) > 0:
		L.Bad(rule, r.label, "scheme selection", c.P.Pos(stMat.Pos()), "the scoring scheme is not the one of the detected alphabets: "+strings.Join(bad, "; "))
	case len(und) == n:
		// not a branch cascade over the two alphabets at all (a table of schemes scanned by a loop …):
		// this rule reads cascades only and claims nothing about other forms
		L.Trivial(rule, r.label, "scheme selection", c.P.Pos(stMat.Pos()), "the selection is not written as a branch cascade over the two detected alphabets: no row can be read off, nothing is decided by this rule")
	case len(und) > 0:
		L.Unknown(rule, r.label, "scheme selection", c.P.Pos(stMat.Pos()), "the selection depends on something else than the two detected alphabets for: "+strings.Join(und, "; "))
	default:
		L.OK(rule, r.label, "scheme selection", c.P.Pos(stMat.Pos()), fmt.Sprintf("%d rows of the table equal the definition", n))
	}
	L.Floor(rule, 1, "one selection")
}
