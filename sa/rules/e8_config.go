package rules

import (
	"fmt"
	"go/token"
	"go/types"
	"sort"
	"strings"

	"golang.org/x/tools/go/ssa"
)

// Container configuration. A sequence container carries two settings next to its rows: the
// alphabet (what reverse complement, translation, the wildcard of cleaning/masking and the
// datatype of the Nexus writer are decided on) and the duplicate-handling mode. Both are set by
// their setters (and at construction) and must survive every operation that rebuilds the rows
// (Clear, Deduplicate, filters …): an operation that resets one of them makes a later operation
// on the same container behave differently for the same rows.
//
// Rule: a store to seqbag.alphabet / seqbag.ignoreidentical whose target is not an object
// allocated in the same function (a constructor filling a fresh container), and a store of a
// whole seqbag/align struct through a pointer that is not fresh, appear only in the setters.

var configSetters = map[string][]string{
	"alphabet":        {"align.(*seqbag).SetAlphabet", "align.(*seqbag).AutoAlphabet"},
	"ignoreidentical": {"align.(*seqbag).IgnoreIdentical"},
}

func freshObject(v ssa.Value) bool {
	for {
		switch x := v.(type) {
		case *ssa.Alloc:
			return true
		case *ssa.FieldAddr:
			v = x.X
			continue
		case *ssa.ChangeType:
			v = x.X
			continue
		case *ssa.UnOp:
			// a pointer variable kept in a cell (named result captured by a closure) that is assigned once
			if a, ok := x.X.(*ssa.Alloc); ok && x.Op == token.MUL {
				if sv := singleCellValue(a); sv != nil {
					v = sv
					continue
				}
			}
			return false
		case *ssa.Call:
			// the result of a constructor: every return hands back an object it allocated
			return returnsFresh(x.Common().StaticCallee(), 0)
		}
		return false
	}
}

func returnsFresh(f *ssa.Function, depth int) bool {
	if f == nil || f.Blocks == nil || depth > 3 {
		return false
	}
	n := 0
	for _, b := range f.Blocks {
		ret, ok := b.Instrs[len(b.Instrs)-1].(*ssa.Return)
		if !ok || len(ret.Results) == 0 {
			continue
		}
		n++
		v := ret.Results[0]
		for {
			if mi, ok := v.(*ssa.MakeInterface); ok {
				v = mi.X
				continue
			}
			break
		}
		switch x := v.(type) {
		case *ssa.Alloc:
		case *ssa.Call:
			if !returnsFresh(x.Common().StaticCallee(), depth+1) {
				return false
			}
		default:
			return false
		}
	}
	return n > 0
}

func (c *Ctx) checkConfigWriters(rule string) {
	L := c.L
	L.Rule(rule, "the alphabet and the duplicate-handling mode of a container are written only by their setters (SetAlphabet/AutoAlphabet, IgnoreIdentical) or into a container allocated by the writing function itself; no operation overwrites a whole container struct in place")
	type w struct {
		fn   *ssa.Function
		what string
		pos  string
	}
	var ws []w
	nFresh := 0
	for _, fn := range c.P.SrcFuncs() {
		if fn.Pkg == nil || !strings.HasSuffix(fn.Pkg.Pkg.Path(), "/align") {
			continue
		}
		allInstrs(fn, func(in ssa.Instruction) {
			st, ok := in.(*ssa.Store)
			if !ok {
				return
			}
			if t, f, fa := fieldAddrOf(st.Addr); fa != nil && t == "seqbag" && (f == "alphabet" || f == "ignoreidentical") {
				if freshObject(fa.X) {
					nFresh++
					return
				}
				ws = append(ws, w{fn, f, c.P.Pos(st.Pos())})
				return
			}
			// *p = value of a whole container
			if n, isNamed := st.Val.Type().(*types.Named); isNamed && (n.Obj().Name() == "seqbag" || n.Obj().Name() == "align") {
				if _, isFA := st.Addr.(*ssa.FieldAddr); isFA {
					// a.seqbag = … : the embedded container replaced as a whole
					if freshObject(st.Addr) {
						nFresh++
						return
					}
				} else if freshObject(st.Addr) {
					nFresh++
					return
				}
				ws = append(ws, w{fn, "whole " + n.Obj().Name(), c.P.Pos(st.Pos())})
			}
		})
	}
	sort.Slice(ws, func(i, j int) bool { return ws[i].pos < ws[j].pos })
	n := 0
	for _, x := range ws {
		name := c.P.FuncName(x.fn)
		allowed := false
		for _, s := range configSetters[x.what] {
			if s == name {
				allowed = true
			}
		}
		n++
		if allowed {
			L.OK(rule, name, "writes "+x.what, x.pos, "the setter of this setting")
			continue
		}
		if ok, callers := c.privateHelperOf(x.fn, func(caller string) bool {
			for _, s := range configSetters[x.what] {
				if s == caller {
					return true
				}
			}
			return false
		}); ok {
			L.OK(rule, name, "writes "+x.what, x.pos, "private helper of the setter: "+strings.Join(callers, ", "))
			continue
		}
		L.Bad(rule, name, "writes "+x.what, x.pos, "an operation other than the setter overwrites the container's "+x.what+": the setting chosen by the caller is lost for every later operation on this container")
	}
	// an operation that re-detects the alphabet of the container it works on changes the setting
	// just as a store would (a protein alignment whose remaining rows happen to be spelt with
	// nucleotide letters becomes a nucleotide alignment): only translation, which changes the
	// residues themselves, may do so
	allowedCallers := map[string]bool{"align.(*seqbag).Translate": true, "align.(*seqbag).SetAlphabet": true, "align.(*seqbag).AutoAlphabet": true}
	nCalls := 0
	for _, fn := range c.P.SrcFuncs() {
		if fn.Pkg == nil || !strings.HasSuffix(fn.Pkg.Pkg.Path(), "/align") || fn.Signature.Recv() == nil || len(fn.Params) == 0 {
			continue
		}
		recv := fn.Params[0]
		allInstrs(fn, func(in ssa.Instruction) {
			cc := callOf(in)
			if cc == nil {
				return
			}
			name := ""
			var on ssa.Value
			if cc.IsInvoke() {
				name, on = cc.Method.Name(), cc.Value
			} else if g := cc.StaticCallee(); g != nil && g.Signature.Recv() != nil && len(cc.Args) > 0 {
				name, on = g.Name(), cc.Args[0]
			}
			if name != "AutoAlphabet" && name != "SetAlphabet" {
				return
			}
			// on the receiver itself or on its embedded container
			own := isRecvValue(on, recv)
			if fa, ok := on.(*ssa.FieldAddr); ok && isRecvValue(fa.X, recv) {
				own = true
			}
			if mi, ok := on.(*ssa.MakeInterface); ok && isRecvValue(mi.X, recv) {
				own = true
			}
			if !own {
				return
			}
			nCalls++
			fname := c.P.FuncName(fn)
			L.Check(allowedCallers[fname], rule, fname, "calls "+name+" on its own container", c.P.Pos(in.Pos()),
				"translation changes the residues and re-detects their alphabet",
				"an operation re-detects or resets the alphabet of the container it works on: the alphabet the caller chose (or that was detected when the data were read) is replaced by a guess from the rows that remain")
		})
	}
	L.Trivial(rule, "package align", "stores scanned", "-", fmt.Sprintf("%d store(s) into existing containers, %d into containers allocated by the storing function, %d alphabet re-detection(s) on the own container", n, nFresh, nCalls))
	L.Floor(rule, 3, "SetAlphabet (2 stores), AutoAlphabet (3), IgnoreIdentical (2) on the pinned tree")
}
