package rules

import (
	"os"
	"fmt"
	"go/ast"
	"go/constant"
	"go/token"
	"go/types"
	"math/big"
	"sort"
	"strconv"
	"strings"

	"golang.org/x/tools/go/packages"
	"golang.org/x/tools/go/ssa"
)

func init() {
	register(&Property{ID: "C18", Run: runC18,
		Explanation: "Static decision of the constant-structure clauses of C18. Closed-form eigen systems (JC, K2P): the literal eigenvector matrices satisfy R·L = I in exact rational arithmetic (so P(0) = I), the first eigenvalue is 0 with left eigenvector the uniform distribution and right eigenvector 1, for JC R·diag(λ)·L is the textbook rate matrix scaled to one substitution per unit time, and for K2P R·diag(λ)·L, with λ read as rational functions of kappa, is the Kimura generator (transversion 1/(κ+2), transition κ/(κ+2), diagonal -1) for every kappa; F84: eigenvalue 0 with left eigenvector (πA,πC,πG,πT) and right eigenvector 1. Rate-matrix literals (F81, TN93, GTR) as polynomials in the parameters: every row sums to zero (generator: rows of P(t) sum to 1), π_i·Q_ij = π_j·Q_ji for all pairs (detailed balance), the normaliser is -Σ π_i·Q_ii (one expected substitution per unit time). Protein models (7): the 190 sub-diagonal exchangeabilities are each assigned exactly once and are non-negative, the symmetrisation loop copies m[i][j] to m[j][i], the 20 frequencies are each assigned once and sum to 1 within 1e-5, the dispatcher maps each model code to its own table; InitModel uses the frequencies in force after the user override everywhere. P(t) assembly: Σ_k R[i][k]·e^{λ_k t}·L[k][j] with the exponential indexed by the eigenvector column, floored at DBL_MIN, written only into matrices owned by the Pij object; Analytical() is true exactly for the models that implement Pij. Not decided: stochasticity, the semigroup law, convergence and agreement of analytical and eigen-based values for numerical parameter values."})
}

func runC18(c *Ctx) {
	c.checkClosedFormEigens()
	c.checkF84EigenSystem()
	c.checkPijAnalytic()
	c.checkRateMatrixLiterals()
	c.checkProteinTables()
	c.checkModelSiblingsC18()
	c.checkPijAssembly()
	c.checkStaleFieldReads()
}

// ---------------------------------------------------------------------------
// helpers: exact rational matrices from `mat.NewDense(r, c, []float64{…})`

func ratOf(v constant.Value) *big.Rat {
	if v == nil {
		return nil
	}
	switch v.Kind() {
	case constant.Int, constant.Float:
		r, ok := new(big.Rat).SetString(v.ExactString())
		if ok {
			return r
		}
		if f, ok := constant.Float64Val(constant.ToFloat(v)); ok || true {
			return new(big.Rat).SetFloat64(f)
		}
	}
	return nil
}

// ratExpr evaluates a literal arithmetic expression exactly (go/types rounds
// typed float64 constants such as -4./3. to the nearest double).
func ratExpr(info *types.Info, e ast.Expr) *big.Rat {
	switch x := e.(type) {
	case *ast.BasicLit:
		v := constant.MakeFromLiteral(x.Value, x.Kind, 0)
		if r, ok := new(big.Rat).SetString(v.ExactString()); ok {
			return r
		}
		return nil
	case *ast.ParenExpr:
		return ratExpr(info, x.X)
	case *ast.UnaryExpr:
		r := ratExpr(info, x.X)
		if r == nil {
			return nil
		}
		if x.Op == token.SUB {
			return new(big.Rat).Neg(r)
		}
		if x.Op == token.ADD {
			return r
		}
		return nil
	case *ast.BinaryExpr:
		a, b := ratExpr(info, x.X), ratExpr(info, x.Y)
		if a == nil || b == nil {
			return nil
		}
		switch x.Op {
		case token.ADD:
			return new(big.Rat).Add(a, b)
		case token.SUB:
			return new(big.Rat).Sub(a, b)
		case token.MUL:
			return new(big.Rat).Mul(a, b)
		case token.QUO:
			if b.Sign() == 0 {
				return nil
			}
			return new(big.Rat).Quo(a, b)
		}
		return nil
	}
	// a named constant: its own (untyped, exact) value, not the value rounded to the type of the use
	if id, ok := e.(*ast.Ident); ok {
		if k, ok := info.Uses[id].(*types.Const); ok {
			if r := ratOf(k.Val()); r != nil {
				return r
			}
		}
	}
	if tv, ok := info.Types[e]; ok && tv.Value != nil {
		return ratOf(tv.Value)
	}
	// a local that is assigned exactly once (a hoisted sub-expression): its defining expression
	if id, ok := e.(*ast.Ident); ok && ratLocals != nil {
		if def, ok := ratLocals[info.Uses[id]]; ok && ratDepth < 8 {
			ratDepth++
			defer func() { ratDepth-- }()
			return ratExpr(info, def)
		}
	}
	return nil
}

// resolvedExprString renders e with single-assignment locals replaced by their defining expression
// (`piA := m.piA` … `piA` reads as `m.piA`).
func resolvedExprString(info *types.Info, e ast.Expr) string {
	for i := 0; i < 4; i++ {
		id, ok := e.(*ast.Ident)
		if !ok || ratLocals == nil {
			break
		}
		def, ok := ratLocals[info.Uses[id]]
		if !ok {
			break
		}
		e = def
	}
	return types.ExprString(e)
}

// ratLocals: single-assignment locals of the function being evaluated (set by withLocals).
var ratLocals map[types.Object]ast.Expr
var ratDepth int

// singleAssignLocals maps every local variable of fd that is assigned exactly once to that expression.
func singleAssignLocals(info *types.Info, fd *ast.FuncDecl) map[types.Object]ast.Expr {
	cnt := map[types.Object]int{}
	def := map[types.Object]ast.Expr{}
	note := func(id *ast.Ident, rhs ast.Expr) {
		o := info.Defs[id]
		if o == nil {
			o = info.Uses[id]
		}
		if o == nil {
			return
		}
		cnt[o]++
		def[o] = rhs
	}
	ast.Inspect(fd, func(n ast.Node) bool {
		switch x := n.(type) {
		case *ast.AssignStmt:
			if len(x.Lhs) == len(x.Rhs) {
				for i, l := range x.Lhs {
					if id, ok := l.(*ast.Ident); ok {
						if x.Tok == token.DEFINE || x.Tok == token.ASSIGN {
							note(id, x.Rhs[i])
						} else {
							cnt[info.Uses[id]] += 2 // +=, -= …: not single assignment
						}
					}
				}
			} else {
				for _, l := range x.Lhs {
					if id, ok := l.(*ast.Ident); ok {
						note(id, nil)
						cnt[info.Uses[id]]++
					}
				}
			}
		case *ast.ValueSpec:
			for i, id := range x.Names {
				if i < len(x.Values) {
					note(id, x.Values[i])
				}
			}
		case *ast.IncDecStmt:
			if id, ok := x.X.(*ast.Ident); ok {
				cnt[info.Uses[id]] += 2
			}
		case *ast.RangeStmt:
			for _, e := range []ast.Expr{x.Key, x.Value} {
				if id, ok := e.(*ast.Ident); ok {
					cnt[info.Defs[id]] += 2
					cnt[info.Uses[id]] += 2
				}
			}
		}
		return true
	})
	out := map[types.Object]ast.Expr{}
	for o, n := range cnt {
		if n == 1 && def[o] != nil {
			out[o] = def[o]
		}
	}
	return out
}

// resultNames: the names under which result number k of fd travels: the named result itself and
// every identifier returned at position k by an explicit return.
func resultNames(fd *ast.FuncDecl, k int, fallback string) []string {
	names := map[string]bool{fallback: true}
	if fd.Type.Results != nil {
		i := 0
		for _, f := range fd.Type.Results.List {
			if len(f.Names) == 0 {
				i++
				continue
			}
			for _, n := range f.Names {
				if i == k {
					names[n.Name] = true
				}
				i++
			}
		}
	}
	ast.Inspect(fd, func(n ast.Node) bool {
		if _, isLit := n.(*ast.FuncLit); isLit {
			return false
		}
		if rs, ok := n.(*ast.ReturnStmt); ok && k < len(rs.Results) {
			if id, ok := rs.Results[k].(*ast.Ident); ok && id.Name != "nil" {
				names[id.Name] = true
			}
		}
		return true
	})
	var out []string
	for n := range names {
		out = append(out, n)
	}
	sort.Strings(out)
	return out
}

type denseLit struct {
	rows, cols int
	elts       []ast.Expr
	pos        token.Pos
}

// denseLiteralAssigned finds `name = mat.NewDense(r, c, []float64{...})` (or a field store m.name = …) in fd.
func denseLiteralAssigned(info *types.Info, fd *ast.FuncDecl, names ...string) *denseLit {
	var out *denseLit
	ast.Inspect(fd, func(n ast.Node) bool {
		as, ok := n.(*ast.AssignStmt)
		if !ok || len(as.Lhs) != 1 || len(as.Rhs) != 1 {
			return true
		}
		lhs := ""
		switch x := as.Lhs[0].(type) {
		case *ast.Ident:
			lhs = x.Name
		case *ast.SelectorExpr:
			lhs = x.Sel.Name
		}
		if !contains(names, lhs) {
			return true
		}
		ce, ok := as.Rhs[0].(*ast.CallExpr)
		if !ok || len(ce.Args) != 3 {
			return true
		}
		if se, ok := ce.Fun.(*ast.SelectorExpr); !ok || se.Sel.Name != "NewDense" {
			return true
		}
		cl, ok := ce.Args[2].(*ast.CompositeLit)
		if !ok {
			return true
		}
		r, _ := constant.Int64Val(info.Types[ce.Args[0]].Value)
		cc, _ := constant.Int64Val(info.Types[ce.Args[1]].Value)
		out = &denseLit{int(r), int(cc), cl.Elts, as.Pos()}
		return true
	})
	return out
}

func sliceLiteralAssigned(fd *ast.FuncDecl, names ...string) []ast.Expr {
	var out []ast.Expr
	ast.Inspect(fd, func(n ast.Node) bool {
		as, ok := n.(*ast.AssignStmt)
		if !ok || len(as.Lhs) != 1 || len(as.Rhs) != 1 {
			return true
		}
		if id, ok := as.Lhs[0].(*ast.Ident); !ok || !contains(names, id.Name) {
			return true
		}
		if cl, ok := as.Rhs[0].(*ast.CompositeLit); ok {
			out = cl.Elts
		}
		return true
	})
	return out
}

func (c *Ctx) methodDecl(rel, recv, name string) (*ast.FuncDecl, *packages.Package) {
	pk := c.P.Pkg(rel)
	if pk == nil {
		return nil, nil
	}
	for _, f := range pk.Syntax {
		for _, d := range f.Decls {
			fd, ok := d.(*ast.FuncDecl)
			if !ok || fd.Name.Name != name {
				continue
			}
			if recv == "" && fd.Recv == nil {
				return fd, pk
			}
			if fd.Recv != nil && len(fd.Recv.List) > 0 && strings.TrimPrefix(types.ExprString(fd.Recv.List[0].Type), "*") == recv {
				return fd, pk
			}
		}
	}
	return nil, pk
}

func ratMatrix(info *types.Info, d *denseLit) ([][]*big.Rat, bool) {
	if d == nil || d.rows*d.cols != len(d.elts) {
		return nil, false
	}
	m := make([][]*big.Rat, d.rows)
	for i := range m {
		m[i] = make([]*big.Rat, d.cols)
		for j := range m[i] {
			r := ratExpr(info, d.elts[i*d.cols+j])
			if r == nil {
				return nil, false
			}
			m[i][j] = r
		}
	}
	return m, true
}

func ratMul(a, b [][]*big.Rat) [][]*big.Rat {
	n, m, p := len(a), len(b), len(b[0])
	out := make([][]*big.Rat, n)
	for i := 0; i < n; i++ {
		out[i] = make([]*big.Rat, p)
		for j := 0; j < p; j++ {
			s := new(big.Rat)
			for k := 0; k < m; k++ {
				s.Add(s, new(big.Rat).Mul(a[i][k], b[k][j]))
			}
			out[i][j] = s
		}
	}
	return out
}

func ratIsIdentity(m [][]*big.Rat) (bool, string) {
	for i := range m {
		for j := range m[i] {
			want := big.NewRat(0, 1)
			if i == j {
				want = big.NewRat(1, 1)
			}
			if m[i][j].Cmp(want) != 0 {
				return false, fmt.Sprintf("(R·L)[%d][%d] = %s", i, j, m[i][j].RatString())
			}
		}
	}
	return true, ""
}

func (c *Ctx) checkClosedFormEigens() {
	L := c.L
	c.checkExpTermsFilled("exp-terms-filled")
	L.Rule("validate-before-store", "an initialiser that rejects an argument with an error has not stored anything into its receiver on the way to that error return")
	c.checkValidateBeforeStore("validate-before-store", c.fn("models/protein", "*ProtModel", "InitModel"))
	L.Floor("validate-before-store", 1, "the protein model initialiser")
	c.checkNoLibraryGlobalWrites("library-global-state")
	L.Rule("eigen-literal", "the literal right and left eigenvector matrices of a closed-form model satisfy R·L = I exactly (rational arithmetic on the source constants); the first eigenvalue is the constant 0, the first row of L is the stationary distribution and the first column of R is all ones; for JC R·diag(λ)·L equals the Jukes-Cantor generator with off-diagonal 1/3 and diagonal -1")
	for _, mname := range []string{"JCModel", "K2PModel"} {
		fd, pk := c.methodDecl("models/dna", mname, "Eigens")
		label := "models/dna.(*" + mname + ").Eigens"
		if fd == nil {
			L.Unknown("anchor", label, "function resolves", "-", "Eigens not found")
			continue
		}
		info := pk.TypesInfo
		ratLocals = singleAssignLocals(info, fd)
		Ld := denseLiteralAssigned(info, fd, resultNames(fd, 1, "leftvectors")...)
		Rd := denseLiteralAssigned(info, fd, resultNames(fd, 2, "rightvectors")...)
		Lm, ok1 := ratMatrix(info, Ld)
		Rm, ok2 := ratMatrix(info, Rd)
		if !ok1 || !ok2 {
			L.Unknown("eigen-literal", label, "constant eigenvector literals", c.P.Pos(fd.Pos()), "the eigenvector matrices are not 4x4 literals of constants")
			continue
		}
		prod := ratMul(Rm, Lm)
		ok, why := ratIsIdentity(prod)
		L.Check(ok, "eigen-literal", label, "R·L = I", c.P.Pos(Rd.pos), "16 entries of the product compared with the identity in exact arithmetic", "the eigenvector literals are not inverse to each other: "+why+" (P(0) would not be the identity)")
		// stationary vectors
		uni := true
		for j := 0; j < 4; j++ {
			if Lm[0][j].Cmp(big.NewRat(1, 4)) != 0 {
				uni = false
			}
		}
		ones := true
		for i := 0; i < 4; i++ {
			if Rm[i][0].Cmp(big.NewRat(1, 1)) != 0 {
				ones = false
			}
		}
		vals := sliceLiteralAssigned(fd, resultNames(fd, 0, "val")...)
		v0 := len(vals) == 4 && ratExpr(info, vals[0]) != nil && ratExpr(info, vals[0]).Sign() == 0
		L.Check(uni && ones && v0, "eigen-literal", label, "eigenvalue 0 with stationary left vector and unit right vector", c.P.Pos(fd.Pos()),
			"val[0] = 0, L[0] = (1/4,1/4,1/4,1/4), R[·][0] = 1", fmt.Sprintf("stationary eigen-pair broken (val[0]=0: %v, uniform left vector: %v, unit right vector: %v)", v0, uni, ones))
		if mname == "K2PModel" && len(vals) == 4 {
			// R·diag(λ)·L with λ read as rational functions of kappa equals the K80 generator at
			// rate 1: transversions 1/(κ+2), transitions (A<->G, C<->T) κ/(κ+2), diagonal -1
			var lam []frac
			okLam := true
			for _, e := range vals {
				f, ok := fracOf(info, e)
				if !ok {
					okLam = false
				}
				lam = append(lam, f)
			}
			if !okLam {
				L.Unknown("eigen-literal", label, "R·diag(λ)·L = Q(K80)", c.P.Pos(fd.Pos()), "an eigenvalue is not a rational expression of the model parameter")
			} else {
				kappa := ""
				for _, f := range lam {
					for _, q := range []poly{f.num, f.den} {
						for mono := range q {
							for _, v := range strings.Split(mono, "*") {
								if v != "" {
									kappa = v
								}
							}
						}
					}
				}
				okQ, why := kappa != "", "no model parameter in the eigenvalues"
				if okQ {
					k := polyVar(kappa)
					den := k.add(polyConst(big.NewRat(2, 1)), 1)
					for i := 0; i < 4 && okQ; i++ {
						for j := 0; j < 4 && okQ; j++ {
							sum := frac{poly{}, polyConst(big.NewRat(1, 1))}
							for t := 0; t < 4; t++ {
								coef := new(big.Rat).Mul(Rm[i][t], Lm[t][j])
								term := frac{lam[t].num.mul(polyConst(coef)), lam[t].den}
								sum = sum.add(term)
							}
							var want poly
							switch {
							case i == j:
								want = poly{}.add(den, -1)
							case (i+j)%2 == 0: // A<->G (0,2), C<->T (1,3)
								want = k
							default:
								want = polyConst(big.NewRat(1, 1))
							}
							// sum.num/sum.den == want/den  <=>  sum.num·den - want·sum.den == 0
							if d := sum.num.mul(den).add(want.mul(sum.den), -1); !d.isZero() {
								okQ, why = false, fmt.Sprintf("entry (%d,%d): (κ+2)·num - expected·den = %s", i, j, d.String())
							}
						}
					}
				}
				L.Check(okQ, "eigen-literal", label, "R·diag(λ)·L = Q(K80)", c.P.Pos(fd.Pos()), "16 entries compared as rational functions of kappa: transversion 1/(κ+2), transition κ/(κ+2), diagonal -1",
					"the eigen system does not reproduce the Kimura generator (eigenvalues and eigenvector columns do not correspond, or a value is wrong): "+why)
			}
		}
		if mname == "JCModel" && len(vals) == 4 {
			var lam []*big.Rat
			allK := true
			for _, e := range vals {
				r := ratExpr(info, e)
				if r == nil {
					allK = false
				}
				lam = append(lam, r)
			}
			if allK {
				D := make([][]*big.Rat, 4)
				for i := range D {
					D[i] = make([]*big.Rat, 4)
					for j := range D[i] {
						D[i][j] = new(big.Rat)
						if i == j {
							D[i][j] = lam[i]
						}
					}
				}
				Q := ratMul(ratMul(Rm, D), Lm)
				okQ := true
				for i := 0; i < 4; i++ {
					for j := 0; j < 4; j++ {
						want := big.NewRat(1, 3)
						if i == j {
							want = big.NewRat(-1, 1)
						}
						if Q[i][j].Cmp(want) != 0 {
							okQ = false
						}
					}
				}
				L.Check(okQ, "eigen-literal", label, "R·diag(λ)·L = Q(JC)", c.P.Pos(fd.Pos()), "off-diagonal 1/3, diagonal -1: one expected substitution per unit time", "the eigen system does not reproduce the Jukes-Cantor generator scaled to rate 1")
			}
		}
	}
	// F84: symbolic first row/column
	fd, pk := c.methodDecl("models/dna", "F84Model", "Eigens")
	label := "models/dna.(*F84Model).Eigens"
	if fd != nil {
		info := pk.TypesInfo
		ratLocals = singleAssignLocals(info, fd)
		Ld := denseLiteralAssigned(info, fd, resultNames(fd, 1, "leftvectors")...)
		Rd := denseLiteralAssigned(info, fd, resultNames(fd, 2, "rightvectors")...)
		vals := sliceLiteralAssigned(fd, resultNames(fd, 0, "val")...)
		ok := Ld != nil && Rd != nil && len(Ld.elts) == 16 && len(Rd.elts) == 16 && len(vals) == 4
		if ok {
			want := []string{"m.piA", "m.piC", "m.piG", "m.piT"}
			for j := 0; j < 4; j++ {
				if resolvedExprString(info, Ld.elts[j]) != want[j] {
					ok = false
				}
			}
			for i := 0; i < 4; i++ {
				r := ratOf(info.Types[Rd.elts[i*4]].Value)
				if r == nil || r.Cmp(big.NewRat(1, 1)) != 0 {
					ok = false
				}
			}
			if r := ratOf(info.Types[vals[0]].Value); r == nil || r.Sign() != 0 {
				ok = false
			}
		}
		L.Check(ok, "eigen-literal", label, "eigenvalue 0 with stationary left vector and unit right vector", c.P.Pos(fd.Pos()),
			"val[0] = 0, L[0] = (πA,πC,πG,πT), R[·][0] = 1", "the stationary eigen-pair of F84 is broken: P(t) would not converge to the base frequencies / rows would not sum to 1")
	}
	L.Floor("eigen-literal", 3, "JC 3, K2P 3, F84 1 (floor = half of the instances on the pinned tree: a clean-up may merge instances, a rule that sees nothing must still fail)")
}

// ---------------------------------------------------------------------------
// polynomials over identifiers

type poly map[string]*big.Rat // monomial (sorted factors joined by *) -> coefficient ; "" = constant

func polyConst(r *big.Rat) poly { return poly{"": new(big.Rat).Set(r)} }
func polyVar(n string) poly     { return poly{n: big.NewRat(1, 1)} }

func (p poly) add(q poly, sign int64) poly {
	out := poly{}
	for k, v := range p {
		out[k] = new(big.Rat).Set(v)
	}
	for k, v := range q {
		t := new(big.Rat).Mul(v, big.NewRat(sign, 1))
		if o, ok := out[k]; ok {
			o.Add(o, t)
		} else {
			out[k] = t
		}
	}
	for k, v := range out {
		if v.Sign() == 0 {
			delete(out, k)
		}
	}
	return out
}

func monoMul(a, b string) string {
	var fs []string
	if a != "" {
		fs = append(fs, strings.Split(a, "*")...)
	}
	if b != "" {
		fs = append(fs, strings.Split(b, "*")...)
	}
	sort.Strings(fs)
	return strings.Join(fs, "*")
}

func (p poly) mul(q poly) poly {
	out := poly{}
	for k1, v1 := range p {
		for k2, v2 := range q {
			k := monoMul(k1, k2)
			t := new(big.Rat).Mul(v1, v2)
			if o, ok := out[k]; ok {
				o.Add(o, t)
			} else {
				out[k] = t
			}
		}
	}
	for k, v := range out {
		if v.Sign() == 0 {
			delete(out, k)
		}
	}
	return out
}

func (p poly) isZero() bool { return len(p) == 0 }

func (p poly) String() string {
	var ks []string
	for k := range p {
		ks = append(ks, k)
	}
	sort.Strings(ks)
	var s []string
	for _, k := range ks {
		s = append(s, p[k].RatString()+"·"+k)
	}
	return strings.Join(s, " + ")
}

// frac: a rational function num/den over the same symbols as poly.
type frac struct{ num, den poly }

func (a frac) add(b frac) frac {
	return frac{a.num.mul(b.den).add(b.num.mul(a.den), 1), a.den.mul(b.den)}
}

// fracAtoms: when set, math.Exp / math.Log applications met by fracOf become uninterpreted atoms
// identified by their argument.
var fracAtoms *symCtx

// fracOf parses an arithmetic expression with division over constants, identifiers and selectors;
// single-assignment locals (ratLocals) are replaced by their defining expression and a receiver
// field m.f is the symbol f.
func fracOf(info *types.Info, e ast.Expr) (frac, bool) {
	one := polyConst(big.NewRat(1, 1))
	if r := ratExpr(info, e); r != nil {
		return frac{polyConst(r), one}, true
	}
	switch x := e.(type) {
	case *ast.ParenExpr:
		return fracOf(info, x.X)
	case *ast.Ident:
		if ratLocals != nil {
			if def, ok := ratLocals[info.Uses[x]]; ok && def != nil && ratDepth < 8 {
				ratDepth++
				defer func() { ratDepth-- }()
				return fracOf(info, def)
			}
		}
		return frac{polyVar(x.Name), one}, true
	case *ast.SelectorExpr:
		return frac{polyVar(x.Sel.Name), one}, true
	case *ast.UnaryExpr:
		f, ok := fracOf(info, x.X)
		if !ok {
			return frac{}, false
		}
		switch x.Op {
		case token.SUB:
			return frac{poly{}.add(f.num, -1), f.den}, true
		case token.ADD:
			return f, true
		}
	case *ast.CallExpr:
		if se, ok := x.Fun.(*ast.SelectorExpr); ok && fracAtoms != nil && len(x.Args) == 1 {
			if id, ok := se.X.(*ast.Ident); ok && id.Name == "math" && (se.Sel.Name == "Exp" || se.Sel.Name == "Log") {
				a, ok := fracOf(info, x.Args[0])
				if !ok {
					return frac{}, false
				}
				return fracAtoms.apply(strings.ToLower(se.Sel.Name), a), true
			}
		}
	case *ast.BinaryExpr:
		a, ok1 := fracOf(info, x.X)
		b, ok2 := fracOf(info, x.Y)
		if !ok1 || !ok2 {
			return frac{}, false
		}
		switch x.Op {
		case token.ADD:
			return a.add(b), true
		case token.SUB:
			return a.add(frac{poly{}.add(b.num, -1), b.den}), true
		case token.MUL:
			return frac{a.num.mul(b.num), a.den.mul(b.den)}, true
		case token.QUO:
			if b.num.isZero() {
				return frac{}, false
			}
			return frac{a.num.mul(b.den), a.den.mul(b.num)}, true
		}
	}
	return frac{}, false
}

// polyOf parses an arithmetic expression over identifiers; calls X.At(i,j)
// become the symbol Q<i><j>.
func polyOf(info *types.Info, e ast.Expr) (poly, bool) {
	if tv, ok := info.Types[e]; ok && tv.Value != nil {
		if r := ratOf(tv.Value); r != nil {
			return polyConst(r), true
		}
	}
	switch x := e.(type) {
	case *ast.ParenExpr:
		return polyOf(info, x.X)
	case *ast.Ident:
		return polyVar(x.Name), true
	case *ast.SelectorExpr:
		return polyVar(types.ExprString(x)), true
	case *ast.UnaryExpr:
		p, ok := polyOf(info, x.X)
		if !ok {
			return nil, false
		}
		if x.Op == token.SUB {
			return poly{}.add(p, -1), true
		}
		if x.Op == token.ADD {
			return p, true
		}
	case *ast.BinaryExpr:
		a, ok1 := polyOf(info, x.X)
		b, ok2 := polyOf(info, x.Y)
		if !ok1 || !ok2 {
			return nil, false
		}
		switch x.Op {
		case token.ADD:
			return a.add(b, 1), true
		case token.SUB:
			return a.add(b, -1), true
		case token.MUL:
			return a.mul(b), true
		}
	case *ast.CallExpr:
		if se, ok := x.Fun.(*ast.SelectorExpr); ok && se.Sel.Name == "At" && len(x.Args) == 2 {
			i, ok1 := constant.Int64Val(info.Types[x.Args[0]].Value)
			j, ok2 := constant.Int64Val(info.Types[x.Args[1]].Value)
			if ok1 && ok2 {
				return polyVar("Q" + strconv.Itoa(int(i)) + strconv.Itoa(int(j))), true
			}
		}
	}
	return nil, false
}

// applyDivisorPoly: in fn (or a closure it creates) a function literal handed to (*mat.Dense).Apply
// returns `v / N` for its value parameter v; N, traced to a value of fn, is returned as a polynomial
// over the frequency parameters (named by position from piNames) and the entries Q<i><j> read with
// At(i, j).
func (c *Ctx) applyDivisorPoly(fn *ssa.Function, piNames []string) (poly, bool) {
	// frequency parameters: the last four float64 parameters of fn
	var fparams []*ssa.Parameter
	for _, p := range fn.Params {
		if b, ok := p.Type().Underlying().(*types.Basic); ok && b.Kind() == types.Float64 {
			fparams = append(fparams, p)
		}
	}
	if len(fparams) < 4 {
		return nil, false
	}
	fparams = fparams[len(fparams)-4:]
	varOf := map[ssa.Value]string{}
	for i, p := range fparams {
		varOf[p] = piNames[i]
	}
	clos, bind := closuresOf(fn)
	var polyOfV func(v ssa.Value, depth int) (poly, bool)
	polyOfV = func(v ssa.Value, depth int) (poly, bool) {
		if depth > 40 {
			return nil, false
		}
		if n, ok := varOf[v]; ok {
			return polyVar(n), true
		}
		switch x := v.(type) {
		case *ssa.Const:
			if r := ratOf(x.Value); r != nil {
				return polyConst(r), true
			}
		case *ssa.UnOp:
			if x.Op == token.SUB {
				p, ok := polyOfV(x.X, depth+1)
				if !ok {
					return nil, false
				}
				return poly{}.add(p, -1), true
			}
			if x.Op == token.MUL {
				// load of a captured cell or of a cell written once
				if fv, ok := x.X.(*ssa.FreeVar); ok {
					if cell, ok := bind[fv].(*ssa.Alloc); ok {
						if val := singleCellValue(cell); val != nil {
							return polyOfV(val, depth+1)
						}
					}
				}
				if a, ok := x.X.(*ssa.Alloc); ok {
					if val := singleCellValue(a); val != nil {
						return polyOfV(val, depth+1)
					}
				}
			}
		case *ssa.BinOp:
			a, ok1 := polyOfV(x.X, depth+1)
			b, ok2 := polyOfV(x.Y, depth+1)
			if !ok1 || !ok2 {
				return nil, false
			}
			switch x.Op {
			case token.ADD:
				return a.add(b, 1), true
			case token.SUB:
				return a.add(b, -1), true
			case token.MUL:
				return a.mul(b), true
			}
		case *ssa.Call:
			if f := x.Common().StaticCallee(); f != nil && f.Name() == "At" && len(x.Common().Args) == 3 {
				i, ok1 := constInt(x.Common().Args[1])
				j, ok2 := constInt(x.Common().Args[2])
				if ok1 && ok2 {
					return polyVar("Q" + strconv.Itoa(int(i)) + strconv.Itoa(int(j))), true
				}
			}
		}
		return nil, false
	}
	for _, ci := range clos {
		g := ci.fn
		if len(g.Params) != 3 {
			continue
		}
		// used as the callback of Apply?
		isApply := false
		if refs := ci.mc.Referrers(); refs != nil {
			for _, ref := range *refs {
				if call, ok := ref.(*ssa.Call); ok {
					if f := call.Common().StaticCallee(); f != nil && f.Name() == "Apply" {
						isApply = true
					}
				}
			}
		}
		if !isApply {
			continue
		}
		var out poly
		found := false
		allInstrs(g, func(in ssa.Instruction) {
			ret, ok := in.(*ssa.Return)
			if !ok || len(ret.Results) != 1 {
				return
			}
			bo, ok := ret.Results[0].(*ssa.BinOp)
			if !ok || bo.Op != token.QUO || bo.X != ssa.Value(g.Params[2]) {
				return
			}
			if p, ok := polyOfV(bo.Y, 0); ok {
				out, found = p, true
			}
		})
		if found {
			return out, true
		}
	}
	return nil, false
}

func (c *Ctx) checkRateMatrixLiterals() {
	L := c.L
	L.Rule("rate-literal", "the 4x4 rate-matrix literal, read as polynomials in the model parameters: every row sums to the zero polynomial (generator), π_i·Q[i][j] and π_j·Q[j][i] are the same polynomial for all six pairs (detailed balance / reversibility), and the normaliser is the polynomial -Σ π_i·Q[i][i] (mean rate 1)")
	for _, mname := range []string{"F81Model", "TN93Model", "GTRModel"} {
		fd, pk := c.methodDecl("models/dna", mname, "InitModel")
		label := "models/dna.(*" + mname + ").InitModel"
		if fd == nil {
			L.Unknown("anchor", label, "function resolves", "-", "InitModel not found")
			continue
		}
		info := pk.TypesInfo
		qd := denseLiteralAssigned(info, fd, "qmatrix")
		if qd == nil || len(qd.elts) != 16 {
			L.Unknown("rate-literal", label, "4x4 literal", c.P.Pos(fd.Pos()), "rate matrix literal not found")
			continue
		}
		var Q [4][4]poly
		okParse := true
		for i := 0; i < 4; i++ {
			for j := 0; j < 4; j++ {
				p, ok := polyOf(info, qd.elts[i*4+j])
				if !ok {
					okParse = false
				}
				Q[i][j] = p
			}
		}
		if !okParse {
			L.Unknown("rate-literal", label, "entries are polynomials", c.P.Pos(qd.pos), "an entry is not a +,-,* expression over identifiers")
			continue
		}
		// the frequency parameters: last four parameters
		var params []string
		for _, f := range fd.Type.Params.List {
			for _, n := range f.Names {
				params = append(params, n.Name)
			}
		}
		if len(params) < 4 {
			continue
		}
		pi := params[len(params)-4:]
		for i := 0; i < 4; i++ {
			sum := poly{}
			for j := 0; j < 4; j++ {
				sum = sum.add(Q[i][j], 1)
			}
			L.Check(sum.isZero(), "rate-literal", label, fmt.Sprintf("row %d sums to zero", i), c.P.Pos(qd.pos), "diagonal entry is minus the sum of the other three", "row sum is "+sum.String()+": not a generator (rows of P(t) would not sum to 1)")
		}
		for i := 0; i < 4; i++ {
			for j := i + 1; j < 4; j++ {
				a := polyVar(pi[i]).mul(Q[i][j])
				b := polyVar(pi[j]).mul(Q[j][i])
				d := a.add(b, -1)
				L.Check(d.isZero(), "rate-literal", label, fmt.Sprintf("detailed balance (%d,%d)", i, j), c.P.Pos(qd.pos), pi[i]+"·Q["+fmt.Sprint(i, "][", j)+"] = "+pi[j]+"·Q["+fmt.Sprint(j, "][", i)+"] = "+a.String(),
					fmt.Sprintf("%s·Q[%d][%d] - %s·Q[%d][%d] = %s: the model is not reversible with these frequencies", pi[i], i, j, pi[j], j, i, d.String()))
			}
		}
		// normaliser
		var normExpr ast.Expr
		ast.Inspect(fd, func(n ast.Node) bool {
			if as, ok := n.(*ast.AssignStmt); ok && len(as.Lhs) == 1 && len(as.Rhs) == 1 {
				if id, ok := as.Lhs[0].(*ast.Ident); ok && id.Name == "norm" {
					normExpr = as.Rhs[0]
				}
			}
			return true
		})
		okNorm := false
		det := "no `norm :=` assignment"
		if normExpr != nil {
			if p, ok := polyOf(info, normExpr); ok {
				want := poly{}
				for i := 0; i < 4; i++ {
					want = want.add(polyVar(pi[i]).mul(polyVar(fmt.Sprintf("Q%d%d", i, i))), -1)
				}
				okNorm = p.add(want, -1).isZero()
				det = "norm = " + p.String()
			}
		}
		// and Q is divided by norm
		div := false
		ast.Inspect(fd, func(n ast.Node) bool {
			if be, ok := n.(*ast.BinaryExpr); ok && be.Op == token.QUO {
				if id, ok := be.Y.(*ast.Ident); ok && id.Name == "norm" {
					div = true
				}
			}
			return true
		})
		if !(okNorm && div) {
			// the same on the SSA (through the inlined view when the normalisation lives in a helper):
			// the callback handed to (*Dense).Apply returns v / N with N = -Σ π_i·q.At(i,i)
			if r := c.fn("models/dna", "*"+mname, "InitModel"); r.ok() {
				if p, ok := c.applyDivisorPoly(r.F, pi[:]); ok {
					want := poly{}
					for i := 0; i < 4; i++ {
						want = want.add(polyVar(pi[i]).mul(polyVar(fmt.Sprintf("Q%d%d", i, i))), -1)
					}
					if p.add(want, -1).isZero() {
						okNorm, div = true, true
						det = "divisor of the Apply callback = " + p.String()
					} else {
						det = "divisor of the Apply callback = " + p.String()
					}
				}
			}
		}
		L.Check(okNorm && div, "rate-literal", label, "normaliser -Σ π_i·Q_ii", c.P.Pos(fd.Pos()), det+"; every entry divided by norm", "the rate matrix is not scaled to one expected substitution per unit time: "+det+fmt.Sprintf(" (divided by norm: %v)", div))
	}
	L.Floor("rate-literal", 16, "3 models x (4 rows + 6 pairs + normaliser) (floor = half of the instances on the pinned tree: a clean-up may merge instances, a rule that sees nothing must still fail)")
}

// ---------------------------------------------------------------------------

func (c *Ctx) checkProteinTables() {
	L := c.L
	L.Rule("protein-table", "in each *Mats() function every sub-diagonal entry m[i*20+j] (i > j, 190 of them) is assigned exactly once with a non-negative constant and nothing else is assigned before the symmetrisation loop `m[j*naa+i] = m[i*naa+j]` over j < i < naa; pi[0..19] are each assigned once with positive constants summing to 1 within 1e-5; the matrix is built from m with dimension naa x naa")
	pk := c.P.Pkg("models/protein")
	if pk == nil {
		L.Unknown("anchor", "models/protein", "package resolves", "-", "not found")
		return
	}
	info := pk.TypesInfo
	names := []string{"DayoffMats", "JTTMats", "MtREVMats", "LGMats", "WAGMats", "HIVBMats", "ABMats"}
	for _, nme := range names {
		fd, _ := c.methodDecl("models/protein", "", nme)
		label := "models/protein." + nme
		if fd == nil {
			L.Unknown("anchor", label, "function resolves", "-", "not found")
			continue
		}
		cnt := map[int64]int{}
		piCnt := map[int64]int{}
		piSum := new(big.Rat)
		var bad []string
		sym := false
		for _, st := range fd.Body.List {
			switch x := st.(type) {
			case *ast.AssignStmt:
				if len(x.Lhs) != 1 || len(x.Rhs) != 1 {
					continue
				}
				ie, ok := x.Lhs[0].(*ast.IndexExpr)
				if !ok {
					continue
				}
				arr, _ := ie.X.(*ast.Ident)
				if arr == nil {
					continue
				}
				idx, okI := constant.Int64Val(info.Types[ie.Index].Value)
				val := ratOf(info.Types[x.Rhs[0]].Value)
				if info.Types[ie.Index].Value == nil || !okI || val == nil {
					bad = append(bad, "non-constant assignment "+types.ExprString(x.Lhs[0]))
					continue
				}
				switch arr.Name {
				case "m":
					i, j := idx/20, idx%20
					if i <= j {
						bad = append(bad, fmt.Sprintf("m[%d][%d] is not below the diagonal", i, j))
					}
					if val.Sign() < 0 {
						bad = append(bad, fmt.Sprintf("m[%d][%d] is negative", i, j))
					}
					cnt[idx]++
				case "pi":
					piCnt[idx]++
					piSum.Add(piSum, val)
					if val.Sign() <= 0 {
						bad = append(bad, fmt.Sprintf("pi[%d] is not positive", idx))
					}
				}
			}
		}
		sym = c.symmetrisationLoop("models/protein", nme)
		missing, dup := 0, 0
		for i := int64(1); i < 20; i++ {
			for j := int64(0); j < i; j++ {
				switch n := cnt[i*20+j]; {
				case n == 0:
					missing++
				case n > 1:
					dup++
				}
			}
		}
		okM := missing == 0 && dup == 0 && len(cnt) == 190 && len(bad) == 0
		L.Check(okM, "protein-table", label, "190 exchangeabilities", c.P.Pos(fd.Pos()), "each sub-diagonal entry assigned once, all non-negative", fmt.Sprintf("exchangeability table malformed: %d missing, %d assigned twice, %d distinct entries; %s", missing, dup, len(cnt), strings.Join(bad, "; ")))
		L.Check(sym, "protein-table", label, "symmetrisation loop", c.P.Pos(fd.Pos()), "m[j*naa+i] = m[i*naa+j] for 0 <= j < i < naa", "the loop that mirrors the lower triangle is missing or altered: the exchangeability matrix is not symmetric")
		okPi := len(piCnt) == 20
		for k := int64(0); k < 20; k++ {
			if piCnt[k] != 1 {
				okPi = false
			}
		}
		diff := new(big.Rat).Sub(piSum, big.NewRat(1, 1))
		diff.Abs(diff)
		okSum := diff.Cmp(big.NewRat(1, 100000)) <= 0
		f, _ := piSum.Float64()
		L.Check(okPi && okSum, "protein-table", label, "20 frequencies summing to 1", c.P.Pos(fd.Pos()), fmt.Sprintf("sum = %.7f", f), fmt.Sprintf("frequency vector malformed: 20 entries once each: %v, sum = %.7f", okPi, f))
	}
	L.Floor("protein-table", 10, "7 models x 3 (floor = half of the instances on the pinned tree: a clean-up may merge instances, a rule that sees nothing must still fail)")

	// dispatcher
	L.Rule("protein-dispatch", "NewProtModel maps each MODEL_* constant to the *Mats() function of the same model and rejects anything else")
	fd, _ := c.methodDecl("models/protein", "", "NewProtModel")
	want := map[string]string{"MODEL_DAYHOFF": "DayoffMats", "MODEL_JTT": "JTTMats", "MODEL_MTREV": "MtREVMats", "MODEL_LG": "LGMats", "MODEL_WAG": "WAGMats", "MODEL_HIVB": "HIVBMats", "MODEL_AB": "ABMats"}
	if fd != nil {
		got := map[string]string{}
		hasDefault := false
		ast.Inspect(fd, func(n ast.Node) bool {
			cc, ok := n.(*ast.CaseClause)
			if !ok {
				return true
			}
			if cc.List == nil {
				for _, s := range cc.Body {
					if _, ok := s.(*ast.ReturnStmt); ok {
						hasDefault = true
					}
				}
				return true
			}
			for _, e := range cc.List {
				for _, s := range cc.Body {
					if as, ok := s.(*ast.AssignStmt); ok && len(as.Rhs) == 1 {
						if ce, ok := as.Rhs[0].(*ast.CallExpr); ok {
							got[types.ExprString(e)] = types.ExprString(ce.Fun)
						}
					}
				}
			}
			return true
		})
		// the same dispatch written as a table `var t = map[int]func(){MODEL_X: XMats, …}` indexed in the function
		if tab, rejects := c.lookupTableOf("models/protein", fd); len(tab) > 0 {
			for k, v := range tab {
				if _, dup := got[k]; !dup {
					got[k] = v
				}
			}
			hasDefault = hasDefault || rejects
		}
		for k, v := range want {
			L.Check(got[k] == v, "protein-dispatch", "models/protein.NewProtModel", k, c.P.Pos(fd.Pos()), k+" → "+v, k+" is mapped to "+got[k]+", want "+v)
		}
		L.Check(hasDefault, "protein-dispatch", "models/protein.NewProtModel", "unknown code rejected", c.P.Pos(fd.Pos()), "default arm returns an error", "no default arm returning an error")
	}
	L.Floor("protein-dispatch", 4, "7 models + default (floor = half of the instances on the pinned tree: a clean-up may merge instances, a rule that sees nothing must still fail)")
}

func firstStmt(b *ast.BlockStmt) ast.Stmt {
	if b == nil || len(b.List) == 0 {
		return nil
	}
	return b.List[0]
}

// ---------------------------------------------------------------------------

func (c *Ctx) checkModelSiblingsC18() {
	L := c.L
	L.Rule("model-siblings", "for every implementor of models.Model: Analytical() returns the constant true exactly when Pij is implemented (does not return the constant -1), and NState() returns the dimension of the model's matrices (4 for nucleotides, 20 for proteins)")
	type impl struct{ rel, typ string; n int64 }
	impls := []impl{{"models/dna", "JCModel", 4}, {"models/dna", "K2PModel", 4}, {"models/dna", "F81Model", 4}, {"models/dna", "F84Model", 4}, {"models/dna", "TN93Model", 4}, {"models/dna", "GTRModel", 4}, {"models/protein", "ProtModel", 20}}
	for _, im := range impls {
		an := c.fn(im.rel, "*"+im.typ, "Analytical")
		pj := c.fn(im.rel, "*"+im.typ, "Pij")
		ns := c.fn(im.rel, "*"+im.typ, "NState")
		if !an.ok() || !pj.ok() || !ns.ok() {
			continue
		}
		retConst := func(fn *ssa.Function) (constant.Value, bool) {
			var k constant.Value
			n, all := 0, true
			allInstrs(fn, func(in ssa.Instruction) {
				if rt, ok := in.(*ssa.Return); ok {
					n++
					if v := constOf(rt.Results[0]); v != nil {
						k = v
					} else {
						all = false
					}
				}
			})
			return k, all && n == 1
		}
		ak, aok := retConst(an.F)
		pk, pok := retConst(pj.F)
		analytical := aok && ak.Kind() == constant.Bool && constant.BoolVal(ak)
		stub := false
		if pok {
			if f, ok := cFloat(pk); ok && f == -1 {
				stub = true
			}
		}
		L.Check(aok && analytical == !stub, "model-siblings", im.rel+".(*"+im.typ+")", "Analytical() ⇔ Pij implemented", c.P.Pos(an.F.Pos()),
			fmt.Sprintf("Analytical() = %v, Pij is a stub: %v", analytical, stub), fmt.Sprintf("Analytical() = %v but Pij is a stub returning -1: %v — transition probabilities would be -1, or a working formula would be ignored", analytical, stub))
		// a closed form is used instead of the eigen decomposition: it must be one that pij-analytic compares with it
		if analytical && im.typ != "JCModel" && im.typ != "K2PModel" {
			L.Unknown("pij-analytic", im.rel+".(*"+im.typ+")", "closed form compared with the eigen decomposition", c.P.Pos(an.F.Pos()),
				"Analytical() is true for a model whose closed-form Pij has no symbolic comparison with R·exp(Λl)·L here (compared: JC, K2P): transition probabilities would come from a formula nothing checks against the model's eigen system")
		}
		nk, nok := retConst(ns.F)
		v, _ := cInt(nk)
		L.Check(nok && v == im.n, "model-siblings", im.rel+".(*"+im.typ+")", "NState()", c.P.Pos(ns.F.Pos()), fmt.Sprintf("returns %d", v), fmt.Sprintf("NState() returns %v, the model's matrices have dimension %d", nk, im.n))
	}
	L.Floor("model-siblings", 7, "7 implementors x 2 (floor = half of the instances on the pinned tree: a clean-up may merge instances, a rule that sees nothing must still fail)")
}

// ---------------------------------------------------------------------------

func (c *Ctx) checkPijAssembly() {
	L := c.L
	L.Rule("pij-assembly", "SetLength computes uexpt[i][j] = right[i][j]·exp(val[j]·l) (the exponential is indexed by the eigenvector column) and pij[i][j] = Σ_k uexpt[i][k]·left[k][j], floored at DBL_MIN; the only matrices written are the ones stored in the Pij object by NewPij (fresh mat.NewDense), whose fields are written nowhere else")
	r := c.fn("models", "*Pij", "SetLength")
	if !r.ok() {
		return
	}
	fn := r.F
	lc := newLinCtx(c, fn)
	sets := denseSets(lc, fn)
	recvField := func(v ssa.Value) string {
		if _, f, base := loadedField(v); base != nil {
			return f
		}
		return ""
	}
	okU, okP, okFloor, okOwn := false, false, false, true
	for _, s := range sets {
		switch recvField(s.m) {
		case "uexpt":
			// value = right.At(i,j) * expt[j]
			if bo, ok := s.v.(*ssa.BinOp); ok && bo.Op == token.MUL {
				_, i2, j2, isAt := isDenseAt(bo.X)
				if isAt && lc.of(i2).String() == s.i && lc.of(j2).String() == s.j {
					if u, ok := bo.Y.(*ssa.UnOp); ok {
						if ia, ok := u.X.(*ssa.IndexAddr); ok && recvField(ia.X) == "expt" && lc.of(ia.Index).String() == s.j {
							okU = true
						}
					}
				}
			}
		case "pij":
			// value = φ(v, DBL_MIN) with v accumulated as uexpt.At(i,k)*left.At(k,j)
			leaves := throughPhis(s.v, false)
			hasMin := false
			for v := range leaves {
				if k := constOf(v); k != nil {
					if f, ok := cFloat(k); ok && f > 0 && f < 1e-300 {
						hasMin = true
					}
				}
				if bo, ok := v.(*ssa.BinOp); ok && bo.Op == token.ADD {
					if mul, ok := bo.Y.(*ssa.BinOp); ok && mul.Op == token.MUL {
						m1, a1, b1, ok1 := isDenseAt(mul.X)
						_, a2, b2, ok2 := isDenseAt(mul.Y)
						if ok1 && ok2 && recvField(m1) == "uexpt" &&
							lc.of(a1).String() == s.i && lc.of(b2).String() == s.j && lc.of(b1).String() == lc.of(a2).String() {
							okP = true
						}
					}
				}
			}
			okFloor = hasMin
		default:
			okOwn = false
		}
	}
	// field ownership: Pij.uexpt / Pij.pij / Pij.expt stored only in NewPij (composite literal), values fresh
	var writers []string
	for _, f := range c.P.SrcFuncs() {
		allInstrs(f, func(in ssa.Instruction) {
			if st, ok := in.(*ssa.Store); ok {
				if t, fl, fa := fieldAddrOf(st.Addr); fa != nil && t == "Pij" && (fl == "uexpt" || fl == "pij" || fl == "expt") {
					fresh := false
					if call, ok := st.Val.(*ssa.Call); ok {
						if cal := call.Common().StaticCallee(); cal != nil && cal.Name() == "NewDense" {
							fresh = true
						}
					}
					if _, ok := st.Val.(*ssa.MakeSlice); ok {
						fresh = true
					}
					if c.P.FuncName(f) != "models.NewPij" || !fresh {
						writers = append(writers, c.P.FuncName(f)+"."+fl)
					}
				}
			}
		})
	}
	sort.Strings(writers)
	// the eigen system is fetched from the model at every recomputation (nothing cached in the Pij object)
	var eig ssa.Instruction
	allInstrs(fn, func(in ssa.Instruction) {
		if cc := callOf(in); cc != nil && cc.IsInvoke() && cc.Method.Name() == "Eigens" {
			eig = in
		}
	})
	okEig := eig != nil
	if okEig {
		for _, s := range sets {
			if !(eig.Block() == s.call.Block() || eig.Block().Dominates(s.call.Block())) {
				okEig = false
			}
		}
		// right/left used in the products are the results of that call
		for _, s := range sets {
			if bo, ok := s.v.(*ssa.BinOp); ok && bo.Op == token.MUL {
				if m1, _, _, isAt := isDenseAt(bo.X); isAt {
					if ex, ok := m1.(*ssa.Extract); !ok || ex.Tuple != eig.(ssa.Value) {
						okEig = false
					}
				}
			}
		}
	}
	L.Check(okEig, "pij-assembly", r.label, "eigen system fetched at every recomputation", c.P.Pos(fn.Pos()), "model.Eigens() dominates every matrix write of SetLength and its results are the factors used", "SetLength does not fetch the eigen system from the model each time it recomputes (a cached copy survives a later InitModel with other parameters)")
	L.Check(okU, "pij-assembly", r.label, "uexpt[i][j] = right[i][j]·expt[j]", c.P.Pos(fn.Pos()), "exponential indexed by the column of the right eigenvector matrix", "the scaled eigenvector matrix is not right[i][j]·expt[j] (eigenvalues would be applied to the wrong vectors)")
	L.Check(okP, "pij-assembly", r.label, "pij[i][j] = Σ_k uexpt[i][k]·left[k][j]", c.P.Pos(fn.Pos()), "inner index shared between the column of uexpt and the row of left", "the product is not uexpt·left with a shared inner index (a transposed factor)")
	L.Check(okFloor, "pij-assembly", r.label, "floor at DBL_MIN", c.P.Pos(fn.Pos()), "the stored probability merges the computed sum with the DBL_MIN floor", "probabilities are not floored at DBL_MIN")
	L.Check(okOwn && len(writers) == 0, "pij-assembly", r.label, "writes only the Pij object's own matrices", c.P.Pos(fn.Pos()), "Set receivers are pij.uexpt and pij.pij; these fields are assigned fresh matrices in NewPij only",
		fmt.Sprintf("SetLength writes a matrix it does not own, or the scratch fields are re-assigned (other writers: %v): the model's cached eigenvectors can be overwritten and later P(t) depend on earlier calls", writers))
	L.Floor("pij-assembly", 2, "five clauses (floor = half of the instances on the pinned tree: a clean-up may merge instances, a rule that sees nothing must still fail)")
}

// ---------------------------------------------------------------------------

func (c *Ctx) checkStaleFieldReads() {
	L := c.L
	L.Rule("stale-field-read", "in an InitModel method, no value loaded from a receiver field before a store to that same field is used after the store (the frequencies used to build, complete and normalise the rate matrix are the ones in force after the user override)")
	n := 0
	var targets []*fnRef
	targets = append(targets, c.fn("models/protein", "*ProtModel", "InitModel"))
	for _, m := range []string{"F81Model", "TN93Model", "GTRModel", "F84Model", "K2PModel"} {
		targets = append(targets, c.fn("models/dna", "*"+m, "InitModel"))
	}
	for _, r := range targets {
		if !r.ok() {
			continue
		}
		fn := r.F
		slc := newLinCtx(c, fn)
		var bad []string
		nStores := 0
		for _, g := range withAnons(fn) {
			if g != fn {
				continue
			}
			allInstrs(g, func(in ssa.Instruction) {
				st, ok := in.(*ssa.Store)
				if !ok {
					return
				}
				t, f, fa := fieldAddrOf(st.Addr)
				if fa == nil || slc.canon(fa.X) != fn.Params[0].Name() {
					return
				}
				nStores++
				after := reachableFrom(st.Block())
				allInstrs(g, func(in2 ssa.Instruction) {
					u, ok := in2.(*ssa.UnOp)
					if !ok || u.Op != token.MUL {
						return
					}
					t2, f2, fa2 := fieldAddrOf(u.X)
					if fa2 == nil || t2 != t || f2 != f || slc.canon(fa2.X) != slc.canon(fa.X) || !instrDominates(u, st) {
						return
					}
					// uses of the stale load after the store
					var uses func(v ssa.Value, depth int) bool
					uses = func(v ssa.Value, depth int) bool {
						if depth > 3 || v.Referrers() == nil {
							return false
						}
						for _, ref := range *v.Referrers() {
							if ref == ssa.Instruction(st) {
								continue
							}
							late := (ref.Block() == st.Block() && indexIn(st.Block(), ref) > indexIn(st.Block(), st)) || (ref.Block() != st.Block() && after[ref.Block()])
							if late {
								switch ref.(type) {
								case *ssa.DebugRef:
									continue
								case *ssa.Phi:
								default:
									return true
								}
							}
							if vv, ok := ref.(ssa.Value); ok {
								switch ref.(type) {
								case *ssa.IndexAddr, *ssa.Phi, *ssa.Slice:
									if uses(vv, depth+1) {
										return true
									}
								}
							}
						}
						return false
					}
					if uses(u, 0) {
						bad = append(bad, fmt.Sprintf("%s.%s loaded at %s, stored at %s, old value used afterwards", t, f, c.P.Pos(u.Pos()), c.P.Pos(st.Pos())))
					}
				})
			})
		}
		n++
		L.Check(len(bad) == 0, "stale-field-read", r.label, "no stale receiver field", c.P.Pos(fn.Pos()), fmt.Sprintf("%d stores to receiver fields, no earlier load of the same field is used after its store", nStores), strings.Join(dedupe(bad), "; "))
	}
	L.Floor("stale-field-read", 2, "InitModel methods (floor = half of the instances on the pinned tree: a clean-up may merge instances, a rule that sees nothing must still fail)")
	L.Rule("assign-before-use", "in an InitModel method no receiver field that the call assigns (from a parameter or a fresh value) is read for computation on a path that reaches that assignment later: the user-supplied value is in force for the whole computation")
	L.Rule("accumulator-reset", "a receiver field accumulated into (m.f = m.f + x) is assigned afresh earlier in the same call")
	for _, r := range targets {
		c.checkWriteAfterRead("assign-before-use", r)
		c.checkAccumulatorReset("accumulator-reset", r)
	}
	L.Floor("assign-before-use", 2, "InitModel methods (floor = half of the instances on the pinned tree: a clean-up may merge instances, a rule that sees nothing must still fail)")
	_ = n
}

func initIsZero(s ast.Stmt, name string) bool {
	as, ok := s.(*ast.AssignStmt)
	if !ok || len(as.Lhs) != 1 || len(as.Rhs) != 1 {
		return false
	}
	id, ok := as.Lhs[0].(*ast.Ident)
	bl, ok2 := as.Rhs[0].(*ast.BasicLit)
	return ok && ok2 && id.Name == name && bl.Value == "0"
}

// symmetrisationLoop: the function contains a doubly nested counting loop
// (0 <= i < 20, 0 <= j < i) whose body stores m[20*j+i] = m[20*i+j].
func (c *Ctx) symmetrisationLoop(rel, name string) bool {
	fn := c.P.Func(rel, "", name)
	if fn == nil {
		return false
	}
	if c.ViewMode {
		fn = c.viewOf(fn)
	}
	lc := newLinCtx(c, fn)
	found := false
	allInstrs(fn, func(in ssa.Instruction) {
		st, ok := in.(*ssa.Store)
		if !ok {
			return
		}
		dst, ok := st.Addr.(*ssa.IndexAddr)
		if !ok {
			return
		}
		u, ok := st.Val.(*ssa.UnOp)
		if !ok || u.Op != token.MUL {
			return
		}
		src, ok := u.X.(*ssa.IndexAddr)
		if !ok {
			return
		}
		d, s := lc.of(dst.Index), lc.of(src.Index)
		var window *ssa.Slice
		if src.X != dst.X {
			// the source row read through a window m[lo:hi] of the same slice: element k of the
			// window is m[lo+k]
			sl, isSl := src.X.(*ssa.Slice)
			if !isSl || sl.X != dst.X || sl.Low == nil || sl.High == nil {
				return
			}
			window = sl
			s = s.add(lc.of(sl.Low))
		}
		// the two counters: in d the column counter has coefficient 20, the row counter 1
		vi := valueIndexCached(lc)
		var pi, pj *ssa.Phi
		for a, k := range d.t {
			p, isPhi := vi[a].(*ssa.Phi)
			if !isPhi {
				return
			}
			switch k {
			case 20:
				pj = p
			case 1:
				pi = p
			default:
				return
			}
		}
		if pi == nil || pj == nil || len(d.t) != 2 {
			return
		}
		// a counter of the range form holds index-1: the index is φ+1
		logical := func(p *ssa.Phi) (lin, bool, bool) { // value, starts at 0 or 1, step 1
			v := lc.of(p)
			start, step := false, true
			rangeForm := false
			for _, e := range p.Edges {
				if k, ok := constInt(e); ok {
					switch k {
					case -1:
						rangeForm, start = true, true
					case 0, 1:
						start = true
					}
					continue
				}
				if bo, ok := e.(*ssa.BinOp); ok && bo.Op == token.ADD && bo.X == ssa.Value(p) {
					if k, ok := constInt(bo.Y); !ok || k != 1 {
						step = false
					}
					continue
				}
				step = false
			}
			if rangeForm {
				v = v.addc(1)
			}
			return v, start, step
		}
		I, i0, i1 := logical(pi)
		J, j0, j1 := logical(pj)
		if !i0 || !i1 || !j0 || !j1 {
			return
		}
		if !d.equal(J.scale(20).add(I)) || !s.equal(I.scale(20).add(J)) {
			return
		}
		// bounds: the row counter runs below 20, the column counter below the row counter
		upper := func(p *ssa.Phi, v lin) (lin, bool) {
			ifi, ok := p.Block().Instrs[len(p.Block().Instrs)-1].(*ssa.If)
			if !ok {
				return lin{}, false
			}
			bo, ok := ifi.Cond.(*ssa.BinOp)
			if !ok || bo.Op != token.LSS || !lc.of(bo.X).equal(v) {
				return lin{}, false
			}
			return lc.of(bo.Y), true
		}
		ib, okI := upper(pi, I)
		jb, okJ := upper(pj, J)
		if !okI || !okJ || !ib.isConst() || ib.c != 20 {
			return
		}
		if window != nil {
			// the window must be exactly the part of row i left of the diagonal: [20i, 20i+i)
			if !lc.of(window.Low).equal(I.scale(20)) || !lc.of(window.High).equal(I.scale(20).add(I)) {
				return
			}
			if !jb.equal(lc.lenOf(window)) && !jb.equal(I) {
				return
			}
			found = true
			return
		}
		if jb.equal(I) {
			found = true
		}
	})
	return found
}

// checkPijAnalytic: "analytical formulas and eigen-decomposition based values agree wherever both
// exist". For the models with a closed-form Pij (JC, K2P) every expression the method can return
// is one of the entries Σ_k R[i][k]·L[k][j]·exp(λ_k·l) of R·exp(Λl)·L computed from the literal
// eigen system of the same model, and every distinct entry of that matrix is returned by some
// branch — compared as rational functions of the parameter with exp(·) as an uninterpreted atom
// identified by its argument (exact arithmetic on the source literals).
func (c *Ctx) checkPijAnalytic() {
	L := c.L
	L.Rule("pij-analytic", "for JC and K2P the expressions returned by the analytical Pij(i, j, l) are exactly the distinct entries of R·exp(Λ·l)·L built from the literal eigenvectors and eigenvalues of the same model (rational functions of the parameter, exp as an uninterpreted function of its argument): the closed form and the eigen decomposition describe the same P(t)")
	for _, mname := range []string{"JCModel", "K2PModel"} {
		label := "models/dna.(*" + mname + ").Pij"
		efd, pk := c.methodDecl("models/dna", mname, "Eigens")
		pfd, _ := c.methodDecl("models/dna", mname, "Pij")
		if efd == nil || pfd == nil {
			L.Unknown("anchor", label, "function resolves", "-", "Eigens or Pij not found")
			continue
		}
		info := pk.TypesInfo
		sc := &symCtx{}
		fracAtoms = sc
		// eigen system
		ratLocals = singleAssignLocals(info, efd)
		Lm, ok1 := ratMatrix(info, denseLiteralAssigned(info, efd, resultNames(efd, 1, "leftvectors")...))
		Rm, ok2 := ratMatrix(info, denseLiteralAssigned(info, efd, resultNames(efd, 2, "rightvectors")...))
		vals := sliceLiteralAssigned(efd, resultNames(efd, 0, "val")...)
		var lam []frac
		okLam := len(vals) == 4
		for _, e := range vals {
			f, ok := fracOf(info, e)
			if !ok {
				okLam = false
			}
			lam = append(lam, f)
		}
		if !ok1 || !ok2 || !okLam {
			fracAtoms = nil
			L.Unknown("pij-analytic", label, "eigen system", c.P.Pos(efd.Pos()), "the eigen system is not a literal of constants and parameter expressions")
			continue
		}
		// the branch-length parameter of Pij: its last parameter
		lname := ""
		if ps := pfd.Type.Params.List; len(ps) > 0 {
			last := ps[len(ps)-1]
			if len(last.Names) > 0 {
				lname = last.Names[len(last.Names)-1].Name
			}
		}
		lsym := fracSym(lname)
		var entries []frac
		for i := 0; i < 4; i++ {
			for j := 0; j < 4; j++ {
				sum := fracConst(0, 1)
				for k := 0; k < 4; k++ {
					coef := new(big.Rat).Mul(Rm[i][k], Lm[k][j])
					if coef.Sign() == 0 {
						continue
					}
					term := frac{polyConst(coef), polyConst(big.NewRat(1, 1))}
					if !(poly{}.add(lam[k].num, 1).isZero()) { // exp(0·l) = 1
						term = term.mul(sc.apply("exp", lam[k].mul(lsym)))
					}
					sum = sum.add(term)
				}
				dup := false
				for _, e := range entries {
					if e.eq(sum) {
						dup = true
					}
				}
				if !dup {
					entries = append(entries, sum)
				}
			}
		}
		// what Pij returns
		ratLocals = singleAssignLocals(info, pfd)
		var rets []frac
		okRet := true
		ast.Inspect(pfd, func(n ast.Node) bool {
			rs, ok := n.(*ast.ReturnStmt)
			if !ok || len(rs.Results) != 1 {
				return true
			}
			f, ok := fracOf(info, rs.Results[0])
			if !ok {
				okRet = false
				return true
			}
			rets = append(rets, f)
			return true
		})
		fracAtoms = nil
		if !okRet || len(rets) == 0 {
			L.Unknown("pij-analytic", label, "returned expressions", c.P.Pos(pfd.Pos()), "a returned expression is not arithmetic over the parameter, the branch length and exp()")
			continue
		}
		if os.Getenv("VERIF_DEBUG_PIJ") != "" {
			for _, e := range entries {
				fmt.Fprintf(os.Stderr, "PIJ %s entry: (%s) / (%s)\n", mname, e.num.String(), e.den.String())
			}
			for _, e := range rets {
				fmt.Fprintf(os.Stderr, "PIJ %s ret: (%s) / (%s)\n", mname, e.num.String(), e.den.String())
			}
			for _, at := range sc.atoms {
				fmt.Fprintf(os.Stderr, "PIJ %s atom %s: (%s)/(%s)\n", mname, at.name, at.args[0].num.String(), at.args[0].den.String())
			}
		}
		hit := make([]bool, len(entries))
		stray := 0
		for _, r := range rets {
			found := false
			for k, e := range entries {
				if e.eq(r) {
					hit[k] = true
					found = true
				}
			}
			if !found {
				stray++
			}
		}
		missing := 0
		for _, h := range hit {
			if !h {
				missing++
			}
		}
		L.Check(stray == 0 && missing == 0, "pij-analytic", label, "closed form = R·exp(Λl)·L", c.P.Pos(pfd.Pos()),
			fmt.Sprintf("%d returned expression(s), %d distinct entries of R·exp(Λl)·L, each matched", len(rets), len(entries)),
			fmt.Sprintf("%d returned expression(s) are not an entry of R·exp(Λl)·L of the model's own eigen system and %d distinct entries are never returned: the analytical and the eigen-decomposition transition probabilities disagree", stray, missing))
	}
	L.Floor("pij-analytic", 1, "JC and K2P")
}

// polySubst replaces every occurrence of the symbol v in p by the polynomial q.
func polySubst(p poly, v string, q poly) poly {
	out := poly{}
	for mono, coef := range p {
		k := 0
		var rest []string
		if mono != "" {
			for _, f := range strings.Split(mono, "*") {
				if f == v {
					k++
				} else {
					rest = append(rest, f)
				}
			}
		}
		term := poly{strings.Join(rest, "*"): new(big.Rat).Set(coef)}
		for i := 0; i < k; i++ {
			term = term.mul(q)
		}
		out = out.add(term, 1)
	}
	return out
}

func (a frac) subst(v string, q poly) frac {
	return frac{polySubst(a.num, v, q), polySubst(a.den, v, q)}
}

// checkF84EigenSystem: the eigen system of F84 is given symbolically in the base frequencies and
// kappa. With πT = 1 − πA − πC − πG substituted, the literals satisfy, as identities of rational
// functions: R·L = I (so P(0) = I); Q = R·diag(λ)·L has zero row sums (rows of P(t) sum to 1);
// π_i·Q_ij = π_j·Q_ji (detailed balance) and −Σ π_i·Q_ii = 1 (one expected substitution per unit
// time) — the model-independent clauses of C18, for every admissible parameter value at once.
func (c *Ctx) checkF84EigenSystem() {
	L := c.L
	fd, pk := c.methodDecl("models/dna", "F84Model", "Eigens")
	label := "models/dna.(*F84Model).Eigens"
	if fd == nil {
		return
	}
	info := pk.TypesInfo
	ratLocals = singleAssignLocals(info, fd)
	Ld := denseLiteralAssigned(info, fd, resultNames(fd, 1, "leftvectors")...)
	Rd := denseLiteralAssigned(info, fd, resultNames(fd, 2, "rightvectors")...)
	vals := sliceLiteralAssigned(fd, resultNames(fd, 0, "val")...)
	if Ld == nil || Rd == nil || len(Ld.elts) != 16 || len(Rd.elts) != 16 || len(vals) != 4 {
		L.Unknown("eigen-literal", label, "symbolic eigen system", c.P.Pos(fd.Pos()), "the eigen system is not given as 4x4 literals")
		return
	}
	piT := polyConst(big.NewRat(1, 1)).add(polyVar("piA"), -1).add(polyVar("piC"), -1).add(polyVar("piG"), -1)
	fc := &ffCtx{leaf: func(name string) (poly, bool) {
		if name == "piT" {
			return piT, true
		}
		return polyVar(name), true
	}}
	read := func(e ast.Expr) (ffrac, bool) { return fc.parse(info, e, 0) }
	var Lm, Rm [4][4]ffrac
	var lam [4]ffrac
	okAll := true
	for i := 0; i < 4; i++ {
		for j := 0; j < 4; j++ {
			var ok1, ok2 bool
			Lm[i][j], ok1 = read(Ld.elts[i*4+j])
			Rm[i][j], ok2 = read(Rd.elts[i*4+j])
			okAll = okAll && ok1 && ok2
		}
		var ok bool
		lam[i], ok = read(vals[i])
		okAll = okAll && ok
	}
	if !okAll {
		L.Unknown("eigen-literal", label, "symbolic eigen system", c.P.Pos(fd.Pos()), "an entry is not an arithmetic expression of the frequencies and kappa")
		return
	}
	zero, one := fc.constant(big.NewRat(0, 1)), fc.constant(big.NewRat(1, 1))
	pi := [4]ffrac{fc.fromPoly(polyVar("piA")), fc.fromPoly(polyVar("piC")), fc.fromPoly(polyVar("piG")), fc.fromPoly(piT)}
	var Q [4][4]ffrac
	okInv, whyInv := true, ""
	for i := 0; i < 4; i++ {
		for j := 0; j < 4; j++ {
			id, q := zero, zero
			for k := 0; k < 4; k++ {
				id = fc.add(id, fc.mul(Rm[i][k], Lm[k][j]), 1)
				q = fc.add(q, fc.mul(fc.mul(Rm[i][k], lam[k]), Lm[k][j]), 1)
			}
			Q[i][j] = q
			want := zero
			if i == j {
				want = one
			}
			if !fc.eq(id, want) && okInv {
				okInv, whyInv = false, fmt.Sprintf("(R·L)[%d][%d]", i, j)
			}
		}
	}
	L.Check(okInv, "eigen-literal", label, "R·L = I (symbolic)", c.P.Pos(Rd.pos), "16 identities of rational functions in πA, πC, πG, κ (πT = 1 − πA − πC − πG)", "the symbolic eigenvector matrices are not inverse to each other: "+whyInv+" is not the identity entry (P(0) would not be the identity)")
	okRows, okDB := true, true
	rate := zero
	for i := 0; i < 4; i++ {
		sum := zero
		for j := 0; j < 4; j++ {
			sum = fc.add(sum, Q[i][j], 1)
			if i < j && !fc.eq(fc.mul(pi[i], Q[i][j]), fc.mul(pi[j], Q[j][i])) {
				okDB = false
			}
		}
		if !fc.eq(sum, zero) {
			okRows = false
		}
		rate = fc.add(rate, fc.mul(pi[i], Q[i][i]), -1)
	}
	okRate := fc.eq(rate, one)
	L.Check(okRows && okDB && okRate, "eigen-literal", label, "R·diag(λ)·L is a reversible generator of rate 1 (symbolic)", c.P.Pos(fd.Pos()),
		"zero row sums, π_i·Q_ij = π_j·Q_ji for the six pairs, −Σ π_i·Q_ii = 1, as identities in πA, πC, πG, κ",
		fmt.Sprintf("the rate matrix reconstructed from the eigen system fails a model-independent clause (zero row sums: %v, detailed balance: %v, mean rate 1: %v)", okRows, okDB, okRate))
}

// checkExpTermsFilled: in (*Pij).SetLength the scratch vector of exp(λ_i·l) is reused between
// calls, so every entry must be rewritten by every call that recomputes the matrix: the store of
// the exponential dominates every back edge of its loop (no `continue` in front of it). A skipped
// entry keeps the term of the previous branch length.
func (c *Ctx) checkExpTermsFilled(rule string) {
	L := c.L
	L.Rule(rule, "in (*Pij).SetLength the store of exp(λ_i·l) into the reused scratch vector is executed in every iteration of its loop (its block dominates every back edge): no entry keeps the value of an earlier branch length")
	r := c.fn("models", "*Pij", "SetLength")
	if !r.ok() {
		return
	}
	fn := r.F
	n := 0
	loops := naturalLoops(fn)
	allInstrs(fn, func(in ssa.Instruction) {
		st, ok := in.(*ssa.Store)
		if !ok {
			return
		}
		if _, isIA := st.Addr.(*ssa.IndexAddr); !isIA {
			return
		}
		v := st.Val
		for {
			if cv, ok := v.(*ssa.Convert); ok {
				v = cv.X
				continue
			}
			break
		}
		call, ok := v.(*ssa.Call)
		if !ok || !isPkgFunc(call.Common(), "math", "Exp") {
			return
		}
		var lp *loop
		for _, l := range loops {
			if l.Blocks[st.Block()] && (lp == nil || len(l.Blocks) < len(lp.Blocks)) {
				lp = l
			}
		}
		if lp == nil {
			return
		}
		n++
		okAll := true
		for i, p := range lp.Head.Preds {
			_ = i
			if lp.Blocks[p] && !st.Block().Dominates(p) {
				okAll = false
			}
		}
		L.Check(okAll, rule, r.label, "every eigen term rewritten", c.P.Pos(st.Pos()), "the store dominates every back edge of its loop",
			"an iteration of the loop can skip the store of exp(λ_i·l): the reused scratch entry keeps the term computed for the previous branch length")
	})
	if n == 0 {
		L.Unknown(rule, r.label, "every eigen term rewritten", c.P.Pos(fn.Pos()), "no store of math.Exp into a vector inside a loop found")
	}
	L.Floor(rule, 1, "one loop")
}
