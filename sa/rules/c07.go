package rules

import (
	"fmt"
	"go/token"
	"go/types"
	"sort"
	"strings"

	"golang.org/x/tools/go/ssa"
)

func init() {
	register(&Property{ID: "C07", Run: runC07,
		Explanation: "Static decision of the undefined-value, matrix-shape, table and weighting clauses of C07: in every Distance method of the seven models no float comparison whose operand can be NaN (saturated pair) leads, on the branch taken by NaN, to the return of a constant (an undefined estimator is never reported as 0 or another small constant); every store outmatrix[i][j] in DistMatrix is paired with a store of the same value to outmatrix[j][i], diagonal stores are the constant 0; the replacement branch covers negative, +Inf and > NT_DIST_OVER values, the running maximum is updated only from accepted values and the substitute is 2*max written to both cells; the nucleotide bit-mask tables agree with the IUPAC code; every model initialises its site selection and integer encoding through the same helpers and passes its own selection and the caller's weights to its counter; in every counter each accumulation inside the site loop adds a term that carries the site weight, the weight is read at the site index and its lookup does not depend on the residues. Not decided: the coefficients of each closed form, base frequencies, gamma variants, the lower bound by the p-distance."})
}

var dnaModels = []string{"JCModel", "K2PModel", "F81Model", "F84Model", "TN93Model", "PDistModel", "RawDistModel"}

func runC07(c *Ctx) {
	L := c.L
	c.checkNaNClamp()
	c.checkMutationClasses("mutation-classes")
	c.checkRecordedParams("options-recorded", "distance/dna", "InitModel")
	L.Floor("options-recorded", 4, "gamma and alpha of the five corrected models")
	c.checkResidueIndexTables("residue-index-tables")
	if c.Thorough() {
		c.checkIntQuotientShares("truncated-share")
	} else {
		c.checkIntQuotientShares("truncated-share", "distance/dna", "align")
	}
	c.checkIupacPairTables("iupac-pair-tables")
	c.checkDiagonalNotComputed("diagonal-not-computed")
	c.checkSymmetricStores(c.fn("distance/dna", "", "DistMatrix"), "outmatrix")
	c.checkSubstitutionBranch()
	c.checkIupacTables()
	c.checkModelSiblings()
	c.checkWeightedAccumulation("weighted-accumulation")
	L.Floor("weighted-accumulation", 6, "accumulations in the five counters and probaNt (floor = half of the instances on the pinned tree: a clean-up may merge instances, a rule that sees nothing must still fail)")
	L.Rule("accumulator-reset", "in InitModel, a receiver field that is accumulated into (m.f = m.f + x) is assigned afresh earlier in the same call on every path, so that initialising the same model object for another alignment does not start from the previous value")
	nAcc := 0
	for _, m := range dnaModels {
		nAcc += c.checkAccumulatorReset("accumulator-reset", c.fn("distance/dna", "*"+m, "InitModel"))
	}
	L.Floor("accumulator-reset", 1, "F81's b1")
	c.checkFullScan("full-scan", "distance/dna", "selectedSites")
	L.Floor("full-scan", 2, "site loop and sequence loop of the gap-site selection")
	L.Trusts("IEEE-754 comparison semantics: every ordered comparison with NaN is false, != is true")
	c.checkSelectedSitesOnly("selected-sites-only")
	c.checkArgNameOrder("arg-name-order", "distance/dna", "cmd")
	c.checkEstimatorFormulas("estimator-formula")
	c.checkPairedLines("paired-lines", "distance/dna", "align")
}

// ---------------------------------------------------------------------------
// R1 NaN-unsafe clamp

func derivesFromFloatOp(v ssa.Value) bool {
	seen := map[ssa.Value]bool{}
	var rec func(v ssa.Value) bool
	rec = func(v ssa.Value) bool {
		if v == nil || seen[v] {
			return false
		}
		seen[v] = true
		switch x := v.(type) {
		case *ssa.Call:
			if f := x.Common().StaticCallee(); f != nil && f.Pkg != nil && f.Pkg.Pkg.Path() == "math" {
				switch f.Name() {
				case "Log", "Pow", "Sqrt", "Log2", "Log10", "Log1p", "Acos", "Asin":
					return true
				}
			}
			return false
		case *ssa.BinOp:
			if x.Op == token.QUO && isFloatValue(x) {
				return true
			}
			return rec(x.X) || rec(x.Y)
		case *ssa.UnOp:
			return rec(x.X)
		case *ssa.Phi:
			for _, e := range x.Edges {
				if rec(e) {
					return true
				}
			}
		case *ssa.Convert:
			return rec(x.X)
		}
		return false
	}
	return rec(v)
}

func (c *Ctx) checkNaNClamp() {
	L := c.L
	L.Rule("nan-clamp", "in a Distance method, for every branch on an ordered float comparison (or ==) whose operand derives from math.Log, math.Pow or a division, the successor taken when the operand is NaN must not return a float constant: a saturated pair (undefined estimator) would be reported as that constant; methods without such a branch return the computed value unchanged")
	n := 0
	for _, m := range dnaModels {
		r := c.fn("distance/dna", "*"+m, "Distance")
		if !r.ok() {
			continue
		}
		fn := r.F
		found := 0
		for _, b := range fn.Blocks {
			ifi, ok := b.Instrs[len(b.Instrs)-1].(*ssa.If)
			if !ok {
				continue
			}
			bo, ok := ifi.Cond.(*ssa.BinOp)
			if !ok || !isFloatValue(bo.X) {
				continue
			}
			if !derivesFromFloatOp(bo.X) && !derivesFromFloatOp(bo.Y) {
				continue
			}
			found++
			n++
			nanSucc := b.Succs[1]
			if bo.Op == token.NEQ {
				nanSucc = b.Succs[0]
			}
			// follow jumps
			cur, prev := nanSucc, b
			for steps := 0; steps < 4; steps++ {
				if _, isJ := cur.Instrs[len(cur.Instrs)-1].(*ssa.Jump); isJ && len(cur.Instrs) == 1 {
					prev, cur = cur, cur.Succs[0]
					continue
				}
				break
			}
			rhs := "value"
			if k := constOf(bo.Y); k != nil {
				rhs = k.ExactString()
			}
			name := fmt.Sprintf("branch on estimator %s %s", bo.Op, rhs)
			ret, isRet := cur.Instrs[len(cur.Instrs)-1].(*ssa.Return)
			if !isRet {
				L.OK("nan-clamp", r.label, name, c.P.Pos(bo.Pos()), "the NaN successor does not return directly")
				continue
			}
			res := ret.Results[0]
			if phi, isPhi := res.(*ssa.Phi); isPhi && phi.Block() == cur {
				for i, p := range cur.Preds {
					if p == prev {
						res = phi.Edges[i]
					}
				}
			}
			if k := constOf(res); k != nil {
				f, _ := cFloat(k)
				L.Bad("nan-clamp", r.label, name, c.P.Pos(bo.Pos()),
					fmt.Sprintf("when the estimator is NaN (saturated pair: logarithm or power of a non-positive number) this comparison is false and the method returns the constant %g: an undefined distance is reported as %g", f, f))
			} else {
				L.OK("nan-clamp", r.label, name, c.P.Pos(bo.Pos()), "the NaN successor returns the computed value (NaN stays NaN)")
			}
		}
		if found == 0 {
			n++
			L.OK("nan-clamp", r.label, "no branch on the estimator", c.P.Pos(fn.Pos()), "the computed value is returned unchanged")
		}
	}
	L.Floor("nan-clamp", 3, "seven models (floor = half of the instances on the pinned tree: a clean-up may merge instances, a rule that sees nothing must still fail)")
}

// ---------------------------------------------------------------------------
// R2 symmetric stores into a [][]float64 result

type cell2 struct {
	st   *ssa.Store
	a, b string // canonical row / column index
	aV   ssa.Value
}

func matrixStores(lc *linCtx, fn *ssa.Function) []cell2 {
	var out []cell2
	for _, g := range withAnons(fn) {
		glc := lc
		if g != fn {
			glc = newLinCtx(lc.c, g)
		}
		allInstrs(g, func(in ssa.Instruction) {
			st, ok := in.(*ssa.Store)
			if !ok || !isFloatValue(st.Val) {
				return
			}
			ia, ok := st.Addr.(*ssa.IndexAddr)
			if !ok {
				return
			}
			row, ok := ia.X.(*ssa.UnOp)
			if !ok || row.Op != token.MUL {
				return
			}
			ria, ok := row.X.(*ssa.IndexAddr)
			if !ok {
				return
			}
			out = append(out, cell2{st, glc.canonIdx(ria.Index), glc.canonIdx(ia.Index), ria.X})
		})
	}
	return out
}

// canonIdx: canonical rendering of an index value (integer linear form, with
// struct-field loads rendered by their access path).
func (lc *linCtx) canonIdx(v ssa.Value) string {
	if fl, ok := v.(*ssa.Field); ok {
		return lc.canon(fl.X) + "." + fieldName(fl.X.Type(), fl.Field)
	}
	if ex, ok := v.(*ssa.Extract); ok {
		return lc.canon(ex)
	}
	return lc.of(v).String()
}

func (c *Ctx) checkSymmetricStores(r *fnRef, _ string) {
	if !r.ok() {
		return
	}
	L := c.L
	L.Rule("symmetric-stores", "every store m[i][j] = v with i ≠ j into the result matrix is paired, in the same function, with a store m[j][i] = v' where v' is the same value, a load of m[i][j], or the same expression; a store m[i][i] stores the constant 0")
	lc := newLinCtx(c, r.F)
	cells := matrixStores(lc, r.F)
	n := 0
	for _, x := range cells {
		n++
		name := stable(fmt.Sprintf("m[%s][%s]", x.a, x.b))
		fname := c.P.FuncName(x.st.Parent())
		if x.a == x.b {
			k := constOf(x.st.Val)
			f, _ := cFloat(k)
			L.Check(k != nil && f == 0, "symmetric-stores", fname, name+" (diagonal)", c.P.Pos(x.st.Pos()), "diagonal store of the constant 0", "a diagonal cell is set to something other than the constant 0")
			continue
		}
		paired := false
		for _, y := range cells {
			if y.st == x.st || y.st.Parent() != x.st.Parent() || y.a != x.b || y.b != x.a {
				continue
			}
			if y.st.Val == x.st.Val {
				paired = true
			}
			// one of the two is a load of the other cell
			for _, pr := range [][2]cell2{{x, y}, {y, x}} {
				if u, ok := pr[1].st.Val.(*ssa.UnOp); ok && u.Op == token.MUL {
					if ia, ok := u.X.(*ssa.IndexAddr); ok {
						if row, ok := ia.X.(*ssa.UnOp); ok {
							if ria, ok := row.X.(*ssa.IndexAddr); ok {
								glc := newLinCtx(c, pr[1].st.Parent())
								if glc.canonIdx(ria.Index) == pr[0].a && glc.canonIdx(ia.Index) == pr[0].b {
									paired = true
								}
							}
						}
					}
				}
			}
			// same expression (2*max evaluated twice)
			if bx, ok := x.st.Val.(*ssa.BinOp); ok {
				if by, ok := y.st.Val.(*ssa.BinOp); ok && bx.Op == by.Op && sameOperand(bx.X, by.X) && sameOperand(bx.Y, by.Y) {
					paired = true
				}
			}
		}
		if paired {
			L.OK("symmetric-stores", fname, name, c.P.Pos(x.st.Pos()), "paired with a store of the same value to the mirrored cell")
		} else {
			L.Bad("symmetric-stores", fname, name, c.P.Pos(x.st.Pos()), "no store of the same value to the mirrored cell m["+x.b+"]["+x.a+"] in this function: the matrix is not symmetric")
		}
	}
	L.Floor("symmetric-stores", 2, "diagonal, worker pair, substitution pair (floor = half of the instances on the pinned tree: a clean-up may merge instances, a rule that sees nothing must still fail)")
}

func sameOperand(a, b ssa.Value) bool {
	if a == b {
		return true
	}
	ka, kb := constOf(a), constOf(b)
	if ka != nil && kb != nil {
		return ka.ExactString() == kb.ExactString()
	}
	ua, ok1 := a.(*ssa.UnOp)
	ub, ok2 := b.(*ssa.UnOp)
	if ok1 && ok2 && ua.Op == token.MUL && ub.Op == token.MUL && ua.X == ub.X {
		return true // two loads of the same cell
	}
	return false
}

// ---------------------------------------------------------------------------
// R3 replacement branch

func (c *Ctx) checkSubstitutionBranch() {
	L := c.L
	L.Rule("substitute-branch", "the worker compares the computed distance with 0 (<), +Inf (==) and NT_DIST_OVER (>) and collects the pair for replacement when any holds; otherwise (and only then) the running maximum is raised when the distance exceeds it; after the join every collected pair gets 2*max")
	r := c.fn("distance/dna", "", "DistMatrix")
	if !r.ok() {
		return
	}
	over := constByName(c.P.Pkg("distance/dna"), "NT_DIST_OVER")
	overF, _ := cFloat(over)
	var have = map[string]*ssa.BinOp{}
	var maxStore *ssa.Store
	for _, g := range withAnons(r.F) {
		allInstrs(g, func(in ssa.Instruction) {
			switch x := in.(type) {
			case *ssa.BinOp:
				if !isFloatValue(x.X) {
					return
				}
				if x.Op == token.LSS && isFloatConst(x.Y, 0) {
					have["<0"] = x
				}
				if x.Op == token.EQL {
					if args, ok := isCallTo(x.Y, "math", "Inf"); ok {
						if k, ok := constInt(args[0]); ok && k > 0 {
							have["==+Inf"] = x
						}
					}
				}
				if x.Op == token.GTR && over != nil && isFloatConst(x.Y, overF) {
					have[">over"] = x
				}
			case *ssa.Store:
				if fv, ok := x.Addr.(*ssa.FreeVar); ok && fv.Name() == "max" {
					maxStore = x
				}
			}
		})
	}
	for _, k := range []string{"<0", "==+Inf", ">over"} {
		if bo, ok := have[k]; ok {
			L.OK("substitute-branch", r.label, "distance "+k, c.P.Pos(bo.Pos()), "comparison present in the worker")
		} else {
			L.Bad("substitute-branch", r.label, "distance "+k, c.P.Pos(r.F.Pos()), "the replacement condition no longer tests `distance "+k+"`: such values stay in the matrix or enter the maximum")
		}
	}
	// max raised only when none of the three holds and value > max
	if maxStore == nil {
		L.Bad("substitute-branch", r.label, "running maximum", c.P.Pos(r.F.Pos()), "no store to max in the workers")
	} else {
		b := maxStore.Block()
		wf := maxStore.Parent()
		bf := computeBranchFacts(wf)
		glc := newLinCtx(c, wf)
		same := func(a, bb ssa.Value) bool { return a == bb || sameOperand(a, bb) || glc.canon(a) == glc.canon(bb) }
		isMaxLoad := func(v ssa.Value) bool {
			u, ok := v.(*ssa.UnOp)
			return ok && u.Op == token.MUL && u.X == maxStore.Addr
		}
		// the store is reached only when `value > max` is known true …
		okGuard := false
		allInstrs(wf, func(in ssa.Instruction) {
			bo, ok := in.(*ssa.BinOp)
			if !ok {
				return
			}
			var g bool
			switch bo.Op {
			case token.GTR:
				g = same(bo.X, maxStore.Val) && isMaxLoad(bo.Y)
			case token.LSS:
				g = same(bo.Y, maxStore.Val) && isMaxLoad(bo.X)
			}
			if g && bf.knownAt(b, bo, true) {
				okGuard = true
			}
		})
		// … and each of the three replacement tests, on the same value, is known false
		okElse := true
		for _, k := range []string{"<0", "==+Inf", ">over"} {
			bo := have[k]
			if bo == nil || bo.Parent() != wf || !same(bo.X, maxStore.Val) || !bf.knownAt(b, bo, false) {
				okElse = false
			}
		}
		L.Check(okGuard && okElse, "substitute-branch", r.label, "running maximum", c.P.Pos(maxStore.Pos()),
			"on every path to the assignment of max the three replacement tests on the same value came out false and `distance > max` came out true (branch facts, independent of if/else/switch/named-boolean shape)",
			fmt.Sprintf("max can be raised by a value that is being replaced, or without the > max guard (guard: %v, else-only: %v)", okGuard, okElse))
	}
	// final substitution: both stores are 2*max
	lc := newLinCtx(c, r.F)
	nSub := 0
	for _, x := range matrixStores(lc, r.F) {
		if x.st.Parent() != r.F {
			continue
		}
		if bo, ok := x.st.Val.(*ssa.BinOp); ok && bo.Op == token.MUL {
			if isFloatConst(bo.X, 2) || isFloatConst(bo.Y, 2) {
				nSub++
			}
		}
	}
	L.Check(nSub == 2, "substitute-branch", r.label, "substitute is 2*max in both cells", c.P.Pos(r.F.Pos()), "two stores of 2*max after the join", fmt.Sprintf("%d stores of 2*max after the join, want 2", nSub))
	L.Floor("substitute-branch", 2, "three tests, maximum, substitute (floor = half of the instances on the pinned tree: a clean-up may merge instances, a rule that sees nothing must still fail)")
}

// ---------------------------------------------------------------------------
// R5 sibling agreement of the models

func (c *Ctx) checkModelSiblings() {
	L := c.L
	L.Rule("model-siblings", "every model's InitModel stores selectedSites(al, weights, m.removegaps) into m.selectedSites (and m.numSites) and alignmentToCodes(al) into m.sequenceCodes, unconditionally (on every path to a normal return: nothing is cached from a previous alignment); every Distance passes m.selectedSites and its own weights parameter to the counter it calls")
	for _, m := range dnaModels {
		ri := c.fn("distance/dna", "*"+m, "InitModel")
		if ri.ok() {
			fn := ri.F
			okSel, okCodes := false, false
			allInstrs(fn, func(in ssa.Instruction) {
				call, ok := in.(*ssa.Call)
				if !ok {
					return
				}
				f := call.Common().StaticCallee()
				if f == nil {
					return
				}
				switch f.Name() {
				case "selectedSites":
					a := call.Common().Args
					rg := false
					if _, fl, base := loadedField(a[2]); base != nil && fl == "removegaps" && base == ssa.Value(fn.Params[0]) {
						rg = true
					}
					if a[0] == ssa.Value(fn.Params[1]) && a[1] == ssa.Value(fn.Params[2]) && rg && resultStoredToField(call, 1, "selectedSites") && c.callExecutedOnAllPaths(fn, call) {
						okSel = true
					}
				case "alignmentToCodes":
					if call.Common().Args[0] == ssa.Value(fn.Params[1]) && resultStoredToField(call, 0, "sequenceCodes") && c.callExecutedOnAllPaths(fn, call) {
						okCodes = true
					}
				}
			})
			L.Check(okSel && okCodes, "model-siblings", ri.label, "site selection and encoding", c.P.Pos(fn.Pos()),
				"m.selectedSites = selectedSites(al, weights, m.removegaps); m.sequenceCodes = alignmentToCodes(al)",
				fmt.Sprintf("initialisation differs from the sibling models (selection: %v, encoding: %v)", okSel, okCodes))
		}
		rd := c.fn("distance/dna", "*"+m, "Distance")
		if rd.ok() {
			fn := rd.F
			n, okAll := 0, true
			allInstrs(fn, func(in ssa.Instruction) {
				call, ok := in.(*ssa.Call)
				if !ok {
					return
				}
				f := call.Common().StaticCallee()
				if f == nil || !strings.HasPrefix(f.Name(), "count") {
					return
				}
				n++
				a := call.Common().Args
				if len(a) < 4 {
					okAll = false
					return
				}
				selOK := false
				if _, fl, base := loadedField(a[2]); base != nil && fl == "selectedSites" && base == ssa.Value(fn.Params[0]) {
					selOK = true
				}
				if !(a[0] == ssa.Value(fn.Params[1]) && a[1] == ssa.Value(fn.Params[2]) && selOK && a[3] == ssa.Value(fn.Params[3])) {
					okAll = false
				}
			})
			L.Check(n > 0 && okAll, "model-siblings", rd.label, "counter arguments", c.P.Pos(fn.Pos()),
				fmt.Sprintf("%d counter call(s) receive (seq1, seq2, m.selectedSites, weights)", n),
				"a counter is not called with (seq1, seq2, m.selectedSites, weights): the site selection or the site weights are lost")
		}
	}
	L.Floor("model-siblings", 7, "7 InitModel + 7 Distance (floor = half of the instances on the pinned tree: a clean-up may merge instances, a rule that sees nothing must still fail)")
}

func resultStoredToField(call *ssa.Call, idx int, field string) bool {
	check := func(v ssa.Value) bool {
		if refs := v.Referrers(); refs != nil {
			for _, r := range *refs {
				if st, ok := r.(*ssa.Store); ok && st.Val == v {
					if _, f, fa := fieldAddrOf(st.Addr); fa != nil && f == field {
						return true
					}
				}
			}
		}
		return false
	}
	if call.Type().(interface{ Underlying() types.Type }) != nil {
		if _, isTuple := call.Type().(*types.Tuple); isTuple {
			for _, r := range *call.Referrers() {
				if ex, ok := r.(*ssa.Extract); ok && ex.Index == idx && check(ex) {
					return true
				}
			}
			return false
		}
	}
	return check(call)
}

// ---------------------------------------------------------------------------
// R6 weighted accumulation (shared with C08)

var dnaCounters = []string{"countMutations", "countDiffs", "countDiffsWithGaps", "countDiffsWithInternalGaps", "probaNt", "probaNt2Seqs"}

func (c *Ctx) checkWeightedAccumulation(rule string) {
	L := c.L
	L.Rule(rule, "in every pairwise counter and in the base-frequency estimators, each floating-point accumulation inside the site loop adds (or subtracts) a term computed from the site weight; the weight is weights[k] for the same index k as the residues read in that iteration (1 when weights is nil); and the weight lookup is not control-dependent on the residues. Together these make every count linear in the site weights (integer weight k ≡ k-fold replication)")
	for _, nme := range dnaCounters {
		r := c.fn("distance/dna", "", nme)
		if !r.ok() {
			continue
		}
		fn := r.F
		lc := newLinCtx(c, fn)
		wp := paramByName(fn, "weights")
		if wp == nil {
			L.Unknown(rule, r.label, "weights parameter", c.P.Pos(fn.Pos()), "not found")
			continue
		}
		// weight sources: a load weights[k] in the function, or a call of a helper of the module
		// that returns p[q] (or the constant 1 when p is nil) for parameters bound to weights and k
		type wsrc struct {
			v  ssa.Value
			ix ssa.Value
		}
		var wloads []wsrc
		allInstrs(fn, func(in ssa.Instruction) {
			if u, ok := in.(*ssa.UnOp); ok && u.Op == token.MUL {
				if ia, ok := u.X.(*ssa.IndexAddr); ok && ia.X == ssa.Value(wp) {
					wloads = append(wloads, wsrc{u, ia.Index})
				}
			}
			if call, ok := in.(*ssa.Call); ok {
				if ix := weightHelperIndex(call, wp); ix != nil {
					wloads = append(wloads, wsrc{call, ix})
				}
			}
		})
		if len(wloads) == 0 {
			L.Bad(rule, r.label, "weight lookup", c.P.Pos(fn.Pos()), "the counter never reads weights[...]: site weights are ignored")
			continue
		}
		// residue index: index of loads from []uint8 parameters (or rows of [][]uint8)
		resIdx := map[string]bool{}
		allInstrs(fn, func(in ssa.Instruction) {
			if u, ok := in.(*ssa.UnOp); ok && u.Op == token.MUL {
				if ia, ok := u.X.(*ssa.IndexAddr); ok {
					if sl, ok := ia.X.Type().Underlying().(*types.Slice); ok {
						if b, ok := sl.Elem().Underlying().(*types.Basic); ok && b.Kind() == types.Uint8 {
							resIdx[lc.of(ia.Index).String()] = true
						}
					}
				}
			}
		})
		for _, ws := range wloads {
			wl := ws.v.(ssa.Instruction)
			ix := lc.of(ws.ix).String()
			name := "weights[" + stable(ix) + "]"
			// index agreement
			if !resIdx[ix] {
				L.Bad(rule, r.label, name+" index", c.P.Pos(wl.Pos()), "the weight is read at an index at which no residue is read in this function")
				continue
			}
			// control independence from residues
			dep := ""
			for d := wl.Block(); d != nil; d = d.Idom() {
				for _, p := range d.Preds {
					ifi, ok := p.Instrs[len(p.Instrs)-1].(*ssa.If)
					if !ok || !p.Dominates(wl.Block()) || p.Succs[0] == p.Succs[1] {
						continue
					}
					if wl.Block().Dominates(p) {
						continue // a test made after the lookup (the edge is a back edge of the site loop)
					}
					// only consider Ifs where exactly one successor leads to the load
					r0 := p.Succs[0] == d || p.Succs[0].Dominates(wl.Block())
					r1 := p.Succs[1] == d || p.Succs[1].Dominates(wl.Block())
					if r0 == r1 {
						continue
					}
					if condMentionsResidue(ifi.Cond) {
						dep = c.P.Pos(ifi.Cond.Pos())
						if dep == "-" {
							dep = c.P.Pos(wl.Pos())
						}
					}
				}
			}
			if dep != "" {
				L.Bad(rule, r.label, name+" lookup", c.P.Pos(wl.Pos()), "the weight lookup executes only on a branch that depends on the residues (condition at "+dep+"): other sites are counted with weight 1")
			} else {
				L.OK(rule, r.label, name+" lookup", c.P.Pos(wl.Pos()), "read at the residue index, control-independent of the residues")
			}
		}
		// accumulations inside the loops
		loops := naturalLoops(fn)
		allInstrs(fn, func(in ssa.Instruction) {
			bo, ok := in.(*ssa.BinOp)
			if !ok || (bo.Op != token.ADD && bo.Op != token.SUB) || !isFloatValue(bo) {
				return
			}
			if innermostLoopOf(loops, bo.Block()) == nil {
				return
			}
			// accumulator: X is a loop-carried φ that (transitively) merges bo, or a load of an element that bo is stored back to
			acc := false
			if phiCycle(bo.X, bo) {
				acc = true
			}
			if u, ok := bo.X.(*ssa.UnOp); ok && u.Op == token.MUL {
				if ia, ok := u.X.(*ssa.IndexAddr); ok {
					for _, ref := range *bo.Referrers() {
						if st, ok := ref.(*ssa.Store); ok {
							if ia2, ok := st.Addr.(*ssa.IndexAddr); ok && ia2.X == ia.X {
								acc = true
							}
						}
					}
				}
			}
			if !acc {
				return
			}
			carries := false
			for _, ws := range wloads {
				if mentions(bo.Y, ws.v) {
					carries = true
				}
			}
			name := stable("accumulation " + accName(bo))
			if carries {
				L.OK(rule, r.label, name, c.P.Pos(bo.Pos()), "the added term is computed from the site weight")
			} else {
				L.Bad(rule, r.label, name, c.P.Pos(bo.Pos()), "the term added to the accumulator does not depend on the site weight: the count is not linear in the weights")
			}
		})
	}
}

// weightHelperIndex: call is helper(…, weights, …, k, …) where every value the helper returns is
// either p[q] for the parameter p bound to weights and an integer parameter q, or the constant 1;
// returns the argument bound to q.
func weightHelperIndex(call *ssa.Call, wp ssa.Value) ssa.Value {
	cc := call.Common()
	g := cc.StaticCallee()
	if g == nil || len(g.Blocks) == 0 || len(g.Params) != len(cc.Args) || g.Signature.Results().Len() != 1 {
		return nil
	}
	pi := -1
	for i, a := range cc.Args {
		if a == wp {
			pi = i
		}
	}
	if pi < 0 {
		return nil
	}
	qi := -1
	okAll, anyLoad := true, false
	var leaf func(v ssa.Value, depth int)
	leaf = func(v ssa.Value, depth int) {
		if depth > 4 {
			okAll = false
			return
		}
		switch x := v.(type) {
		case *ssa.Phi:
			for _, e := range x.Edges {
				leaf(e, depth+1)
			}
		case *ssa.Const:
			if !isFloatConst(x, 1) {
				okAll = false
			}
		case *ssa.UnOp:
			ia, ok := x.X.(*ssa.IndexAddr)
			if x.Op != token.MUL || !ok || ia.X != ssa.Value(g.Params[pi]) {
				okAll = false
				return
			}
			q, ok := ia.Index.(*ssa.Parameter)
			if !ok {
				okAll = false
				return
			}
			for i, p := range g.Params {
				if p == q {
					if qi >= 0 && qi != i {
						okAll = false
					}
					qi = i
				}
			}
			anyLoad = true
		default:
			okAll = false
		}
	}
	allInstrs(g, func(in ssa.Instruction) {
		if r, ok := in.(*ssa.Return); ok && len(r.Results) == 1 {
			leaf(r.Results[0], 0)
		}
	})
	if !okAll || !anyLoad || qi < 0 {
		return nil
	}
	return cc.Args[qi]
}

func accName(bo *ssa.BinOp) string {
	if refs := bo.Referrers(); refs != nil {
		for _, r := range *refs {
			if d, ok := r.(*ssa.DebugRef); ok {
				return types.ExprString(d.Expr)
			}
		}
	}
	if p, ok := bo.X.(*ssa.Phi); ok && p.Comment != "" {
		return p.Comment + " " + bo.Op.String() + "="
	}
	return bo.Op.String() + "="
}

// phiCycle: v is a φ (or chain of φs) one of whose inputs is target.
func phiCycle(v ssa.Value, target ssa.Value) bool {
	seen := map[ssa.Value]bool{}
	var rec func(v ssa.Value) bool
	rec = func(v ssa.Value) bool {
		if seen[v] {
			return false
		}
		seen[v] = true
		p, ok := v.(*ssa.Phi)
		if !ok {
			return false
		}
		for _, e := range p.Edges {
			if e == target || rec(e) {
				return true
			}
		}
		return false
	}
	return rec(v)
}

func condMentionsResidue(cond ssa.Value) bool {
	seen := map[ssa.Value]bool{}
	var rec func(v ssa.Value) bool
	rec = func(v ssa.Value) bool {
		if v == nil || seen[v] {
			return false
		}
		seen[v] = true
		switch x := v.(type) {
		case *ssa.UnOp:
			if x.Op == token.MUL {
				if ia, ok := x.X.(*ssa.IndexAddr); ok {
					if sl, ok := ia.X.Type().Underlying().(*types.Slice); ok {
						if b, ok := sl.Elem().Underlying().(*types.Basic); ok && b.Kind() == types.Uint8 {
							return true
						}
					}
				}
				return false
			}
			return rec(x.X)
		case *ssa.BinOp:
			return rec(x.X) || rec(x.Y)
		case *ssa.Call:
			for _, a := range x.Common().Args {
				if rec(a) {
					return true
				}
			}
		case *ssa.Phi:
			for _, e := range x.Edges {
				if rec(e) {
					return true
				}
			}
		case *ssa.Convert:
			return rec(x.X)
		}
		return false
	}
	return rec(cond)
}

var _ = sort.Strings
