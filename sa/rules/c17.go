package rules

import (
	"fmt"
	"go/token"
	"sort"
	"strings"

	"golang.org/x/tools/go/ssa"
)

func init() {
	register(&Property{ID: "C17", Run: runC17,
		Explanation: "Static decision of the matrix-shape, range, clamp, bookkeeping and input clauses of C17: in MLDist and JC69Dist every off-diagonal Set of a returned matrix is paired with the mirrored Set of the same value (or a copy of the cell) and the diagonal is never set (it stays at the zero of a new matrix); every value that reaches dist.Set in MLDist is a constant inside [0, PROT_DIST_MAX] or has passed the `>= PROT_DIST_MAX` cap, pairs without an unambiguous difference get the constant 0; lk_Dist clamps the branch length to [BL_MIN, BL_MAX] before computing transition probabilities; in the Brent search the bracketing points and their function values are moved together (a point never keeps the value of another point); the site-selection helpers scan every sequence and every site; the computations never write the alignment. One recorded finding: a pair with no comparable selected site is given the constant -1. Not decided: that the Brent result maximises the likelihood, permutation equivariance."})
}

func runC17(c *Ctx) {
	L := c.L
	c.checkNoLibraryGlobalWrites("library-global-state")
	if c.Thorough() {
		// thorough tier: every package of the module (frequency and weight tables elsewhere)
		c.checkNormaliserSums("normaliser-sum")
	} else {
		c.checkNormaliserSums("normaliser-sum", "distance/protein")
	}
	c.checkLikelihoodSumComplete("likelihood-sum-complete")
	c.checkKeptResults("result-not-kept", "distance/protein", "distance/dna", "models")
	c.checkResidueIndexTables("residue-index-tables")
	c.checkEigenTerms("eigen-terms")
	c.checkDenseSymmetry()
	c.checkDistRange()
	c.checkBranchClamp()
	c.checkBrentPairs()
	L.Rule("fresh-per-pair", "checkAmbiguities assigns both ambiguity masks of the pair from make(...) unconditionally (fresh, all-false masks for every pair) and stores true only under isAmbigu of the same position")
	if r := c.fn("distance/protein", "", "checkAmbiguities"); r.ok() {
		for _, fld := range []string{"seq1Ambigu", "seq2Ambigu"} {
			ok := false
			allInstrs(r.F, func(in ssa.Instruction) {
				st, isSt := in.(*ssa.Store)
				if !isSt {
					return
				}
				if _, f, fa := fieldAddrOf(st.Addr); fa != nil && f == fld {
					if _, isMk := st.Val.(*ssa.MakeSlice); isMk {
						if all, _ := mustBeforeReturn(r.F, func(x ssa.Instruction) bool { return x == in }); all {
							ok = true
						}
					}
				}
			})
			L.Check(ok, "fresh-per-pair", r.label, "mask "+fld, c.P.Pos(r.F.Pos()), "assigned a fresh slice on every path", "the mask is not re-allocated for every pair: ambiguity flags of an earlier pair hide sites of later pairs")
		}
	}
	L.Floor("fresh-per-pair", 2, "two masks")
	c.checkFullScan("full-scan", "distance/protein", "selectedSites")
	L.Floor("full-scan", 2, "site loop and sequence loop")
	c.purityObligations("input-unmodified", []purityTarget{
		{"distance/protein", "*ProtDistModel", "MLDist", []int{1, 2}},
		{"distance/protein", "*ProtDistModel", "JC69Dist", []int{1, 2}},
		{"distance/protein", "", "aaFrequency", []int{0, 1}},
		{"distance/protein", "", "selectedSites", []int{0, 1}},
	})
	L.Floor("input-unmodified", 4, "four functions, two inputs each (floor = half of the instances on the pinned tree: a clean-up may merge instances, a rule that sees nothing must still fail)")
	c.checkSiteSelectionFresh("site-selection-fresh")
	c.checkPairScanFull("pair-scan-full")
	c.checkProteinJCFormula("jc-formula")
	c.checkArgNameOrder("arg-name-order", "distance/protein", "models", "models/protein")
	c.checkPairedLines("paired-lines", "distance/protein", "models", "models/protein")
}

// denseSet describes a call M.Set(i, j, v) on a gonum Dense.
type denseSet struct {
	call    *ssa.Call
	m       ssa.Value
	i, j    string
	v       ssa.Value
	iV, jV  ssa.Value
	matName string
}

func denseSets(lc *linCtx, fn *ssa.Function) []denseSet {
	var out []denseSet
	allInstrs(fn, func(in ssa.Instruction) {
		call, ok := in.(*ssa.Call)
		if !ok {
			return
		}
		f := call.Common().StaticCallee()
		if f == nil || f.Name() != "Set" || f.Pkg == nil || !strings.HasSuffix(f.Pkg.Pkg.Path(), "gonum/mat") {
			return
		}
		a := call.Common().Args
		out = append(out, denseSet{call: call, m: a[0], i: lc.of(a[1]).String(), j: lc.of(a[2]).String(), v: a[3], iV: a[1], jV: a[2]})
	})
	return out
}

func isDenseAt(v ssa.Value) (m, i, j ssa.Value, ok bool) {
	call, isCall := v.(*ssa.Call)
	if !isCall {
		return nil, nil, nil, false
	}
	f := call.Common().StaticCallee()
	if f == nil || f.Name() != "At" || f.Pkg == nil || !strings.HasSuffix(f.Pkg.Pkg.Path(), "gonum/mat") {
		return nil, nil, nil, false
	}
	a := call.Common().Args
	return a[0], a[1], a[2], true
}

func (c *Ctx) checkDenseSymmetry() {
	L := c.L
	L.Rule("symmetric-sets", "for every returned matrix M, each M.Set(i, j, v) with i ≠ j is followed on every path (before the loop iteration ends) by M.Set(j, i, v') where v' is the same value or M.At(i, j); no M.Set(i, i, ·) exists (the diagonal keeps the zero of the freshly created matrix)")
	for _, spec := range []struct {
		fn   string
		mats []int // result indices that are distance-like matrices to check
	}{
		{"MLDist", []int{2}},
		{"JC69Dist", []int{0, 2}},
	} {
		r := c.fn("distance/protein", "*ProtDistModel", spec.fn)
		if !r.ok() {
			continue
		}
		fn := r.F
		lc := newLinCtx(c, fn)
		sets := denseSets(lc, fn)
		// result matrices: values returned at the given indices
		resVals := map[ssa.Value]int{}
		allInstrs(fn, func(in ssa.Instruction) {
			if rt, ok := in.(*ssa.Return); ok {
				for _, k := range spec.mats {
					if k < len(rt.Results) {
						for v := range throughPhis(rt.Results[k], false) {
							resVals[v] = k
						}
					}
				}
			}
		})
		pd := newPostDom(fn, nil)
		n := 0
		for _, s := range sets {
			k, isRes := resVals[s.m]
			if !isRes {
				continue
			}
			n++
			name := stable(fmt.Sprintf("result #%d .Set(%s, %s)", k, s.i, s.j))
			pos := c.P.Pos(s.call.Pos())
			if s.i == s.j {
				L.Bad("symmetric-sets", r.label, name, pos, "a diagonal cell of a distance matrix is written")
				continue
			}
			// is this one itself a mirror copy?  M.Set(j,i, M.At(i,j))
			if m2, i2, j2, ok := isDenseAt(s.v); ok && m2 == s.m && lc.of(i2).String() == s.j && lc.of(j2).String() == s.i {
				L.OK("symmetric-sets", r.label, name, pos, "mirror copy of the transposed cell")
				continue
			}
			paired := false
			for _, t := range sets {
				if t.call == s.call || t.m != s.m || t.i != s.j || t.j != s.i {
					continue
				}
				same := t.v == s.v
				if m2, i2, j2, ok := isDenseAt(t.v); ok && m2 == s.m && lc.of(i2).String() == s.i && lc.of(j2).String() == s.j {
					same = true
				}
				if same && (pd.instrPostDominates(t.call, s.call) || instrDominates(t.call, s.call)) {
					paired = true
				}
			}
			if !paired {
				// in-place accumulation on the upper triangle (M.Set(i,j, M.At(i,j)+x)) made
				// symmetric later by a mirror copy outside the accumulation loop
				if bo, ok := s.v.(*ssa.BinOp); ok && bo.Op == token.ADD {
					if m2, i2, j2, ok := isDenseAt(bo.X); ok && m2 == s.m && lc.of(i2).String() == s.i && lc.of(j2).String() == s.j {
						var outer *loop
						for _, lp := range naturalLoops(fn) {
							if lp.Blocks[s.call.Block()] && (outer == nil || len(lp.Blocks) > len(outer.Blocks)) {
								outer = lp
							}
						}
						for _, t := range sets {
							if t.m != s.m || outer == nil || outer.Blocks[t.call.Block()] || !outer.Head.Dominates(t.call.Block()) {
								continue
							}
							if m3, _, _, ok := isDenseAt(t.v); ok && m3 == s.m && t.i != t.j {
								paired = true
							}
						}
					}
				}
			}
			if paired {
				L.OK("symmetric-sets", r.label, name, pos, "followed on every path by the mirrored Set of the same value")
			} else {
				L.Bad("symmetric-sets", r.label, name, pos, "no mirrored Set(j, i, same value) follows on every path: the returned matrix is not symmetric")
			}
		}
		if n == 0 {
			L.Unknown("symmetric-sets", r.label, "Set calls on returned matrices", c.P.Pos(fn.Pos()), "none found")
		}
	}
	L.Floor("symmetric-sets", 4, "MLDist 2, JC69Dist p 3 + dist 5 (floor = half of the instances on the pinned tree: a clean-up may merge instances, a rule that sees nothing must still fail)")
}

func (c *Ctx) checkDistRange() {
	L := c.L
	L.Rule("distance-range", "every value passed to dist.Set in MLDist is, leaf by leaf of its φ-tree, a constant inside [0, PROT_DIST_MAX] or a computed value on the false branch of `value >= PROT_DIST_MAX`; the constant 0 comes from the branch where check2SequencesDiff is false")
	r := c.fn("distance/protein", "*ProtDistModel", "MLDist")
	if !r.ok() {
		return
	}
	fn := r.F
	lc := newLinCtx(c, fn)
	maxC := constByName(c.P.Pkg("distance/protein"), "PROT_DIST_MAX")
	maxF, _ := cFloat(maxC)
	sets := denseSets(lc, fn)
	resDist := map[ssa.Value]bool{}
	allInstrs(fn, func(in ssa.Instruction) {
		if rt, ok := in.(*ssa.Return); ok && len(rt.Results) > 2 {
			for v := range throughPhis(rt.Results[2], false) {
				resDist[v] = true
			}
		}
	})
	seen := map[ssa.Value]bool{}
	nLeaves := 0
	sawZero := false
	cappedAt := func(v ssa.Value, from *ssa.BasicBlock) bool {
		// `from` (the block the φ edge leaves) or one of its dominators ends with
		// If v >= MAX and `from` lies on its false side
		for d := from; d != nil; d = d.Idom() {
			ifi, ok := d.Instrs[len(d.Instrs)-1].(*ssa.If)
			if !ok {
				continue
			}
			bo, ok := ifi.Cond.(*ssa.BinOp)
			if !ok || (bo.Op != token.GEQ && bo.Op != token.GTR) || !isFloatConst(bo.Y, maxF) || bo.X != v {
				continue
			}
			if d == from || d.Succs[1] == from || d.Succs[1].Dominates(from) {
				return true
			}
		}
		return false
	}
	for _, s := range sets {
		if !resDist[s.m] || seen[s.v] {
			continue
		}
		seen[s.v] = true
		type leaf struct {
			v      ssa.Value
			from   *ssa.BasicBlock
			to     *ssa.BasicBlock
			capped bool
		}
		var leaves []leaf
		vis := map[*ssa.Phi]bool{}
		var walk func(v ssa.Value, from, to *ssa.BasicBlock, capped bool)
		walk = func(v ssa.Value, from, to *ssa.BasicBlock, capped bool) {
			if from != nil && constOf(v) == nil && cappedAt(v, from) {
				capped = true
			}
			if p, ok := v.(*ssa.Phi); ok {
				if vis[p] {
					return
				}
				vis[p] = true
				for i, e := range p.Edges {
					walk(e, p.Block().Preds[i], p.Block(), capped)
				}
				return
			}
			leaves = append(leaves, leaf{v, from, to, capped})
		}
		walk(s.v, nil, nil, false)
		for _, lf := range leaves {
			nLeaves++
			pos := c.P.Pos(s.call.Pos())
			if k := constOf(lf.v); k != nil {
				f, _ := cFloat(k)
				name := fmt.Sprintf("constant %g", f)
				if f < 0 || f > maxF {
					L.Bad("distance-range", r.label, name, pos, fmt.Sprintf("the constant %g can be stored as a distance: outside [0, %g]", f, maxF))
					continue
				}
				if f == 0 && lf.from != nil {
					// the 0 arrives on an edge that is taken only when check2SequencesDiff came out false
					okZero := false
					zbf := computeBranchFacts(fn)
					allInstrs(fn, func(in ssa.Instruction) {
						if call, ok := in.(*ssa.Call); ok {
							if g := call.Common().StaticCallee(); g != nil && g.Name() == "check2SequencesDiff" {
								if zbf.knownOnEdge(lf.from, lf.to, call, false) {
									okZero = true
								}
							}
						}
					})
					if okZero {
						sawZero = true
					}
					L.Check(okZero, "distance-range", r.label, name, pos, "stored exactly when the two sequences have no unambiguous difference", "the constant 0 is stored on a path that is not the no-difference branch")
					continue
				}
				L.OK("distance-range", r.label, name, pos, "inside [0, PROT_DIST_MAX]")
				continue
			}
			name := "computed value"
			if call, ok := lf.v.(*ssa.Call); ok {
				if f := call.Common().StaticCallee(); f != nil {
					name = "result of " + f.Name()
				}
			}
			L.Check(lf.capped, "distance-range", r.label, name, pos, "reaches dist.Set only on the false branch of `value >= PROT_DIST_MAX`", "a computed distance can be stored without passing the PROT_DIST_MAX cap")
		}
	}
	// presence, not only shape: the no-difference branch must set the pair to 0 (the matrix it
	// writes into is not a zero matrix)
	L.Check(sawZero, "distance-range", r.label, "pairs without an unambiguous difference are set to 0", c.P.Pos(r.F.Pos()),
		"the branch where check2SequencesDiff is false stores the constant 0", "no store of the constant 0 on the branch where check2SequencesDiff is false: such pairs keep whatever the start matrix holds")
	L.Floor("distance-range", 2, "0, cap, -1 marker, optimiser result (floor = half of the instances on the pinned tree: a clean-up may merge instances, a rule that sees nothing must still fail)")
	_ = nLeaves
}

func (c *Ctx) checkBranchClamp() {
	L := c.L
	L.Rule("branch-clamp", "the length handed to pMat in lk_Dist is BL_MIN when the distance is below BL_MIN, BL_MAX when it is above BL_MAX, the distance otherwise")
	r := c.fn("distance/protein", "*ProtDistModel", "lk_Dist")
	if !r.ok() {
		return
	}
	fn := r.F
	P := paramByName(fn, "dist")
	mn, _ := cFloat(constByName(c.P.Pkg("distance/protein"), "BL_MIN"))
	mx, _ := cFloat(constByName(c.P.Pkg("distance/protein"), "BL_MAX"))
	var arg ssa.Value
	allInstrs(fn, func(in ssa.Instruction) {
		if isCallToMethod(in, "ProtDistModel", "pMat") {
			arg = callOf(in).Args[1]
		}
	})
	ok := false
	det := "no call of pMat"
	if arg != nil && P != nil {
		hasMin, hasMax, hasP, other := false, false, false, 0
		for v := range throughPhis(arg, false) {
			switch {
			case v == ssa.Value(P):
				hasP = true
			case isFloatConst(v, mn):
				hasMin = true
			case isFloatConst(v, mx):
				hasMax = true
			default:
				if _, isPhi := v.(*ssa.Phi); !isPhi {
					other++
				}
			}
		}
		lt, gt := false, false
		allInstrs(fn, func(in ssa.Instruction) {
			if bo, ok := in.(*ssa.BinOp); ok && bo.X == ssa.Value(P) {
				if bo.Op == token.LSS && isFloatConst(bo.Y, mn) {
					lt = true
				}
				if bo.Op == token.GTR && isFloatConst(bo.Y, mx) {
					gt = true
				}
			}
		})
		ok = hasMin && hasMax && hasP && other == 0 && lt && gt
		det = fmt.Sprintf("pMat argument merges {BL_MIN: %v, BL_MAX: %v, dist: %v, other: %d}; tests dist < BL_MIN: %v, dist > BL_MAX: %v", hasMin, hasMax, hasP, other, lt, gt)
	}
	L.Check(ok, "branch-clamp", r.label, "length clamped to [BL_MIN, BL_MAX]", c.P.Pos(fn.Pos()), det, "the branch length is not clamped before the transition matrix is computed: "+det)
	L.Floor("branch-clamp", 1, "one function")
}

// ---------------------------------------------------------------------------
// Brent: points and their function values move together

// checkBrentPairsRegisters: the same pairing when x, w, v, fx, fw, fv are SSA registers. At the
// head of the iteration loop each of them is a φ; on every edge from inside the loop, the value
// that becomes point n and the value that becomes f(n) must be aligned: both the old values of the
// same point p and of f(p); or a freshly computed point and a value computed from a call on that
// point; or two φ-nodes of the same inner merge whose edges are aligned pairwise.
func (c *Ctx) checkBrentPairsRegisters(r *fnRef) {
	L := c.L
	fn := r.F
	var head *ssa.BasicBlock
	hp := map[string]*ssa.Phi{}
	for _, lp := range naturalLoops(fn) {
		m := map[string]*ssa.Phi{}
		for _, in := range lp.Head.Instrs {
			if p, ok := in.(*ssa.Phi); ok {
				m[p.Comment] = p
			}
		}
		if m["x"] != nil && m["fx"] != nil && m["w"] != nil && m["fw"] != nil && m["v"] != nil && m["fv"] != nil {
			head, hp = lp.Head, m
		}
	}
	if head == nil {
		L.Unknown("paired-update", r.label, "variables", c.P.Pos(fn.Pos()), "neither address-taken locals nor loop-carried registers x/fx, w/fw, v/fv found")
		return
	}
	pointOf := map[ssa.Value]string{}
	valueOf := map[ssa.Value]string{}
	for _, n := range []string{"x", "w", "v"} {
		pointOf[hp[n]] = n
		valueOf[hp["f"+n]] = n
	}
	var aligned func(a, b ssa.Value, depth int) (bool, string)
	aligned = func(a, b ssa.Value, depth int) (bool, string) {
		if depth > 12 {
			return false, "merge chain too deep"
		}
		if p, ok := pointOf[a]; ok {
			if q, ok := valueOf[b]; ok && q == p {
				return true, ""
			}
			return false, fmt.Sprintf("the point takes old(%s) but its value does not take old(f%s)", p, p)
		}
		if _, ok := valueOf[b]; ok {
			return false, "the value is copied from another point's value while the point is not copied from that point"
		}
		// fresh point (possibly itself a merge of several candidate steps): its value is computed
		// from a call on it
		if mentionsThroughCalls(b, a, 0) {
			return true, ""
		}
		pa, okA := a.(*ssa.Phi)
		pb, okB := b.(*ssa.Phi)
		if okA || okB {
			if !okA || !okB || pa.Block() != pb.Block() || len(pa.Edges) != len(pb.Edges) {
				return false, "point and value are merged at different places"
			}
			for k := range pa.Edges {
				if ok, why := aligned(pa.Edges[k], pb.Edges[k], depth+1); !ok {
					return false, why
				}
			}
			return true, ""
		}
		// fresh point: its value is computed from a call on it
		if mentionsThroughCalls(b, a, 0) {
			return true, ""
		}
		return false, "a freshly computed point is paired with a value that is not computed from it"
	}
	n := 0
	for k, pr := range head.Preds {
		if !head.Dominates(pr) {
			continue // entry edge: initialisation
		}
		for _, pt := range []string{"x", "w", "v"} {
			n++
			ok, why := aligned(hp[pt].Edges[k], hp["f"+pt].Edges[k], 0)
			L.Check(ok, "paired-update", r.label, fmt.Sprintf("%s and f%s carried around the loop", pt, pt), c.P.Pos(hp[pt].Pos()),
				"on every path of an iteration the new point and its new value are the old pair of one point, or a fresh point with the value computed from it",
				"a bracketing point and its function value are no longer updated together: "+why+" — the parabolic step then interpolates through a point that was never evaluated")
		}
	}
	L.Floor("paired-update", 1, "three point/value pairs carried around the loop (floor = half of the instances on the pinned tree: a clean-up may merge instances, a rule that sees nothing must still fail)")
}

// mentionsThroughCalls: v is computed from target through arithmetic, conversions and call arguments.
func mentionsThroughCalls(v, target ssa.Value, depth int) bool {
	if v == target {
		return true
	}
	if depth > 6 {
		return false
	}
	switch x := v.(type) {
	case *ssa.UnOp:
		return mentionsThroughCalls(x.X, target, depth+1)
	case *ssa.BinOp:
		return mentionsThroughCalls(x.X, target, depth+1) || mentionsThroughCalls(x.Y, target, depth+1)
	case *ssa.Convert:
		return mentionsThroughCalls(x.X, target, depth+1)
	case *ssa.Call:
		for _, a := range x.Common().Args {
			if mentionsThroughCalls(a, target, depth+1) {
				return true
			}
		}
	case *ssa.Extract:
		return mentionsThroughCalls(x.Tuple, target, depth+1)
	}
	return false
}

func (c *Ctx) checkBrentPairs() {
	L := c.L
	L.Rule("paired-update", "in dist_F_Brent the abscissae x, w, v, u and their function values fx, fw, fv, fu are updated together: at the end of every block, if a point variable holds the old value of point p then its value variable holds the old value of fp (symbolic execution of the block over the address-taken locals, shift(a,b,c,d) meaning a=b; b=c; c=d)")
	r := c.fn("distance/protein", "*ProtDistModel", "dist_F_Brent")
	if !r.ok() {
		return
	}
	fn := r.F
	cells := map[string]*ssa.Alloc{}
	allInstrs(fn, func(in ssa.Instruction) {
		if a, ok := in.(*ssa.Alloc); ok {
			cells[a.Comment] = a
		}
	})
	names := []string{"x", "w", "v", "u"}
	for _, n := range names {
		if cells[n] == nil || cells["f"+n] == nil {
			// the variables are registers (no pointer-based helper): same property on the φ-nodes
			c.checkBrentPairsRegisters(r)
			return
		}
	}
	// shift semantics
	sh := c.P.Func("distance/protein", "", "shift")
	okShift := false
	if sh != nil && len(sh.Params) == 4 && len(sh.Blocks) == 1 {
		var seq []string
		for _, in := range sh.Blocks[0].Instrs {
			if st, ok := in.(*ssa.Store); ok {
				dst, _ := st.Addr.(*ssa.Parameter)
				if u, ok := st.Val.(*ssa.UnOp); ok {
					if src, ok := u.X.(*ssa.Parameter); ok && dst != nil {
						seq = append(seq, dst.Name()+"="+src.Name())
					}
				}
			}
		}
		p := sh.Params
		want := []string{p[0].Name() + "=" + p[1].Name(), p[1].Name() + "=" + p[2].Name(), p[2].Name() + "=" + p[3].Name()}
		okShift = strings.Join(seq, ";") == strings.Join(want, ";")
	}
	L.Check(okShift, "paired-update", "distance/protein.shift", "a=b; b=c; c=d", "-", "shift moves three values down in that order", "shift does not implement a=b; b=c; c=d")
	cellName := map[ssa.Value]string{}
	for n, a := range cells {
		cellName[a] = n
	}
	nBlocks := 0
	for _, b := range fn.Blocks {
		env := map[string]string{}
		touched := false
		regs := map[ssa.Value]string{}
		for _, in := range b.Instrs {
			switch x := in.(type) {
			case *ssa.UnOp:
				if n, ok := cellName[x.X]; ok && x.Op == token.MUL {
					if s, ok := env[n]; ok {
						regs[x] = s
					} else {
						regs[x] = "old(" + n + ")"
					}
				}
			case *ssa.Store:
				if n, ok := cellName[x.Addr]; ok {
					touched = true
					if s, ok := regs[x.Val]; ok {
						env[n] = s
					} else {
						env[n] = "expr"
					}
				}
			case *ssa.Call:
				if x.Common().StaticCallee() == sh && sh != nil {
					a := x.Common().Args
					var ns []string
					okArgs := true
					for _, v := range a {
						n, ok := cellName[v]
						if !ok {
							okArgs = false
						}
						ns = append(ns, n)
					}
					if !okArgs {
						continue
					}
					touched = true
					get := func(n string) string {
						if s, ok := env[n]; ok {
							return s
						}
						return "old(" + n + ")"
					}
					v1, v2, v3 := get(ns[1]), get(ns[2]), get(ns[3])
					env[ns[0]], env[ns[1]], env[ns[2]] = v1, v2, v3
				}
			}
		}
		if !touched {
			continue
		}
		final := func(n string) string {
			if s, ok := env[n]; ok {
				return s
			}
			return "old(" + n + ")"
		}
		var bad []string
		moved := false
		for _, n := range []string{"x", "w", "v"} {
			pv, fv := final(n), final("f"+n)
			if strings.HasPrefix(pv, "old(") {
				src := strings.TrimSuffix(strings.TrimPrefix(pv, "old("), ")")
				if src != n {
					moved = true
				}
				want := "old(f" + src + ")"
				if fv != want {
					// the value variable may be recomputed (expr) only if the point is too
					bad = append(bad, fmt.Sprintf("%s = %s but f%s = %s (want %s)", n, pv, n, fv, want))
				}
			} else if strings.HasPrefix(fv, "old(") && fv != "old(f"+n+")" {
				// point recomputed, value copied from another point's value
				bad = append(bad, fmt.Sprintf("%s is recomputed but f%s = %s", n, n, fv))
			}
		}
		if !moved && len(bad) == 0 {
			continue // initialisation or recomputation only
		}
		nBlocks++
		name := "block " + b.Comment + " #" + fmt.Sprint(nBlocks)
		pos := "-"
		for _, in := range b.Instrs {
			if in.Pos().IsValid() {
				pos = c.P.Pos(in.Pos())
				break
			}
		}
		if len(bad) == 0 {
			var ds []string
			for _, n := range []string{"x", "w", "v"} {
				ds = append(ds, n+"="+final(n)+", f"+n+"="+final("f"+n))
			}
			sort.Strings(ds)
			L.OK("paired-update", r.label, name, pos, strings.Join(ds, "; "))
		} else {
			L.Bad("paired-update", r.label, name, pos, "a bracketing point and its function value are no longer updated together: "+strings.Join(bad, "; ")+" — the parabolic step then interpolates through a point that was never evaluated")
		}
	}
	L.Floor("paired-update", 2, "shift semantics + three updating blocks (floor = half of the instances on the pinned tree: a clean-up may merge instances, a rule that sees nothing must still fail)")
}

// ---------------------------------------------------------------------------
// full-scan: counting loops of a helper run over every row / every site

func (c *Ctx) checkFullScan(rule, rel, name string) {
	L := c.L
	L.Rule(rule, "every counting loop of the site-selection helper starts at 0, advances by 1 and runs while the counter is below al.Length() (site loop) or al.NbSequences() (sequence loop): no site and no sequence is left out of the scan")
	r := c.fn(rel, "", name)
	if !r.ok() {
		return
	}
	fn := r.F
	lc := newLinCtx(c, fn)
	for _, lp := range naturalLoops(fn) {
		h := lp.Head
		var phi *ssa.Phi
		var bound *lin
		var rangeForm *ssa.BinOp
		ok := false
		// the comparison may be in the header or (with `&&`) in the header only as first conjunct
		if ifi, isIf := h.Instrs[len(h.Instrs)-1].(*ssa.If); isIf {
			if bo, isBo := ifi.Cond.(*ssa.BinOp); isBo && bo.Op == token.LSS {
				if p, isPhi := bo.X.(*ssa.Phi); isPhi && p.Block() == h {
					phi = p
					b := lc.of(bo.Y)
					bound = &b
				}
				// `for k := range s`: the counter is φ+1 with φ starting at -1; same thing as from 0
				if add, isAdd := bo.X.(*ssa.BinOp); isAdd && add.Op == token.ADD {
					if p, isPhi := add.X.(*ssa.Phi); isPhi && p.Block() == h {
						if k, isK := constInt(add.Y); isK && k == 1 {
							phi = p
							b := lc.of(bo.Y)
							bound = &b
							rangeForm = add
						}
					}
				}
			}
		}
		if phi != nil {
			init0, step1 := false, true
			for i, e := range phi.Edges {
				if !lp.Blocks[h.Preds[i]] {
					if k, isK := constInt(e); isK && ((rangeForm == nil && k == 0) || (rangeForm != nil && k == -1)) {
						init0 = true
					}
					continue
				}
				if rangeForm != nil && e == ssa.Value(rangeForm) {
					continue
				}
				st, isBo := e.(*ssa.BinOp)
				if !isBo || st.Op != token.ADD || st.X != ssa.Value(phi) {
					step1 = false
					continue
				}
				if k, isK := constInt(st.Y); !isK || k != 1 {
					step1 = false
				}
			}
			bs := bound.String()
			full := strings.HasPrefix(bs, "L(") || strings.HasPrefix(bs, "N(")
			ok = init0 && step1 && full && len(bound.t) == 1 && bound.c == 0
			cons := "loop on " + phi.Comment
			pos := c.P.Pos(phi.Pos())
			L.Check(ok, rule, r.label, cons, pos, "from 0 by 1 while < "+bs, fmt.Sprintf("the loop does not cover the whole range (starts at 0: %v, step 1: %v, bound %s)", init0, step1, bs))
		}
	}
}
