package rules

import (
	"fmt"
	"go/ast"
	"go/constant"
	"go/token"
	"go/types"
	"sort"
	"strings"

	"golang.org/x/tools/go/callgraph"
	"golang.org/x/tools/go/callgraph/cha"
	"golang.org/x/tools/go/callgraph/vta"
	"golang.org/x/tools/go/ssa"

	"goalignsa/core"
)

type fnRef struct {
	F     *ssa.Function
	label string
}

func (r *fnRef) ok() bool { return r != nil && r.F != nil }

// ---------------------------------------------------------------------------
// call graph

type cgraph struct {
	g *callgraph.Graph
}

var cgCache = map[*core.Program]map[bool]*cgraph{}

// CallGraph returns the VTA call graph seeded with CHA.
func (c *Ctx) CallGraph(p *core.Program) *cgraph {
	th := c.Thorough()
	if m := cgCache[p]; m != nil && m[th] != nil {
		return m[th]
	}
	// CHA resolves a call through a function value to every address-taken function of that
	// signature in the program (a `func(int) int` parameter "may call" rand.Intn); VTA follows the
	// values that can actually reach the call and costs under half a second, so both tiers use it
	g := vta.CallGraph(p.AllFns, cha.CallGraph(p.SSA))
	_ = th
	if cgCache[p] == nil {
		cgCache[p] = map[bool]*cgraph{}
	}
	cg := &cgraph{g}
	cgCache[p][th] = cg
	return cg
}

// Callees of one call site (static callee, or call-graph targets for dynamic calls).
func (cg *cgraph) Callees(site ssa.CallInstruction) []*ssa.Function {
	if f := site.Common().StaticCallee(); f != nil {
		return []*ssa.Function{f}
	}
	n := cg.g.Nodes[site.Parent()]
	if n == nil {
		return nil
	}
	var out []*ssa.Function
	seen := map[*ssa.Function]bool{}
	for _, e := range n.Out {
		if e.Site == site && !seen[e.Callee.Func] {
			seen[e.Callee.Func] = true
			out = append(out, e.Callee.Func)
		}
	}
	sort.Slice(out, func(i, j int) bool { return out[i].String() < out[j].String() })
	return out
}

// Reachable returns every function reachable from root through the call graph
// (including closures created in reachable functions: a MakeClosure is treated
// as a potential call), with one witness path per function.
//
// Only functions accepted by expand are traversed further; the others are
// recorded as leaves. With expand = "function of the analysed module" the
// search never walks through the standard library, where CHA resolves every
// io.Writer.Write to every implementation in the program.
func (cg *cgraph) Reachable(root *ssa.Function, expand func(*ssa.Function) bool) map[*ssa.Function][]*ssa.Function {
	out := map[*ssa.Function][]*ssa.Function{root: {root}}
	work := []*ssa.Function{root}
	for len(work) > 0 {
		f := work[0]
		work = work[1:]
		if f != root && expand != nil && !expand(f) {
			continue
		}
		add := func(g *ssa.Function) {
			if g == nil {
				return
			}
			if _, ok := out[g]; !ok {
				p := append(append([]*ssa.Function{}, out[f]...), g)
				out[g] = p
				work = append(work, g)
			}
		}
		if n := cg.g.Nodes[f]; n != nil {
			for _, e := range n.Out {
				add(e.Callee.Func)
			}
		}
		for _, b := range f.Blocks {
			for _, in := range b.Instrs {
				if mc, ok := in.(*ssa.MakeClosure); ok {
					add(mc.Fn.(*ssa.Function))
				}
			}
		}
	}
	return out
}

// ---------------------------------------------------------------------------
// small SSA helpers

func calleeObj(call *ssa.CallCommon) types.Object {
	if call.IsInvoke() {
		return call.Method
	}
	if f := call.StaticCallee(); f != nil {
		if f.Object() != nil {
			return f.Object()
		}
	}
	return nil
}

// isPkgFunc reports whether the call statically targets pkgPath.name
// (a package-level function).
func isPkgFunc(call *ssa.CallCommon, pkgPath, name string) bool {
	f := call.StaticCallee()
	if f == nil || f.Pkg == nil || f.Signature.Recv() != nil {
		return false
	}
	return f.Pkg.Pkg.Path() == pkgPath && f.Name() == name
}

// isMethod reports whether the call targets method `name` on a receiver whose
// named type is pkgPath.typeName (pointer or value; static or interface).
func isMethod(call *ssa.CallCommon, pkgPath, typeName, name string) bool {
	var recv types.Type
	if call.IsInvoke() {
		if call.Method.Name() != name {
			return false
		}
		recv = call.Value.Type()
	} else {
		f := call.StaticCallee()
		if f == nil || f.Name() != name || f.Signature.Recv() == nil {
			return false
		}
		recv = f.Signature.Recv().Type()
	}
	if p, ok := recv.(*types.Pointer); ok {
		recv = p.Elem()
	}
	n, ok := recv.(*types.Named)
	if !ok || n.Obj().Pkg() == nil {
		return false
	}
	return n.Obj().Pkg().Path() == pkgPath && n.Obj().Name() == typeName
}

func callOf(in ssa.Instruction) *ssa.CallCommon {
	if ci, ok := in.(ssa.CallInstruction); ok {
		return ci.Common()
	}
	return nil
}

func builtinName(call *ssa.CallCommon) string {
	if b, ok := call.Value.(*ssa.Builtin); ok {
		return b.Name()
	}
	return ""
}

// constOf returns the constant value of v, looking through conversions.
func constOf(v ssa.Value) constant.Value {
	for {
		switch x := v.(type) {
		case *ssa.Const:
			return x.Value
		case *ssa.Convert:
			v = x.X
		case *ssa.ChangeType:
			v = x.X
		default:
			return nil
		}
	}
}

func constInt(v ssa.Value) (int64, bool) {
	c := constOf(v)
	if c == nil || c.Kind() != constant.Int {
		return 0, false
	}
	return constant.Int64Val(c)
}

// stripConv removes value-preserving wrappers.
func stripConv(v ssa.Value) ssa.Value {
	for {
		switch x := v.(type) {
		case *ssa.Convert:
			v = x.X
		case *ssa.ChangeType:
			v = x.X
		case *ssa.MakeInterface:
			v = x.X
		default:
			return v
		}
	}
}

func fieldName(t types.Type, idx int) string {
	if p, ok := t.Underlying().(*types.Pointer); ok {
		t = p.Elem()
	}
	if st, ok := t.Underlying().(*types.Struct); ok && idx < st.NumFields() {
		return st.Field(idx).Name()
	}
	return fmt.Sprintf("f%d", idx)
}

func namedOf(t types.Type) *types.Named {
	for {
		switch x := t.(type) {
		case *types.Pointer:
			t = x.Elem()
		case *types.Named:
			return x
		default:
			return nil
		}
	}
}

// fieldAddrOf reports (typeName, fieldName) when v is &x.f.
func fieldAddrOf(v ssa.Value) (string, string, *ssa.FieldAddr) {
	fa, ok := v.(*ssa.FieldAddr)
	if !ok {
		return "", "", nil
	}
	n := namedOf(fa.X.Type())
	tn := ""
	if n != nil {
		tn = n.Obj().Name()
	}
	return tn, fieldName(fa.X.Type(), fa.Field), fa
}

// loadedField: v = *(&x.f) → (T, f, x)
func loadedField(v ssa.Value) (string, string, ssa.Value) {
	u, ok := v.(*ssa.UnOp)
	if !ok || u.Op != token.MUL {
		return "", "", nil
	}
	t, f, fa := fieldAddrOf(u.X)
	if fa == nil {
		// value struct field
		return "", "", nil
	}
	return t, f, fa.X
}

func allInstrs(fn *ssa.Function, f func(ssa.Instruction)) {
	for _, b := range fn.Blocks {
		for _, in := range b.Instrs {
			f(in)
		}
	}
}

// withAnons lists fn and all anonymous functions nested in it.
func withAnons(fn *ssa.Function) []*ssa.Function {
	out := []*ssa.Function{fn}
	for _, a := range fn.AnonFuncs {
		out = append(out, withAnons(a)...)
	}
	return out
}

// ---------------------------------------------------------------------------
// post-dominators (per function, on demand)

type postDom struct {
	fn    *ssa.Function
	ipdom map[*ssa.BasicBlock]*ssa.BasicBlock // nil = virtual exit
	exits map[*ssa.BasicBlock]bool
	order map[*ssa.BasicBlock]int
	sets  [][]bool
}

// newPostDom computes post-dominators with respect to the given exit blocks
// (default: blocks ending in Return). Blocks that cannot reach an exit
// (panics, infinite loops) are post-dominated by everything (vacuous).
func newPostDom(fn *ssa.Function, isExit func(*ssa.BasicBlock) bool) *postDom {
	pd := &postDom{fn: fn, ipdom: map[*ssa.BasicBlock]*ssa.BasicBlock{}, exits: map[*ssa.BasicBlock]bool{}}
	if isExit == nil {
		isExit = func(b *ssa.BasicBlock) bool {
			if len(b.Instrs) == 0 {
				return false
			}
			_, ok := b.Instrs[len(b.Instrs)-1].(*ssa.Return)
			return ok
		}
	}
	for _, b := range fn.Blocks {
		if isExit(b) {
			pd.exits[b] = true
		}
	}
	// set-based iterative algorithm (functions are small)
	n := len(fn.Blocks)
	all := make([]bool, n)
	for i := range all {
		all[i] = true
	}
	pdom := make([][]bool, n)
	for _, b := range fn.Blocks {
		if pd.exits[b] {
			s := make([]bool, n)
			s[b.Index] = true
			pdom[b.Index] = s
		} else {
			pdom[b.Index] = append([]bool{}, all...)
		}
	}
	changed := true
	for changed {
		changed = false
		for i := n - 1; i >= 0; i-- {
			b := fn.Blocks[i]
			if pd.exits[b] {
				continue
			}
			var acc []bool
			for _, s := range b.Succs {
				if acc == nil {
					acc = append([]bool{}, pdom[s.Index]...)
				} else {
					for k := range acc {
						acc[k] = acc[k] && pdom[s.Index][k]
					}
				}
			}
			if acc == nil {
				// no successors and not an exit (panic): vacuous
				acc = append([]bool{}, all...)
			}
			acc[b.Index] = true
			for k := range acc {
				if acc[k] != pdom[b.Index][k] {
					changed = true
				}
			}
			pdom[b.Index] = acc
		}
	}
	pd.order = map[*ssa.BasicBlock]int{}
	pd.sets = pdom
	return pd
}

func (pd *postDom) PostDominates(a, b *ssa.BasicBlock) bool { return pd.sets[b.Index][a.Index] }

// instrPostDominates: instruction x is executed on every path from instruction
// y to a normal exit.
func (pd *postDom) instrPostDominates(x, y ssa.Instruction) bool {
	bx, by := x.Block(), y.Block()
	if bx == by {
		return indexIn(bx, x) > indexIn(by, y)
	}
	return pd.PostDominates(bx, by)
}

func indexIn(b *ssa.BasicBlock, in ssa.Instruction) int {
	for i, x := range b.Instrs {
		if x == in {
			return i
		}
	}
	return -1
}

// instrDominates: x executes before y on every path from entry to y.
func instrDominates(x, y ssa.Instruction) bool {
	bx, by := x.Block(), y.Block()
	if bx == by {
		return indexIn(bx, x) < indexIn(by, y)
	}
	return bx.Dominates(by)
}

// reachableFrom: blocks reachable from b (excluding b unless on a cycle).
func reachableFrom(b *ssa.BasicBlock) map[*ssa.BasicBlock]bool {
	seen := map[*ssa.BasicBlock]bool{}
	var w []*ssa.BasicBlock
	w = append(w, b.Succs...)
	for len(w) > 0 {
		x := w[len(w)-1]
		w = w[:len(w)-1]
		if seen[x] {
			continue
		}
		seen[x] = true
		w = append(w, x.Succs...)
	}
	return seen
}

// ---------------------------------------------------------------------------
// natural loops

type loop struct {
	Head   *ssa.BasicBlock
	Blocks map[*ssa.BasicBlock]bool
	Backs  []*ssa.BasicBlock // sources of back edges
}

func naturalLoops(fn *ssa.Function) []*loop {
	byHead := map[*ssa.BasicBlock]*loop{}
	var heads []*ssa.BasicBlock
	for _, b := range fn.Blocks {
		for _, s := range b.Succs {
			if s.Dominates(b) {
				l := byHead[s]
				if l == nil {
					l = &loop{Head: s, Blocks: map[*ssa.BasicBlock]bool{s: true}}
					byHead[s] = l
					heads = append(heads, s)
				}
				l.Backs = append(l.Backs, b)
				// collect body: predecessors of b up to head
				stack := []*ssa.BasicBlock{b}
				for len(stack) > 0 {
					x := stack[len(stack)-1]
					stack = stack[:len(stack)-1]
					if l.Blocks[x] {
						continue
					}
					l.Blocks[x] = true
					stack = append(stack, x.Preds...)
				}
			}
		}
	}
	var out []*loop
	for _, h := range heads {
		out = append(out, byHead[h])
	}
	sort.Slice(out, func(i, j int) bool { return out[i].Head.Index < out[j].Head.Index })
	return out
}

// ---------------------------------------------------------------------------
// AST helpers

func exprStr(fset *token.FileSet, e ast.Expr) string {
	return types.ExprString(e)
}

// enclosingFuncDecl finds the FuncDecl of file f that encloses pos.
func enclosingFuncDecl(f *ast.File, pos token.Pos) *ast.FuncDecl {
	for _, d := range f.Decls {
		if fd, ok := d.(*ast.FuncDecl); ok && fd.Pos() <= pos && pos <= fd.End() {
			return fd
		}
	}
	return nil
}

func declName(fd *ast.FuncDecl) string {
	if fd.Recv != nil && len(fd.Recv.List) > 0 {
		return "(" + types.ExprString(fd.Recv.List[0].Type) + ")." + fd.Name.Name
	}
	return fd.Name.Name
}

func relPkg(p *core.Program, path string) string {
	r := strings.TrimPrefix(strings.TrimPrefix(path, p.ModPath), "/")
	if r == "" {
		return "main"
	}
	return r
}


// blocksInOrder: the blocks of a loop in the order of the function (obligation keys are numbered
// in the order the rule meets the constructs: that order must not depend on map iteration).
func blocksInOrder(lp *loop) []*ssa.BasicBlock {
	var out []*ssa.BasicBlock
	if lp.Head == nil {
		return nil
	}
	for _, b := range lp.Head.Parent().Blocks {
		if lp.Blocks[b] {
			out = append(out, b)
		}
	}
	return out
}
