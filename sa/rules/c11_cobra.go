package rules

import (
	"go/ast"
	"go/types"
	"strings"
)

// checkRootHooks: cobra runs only the PersistentPreRun hook that is nearest to the executed
// command. The root command's hook seeds the random stream and sets GOMAXPROCS; a sub-command that
// declares its own PersistentPreRun(E) (in its literal or by assignment) silently disables that
// for its whole family.
func (c *Ctx) checkRootHooks(rule string) {
	L := c.L
	L.Rule(rule, "no command of package cmd other than the root command defines PersistentPreRun or PersistentPreRunE (cobra runs only the nearest one: a sub-command's hook would skip the root hook that seeds the random stream from --seed and sets the thread count)")
	pk := c.P.Pkg("cmd")
	if pk == nil {
		L.Unknown(rule, "cmd", "package", "-", "package cmd not loaded")
		return
	}
	isCommand := func(t types.Type) bool {
		n := namedOf(t)
		return n != nil && n.Obj().Name() == "Command" && n.Obj().Pkg() != nil && strings.HasSuffix(n.Obj().Pkg().Path(), "spf13/cobra")
	}
	nCmd, nRoot := 0, 0
	for _, f := range pk.Syntax {
		ast.Inspect(f, func(n ast.Node) bool {
			switch x := n.(type) {
			case *ast.ValueSpec:
				for i, v := range x.Values {
					cl := compositeOf(v)
					if cl == nil || !isCommand(pk.TypesInfo.TypeOf(cl)) {
						continue
					}
					nCmd++
					name := "?"
					if i < len(x.Names) {
						name = x.Names[i].Name
					}
					for _, e := range cl.Elts {
						kv, ok := e.(*ast.KeyValueExpr)
						if !ok {
							continue
						}
						id, ok := kv.Key.(*ast.Ident)
						if !ok || !strings.HasPrefix(id.Name, "PersistentPreRun") {
							continue
						}
						if name == "RootCmd" {
							nRoot++
							continue
						}
						L.Bad(rule, "cmd."+name, id.Name, c.P.Pos(kv.Pos()), "this sub-command defines its own "+id.Name+": the root command's hook (seeding from --seed, thread count) no longer runs for it and its sub-commands")
					}
				}
			case *ast.AssignStmt:
				for _, l := range x.Lhs {
					se, ok := l.(*ast.SelectorExpr)
					if !ok || !strings.HasPrefix(se.Sel.Name, "PersistentPreRun") || !isCommand(pk.TypesInfo.TypeOf(se.X)) {
						continue
					}
					if id, ok := se.X.(*ast.Ident); ok && id.Name == "RootCmd" {
						nRoot++
						continue
					}
					L.Bad(rule, "cmd", se.Sel.Name+" assigned", c.P.Pos(l.Pos()), "a command other than the root command is given a "+se.Sel.Name+" hook: the root hook no longer runs for it")
				}
			}
			return true
		})
	}
	L.Check(nRoot >= 1 && nCmd >= 10, rule, "cmd.RootCmd", "root hook", "-", "the root command defines the only PersistentPreRun hook", "the root command's PersistentPreRun hook was not found")
}

func compositeOf(e ast.Expr) *ast.CompositeLit {
	switch x := e.(type) {
	case *ast.CompositeLit:
		return x
	case *ast.UnaryExpr:
		return compositeOf(x.X)
	case *ast.ParenExpr:
		return compositeOf(x.X)
	}
	return nil
}
