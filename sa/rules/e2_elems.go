package rules

import (
	"fmt"
	"go/token"
	"strings"

	"golang.org/x/tools/go/ssa"
)

// Index lists. A function that first collects positions into a local slice (`kept = append(kept,
// site)` under the loop guard `site < length`) and later uses the collected values as indices
// (`for _, site := range kept { … row[site] … }`) is in bounds because of what was appended, not
// because of anything visible at the use. elemSources lists, for a slice value, every value that
// can be one of its elements together with the block where it was put there; a goal about an
// element is then proved at each of those places with the element replaced by the value stored.

type elemSource struct {
	val ssa.Value
	at  *ssa.BasicBlock
}

// elemSources: every value that may be an element of the slice value v, for slices that are built
// locally: empty or zero-filled allocations, append chains, φ-nodes, re-slices, and the rows of a
// local table of lists `t[k] = append(t[k], x)`. ok=false when an element can come from anywhere
// else (a parameter, a field, a call result).
func elemSources(v ssa.Value) ([]elemSource, bool) {
	var out []elemSource
	seen := map[ssa.Value]bool{}
	ok := true
	var rec func(v ssa.Value)
	var tableRows func(t ssa.Value)
	rec = func(v ssa.Value) {
		if !ok || v == nil || seen[v] {
			return
		}
		seen[v] = true
		switch x := v.(type) {
		case *ssa.Const:
			if !x.IsNil() {
				ok = false
			}
		case *ssa.Phi:
			for _, e := range x.Edges {
				rec(e)
			}
		case *ssa.ChangeType:
			rec(x.X)
		case *ssa.MakeSlice:
			if k, isK := constInt(x.Len); !isK || k != 0 {
				// zero-filled elements
				out = append(out, elemSource{ssa.NewConst(nil, x.Type()), nil})
				ok = false // a filled slice: elements are written by index, not tracked here
			}
		case *ssa.Slice:
			if al, isAl := x.X.(*ssa.Alloc); isAl {
				switch al.Comment {
				case "makeslice":
					if x.High != nil {
						if k, isK := constInt(x.High); isK && k == 0 {
							return // make([]T, 0, n)
						}
					}
					ok = false
				case "slicelit", "varargs":
					for _, ref := range *al.Referrers() {
						if ia, isIA := ref.(*ssa.IndexAddr); isIA {
							for _, r2 := range *ia.Referrers() {
								if st, isSt := r2.(*ssa.Store); isSt && st.Addr == ssa.Value(ia) {
									out = append(out, elemSource{st.Val, st.Block()})
								}
							}
						}
					}
				default:
					ok = false
				}
				return
			}
			rec(x.X)
		case *ssa.Call:
			if builtinName(x.Common()) != "append" {
				ok = false
				return
			}
			rec(x.Common().Args[0])
			if len(x.Common().Args) > 1 {
				rec(x.Common().Args[1])
			}
		case *ssa.UnOp:
			// a row of a local table of lists
			if x.Op == token.MUL {
				if ia, isIA := x.X.(*ssa.IndexAddr); isIA {
					tableRows(ia.X)
					return
				}
			}
			ok = false
		default:
			ok = false
		}
	}
	seenT := map[ssa.Value]bool{}
	tableRows = func(t ssa.Value) {
		org := sliceOrigin(t)
		if org == nil || seenT[org] {
			if org == nil {
				ok = false
			}
			return
		}
		seenT[org] = true
		switch o := org.(type) {
		case *ssa.MakeSlice:
		case *ssa.Alloc:
			if o.Comment != "makeslice" {
				ok = false
				return
			}
		default:
			ok = false
			return
		}
		// every store into a row of the table, through any slice value of the same origin
		fn := org.(ssa.Instruction).Parent()
		allInstrs(fn, func(in ssa.Instruction) {
			switch y := in.(type) {
			case *ssa.Store:
				if ia, isIA := y.Addr.(*ssa.IndexAddr); isIA && sliceOrigin(ia.X) == org {
					rec(y.Val)
				}
			case *ssa.Call:
				// the table handed to a callee: its rows may be written there
				for _, a := range y.Common().Args {
					if sliceOrigin(a) == org && builtinName(y.Common()) == "" {
						ok = false
					}
				}
			case *ssa.MakeClosure:
				for _, b := range y.Bindings {
					if sliceOrigin(b) == org {
						ok = false
					}
				}
			}
		})
	}
	rec(v)
	return out, ok
}

// proveViaElemSources: g mentions exactly one register atom that is an element read from a locally
// built slice (S[k], or the element variable of a range over S); every other atom is a parameter
// or a symbolic length. g is proved if, for each value that can be an element of S, g with that
// value in place of the element holds where the value was stored.
func (lc *linCtx) proveViaElemSources(g cons) (bool, string) {
	vi := valueIndexCached(lc)
	var elemAtom string
	var elemVal ssa.Value
	for _, a := range g.e.atoms() {
		v, isReg := vi[a]
		if !isReg {
			if strings.Contains(a, "@") {
				return false, ""
			}
			continue
		}
		u, ok := v.(*ssa.UnOp)
		if !ok || u.Op != token.MUL {
			return false, ""
		}
		if _, ok := u.X.(*ssa.IndexAddr); !ok {
			return false, ""
		}
		if elemAtom != "" {
			return false, ""
		}
		elemAtom, elemVal = a, v
	}
	if elemAtom == "" {
		return false, ""
	}
	S := elemVal.(*ssa.UnOp).X.(*ssa.IndexAddr).X
	srcs, ok := elemSources(S)
	if !ok || len(srcs) == 0 {
		return false, ""
	}
	k := g.e.t[elemAtom]
	for _, s := range srcs {
		if s.at == nil {
			return false, ""
		}
		if s.at.Parent() != lc.fn {
			return false, ""
		}
		e := g.e.clone()
		delete(e.t, elemAtom)
		sub := lc.of(s.val)
		for a, c := range sub.t {
			e.t[a] += k * c
			if e.t[a] == 0 {
				delete(e.t, a)
			}
		}
		e.c += k * sub.c
		lc.noElemFallback = true
		ok2, _ := lc.proveAll(s.at, nil, cons{e: e, why: g.why})
		lc.noElemFallback = false
		if !ok2 {
			return false, ""
		}
	}
	return true, fmt.Sprintf("every value stored into the list (%d store site(s)) satisfies %s where it is stored", len(srcs), g.why)
}
