package rules

func init() {
	register(&Property{ID: "C14", Run: runC14,
		Explanation: "Static decision of the determinism, boundary, alphabet and purity clauses of C14: no column statistic of package align traverses a Go map in an order-sensitive way (every range over a map is order-insensitive or collect-then-sort, so ties are broken the same way at every call); a site or row index outside the alignment reaches an error return and never an index expression (path conditions compared with the domain 0 <= site <= L-1 as linear inequalities, every row index proven in bounds); the wildcard excluded by the statistics is the one of the alignment's own alphabet; every listed statistic leaves its receiver and arguments unmodified (write-effect analysis); and a loop that adds to result[k] for its own index k is never cut short on a path where that contribution is enabled (branch facts on loop-invariant conditions). Not decided: equality of each statistic with its naive definition."})
}

func runC14(c *Ctx) {
	L := c.L
	c.checkEntropyFilter("entropy-filter")
	c.checkIupacPairTables("iupac-pair-tables")
	if c.Thorough() {
		c.checkSizeTests("size-test-after-insert")
	} else {
		c.checkSizeTests("size-test-after-insert", "align")
	}
	L.Rule("site-domain", "on every path to a success return the site/row argument lies inside the alignment, and no in-range argument reaches an error return")
	L.Rule("row-index-safe", "every index into a row buffer of the function is within bounds on every path")
	L.Rule("alphabet-wildcard", "an alphabet-specific constant (ALL_AMINO/ALL_NUCLE, resolved through go/types) is used only where the controlling alphabet comparisons select its own alphabet")

	// (a) determinism of every map traversal in package align
	c.checkMapRanges("map-order", []string{"align"}, nil)
	L.Floor("map-order", 3, "range-over-map sites of package align confirmed by hand (MaxCharStats, Entropy, Pssm, rarefy, profile, ...) (floor = half of the instances on the pinned tree: a clean-up may merge instances, a rule that sees nothing must still fail)")

	// (b) site / row guards
	site := []string{"0 <= site", "site <= L - 1"}
	for _, name := range []string{"Entropy", "CharStatsSite"} {
		r := c.fn("align", "*align", name)
		c.checkDomain(r, domainSpec{Rule: "site-domain", Domain: site})
		if r.ok() {
			lc := newLinCtx(c, r.F)
			if n := c.checkIndexSafety(r, "row-index-safe", lc, rowSites); n == 0 {
				L.Unknown("row-index-safe", r.label, "row index sites", c.P.Pos(r.F.Pos()), "no index into a row buffer found")
			}
		}
	}
	c.checkDomain(c.fn("align", "*align", "SiteConservation"), domainSpec{Rule: "site-domain", Domain: []string{"0 <= position", "position <= L - 1"}})
	for _, name := range []string{"GetSequenceCharById", "GetSequenceById", "GetSequenceNameById"} {
		r := c.fn("align", "*seqbag", name)
		if !r.ok() {
			continue
		}
		lc := newLinCtx(c, r.F)
		c.checkIndexSafety(r, "row-index-safe", lc, func(lc *linCtx, s indexSite) (string, bool) {
			if s.slice {
				return "", false
			}
			if _, f, base := loadedField(s.base); base != nil && f == "seqs" {
				return lc.siteName(s), true
			}
			return "", false
		})
	}
	L.Floor("site-domain", 4, "Entropy, CharStatsSite, SiteConservation: 2 bounds each, both directions (floor = half of the instances on the pinned tree: a clean-up may merge instances, a rule that sees nothing must still fail)")
	L.Floor("row-index-safe", 2, "Entropy, CharStatsSite row reads; three by-index accessors used by CharStatsSeq (floor = half of the instances on the pinned tree: a clean-up may merge instances, a rule that sees nothing must still fail)")

	// (c) alphabet ↔ wildcard
	c.checkAlphabetConsts("alphabet-wildcard", c.helperDeclsOf("align",
		[2]string{"*align", "MaxCharStats"}, [2]string{"*align", "InformativeSites"}, [2]string{"*align", "NumMutationsUniquePerSequence"},
		[2]string{"*seq", "NumMutationsComparedToReferenceSequence"}, [2]string{"*seq", "listMutationsComparedToReferenceSequence"}))
	L.Floor("alphabet-wildcard", 2, "both wildcard constants are used by the statistics functions (or a helper they share)")

	// (d) purity
	var pure []purityTarget
	for _, m := range []string{"CharStats", "UniqueCharacters", "CharStatsSeq"} {
		pure = append(pure, purityTarget{"align", "*seqbag", m, []int{0}})
	}
	for _, m := range []string{"CharStatsSite", "MaxCharStats", "Consensus", "Entropy", "InformativeSites", "NbVariableSites", "AvgAllelesPerSite",
		"Pssm", "CountDifferences", "NumGapsUniquePerSequence", "NumMutationsUniquePerSequence", "SiteConservation"} {
		pure = append(pure, purityTarget{"align", "*align", m, []int{0}})
	}
	pure = append(pure,
		purityTarget{"align", "*seq", "NumMutationsComparedToReferenceSequence", []int{0, 2}},
		purityTarget{"align", "*seq", "ListMutationsComparedToReferenceSequence", []int{0, 2}},
		purityTarget{"align", "", "NewCountProfileFromAlignment", []int{0}},
	)
	c.purityObligations("input-unmodified", pure)
	L.Floor("input-unmodified", 9, "statistics listed in the property (floor = half of the instances on the pinned tree: a clean-up may merge instances, a rule that sees nothing must still fail)")
	// (e) result lists own their buffers
	bscope := c.P.SrcFuncs("align")
	if c.Thorough() {
		bscope = c.P.SrcFuncs() // every package, cmd included
	}
	n := c.checkBufferReuse("published-buffer-reuse", bscope)
	L.Note("published-buffer-reuse: %d publication sites examined in package align", n)
	L.Floor("published-buffer-reuse", 10, "functions of package align that store slices into structs/containers (floor = half of the instances on the pinned tree: a clean-up may merge instances, a rule that sees nothing must still fail)")
	c.checkLenOfEmpty("len-of-empty", c.P.SrcFuncs("align"))
	// (f) per-row contributions are not cut short
	var scan [][3]string
	for _, t := range pure {
		scan = append(scan, [3]string{t.Rel, t.Recv, t.Name})
	}
	c.checkScanComplete("scan-complete", scan)
	L.Floor("scan-complete", 1, "NumGapsUniquePerSequence's profile counter; the other per-index counters of the statistics have no early exit")
	L.Assumes("alignment shape invariant: every row reached through the receiver has the cached length")
	L.Trusts("effect table for standard-library callees (sa/rules/e3_effects.go)")
	c.checkLoopTables("per-iteration-table", "align")
	L.Floor("per-iteration-table", 3, "five listed accumulating tables of package align plus the scope line")
	c.checkEntropyFormula("entropy-formula")
}
