package rules

import (
	"fmt"
	"go/token"

	"golang.org/x/tools/go/ssa"
)

// checkAddErrorHandled: a parser that adds a row and ignores the error of AddSequence (which is how
// a row of the wrong length is refused) must have compared the length of that very row value with
// the announced length beforehand, on a branch that leaves with an error. Otherwise a row that is
// too short or too long is silently dropped and the parse "succeeds" with fewer rows.
func (c *Ctx) checkAddErrorHandled(rule string, scope []*ssa.Function) {
	L := c.L
	L.Rule(rule, "every AddSequence/AddSequenceChar call of the parsers either has its error result examined, or is dominated by a test `len(row) != expected` on the same row value whose failing side returns an error: a row of the wrong length is never dropped silently")
	n := 0
	perFn := map[string]int{}
	for _, fn := range scope {
		for _, f := range withAnons(fn) {
			errBlocks := map[*ssa.BasicBlock]bool{}
			for _, e := range returnEdges(f) {
				if e.kind == "err" {
					errBlocks[e.block] = true
				}
			}
			allInstrs(f, func(in ssa.Instruction) {
				call, ok := in.(*ssa.Call)
				if !ok {
					return
				}
				name := getterNameAny(call.Common())
				if name != "AddSequence" && name != "AddSequenceChar" {
					return
				}
				n++
				fname := c.P.FuncName(c.origFn(f))
				perFn[fname]++
				ord := fmt.Sprint(perFn[fname])
				if refs := call.Referrers(); refs != nil {
					used := false
					for _, r := range *refs {
						if _, isDbg := r.(*ssa.DebugRef); !isDbg {
							used = true
						}
					}
					if used {
						L.OK(rule, fname, "row added #"+ord, c.P.Pos(call.Pos()), "the error of the call is examined")
						return
					}
				}
				// the row argument: the string / byte-slice parameter
				args := call.Common().Args
				if call.Common().IsInvoke() {
					args = append([]ssa.Value{call.Common().Value}, args...)
				}
				if len(args) < 3 {
					L.Unknown(rule, fname, "row added #"+ord, c.P.Pos(call.Pos()), "unexpected argument list")
					return
				}
				row := args[2]
				okLen := false
				allInstrs(f, func(in2 ssa.Instruction) {
					bo, ok := in2.(*ssa.BinOp)
					if !ok || (bo.Op != token.NEQ && bo.Op != token.EQL) {
						return
					}
					for _, side := range []ssa.Value{bo.X, bo.Y} {
						lc, ok := side.(*ssa.Call)
						if !ok || builtinName(lc.Common()) != "len" || lc.Common().Args[0] != row {
							continue
						}
						// the comparison decides a branch that dominates the call, its failing side returns an error
						for _, ref := range *bo.Referrers() {
							ifi, ok := ref.(*ssa.If)
							if !ok {
								continue
							}
							b := ifi.Block()
							good, badSide := b.Succs[1], b.Succs[0]
							if bo.Op == token.EQL {
								good, badSide = b.Succs[0], b.Succs[1]
							}
							leads := false
							for eb := range errBlocks {
								if eb == badSide || badSide.Dominates(eb) {
									leads = true
								}
							}
							if leads && (good == call.Block() || good.Dominates(call.Block())) {
								okLen = true
							}
						}
					}
				})
				L.Check(okLen, rule, fname, "row added #"+ord, c.P.Pos(call.Pos()),
					"the error of the call is ignored, but the length of this very row was compared with the expected length on a branch that returns an error",
					"the error of AddSequence is ignored and no test of the length of the row that is added guards the call: a row of the wrong length is refused by the container and silently missing from a successful result")
			})
		}
	}
	L.Floor(rule, 2, "row additions of the five parsers (floor = half)")
}
