package rules

import (
	"go/constant"
	"go/token"
	"go/types"

	"golang.org/x/tools/go/ssa"
)

// Decision tables of pure predicates. A function of the repository that takes a few small
// integers and computes its result with comparisons, bit operations, arithmetic and calls to
// functions of the same kind — no memory, no loop — defines a finite table. foldPure folds the
// function's SSA form for one tuple of constant arguments (constant propagation through φ and
// branches, exactly what a compiler does for a call with constant arguments); tabulating it over
// the whole argument domain gives the table, which a rule compares with the definition. Anything
// outside that fragment (a load, a store, a loop, an unknown callee) makes the fold fail and the
// rule reports the function as undecided in that form.

type foldBudget struct{ steps int }

func wrapInt(t types.Type, v int64) int64 {
	b, ok := t.Underlying().(*types.Basic)
	if !ok {
		return v
	}
	switch b.Kind() {
	case types.Uint8:
		return int64(uint8(v))
	case types.Int8:
		return int64(int8(v))
	case types.Uint16:
		return int64(uint16(v))
	case types.Int16:
		return int64(int16(v))
	case types.Uint32:
		return int64(uint32(v))
	case types.Int32:
		return int64(int32(v))
	}
	return v
}

func isSmallScalar(t types.Type) bool {
	b, ok := t.Underlying().(*types.Basic)
	if !ok {
		return false
	}
	return b.Info()&types.IsInteger != 0 || b.Info()&types.IsBoolean != 0
}

// foldPure evaluates fn for constant arguments; bool results are 0/1.
func foldPure(fn *ssa.Function, args []int64, depth int, bud *foldBudget) (int64, bool) {
	if fn == nil || fn.Blocks == nil || depth > 6 || len(args) != len(fn.Params) {
		return 0, false
	}
	for _, p := range fn.Params {
		if !isSmallScalar(p.Type()) {
			return 0, false
		}
	}
	env := map[ssa.Value]int64{}
	for i, p := range fn.Params {
		env[p] = wrapInt(p.Type(), args[i])
	}
	val := func(v ssa.Value) (int64, bool) {
		if k, ok := v.(*ssa.Const); ok {
			if k.Value == nil {
				return 0, false
			}
			switch k.Value.Kind() {
			case constant.Bool:
				if constant.BoolVal(k.Value) {
					return 1, true
				}
				return 0, true
			case constant.Int:
				if i, ok := constant.Int64Val(k.Value); ok {
					return i, true
				}
			}
			return 0, false
		}
		x, ok := env[v]
		return x, ok
	}
	b2i := func(b bool) int64 {
		if b {
			return 1
		}
		return 0
	}
	var prev *ssa.BasicBlock
	cur := fn.Blocks[0]
	for {
		var next *ssa.BasicBlock
		// φ-nodes read the values of the edge taken, simultaneously
		phiVals := map[*ssa.Phi]int64{}
		for _, in := range cur.Instrs {
			p, ok := in.(*ssa.Phi)
			if !ok {
				break
			}
			idx := -1
			for i, pr := range cur.Preds {
				if pr == prev {
					idx = i
				}
			}
			if idx < 0 {
				return 0, false
			}
			x, ok := val(p.Edges[idx])
			if !ok {
				return 0, false
			}
			phiVals[p] = x
		}
		for p, x := range phiVals {
			env[p] = x
		}
		for _, in := range cur.Instrs {
			bud.steps++
			if bud.steps > 20000 {
				return 0, false
			}
			switch x := in.(type) {
			case *ssa.Phi, *ssa.DebugRef:
			case *ssa.BinOp:
				a, ok1 := val(x.X)
				b, ok2 := val(x.Y)
				if !ok1 || !ok2 {
					return 0, false
				}
				if !isSmallScalar(x.X.Type()) {
					return 0, false
				}
				var r int64
				unsigned := false
				if bt, ok := x.X.Type().Underlying().(*types.Basic); ok && bt.Info()&types.IsUnsigned != 0 {
					unsigned = true
				}
				switch x.Op {
				case token.ADD:
					r = a + b
				case token.SUB:
					r = a - b
				case token.MUL:
					r = a * b
				case token.QUO:
					if b == 0 {
						return 0, false
					}
					r = a / b
				case token.REM:
					if b == 0 {
						return 0, false
					}
					r = a % b
				case token.AND:
					r = a & b
				case token.OR:
					r = a | b
				case token.XOR:
					r = a ^ b
				case token.AND_NOT:
					r = a &^ b
				case token.SHL:
					if b < 0 || b > 62 {
						return 0, false
					}
					r = a << uint(b)
				case token.SHR:
					if b < 0 || b > 62 {
						return 0, false
					}
					if unsigned {
						r = int64(uint64(a) >> uint(b))
					} else {
						r = a >> uint(b)
					}
				case token.EQL:
					r = b2i(a == b)
				case token.NEQ:
					r = b2i(a != b)
				case token.LSS:
					r = b2i(a < b)
				case token.LEQ:
					r = b2i(a <= b)
				case token.GTR:
					r = b2i(a > b)
				case token.GEQ:
					r = b2i(a >= b)
				default:
					return 0, false
				}
				env[x] = wrapInt(x.Type(), r)
			case *ssa.UnOp:
				a, ok := val(x.X)
				if !ok {
					return 0, false
				}
				switch x.Op {
				case token.NOT:
					env[x] = 1 - a
				case token.SUB:
					env[x] = wrapInt(x.Type(), -a)
				case token.XOR:
					env[x] = wrapInt(x.Type(), ^a)
				default:
					return 0, false // a load
				}
			case *ssa.Convert:
				a, ok := val(x.X)
				if !ok || !isSmallScalar(x.Type()) || !isSmallScalar(x.X.Type()) {
					return 0, false
				}
				env[x] = wrapInt(x.Type(), a)
			case *ssa.ChangeType:
				a, ok := val(x.X)
				if !ok {
					return 0, false
				}
				env[x] = a
			case *ssa.Call:
				callee := x.Common().StaticCallee()
				if callee == nil || x.Common().IsInvoke() {
					return 0, false
				}
				var as []int64
				for _, a := range x.Common().Args {
					v, ok := val(a)
					if !ok {
						return 0, false
					}
					as = append(as, v)
				}
				if callee.Signature.Results().Len() != 1 || !isSmallScalar(callee.Signature.Results().At(0).Type()) {
					return 0, false
				}
				r, ok := foldPure(callee, as, depth+1, bud)
				if !ok {
					return 0, false
				}
				env[x] = r
			case *ssa.If:
				cnd, ok := val(x.Cond)
				if !ok {
					return 0, false
				}
				if cnd != 0 {
					next = cur.Succs[0]
				} else {
					next = cur.Succs[1]
				}
			case *ssa.Jump:
				next = cur.Succs[0]
			case *ssa.Return:
				if len(x.Results) != 1 {
					return 0, false
				}
				return val(x.Results[0])
			default:
				return 0, false
			}
		}
		if next == nil {
			return 0, false
		}
		prev, cur = cur, next
	}
}
