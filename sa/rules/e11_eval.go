package rules

import (
	"go/constant"
	"go/token"
	"go/types"
	"math/bits"
	"strings"

	"golang.org/x/tools/go/ssa"
)

// Decision tables of pure predicates. A function of the repository that takes a few small
// integers and computes its result with comparisons, bit operations, arithmetic and calls to
// functions of the same kind — no memory, no loop — defines a finite table. foldPure folds the
// function's SSA form for one tuple of constant arguments (constant propagation through φ and
// branches, exactly what a compiler does for a call with constant arguments); tabulating it over
// the whole argument domain gives the table, which a rule compares with the definition. Anything
// outside that fragment (a load, a store, a loop, an unknown callee) makes the fold fail and the
// rule reports the function as undecided in that form.

type foldBudget struct{ steps int }

func wrapInt(t types.Type, v int64) int64 {
	b, ok := t.Underlying().(*types.Basic)
	if !ok {
		return v
	}
	switch b.Kind() {
	case types.Uint8:
		return int64(uint8(v))
	case types.Int8:
		return int64(int8(v))
	case types.Uint16:
		return int64(uint16(v))
	case types.Int16:
		return int64(int16(v))
	case types.Uint32:
		return int64(uint32(v))
	case types.Int32:
		return int64(int32(v))
	}
	return v
}

func isSmallScalar(t types.Type) bool {
	b, ok := t.Underlying().(*types.Basic)
	if !ok {
		return false
	}
	return b.Info()&types.IsInteger != 0 || b.Info()&types.IsBoolean != 0
}

// foldPure evaluates fn for constant arguments; bool results are 0/1.
func foldPure(fn *ssa.Function, args []int64, depth int, bud *foldBudget) (int64, bool) {
	rs, ok := foldPureN(fn, args, depth, bud)
	if !ok || len(rs) != 1 || !rs[0].known {
		return 0, false
	}
	return rs[0].k, true
}

// foldResult: one result of a folded call: a known scalar, the nil constant, or something the
// folder does not evaluate (an error value built by a library call, …).
type foldResult struct {
	known bool
	k     int64
	isNil bool
}

// foldPureN is foldPure for functions with several results: values the folder cannot evaluate
// (calls into libraries, non-scalar values) stay unknown and may be returned, but a branch on an
// unknown value fails the fold. Floating-point constants with an integral value (0.0, 1.0) are
// carried as that integer; floating-point arithmetic is not evaluated. math/bits.OnesCount* is
// the population count.
func foldPureN(fn *ssa.Function, args []int64, depth int, bud *foldBudget) ([]foldResult, bool) {
	if fn == nil || fn.Blocks == nil || depth > 6 || len(args) != len(fn.Params) {
		return nil, false
	}
	for _, p := range fn.Params {
		if !isSmallScalar(p.Type()) {
			return nil, false
		}
	}
	env := map[ssa.Value]int64{}
	for i, p := range fn.Params {
		env[p] = wrapInt(p.Type(), args[i])
	}
	val := func(v ssa.Value) (int64, bool) {
		if k, ok := v.(*ssa.Const); ok {
			if k.Value == nil {
				return 0, false
			}
			switch k.Value.Kind() {
			case constant.Bool:
				if constant.BoolVal(k.Value) {
					return 1, true
				}
				return 0, true
			case constant.Int:
				if i, ok := constant.Int64Val(k.Value); ok {
					return i, true
				}
			case constant.Float:
				if iv := constant.ToInt(k.Value); iv.Kind() == constant.Int {
					if i, ok := constant.Int64Val(iv); ok {
						return i, true
					}
				}
			}
			return 0, false
		}
		x, ok := env[v]
		return x, ok
	}
	b2i := func(b bool) int64 {
		if b {
			return 1
		}
		return 0
	}
	isFloat := func(t types.Type) bool {
		b, ok := t.Underlying().(*types.Basic)
		return ok && b.Info()&types.IsFloat != 0
	}
	nilSet := map[ssa.Value]bool{}
	var prev *ssa.BasicBlock
	cur := fn.Blocks[0]
	for {
		var next *ssa.BasicBlock
		phiVals := map[*ssa.Phi]int64{}
		phiKnown := map[*ssa.Phi]bool{}
		phiNil := map[*ssa.Phi]bool{}
		for _, in := range cur.Instrs {
			p, ok := in.(*ssa.Phi)
			if !ok {
				break
			}
			idx := -1
			for i, pr := range cur.Preds {
				if pr == prev {
					idx = i
				}
			}
			if idx < 0 {
				return nil, false
			}
			if x, ok := val(p.Edges[idx]); ok {
				phiVals[p], phiKnown[p] = x, true
			} else {
				phiKnown[p] = false
			}
			// the nil constant through φ-nodes (a named error result that no path assigned)
			e := p.Edges[idx]
			if k, isK := e.(*ssa.Const); (isK && k.IsNil()) || nilSet[e] {
				phiNil[p] = true
			} else {
				phiNil[p] = false
			}
		}
		for p, isNil := range phiNil {
			nilSet[p] = isNil
		}
		for p, known := range phiKnown {
			if known {
				env[p] = phiVals[p]
			} else {
				delete(env, p)
			}
		}
		for _, in := range cur.Instrs {
			bud.steps++
			if bud.steps > 20000 {
				return nil, false
			}
			switch x := in.(type) {
			case *ssa.BinOp:
				a, ok1 := val(x.X)
				b, ok2 := val(x.Y)
				if !ok1 || !ok2 || !isSmallScalar(x.X.Type()) || isFloat(x.X.Type()) {
					continue
				}
				var r int64
				unsigned := false
				if bt, ok := x.X.Type().Underlying().(*types.Basic); ok && bt.Info()&types.IsUnsigned != 0 {
					unsigned = true
				}
				okOp := true
				switch x.Op {
				case token.ADD:
					r = a + b
				case token.SUB:
					r = a - b
				case token.MUL:
					r = a * b
				case token.QUO:
					if b == 0 {
						return nil, false
					}
					r = a / b
				case token.REM:
					if b == 0 {
						return nil, false
					}
					r = a % b
				case token.AND:
					r = a & b
				case token.OR:
					r = a | b
				case token.XOR:
					r = a ^ b
				case token.AND_NOT:
					r = a &^ b
				case token.SHL:
					if b < 0 || b > 62 {
						okOp = false
					} else {
						r = a << uint(b)
					}
				case token.SHR:
					if b < 0 || b > 62 {
						okOp = false
					} else if unsigned {
						r = int64(uint64(a) >> uint(b))
					} else {
						r = a >> uint(b)
					}
				case token.EQL:
					r = b2i(a == b)
				case token.NEQ:
					r = b2i(a != b)
				case token.LSS:
					r = b2i(a < b)
				case token.LEQ:
					r = b2i(a <= b)
				case token.GTR:
					r = b2i(a > b)
				case token.GEQ:
					r = b2i(a >= b)
				default:
					okOp = false
				}
				if okOp {
					env[x] = wrapInt(x.Type(), r)
				}
			case *ssa.UnOp:
				a, ok := val(x.X)
				if !ok {
					continue
				}
				switch x.Op {
				case token.NOT:
					env[x] = 1 - a
				case token.SUB:
					if !isFloat(x.Type()) {
						env[x] = wrapInt(x.Type(), -a)
					}
				case token.XOR:
					env[x] = wrapInt(x.Type(), ^a)
				}
			case *ssa.Convert:
				if a, ok := val(x.X); ok && isSmallScalar(x.Type()) && isSmallScalar(x.X.Type()) {
					env[x] = wrapInt(x.Type(), a)
				}
			case *ssa.ChangeType:
				if a, ok := val(x.X); ok {
					env[x] = a
				}
			case *ssa.Call:
				callee := x.Common().StaticCallee()
				if callee == nil || x.Common().IsInvoke() {
					continue
				}
				var as []int64
				allKnown := true
				for _, a := range x.Common().Args {
					v, ok := val(a)
					if !ok {
						allKnown = false
						break
					}
					as = append(as, v)
				}
				if !allKnown {
					continue
				}
				if callee.Pkg != nil && callee.Pkg.Pkg.Path() == "math/bits" && strings.HasPrefix(callee.Name(), "OnesCount") && len(as) == 1 {
					env[x] = int64(bits.OnesCount64(uint64(as[0])))
					continue
				}
				if callee.Pkg != nil && callee.Pkg.Pkg.Path() == "unicode" && len(as) == 1 && as[0] >= 0 && as[0] < 128 {
					// ASCII only: the simple case mapping of the letters
					switch callee.Name() {
					case "ToUpper":
						if as[0] >= 'a' && as[0] <= 'z' {
							env[x] = as[0] - 'a' + 'A'
						} else {
							env[x] = as[0]
						}
						continue
					case "ToLower":
						if as[0] >= 'A' && as[0] <= 'Z' {
							env[x] = as[0] - 'A' + 'a'
						} else {
							env[x] = as[0]
						}
						continue
					}
				}
				if callee.Blocks == nil {
					continue
				}
				rs, ok := foldPureN(callee, as, depth+1, bud)
				if ok && len(rs) == 1 && rs[0].known {
					env[x] = rs[0].k
				}
			case *ssa.If:
				cnd, ok := val(x.Cond)
				if !ok {
					return nil, false
				}
				if cnd != 0 {
					next = cur.Succs[0]
				} else {
					next = cur.Succs[1]
				}
			case *ssa.Jump:
				next = cur.Succs[0]
			case *ssa.Return:
				var out []foldResult
				for _, r := range x.Results {
					if v, ok := val(r); ok {
						out = append(out, foldResult{known: true, k: v})
					} else if k, isK := r.(*ssa.Const); (isK && k.IsNil()) || nilSet[r] {
						out = append(out, foldResult{isNil: true})
					} else {
						out = append(out, foldResult{})
					}
				}
				return out, true
			case *ssa.Store:
				// a store into a local of the function (the packed arguments of a fmt call) is no effect
				base := x.Addr
				for {
					if ia, ok := base.(*ssa.IndexAddr); ok {
						base = ia.X
						continue
					}
					if fa, ok := base.(*ssa.FieldAddr); ok {
						base = fa.X
						continue
					}
					break
				}
				if _, local := base.(*ssa.Alloc); !local {
					return nil, false
				}
			case *ssa.MapUpdate, *ssa.Send, *ssa.Go, *ssa.Defer, *ssa.Panic:
				return nil, false
			}
		}
		if next == nil {
			return nil, false
		}
		prev, cur = cur, next
	}
}
