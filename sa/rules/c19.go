package rules

import (
	"fmt"

	"goalignsa/core"
)

func init() {
	register(&Property{ID: "C19", Run: runC19,
		Explanation: "Static decision of C19 by a write-effect / ownership analysis (allocation-site abstract interpretation of go/ssa, callees re-analysed in the caller's terms, closures and callbacks analysed at the call, interface calls resolved by receiver allocation type or class hierarchy): for every listed query, writer, distance/likelihood computation, pairwise alignment, phasing and ORF search, no write can land in memory reachable from the input alignment / sequence set; for every listed copy-producing operation nothing reachable from the result points into memory reachable from the receiver. Not decided: external callers that keep the slices deliberately exposed by SequenceChar/IterateChar; library calls are modelled by an effect table (trusted)."})
}

func runC19(c *Ctx) {
	L := c.L
	L.Trusts("effect table for standard-library and third-party callees (sa/rules/e3_effects.go: external)")
	L.Assumes("distinct parameters do not alias each other at entry; no unsafe/reflection on container types")
	var pure []purityTarget
	for _, m := range []string{"CharStats", "UniqueCharacters", "CharStatsSeq", "Identical", "DetectAlphabet", "String", "NbSequences",
		"GetSequence", "GetSequenceById", "GetSequenceNameById", "MaxNameLength", "Sequences", "CloneSeqBag", "Unalign", "LongestORF"} {
		pure = append(pure, purityTarget{"align", "*seqbag", m, []int{0}})
	}
	for _, m := range []string{"CharStatsSite", "MaxCharStats", "Consensus", "Entropy", "InformativeSites", "NbVariableSites", "AvgAllelesPerSite",
		"Pssm", "CountDifferences", "NumGapsUniquePerSequence", "NumMutationsUniquePerSequence", "SiteConservation", "Frameshifts", "Stops",
		"RefCoordinates", "RefSites", "InverseCoordinates", "InversePositions", "SubAlign", "SelectSites", "Transpose", "BuildBootstrap", "Clone", "Split",
		"RandSubAlign", "Length"} {
		pure = append(pure, purityTarget{"align", "*align", m, []int{0}})
	}
	pure = append(pure,
		purityTarget{"align", "*seq", "Clone", []int{0}},
		purityTarget{"align", "*seq", "LongestORF", []int{0}},
		purityTarget{"align", "*seq", "Translate", []int{0}},
		purityTarget{"align", "*seq", "NumMutationsComparedToReferenceSequence", []int{0, 2}},
		purityTarget{"align", "*seq", "ListMutationsComparedToReferenceSequence", []int{0, 2}},
		purityTarget{"align", "", "NewCountProfileFromAlignment", []int{0}},
		purityTarget{"align", "*align", "CodonAlign", []int{0, 1}},
		purityTarget{"io/fasta", "", "WriteAlignment", []int{0}},
		purityTarget{"io/fasta", "", "WriteSequences", []int{0}},
		purityTarget{"io/phylip", "", "WriteAlignment", []int{0}},
		purityTarget{"io/nexus", "", "WriteAlignment", []int{0}},
		purityTarget{"io/clustal", "", "WriteAlignment", []int{0}},
		purityTarget{"io/stockholm", "", "WriteAlignment", []int{0}},
		purityTarget{"io/paml", "", "WriteAlignment", []int{0}},
		purityTarget{"distance/dna", "", "DistMatrix", []int{0, 1}},
		purityTarget{"distance/protein", "*ProtDistModel", "MLDist", []int{1, 2}},
		purityTarget{"distance/protein", "*ProtDistModel", "JC69Dist", []int{1, 2}},
		purityTarget{"align", "*pwaligner", "Alignment", []int{}},
		purityTarget{"align", "", "NewPwAligner", []int{0, 1}},
		purityTarget{"align", "*phaser", "Phase", []int{1, 2}},
	)
	c.purityObligations("input-unmodified", pure)
	L.Floor("input-unmodified", 30, "purity obligations frozen from the resolved function set (floor = half of the instances on the pinned tree: a clean-up may merge instances, a rule that sees nothing must still fail)")

	c.ownershipObligations("result-owns-data", []ownTarget{
		{"align", "*align", "Clone", 0},
		{"align", "*seqbag", "CloneSeqBag", 0},
		{"align", "*seq", "Clone", 0},
		{"align", "*align", "SubAlign", 0},
		{"align", "*align", "SelectSites", 0},
		{"align", "*align", "Transpose", 0},
		{"align", "*align", "BuildBootstrap", 0},
		{"align", "*seqbag", "Unalign", 0},
		{"align", "*align", "Consensus", 0},
		{"align", "*align", "Split", 0},
		{"align", "*align", "RandSubAlign", 0},
		{"align", "*align", "CodonAlign", 0},
	})
	L.Floor("result-owns-data", 5, "copy-producing operations of the property (floor = half of the instances on the pinned tree: a clean-up may merge instances, a rule that sees nothing must still fail)")

	// the aligner keeps clones of its inputs
	c.checkAlignerHoldsClones()
	c.effectsControls()
	c.checkHandedOverBuffers("handed-over-buffer-fresh", "align", "io/fasta", "io/phylip", "io/nexus", "io/clustal", "io/stockholm", "cmd")
}

// effectsControls runs the engine on sa/controls/effects.go: it must report
// the mutating callback and the shallow copy, and stay silent on the deep copy
// and on the read-only traversal.
func (c *Ctx) effectsControls() {
	cp := c.Controls()
	if cp == nil {
		return
	}
	cc := &Ctx{P: cp, L: core.NewLedger("control", c.Tier, 0), Tier: c.Tier, VerifDir: c.VerifDir}
	cc.purityObligations("p", []purityTarget{{"", "*bag", "MutateViaCallback", []int{0}}, {"", "*bag", "Count", []int{0}}, {"", "*bag", "DeepCopy", []int{0}}})
	cc.ownershipObligations("o", []ownTarget{{"", "*bag", "ShallowCopy", 0}, {"", "*bag", "DeepCopy", 0}})
	st := map[string]core.Status{}
	for _, o := range cc.L.Obs {
		st[o.Rule+"/"+o.Func] = o.Status
	}
	c.L.ControlMustFire("input-unmodified", st["p/.(*bag).MutateViaCallback"] == core.Violated, "controls.(*bag).MutateViaCallback writes its receiver through a callback")
	c.L.ControlMustFire("result-owns-data", st["o/.(*bag).ShallowCopy"] == core.Violated, "controls.(*bag).ShallowCopy shares row buffers")
	if st["p/.(*bag).Count"] != core.Discharged || st["p/.(*bag).DeepCopy"] != core.Discharged || st["o/.(*bag).DeepCopy"] != core.Discharged {
		c.L.Broken = append(c.L.Broken, fmt.Sprintf("negative controls of the effects engine did not discharge: %v", st))
	} else {
		c.L.Note("negative controls (read-only traversal, deep copy) discharge as required")
	}
}

func (c *Ctx) checkAlignerHoldsClones() {
	L := c.L
	L.Rule("aligner-inputs-cloned", "the object returned by NewPwAligner does not reach the memory of either input sequence (its seq1/seq2 fields hold results of Clone()), so the in-place reversal of the ATG mode acts on private copies")
	r := c.fn("align", "", "NewPwAligner")
	if !r.ok() {
		return
	}
	res := c.runEffects(r.F)
	reach := res.reachFromResult(0)
	for _, k := range []int{0, 1} {
		o := "P" + string(rune('0'+k))
		name := "input " + r.F.Params[k].Name()
		if path, bad := reach[o]; bad {
			L.Bad("aligner-inputs-cloned", r.label, name, c.P.Pos(r.F.Pos()), "the aligner keeps a reference to its input: "+joinPath(path))
		} else {
			L.OK("aligner-inputs-cloned", r.label, name, c.P.Pos(r.F.Pos()), "the aligner object reaches only fresh allocations and the constant scoring tables")
		}
	}
	L.Floor("aligner-inputs-cloned", 2, "seq1, seq2")
}

func joinPath(p []string) string {
	s := ""
	for _, x := range p {
		s += x + " "
	}
	return s
}
