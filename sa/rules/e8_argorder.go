package rules

import (
	"fmt"
	"goalignsa/core"
	"go/ast"
	"go/types"
	"sort"
	"strings"
)

// checkArgNameOrder: at a call of a function of the module, an argument that is a plain variable
// bearing the name of one of the callee's parameters is passed in that parameter's position. When
// two arguments carry each other's parameter names (`f(length, start)` for `f(start, length int)`)
// and have the same type, the compiler cannot object and the call is almost certainly a swap.
func (c *Ctx) checkArgNameOrder(rule string, rels ...string) {
	L := c.L
	L.Rule(rule, "at every call of a module function, two arguments that are plain variables named like two parameters of the callee (same types) are not passed in each other's positions")
	nCalls := 0
	var bad []string
	pos := map[string]string{}
	scan := func(P *core.Program, rel string) {
		pk := P.Pkg(rel)
		if pk == nil {
			return
		}
		for _, f := range pk.Syntax {
			ast.Inspect(f, func(n ast.Node) bool {
				call, ok := n.(*ast.CallExpr)
				if !ok {
					return true
				}
				var fobj *types.Func
				switch fn := call.Fun.(type) {
				case *ast.Ident:
					fobj, _ = pk.TypesInfo.Uses[fn].(*types.Func)
				case *ast.SelectorExpr:
					fobj, _ = pk.TypesInfo.Uses[fn.Sel].(*types.Func)
				}
				if fobj == nil || fobj.Pkg() == nil || !strings.HasPrefix(fobj.Pkg().Path(), P.ModPath) {
					return true
				}
				sig := fobj.Type().(*types.Signature)
				if sig.Variadic() || sig.Params().Len() != len(call.Args) || len(call.Args) < 2 {
					return true
				}
				nCalls++
				idx := map[string]int{}
				for i := 0; i < sig.Params().Len(); i++ {
					if nm := sig.Params().At(i).Name(); nm != "" && nm != "_" {
						idx[nm] = i
					}
				}
				for i, a := range call.Args {
					ai, ok := a.(*ast.Ident)
					if !ok {
						continue
					}
					j, named := idx[ai.Name]
					if !named || j == i {
						continue
					}
					// the argument in position j bears the name of parameter i: a swap
					aj, ok := call.Args[j].(*ast.Ident)
					if !ok {
						continue
					}
					if k, ok := idx[aj.Name]; !ok || k != i {
						continue
					}
					if !types.Identical(sig.Params().At(i).Type(), sig.Params().At(j).Type()) {
						continue
					}
					if i < j {
						key := fmt.Sprintf("%s(%s ↔ %s)", fobj.Name(), ai.Name, aj.Name)
						bad = append(bad, key)
						pos[key] = P.Pos(call.Pos())
					}
				}
				return true
			})
		}
	}
	if cp := c.Controls(); cp != nil {
		scan(cp, "")
		L.ControlMustFire(rule, len(bad) > 0, "controls.SwappedArguments calls window(length, start)")
		nCalls, bad, pos = 0, nil, map[string]string{}
	}
	for _, rel := range rels {
		scan(c.P, rel)
	}
	sort.Strings(bad)
	for _, b := range bad {
		L.Bad(rule, "call "+b, "arguments in each other's positions", pos[b], "two variables named like two parameters of the callee are passed in swapped positions (same type, so the compiler accepts it)")
	}
	L.OK(rule, "scope", fmt.Sprintf("packages %v", rels), "-", fmt.Sprintf("%d calls of module functions with two or more arguments examined", nCalls))
}
