package rules

import (
	"fmt"
	"go/token"
	"os"
	"sort"

	"golang.org/x/tools/go/ssa"
)

// Tables that belong to one iteration. A local table (slice or map) that a loop both updates and
// consults to take a decision in the same iteration (a per-column count that is compared with a
// threshold, a per-site set of characters already seen) describes that iteration only. If it is
// created before the loop it must be emptied as a whole at the start of every iteration, otherwise
// what an earlier column left in it is counted for the later ones. A table that is only
// accumulated into (totals over the whole alignment, read after the loop) is not concerned.
type loopTable struct {
	fn    *ssa.Function
	table ssa.Value
	lp    *loop
	read  ssa.Instruction
}

func tableOrigin(v ssa.Value) ssa.Value {
	switch x := v.(type) {
	case *ssa.MakeMap:
		return x
	case *ssa.Phi, *ssa.Parameter, *ssa.Call:
		if _, isMap := v.Type().Underlying().(interface{ Key() interface{} }); isMap {
			return nil
		}
	}
	if org := sliceOrigin(v); org != nil {
		switch o := org.(type) {
		case *ssa.MakeSlice:
			return o
		case *ssa.Alloc:
			if o.Comment == "makeslice" {
				return o
			}
		}
	}
	return nil
}

func staleLoopTables(fn *ssa.Function) []loopTable {
	var out []loopTable
	for _, f := range withAnons(fn) {
		loops := naturalLoops(f)
		// outermost loops only: the iteration whose state the table describes
		for _, lp := range loops {
			outer := true
			for _, o := range loops {
				if o != lp && o.Blocks[lp.Head] {
					outer = false
				}
			}
			if !outer {
				continue
			}
			// tables created before the loop and updated in it
			updated := map[ssa.Value][]ssa.Instruction{}
			for b := range lp.Blocks {
				for _, in := range b.Instrs {
					switch x := in.(type) {
					case *ssa.Store:
						if ia, ok := x.Addr.(*ssa.IndexAddr); ok {
							if t := tableOrigin(ia.X); t != nil && !lp.Blocks[t.(ssa.Instruction).Block()] {
								updated[t] = append(updated[t], in)
							}
						}
					case *ssa.MapUpdate:
						if t := tableOrigin(x.Map); t != nil && !lp.Blocks[t.(ssa.Instruction).Block()] {
							updated[t] = append(updated[t], in)
						}
					}
				}
			}
			for t, ups := range updated {
				// an element read in the loop that reaches a branch condition of the loop (not just
				// the read-modify-write of the update itself)
				var decision ssa.Instruction
				for b := range lp.Blocks {
					for _, in := range b.Instrs {
						var elem ssa.Value
						switch x := in.(type) {
						case *ssa.UnOp:
							if x.Op == token.MUL {
								if ia, ok := x.X.(*ssa.IndexAddr); ok && tableOrigin(ia.X) == t {
									elem = x
								}
							}
						case *ssa.Lookup:
							if tableOrigin(x.X) == t {
								elem = x
							}
						}
						if elem == nil {
							continue
						}
						// the element of this iteration's own index (mask[site] written and read by
						// iteration `site`) carries nothing from another iteration
						if u, ok := elem.(*ssa.UnOp); ok {
							if ia, ok := u.X.(*ssa.IndexAddr); ok && ownIndexOf(lp, stripConv(ia.Index)) {
								continue
							}
						}
						if reachesCondition(elem, lp, 0, map[ssa.Value]bool{}) {
							decision = in
						}
					}
				}
				if decision == nil {
					continue
				}
				if clearedInLoop(f, lp, t, ups) {
					continue
				}
				if seenSetOfAccumulator(lp, t, ups) {
					continue
				}
				out = append(out, loopTable{f, t, lp, decision})
			}
		}
	}
	return out
}

// reachesCondition: v flows, through arithmetic, comparisons, conversions, extractions and φ-nodes
// inside the loop, into the condition of a branch of the loop.
func reachesCondition(v ssa.Value, lp *loop, d int, seen map[ssa.Value]bool) bool {
	if d > 8 || seen[v] {
		return false
	}
	seen[v] = true
	refs := v.Referrers()
	if refs == nil {
		return false
	}
	for _, ref := range *refs {
		if !lp.Blocks[ref.Block()] {
			continue
		}
		switch x := ref.(type) {
		case *ssa.If:
			return true
		case *ssa.BinOp:
			// the update itself: t[k] = t[k] + 1
			isUpdate := false
			if x.Op == token.ADD || x.Op == token.SUB {
				for _, r2 := range *x.Referrers() {
					if _, ok := r2.(*ssa.Store); ok {
						isUpdate = true
					}
					if _, ok := r2.(*ssa.MapUpdate); ok {
						isUpdate = true
					}
				}
			}
			if isUpdate {
				continue
			}
			if reachesCondition(x, lp, d+1, seen) {
				return true
			}
		case *ssa.UnOp, *ssa.Convert, *ssa.Extract, *ssa.Phi, *ssa.ChangeType:
			if reachesCondition(x.(ssa.Value), lp, d+1, seen) {
				return true
			}
		}
	}
	return false
}

// clearedInLoop: the table is emptied as a whole by clear() in the loop's own body, in a block
// that dominates every update.
func clearedInLoop(f *ssa.Function, lp *loop, t ssa.Value, ups []ssa.Instruction) bool {
	loops := naturalLoops(f)
	ok := false
	allInstrs(f, func(in ssa.Instruction) {
		call, isCall := in.(*ssa.Call)
		if !isCall || builtinName(call.Common()) != "clear" || !lp.Blocks[call.Block()] {
			return
		}
		arg := call.Common().Args[0]
		if tableOrigin(arg) != t {
			return
		}
		if in := innermostLoopOf(loops, call.Block()); in == nil || in.Head != lp.Head {
			return
		}
		if sl, isSl := arg.(*ssa.Slice); isSl && (sl.Low != nil || sl.Max != nil) {
			return
		}
		for _, u := range ups {
			if !(call.Block() == u.Block() && instrDominates(call, u)) && !(call.Block() != u.Block() && call.Block().Dominates(u.Block())) {
				return
			}
		}
		ok = true
	})
	return ok
}

func (c *Ctx) debugLoopTables() {
	if os.Getenv("VERIF_DEBUG_LOOPTABLE") == "" {
		return
	}
	var lines []string
	for _, fn := range c.P.SrcFuncs() {
		for _, lt := range staleLoopTables(fn) {
			lines = append(lines, fmt.Sprintf("LOOPTABLE %s: table %s created at %s, consulted at %s", c.P.FuncName(lt.fn), lt.table.Name(), c.P.Pos(lt.table.Pos()), c.P.Pos(lt.read.Pos())))
		}
	}
	sort.Strings(lines)
	for _, l := range lines {
		fmt.Fprintln(os.Stderr, l)
	}
}

// loopTableAllowed: tables of the pinned tree that are consulted and updated across the iterations
// of their loop by design (sets and counts that accumulate over the whole loop), per function.
var loopTableAllowed = map[string]struct {
	n   int
	why string
}{
	"align.(*align).Entropy":         {1, "the counts of one site accumulated over the rows (the loop is the row loop of that site)"},
	"align.(*align).Pssm":            {1, "the matrix rows created on first sight of a character, over the whole alignment"},
	"align.(*seqbag).Deduplicate":    {1, "index of the groups seen so far: the point of the loop"},
	"align.(*seqbag).TrimNames":      {1, "set of the short names already given"},
	"align.(*seqbag).rarefySeqBag":   {1, "remaining counts of the draw without replacement"},
	"cmd.parseGFFFile":               {2, "genes and CDS collected over the lines of the annotation file (thorough tier scope)"},
	"models.IncompleteGamma":         {1, "coefficients of the continued fraction, shifted at every step (thorough tier scope)"},
	"distance/dna.selectedSites":     {1, "site mask accumulated over the rows"},
	"distance/protein.selectedSites": {1, "site mask accumulated over the rows"},
}

// checkLoopTables: beyond the listed accumulating tables, no table created before an outermost
// loop is both updated and consulted for a decision inside it without being emptied as a whole
// (clear(), or a loop that zeroes every element) at the start of each iteration.
func (c *Ctx) checkLoopTables(rule string, rels ...string) {
	L := c.L
	if c.Thorough() {
		rels = nil // thorough tier: every package of the module
	}
	L.Rule(rule, "a local table that a loop both updates and consults for a decision in the same iteration (per-site counts compared with a threshold, characters already seen in this column) is created inside the loop, or emptied as a whole (clear) before the first update of every iteration; tables that accumulate over the whole loop by design are listed per function with the reason")
	byFn := map[string][]string{}
	pos := map[string]string{}
	nLoops := 0
	for _, fn := range c.srcFuncs(rels...) {
		for _, f := range withAnons(fn) {
			nLoops += len(naturalLoops(f))
		}
		for _, lt := range staleLoopTables(fn) {
			root := lt.fn
			for root.Parent() != nil && root.Parent().Synthetic == "" {
				root = root.Parent()
			}
			name := c.P.FuncName(c.origFn(root))
			if _, listed := loopTableAllowed[name]; !listed {
				if roots, ok := c.helperRoots(c.origFn(root)); ok && len(roots) == 1 {
					name = c.P.FuncName(roots[0])
				}
			}
			byFn[name] = append(byFn[name], c.P.Pos(lt.table.Pos()))
			pos[name] = c.P.Pos(lt.read.Pos())
		}
	}
	var names []string
	for n := range byFn {
		names = append(names, n)
	}
	sort.Strings(names)
	for _, n := range names {
		al := loopTableAllowed[n]
		L.Check(len(byFn[n]) <= al.n, rule, n, "tables carried across iterations", pos[n],
			fmt.Sprintf("%d accumulating table(s), listed: %s", len(byFn[n]), al.why),
			fmt.Sprintf("%d table(s) created before the loop (at %v) are updated and consulted inside it without being emptied at the start of each iteration (%d listed for this function): what an earlier iteration counted is still there for the later ones", len(byFn[n]), byFn[n], al.n))
	}
	L.OK(rule, "scope", fmt.Sprintf("packages %v", rels), "-", fmt.Sprintf("%d loops examined", nLoops))
	if cp := c.Controls(); cp != nil {
		n := 0
		for _, fn := range cp.SrcFuncs() {
			if fn.Name() == "StaleColumnTable" {
				n += len(staleLoopTables(fn))
			}
		}
		L.ControlMustFire(rule, n > 0, "controls.StaleColumnTable counts into a table created before the column loop and never emptied")
	}
}

// ownIndexOf: v is the induction variable of lp (header φ stepped by a constant) or φ+1 of the
// range form.
func ownIndexOf(lp *loop, v ssa.Value) bool {
	isIV := func(p *ssa.Phi) bool {
		if p.Block() != lp.Head {
			return false
		}
		for i, e := range p.Edges {
			if !lp.Blocks[lp.Head.Preds[i]] {
				continue
			}
			bo, ok := e.(*ssa.BinOp)
			if !ok || (bo.Op != token.ADD && bo.Op != token.SUB) || bo.X != ssa.Value(p) {
				return false
			}
			if _, isK := constInt(bo.Y); !isK {
				return false
			}
		}
		return true
	}
	if p, ok := v.(*ssa.Phi); ok {
		return isIV(p)
	}
	if bo, ok := v.(*ssa.BinOp); ok && bo.Op == token.ADD {
		if p, ok := bo.X.(*ssa.Phi); ok && isIV(p) {
			if k, ok := constInt(bo.Y); ok && k == 1 {
				return true
			}
		}
	}
	return false
}


// seenSetOfAccumulator: the table is the "already listed" set of a list that is itself built over
// the whole loop: every update `seen[k] = …` sits in a block that also appends to a list whose
// value is carried around the loop (a φ of the loop header) or kept in a variable declared before
// the loop. Set and list have the same lifetime; emptying the set per iteration would list an
// element twice.
func seenSetOfAccumulator(lp *loop, t ssa.Value, ups []ssa.Instruction) bool {
	if _, isMap := t.(*ssa.MakeMap); !isMap || len(ups) == 0 {
		return false
	}
	carried := func(v ssa.Value) bool {
		// v reaches a φ of the loop header, or is stored into a cell that lives outside the loop
		seen := map[ssa.Value]bool{}
		var walk func(v ssa.Value, d int) bool
		walk = func(v ssa.Value, d int) bool {
			if d > 6 || seen[v] {
				return false
			}
			seen[v] = true
			refs := v.Referrers()
			if refs == nil {
				return false
			}
			for _, r := range *refs {
				switch x := r.(type) {
				case *ssa.Phi:
					if x.Block() == lp.Head {
						return true
					}
					if lp.Blocks[x.Block()] && walk(x, d+1) {
						return true
					}
				case *ssa.Store:
					if x.Val != v {
						continue
					}
					switch a := x.Addr.(type) {
					case *ssa.Alloc:
						if !lp.Blocks[a.Block()] {
							return true
						}
					case *ssa.FreeVar, *ssa.Global:
						return true
					}
				}
			}
			return false
		}
		return walk(v, 0)
	}
	for _, u := range ups {
		mu, ok := u.(*ssa.MapUpdate)
		if !ok {
			return false
		}
		found := false
		for _, in := range mu.Block().Instrs {
			call, isCall := in.(*ssa.Call)
			if !isCall || builtinName(call.Common()) != "append" {
				continue
			}
			if carried(call) {
				found = true
			}
		}
		if !found {
			return false
		}
	}
	return true
}
