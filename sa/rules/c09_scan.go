package rules

import (
	"fmt"
	"go/token"

	"golang.org/x/tools/go/ssa"
)

// checkMatrixScans: every counting loop of the aligner whose counter indexes the score or trace
// matrix runs to the end of the dimension it indexes: a counter used as row index while it is below
// seq1.Length(), one used as column index while it is below seq2.Length(). A scan that stops one
// cell early misses the best score when it lies in the last row or column.
func (c *Ctx) checkMatrixScans(rule string, names ...string) {
	L := c.L
	L.Rule(rule, "in the fill and trace-back start of the aligner, a counting loop (step +1) whose counter is used as the row index of the score/trace matrix continues while counter < seq1.Length(), and one whose counter is the column index while counter < seq2.Length(): no border row or column is left out of a scan")
	n := 0
	for _, nme := range names {
		r := c.fn("align", "*pwaligner", nme)
		if !r.ok() {
			continue
		}
		fn := r.F
		isMatrixField := func(v ssa.Value) bool {
			_, f, base := loadedField(v)
			return base != nil && (f == "matrix" || f == "trace")
		}
		for _, lp := range naturalLoops(fn) {
			ifi, ok := lp.Head.Instrs[len(lp.Head.Instrs)-1].(*ssa.If)
			if !ok {
				continue
			}
			bo, ok := ifi.Cond.(*ssa.BinOp)
			if !ok || bo.Op != token.LSS {
				continue
			}
			phi, ok := bo.X.(*ssa.Phi)
			if !ok || phi.Block() != lp.Head {
				continue
			}
			stepped := false
			for i, e := range phi.Edges {
				if lp.Blocks[lp.Head.Preds[i]] {
					if inc, ok := e.(*ssa.BinOp); ok && inc.Op == token.ADD && inc.X == ssa.Value(phi) {
						if k, ok := constInt(inc.Y); ok && k == 1 {
							stepped = true
						}
					}
				}
			}
			if !stepped {
				continue
			}
			// how the counter is used
			asRow, asCol := false, false
			for b := range lp.Blocks {
				for _, in := range b.Instrs {
					ia, ok := in.(*ssa.IndexAddr)
					if !ok || ia.Index != ssa.Value(phi) {
						continue
					}
					if isMatrixField(ia.X) {
						asRow = true
					} else if u, ok := ia.X.(*ssa.UnOp); ok && u.Op == token.MUL {
						if ria, ok := u.X.(*ssa.IndexAddr); ok && isMatrixField(ria.X) {
							asCol = true
						}
					}
				}
			}
			if asRow == asCol {
				continue
			}
			want := "seq1"
			dim := "row"
			if asCol {
				want, dim = "seq2", "column"
			}
			good := false
			if call, ok := bo.Y.(*ssa.Call); ok && getterNameAny(call.Common()) == "Length" {
				if _, f, base := loadedField(recvOfCall(call.Common())); base != nil && f == want {
					good = true
				}
			}
			n++
			L.Check(good, rule, r.label, fmt.Sprintf("%s scan #%d", dim, n), c.P.Pos(bo.Pos()),
				"continues while the counter is below "+want+".Length()",
				"the loop that scans the matrix along its "+dim+" index does not run while counter < "+want+".Length(): the last "+dim+"(s) are never examined")
		}
	}
}

func getterNameAny(cc *ssa.CallCommon) string {
	if cc.IsInvoke() {
		return cc.Method.Name()
	}
	if f := cc.StaticCallee(); f != nil {
		return f.Name()
	}
	return ""
}

func recvOfCall(cc *ssa.CallCommon) ssa.Value {
	if cc.IsInvoke() {
		return cc.Value
	}
	if len(cc.Args) > 0 {
		return cc.Args[0]
	}
	return nil
}
