package rules

import (
	"fmt"
	"go/token"
	"go/types"

	"golang.org/x/tools/go/ssa"
)

// checkLikelihoodSumComplete: the log-likelihood of a distance is the sum over all pairs of
// states of F(i,j)·ln P(i,j). In lk_Dist the addition into the running sum is executed in every
// iteration of the two state loops: its block dominates every back edge of the innermost loop.
// A pair skipped under a data-dependent test (cells "too small to matter") changes the function
// that is maximised, hence the distance.
func (c *Ctx) checkLikelihoodSumComplete(rule string) {
	L := c.L
	L.Rule(rule, "in lk_Dist the addition of F(i,j)·ln(partial likelihood) into the running sum is executed in every iteration of the loops over the states: its block dominates every back edge of the innermost loop")
	r := c.fn("distance/protein", "*ProtDistModel", "lk_Dist")
	if !r.ok() {
		return
	}
	fn := r.F
	loops := naturalLoops(fn)
	n := 0
	for _, lp := range loops {
		// innermost loops only
		inner := true
		for _, o := range loops {
			if o != lp && lp.Blocks[o.Head] {
				inner = false
			}
		}
		if !inner {
			continue
		}
		for _, in := range lp.Head.Instrs {
			phi, ok := in.(*ssa.Phi)
			if !ok {
				break
			}
			if bt, ok := phi.Type().Underlying().(*types.Basic); !ok || bt.Info()&types.IsFloat == 0 {
				continue
			}
			// the back-edge value: φ + something
			for i, e := range phi.Edges {
				if !lp.Blocks[lp.Head.Preds[i]] {
					continue
				}
				add := e
				// through merge φ-nodes of the body
				var adds []*ssa.BinOp
				seen := map[ssa.Value]bool{}
				var rec func(v ssa.Value)
				rec = func(v ssa.Value) {
					if seen[v] {
						return
					}
					seen[v] = true
					switch x := v.(type) {
					case *ssa.BinOp:
						if x.Op == token.ADD || x.Op == token.SUB {
							adds = append(adds, x)
						}
					case *ssa.Phi:
						if x != phi && lp.Blocks[x.Block()] {
							for _, e2 := range x.Edges {
								rec(e2)
							}
						}
					}
				}
				rec(add)
				if len(adds) == 0 {
					continue
				}
				n++
				ok := true
				for _, a := range adds {
					if !a.Block().Dominates(lp.Head.Preds[i]) {
						ok = false
					}
				}
				// a merge φ between the addition and the latch means some path skips the addition
				if _, isPhi := e.(*ssa.Phi); isPhi {
					ok = false
				}
				L.Check(ok, rule, r.label, "every pair of states contributes", c.P.Pos(adds[0].Pos()),
					"the addition dominates the back edge of the innermost state loop",
					"some iteration of the state loops can skip the addition into the log-likelihood: the function that is maximised is no longer the likelihood of the pair")
			}
		}
	}
	if n == 0 {
		L.Unknown(rule, r.label, "every pair of states contributes", c.P.Pos(fn.Pos()), "no running floating-point sum found in an innermost loop")
	}
	L.Floor(rule, 1, fmt.Sprintf("one sum"))
}
