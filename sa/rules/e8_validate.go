package rules

import (
	"fmt"
	"strings"

	"golang.org/x/tools/go/ssa"
)

// Validate, then store. A method that rejects an argument with an error must not have written
// that argument (or anything else) into its receiver before the rejection: the caller sees an
// error, keeps using the object, and the next call works on the rejected value.
//
// Rule: for every error return of the function that is controlled by a test on one of its
// (non-receiver) parameters, no store into a field of the receiver is reachable on a path from
// the entry to that return.
func (c *Ctx) checkValidateBeforeStore(rule string, r *fnRef) {
	L := c.L
	if !r.ok() {
		return
	}
	fn := r.F
	if len(fn.Params) < 2 {
		return
	}
	recv := fn.Params[0]
	n := 0
	var bad []string
	for _, e := range returnEdges(fn) {
		if e.kind != "err" {
			continue
		}
		eb := e.block
		// controlled (at any level) by a test on a parameter?
		onParam := false
		for d := eb; d != nil && !onParam; d = d.Idom() {
			id := d.Idom()
			if id == nil || len(id.Instrs) == 0 || len(d.Preds) != 1 {
				continue
			}
			ifi, ok := id.Instrs[len(id.Instrs)-1].(*ssa.If)
			if !ok {
				continue
			}
			for _, p := range fn.Params[1:] {
				if mentionsThroughCalls(ifi.Cond, p, 0) || mentions(ifi.Cond, p) {
					onParam = true
				}
			}
		}
		if !onParam {
			continue
		}
		n++
		// blocks from which the error block is reachable
		reach := map[*ssa.BasicBlock]bool{eb: true}
		for changed := true; changed; {
			changed = false
			for _, b := range fn.Blocks {
				if reach[b] {
					continue
				}
				for _, s := range b.Succs {
					if reach[s] {
						reach[b] = true
						changed = true
					}
				}
			}
		}
		for _, b := range fn.Blocks {
			if !reach[b] || b == eb {
				continue
			}
			for _, in := range b.Instrs {
				st, ok := in.(*ssa.Store)
				if !ok {
					continue
				}
				if fa, ok := st.Addr.(*ssa.FieldAddr); ok && isRecvValue(fa.X, recv) {
					bad = append(bad, fmt.Sprintf("field store at %s before the rejection at %s", c.P.Pos(st.Pos()), c.P.Pos(e.ret.Pos())))
				}
			}
		}
	}
	if n == 0 {
		L.Trivial(rule, r.label, "arguments validated before they are stored", c.P.Pos(fn.Pos()), "no error return controlled by a test on a parameter")
		return
	}
	L.Check(len(bad) == 0, rule, r.label, "arguments validated before they are stored", c.P.Pos(fn.Pos()),
		fmt.Sprintf("%d argument rejection(s), no store into the receiver can precede them", n),
		"the receiver is modified before an argument is rejected: the call fails but the object keeps the rejected value — "+strings.Join(dedupe(bad), "; "))
}


// isRecvValue: v is the receiver parameter, or a load of the cell it was spilled to (a receiver
// captured by a closure).
func isRecvValue(v ssa.Value, recv *ssa.Parameter) bool {
	if v == ssa.Value(recv) {
		return true
	}
	if u, ok := v.(*ssa.UnOp); ok {
		if a, ok := u.X.(*ssa.Alloc); ok {
			if sv := singleCellValue(a); sv == ssa.Value(recv) {
				return true
			}
		}
	}
	return false
}
