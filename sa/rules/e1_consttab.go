package rules

import (
	"fmt"
	"go/ast"
	"go/constant"
	"go/token"
	"go/types"
	"sort"

	"golang.org/x/tools/go/packages"
	"golang.org/x/tools/go/ssa"

	"goalignsa/core"
)

// E1 — constant tables evaluated from the source with go/constant, never run.

// litVal is the evaluated form of a composite literal:
//
//	constant.Value | []kv (map) | []litVal (slice/array)
type kv struct {
	K constant.Value
	V interface{}
}

type table struct {
	Name string
	Pos  token.Pos
	Val  interface{}
	Obj  *types.Var
}

// evalLit evaluates a (nested) composite literal of constants.
func evalLit(info *types.Info, e ast.Expr) (interface{}, error) {
	if tv, ok := info.Types[e]; ok && tv.Value != nil {
		return tv.Value, nil
	}
	switch x := e.(type) {
	case *ast.ParenExpr:
		return evalLit(info, x.X)
	case *ast.CompositeLit:
		t := info.TypeOf(x)
		if t == nil {
			return nil, fmt.Errorf("untyped composite literal")
		}
		switch t.Underlying().(type) {
		case *types.Map:
			var out []kv
			for _, el := range x.Elts {
				kve, ok := el.(*ast.KeyValueExpr)
				if !ok {
					return nil, fmt.Errorf("map element without key")
				}
				ktv, ok := info.Types[kve.Key]
				if !ok || ktv.Value == nil {
					return nil, fmt.Errorf("non-constant map key %s", types.ExprString(kve.Key))
				}
				v, err := evalLit(info, kve.Value)
				if err != nil {
					return nil, err
				}
				out = append(out, kv{ktv.Value, v})
			}
			return out, nil
		case *types.Slice, *types.Array:
			var out []interface{}
			for _, el := range x.Elts {
				if _, ok := el.(*ast.KeyValueExpr); ok {
					return nil, fmt.Errorf("indexed slice literal not supported")
				}
				v, err := evalLit(info, el)
				if err != nil {
					return nil, err
				}
				out = append(out, v)
			}
			return out, nil
		}
		return nil, fmt.Errorf("unsupported literal type %s", t)
	}
	return nil, fmt.Errorf("non-constant expression %s", types.ExprString(e))
}

// errNotLiteral: the table exists but its initialiser is a function call — the engine evaluates
// literals only, so the table's content cannot be decided (as opposed to a malformed literal).
type errNotLiteral struct{ name, expr string }

func (e *errNotLiteral) Error() string {
	return e.name + " is initialised by " + e.expr + ", not by a literal"
}

// waiveIfNotLiteral: true when err says the table is built by a function; the rule is then waived
// with that reason instead of failing.
func (c *Ctx) waiveIfNotLiteral(rule string, err error) bool {
	if nl, ok := err.(*errNotLiteral); ok {
		c.L.Waive(rule, nl.Error()+"; constant-table evaluation applies to literals only")
		return true
	}
	return false
}

// findTable locates `var name = <literal>` at package level.
func findTable(pk *packages.Package, name string) (*table, error) {
	for _, f := range pk.Syntax {
		for _, d := range f.Decls {
			gd, ok := d.(*ast.GenDecl)
			if !ok || gd.Tok != token.VAR {
				continue
			}
			for _, sp := range gd.Specs {
				vs := sp.(*ast.ValueSpec)
				for i, id := range vs.Names {
					if id.Name != name {
						continue
					}
					if i >= len(vs.Values) {
						return nil, fmt.Errorf("%s has no initialiser", name)
					}
					if _, isCall := ast.Unparen(vs.Values[i]).(*ast.CallExpr); isCall {
						if _, isConv := pk.TypesInfo.Types[vs.Values[i].(*ast.CallExpr).Fun]; !isConv || !pk.TypesInfo.Types[vs.Values[i].(*ast.CallExpr).Fun].IsType() {
							return nil, &errNotLiteral{name, types.ExprString(vs.Values[i])}
						}
					}
					v, err := evalLit(pk.TypesInfo, vs.Values[i])
					if err != nil {
						return nil, fmt.Errorf("%s: %v", name, err)
					}
					obj, _ := pk.TypesInfo.Defs[id].(*types.Var)
					return &table{Name: name, Pos: id.Pos(), Val: v, Obj: obj}, nil
				}
			}
		}
	}
	return nil, fmt.Errorf("package-level variable %s not found", name)
}

func constByName(pk *packages.Package, name string) constant.Value {
	if o, ok := pk.Types.Scope().Lookup(name).(*types.Const); ok {
		return o.Val()
	}
	return nil
}

func cInt(v interface{}) (int64, bool) {
	c, ok := v.(constant.Value)
	if !ok {
		return 0, false
	}
	c = constant.ToInt(c)
	if c.Kind() != constant.Int {
		return 0, false
	}
	return constant.Int64Val(c)
}

func cStr(v interface{}) (string, bool) {
	c, ok := v.(constant.Value)
	if !ok || c.Kind() != constant.String {
		return "", false
	}
	return constant.StringVal(c), true
}

func cFloat(v interface{}) (float64, bool) {
	c, ok := v.(constant.Value)
	if !ok {
		return 0, false
	}
	c = constant.ToFloat(c)
	if c.Kind() != constant.Float {
		return 0, false
	}
	f, _ := constant.Float64Val(c)
	return f, true
}

// mapIntInt flattens a map literal with integer-like keys and values;
// duplicates keys are reported.
func mapIntInt(t *table) (map[int64]int64, error) {
	kvs, ok := t.Val.([]kv)
	if !ok {
		return nil, fmt.Errorf("%s is not a map literal", t.Name)
	}
	out := map[int64]int64{}
	for _, e := range kvs {
		k, ok1 := cInt(e.K)
		v, ok2 := cInt(e.V)
		if !ok1 || !ok2 {
			return nil, fmt.Errorf("%s: non-integer entry", t.Name)
		}
		if _, dup := out[k]; dup {
			return nil, fmt.Errorf("%s: duplicate key %d", t.Name, k)
		}
		out[k] = v
	}
	return out, nil
}

func sortedKeys(m map[int64]int64) []int64 {
	var ks []int64
	for k := range m {
		ks = append(ks, k)
	}
	sort.Slice(ks, func(i, j int) bool { return ks[i] < ks[j] })
	return ks
}

// ---------------------------------------------------------------------------
// who-may-write: a package-level table must not be written after its
// initialiser, otherwise the literal is not the runtime value.

// globalWrites lists instructions that (re)assign the global or write through
// a value derived from a load of it (map update, element store, delete, copy
// destination, append-in-place is not a write to existing elements).
// Derivation follows phis, conversions, slicing, returns into callers and
// arguments into callees (module functions), Alloc cells and struct fields
// (field-based).
func globalWrites(p *core.Program, g *ssa.Global) []ssa.Instruction {
	fl := newFlow(p)
	// seeds: loads of the global
	for fn := range p.AllFns {
		if !p.InModule(fn) {
			continue
		}
		allInstrs(fn, func(in ssa.Instruction) {
			if u, ok := in.(*ssa.UnOp); ok && u.Op == token.MUL && u.X == g {
				fl.seed(u)
			}
		})
	}
	fl.run()
	var out []ssa.Instruction
	for fn := range p.AllFns {
		if !p.InModule(fn) {
			continue
		}
		isInit := fn.Name() == "init" && fn.Synthetic != "" // package initialiser
		allInstrs(fn, func(in ssa.Instruction) {
			switch x := in.(type) {
			case *ssa.Store:
				if x.Addr == g {
					if !isInit {
						out = append(out, in)
					}
					return
				}
				if isInit {
					return
				}
				if ia, ok := x.Addr.(*ssa.IndexAddr); ok && fl.has(ia.X) {
					// an element store into a local array that merely *holds* rows of the table
					// writes local memory, not the table
					if al, isLocal := ia.X.(*ssa.Alloc); isLocal {
						if pt, isP := al.Type().Underlying().(*types.Pointer); isP {
							if _, isArr := pt.Elem().Underlying().(*types.Array); isArr {
								return
							}
						}
					}
					out = append(out, in)
				}
			case *ssa.MapUpdate:
				if isInit {
					return
				}
				if fl.has(x.Map) {
					out = append(out, in)
				}
			case ssa.CallInstruction:
				if isInit {
					return
				}
				cc := x.Common()
				switch builtinName(cc) {
				case "delete", "clear":
					if fl.has(cc.Args[0]) {
						out = append(out, in)
					}
				case "copy":
					if fl.has(cc.Args[0]) {
						out = append(out, in)
					}
				}
				// sort.* / slices.Sort* on the table
				if f := cc.StaticCallee(); f != nil && f.Pkg != nil {
					pp := f.Pkg.Pkg.Path()
					if pp == "sort" || pp == "slices" {
						for _, a := range cc.Args {
							if fl.has(a) {
								out = append(out, in)
							}
						}
					}
				}
			}
		})
	}
	sort.Slice(out, func(i, j int) bool { return out[i].Pos() < out[j].Pos() })
	return out
}

// ---------------------------------------------------------------------------
// flow: forward value-flow closure (field-based, context-insensitive)

type flow struct {
	p      *core.Program
	vals   map[ssa.Value]bool
	fields map[string]bool // "pkg.T.f" tainted field
	work   []ssa.Value
	// options
	throughCalls bool
	callers      map[*ssa.Function][]ssa.CallInstruction
}

func newFlow(p *core.Program) *flow {
	return &flow{p: p, vals: map[ssa.Value]bool{}, fields: map[string]bool{}, throughCalls: true}
}

// isRefType: values of this type can alias the tracked memory (scalars and
// strings read out of a table are copies, not references).
func isRefType(t types.Type) bool {
	switch u := t.Underlying().(type) {
	case *types.Map, *types.Slice, *types.Pointer, *types.Interface, *types.Chan, *types.Signature:
		return true
	case *types.Tuple:
		for i := 0; i < u.Len(); i++ {
			if isRefType(u.At(i).Type()) {
				return true
			}
		}
	case *types.Struct:
		for i := 0; i < u.NumFields(); i++ {
			if isRefType(u.Field(i).Type()) {
				return true
			}
		}
	case *types.Array:
		return isRefType(u.Elem())
	}
	return false
}

func (f *flow) seed(v ssa.Value) {
	if v == nil || f.vals[v] {
		return
	}
	if _, isRange := v.(*ssa.Range); !isRange && !isRefType(v.Type()) {
		return
	}
	f.vals[v] = true
	f.work = append(f.work, v)
}

func (f *flow) has(v ssa.Value) bool { return f.vals[v] }

func fieldKey(fa *ssa.FieldAddr) string {
	n := namedOf(fa.X.Type())
	tn := "?"
	if n != nil {
		tn = n.Obj().Name()
		if n.Obj().Pkg() != nil {
			tn = n.Obj().Pkg().Path() + "." + tn
		}
	}
	return fmt.Sprintf("%s.%s", tn, fieldName(fa.X.Type(), fa.Field))
}

func (f *flow) buildCallers() {
	f.callers = map[*ssa.Function][]ssa.CallInstruction{}
	for fn := range f.p.AllFns {
		if !f.p.InModule(fn) {
			continue
		}
		allInstrs(fn, func(in ssa.Instruction) {
			if ci, ok := in.(ssa.CallInstruction); ok {
				if cal := ci.Common().StaticCallee(); cal != nil {
					f.callers[cal] = append(f.callers[cal], ci)
				}
			}
		})
	}
}

func (f *flow) run() {
	if f.callers == nil {
		f.buildCallers()
	}
	fieldLoadsDone := map[string]bool{}
	for len(f.work) > 0 {
		v := f.work[len(f.work)-1]
		f.work = f.work[:len(f.work)-1]
		refs := v.Referrers()
		if refs == nil {
			continue
		}
		for _, in := range *refs {
			switch x := in.(type) {
			case *ssa.Phi:
				f.seed(x)
			case *ssa.ChangeType:
				f.seed(x)
			case *ssa.Convert:
				f.seed(x)
			case *ssa.MakeInterface:
				f.seed(x)
			case *ssa.ChangeInterface:
				f.seed(x)
			case *ssa.TypeAssert:
				f.seed(x)
			case *ssa.Slice:
				if x.X == v {
					f.seed(x)
				}
			case *ssa.Extract:
				f.seed(x)
			case *ssa.Lookup:
				// element of a tainted map/string: nested tables ([]uint8 values)
				if x.X == v {
					f.seed(x)
				}
			case *ssa.Index:
				if x.X == v {
					f.seed(x)
				}
			case *ssa.IndexAddr:
				if x.X == v {
					// address of an element; loads of it yield nested values
					f.seed(x)
				}
			case *ssa.UnOp:
				if x.Op == token.MUL && x.X == v {
					f.seed(x)
				}
			case *ssa.Range:
				f.seed(x)
			case *ssa.Next:
				f.seed(x)
			case *ssa.Store:
				if x.Val == v {
					switch a := x.Addr.(type) {
					case *ssa.Alloc:
						f.seed(a) // cell holds tainted; loads via UnOp(a) follow from Referrers of a
					case *ssa.FieldAddr:
						k := fieldKey(a)
						if !f.fields[k] {
							f.fields[k] = true
						}
					case *ssa.IndexAddr:
						// stored into a container: container now reaches it
						f.seed(a.X)
					case *ssa.Global:
						f.seedGlobalLoads(a)
					}
				}
			case *ssa.MakeClosure:
				for i, b := range x.Bindings {
					if b == v {
						fn := x.Fn.(*ssa.Function)
						f.seed(fn.FreeVars[i])
					}
				}
			case *ssa.Return:
				if !f.throughCalls {
					continue
				}
				fn := x.Parent()
				for i, r := range x.Results {
					if r != v {
						continue
					}
					for _, site := range f.callers[fn] {
						val := site.Value()
						if val == nil {
							continue
						}
						if len(x.Results) == 1 {
							f.seed(val)
						} else if refs := val.Referrers(); refs != nil {
							for _, r2 := range *refs {
								if ex, ok := r2.(*ssa.Extract); ok && ex.Index == i {
									f.seed(ex)
								}
							}
						}
					}
				}
			case ssa.CallInstruction:
				if !f.throughCalls {
					continue
				}
				cc := x.Common()
				if cal := cc.StaticCallee(); cal != nil && f.p.InModule(cal) && cal.Blocks != nil {
					args := cc.Args
					for i, a := range args {
						if a == v && i < len(cal.Params) {
							f.seed(cal.Params[i])
						}
					}
				}
				if builtinName(cc) == "append" && len(cc.Args) > 0 && cc.Args[0] == v {
					if val := x.Value(); val != nil {
						f.seed(val)
					}
				}
			}
		}
		// field loads: any load of a tainted field anywhere
		for k := range f.fields {
			if fieldLoadsDone[k] {
				continue
			}
			fieldLoadsDone[k] = true
			for fn := range f.p.AllFns {
				if !f.p.InModule(fn) {
					continue
				}
				allInstrs(fn, func(in ssa.Instruction) {
					if fa, ok := in.(*ssa.FieldAddr); ok && fieldKey(fa) == k {
						f.seed(fa)
					}
				})
			}
		}
	}
}

func (f *flow) seedGlobalLoads(g *ssa.Global) {
	for fn := range f.p.AllFns {
		if !f.p.InModule(fn) {
			continue
		}
		allInstrs(fn, func(in ssa.Instruction) {
			if u, ok := in.(*ssa.UnOp); ok && u.Op == token.MUL && u.X == g {
				f.seed(u)
			}
		})
	}
}

// checkTableImmutable emits the who-may-write obligation for a table.
func (c *Ctx) checkTableImmutable(rel, name string) {
	sp := c.P.SSAPkg(rel)
	if sp == nil {
		c.L.Unknown("table-immutable", rel+"."+name, "package resolves", "-", "package not found")
		return
	}
	g, ok := sp.Members[name].(*ssa.Global)
	if !ok {
		c.L.Unknown("table-immutable", rel+"."+name, "global resolves", "-", "global not found")
		return
	}
	ws := globalWrites(c.P, g)
	if len(ws) == 0 {
		c.L.OK("table-immutable", rel+"."+name, "no write after initialisation", c.P.Pos(g.Pos()),
			"no Store/MapUpdate/delete/copy/sort reaches a value derived from a load of the global (interprocedural, field-based flow)")
		return
	}
	for _, w := range ws {
		c.L.Bad("table-immutable", rel+"."+name, "write in "+c.P.FuncName(w.Parent()), c.P.Pos(w.Pos()),
			"the table is written after initialisation, so its literal is not its runtime value: "+w.String())
	}
}
