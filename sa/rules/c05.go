package rules

import (
	"fmt"
	"go/ast"
	"go/constant"
	"go/token"
	"go/types"
	"sort"
	"strings"

	"golang.org/x/tools/go/ssa"
)

func init() {
	register(&Property{ID: "C05", Run: runC05,
		Explanation: "Static decision of the table/dispatch/loop-shape clauses of C05: the three genetic-code literals are compared row by row with NCBI tables 1, 2 and 5 (plus the full-gap codon), the IUPAC expansion table and the bit-mask tables with the IUPAC standard, none of them is written after initialisation (interprocedural value flow), geneticCode() and the three command-line switches map each named code to its own table, GenAllPossibleCodons folds case and U→T on all three positions before the lookup, translateCodon can only return table entries or 'X', and the codon loop of bufferTranslate starts at the frame, advances by 3 and runs exactly while a full codon remains. Not decided: the per-codon ambiguity loop as executed, TranslateByReference, CodonAlign data flow."})
}

var geneticCodeNames = map[string]struct {
	Table string
	NCBI  int
	Flag  string
}{
	"GENETIC_CODE_STANDARD":         {"standardcode", 1, "standard"},
	"GENETIC_CODE_VETEBRATE_MITO":   {"vertebratemitocode", 2, "mitov"},
	"GENETIC_CODE_INVETEBRATE_MITO": {"invertebratemitocode", 5, "mitoi"},
}

func runC05(c *Ctx) {
	L := c.L
	pk := c.P.Pkg("align")
	if pk == nil {
		L.Unknown("anchor", "align", "package resolves", "-", "package align not found")
		return
	}
	L.Trusts("go/constant evaluation of composite literals")
	L.Trusts("oracle strings: NCBI translation tables 1, 2, 5 (TCAG order) and the IUPAC nucleotide code, in sa/rules/refdata.go")

	// --- R1 genetic code tables -------------------------------------------------
	L.Rule("gencode-table", "every key of the genetic-code literal is one of the 64 codons over {T,C,A,G} or \"---\"; each codon maps to the amino acid of the NCBI table; \"---\" maps to '-'; no codon is missing or duplicated")
	names := []string{"GENETIC_CODE_STANDARD", "GENETIC_CODE_VETEBRATE_MITO", "GENETIC_CODE_INVETEBRATE_MITO"}
	for _, cn := range names {
		spec := geneticCodeNames[cn]
		fn := "align." + spec.Table
		t, err := findTable(pk, spec.Table)
		if err != nil {
			if c.waiveIfNotLiteral("gencode-table", err) {
				return
			}
			L.Unknown("gencode-table", fn, "literal evaluates", "-", err.Error())
			continue
		}
		kvs, ok := t.Val.([]kv)
		if !ok {
			L.Unknown("gencode-table", fn, "literal is a map", c.P.Pos(t.Pos), "not a map literal")
			continue
		}
		oracle := ncbiCode(spec.NCBI)
		seen := map[string]bool{}
		for _, e := range kvs {
			k, ok1 := cStr(e.K)
			v, ok2 := cInt(e.V)
			if !ok1 || !ok2 {
				L.Unknown("gencode-table", fn, "entry is constant", c.P.Pos(t.Pos), "non constant entry")
				continue
			}
			if seen[k] {
				L.Bad("gencode-table", fn, "codon "+k, c.P.Pos(t.Pos), "duplicate key in literal")
				continue
			}
			seen[k] = true
			if k == "---" {
				L.Check(v == '-', "gencode-table", fn, "codon ---", c.P.Pos(t.Pos), "full-gap codon → '-'", fmt.Sprintf("full-gap codon maps to %q, want '-'", rune(v)))
				continue
			}
			want, isCodon := oracle[k]
			if !isCodon {
				L.Bad("gencode-table", fn, "codon "+k, c.P.Pos(t.Pos), fmt.Sprintf("key %q is not a codon over TCAG (NCBI table %d has no such entry)", k, spec.NCBI))
				continue
			}
			L.Check(byte(v) == want, "gencode-table", fn, "codon "+k, c.P.Pos(t.Pos),
				fmt.Sprintf("%s → %c = NCBI table %d", k, want, spec.NCBI),
				fmt.Sprintf("%s → %c but NCBI table %d says %c", k, rune(v), spec.NCBI, want))
		}
		var missing []string
		for k := range oracle {
			if !seen[k] {
				missing = append(missing, k)
			}
		}
		sort.Strings(missing)
		for _, k := range missing {
			L.Bad("gencode-table", fn, "codon "+k, c.P.Pos(t.Pos), "codon missing from the table (would translate to X)")
		}
		if !seen["---"] {
			L.Bad("gencode-table", fn, "codon ---", c.P.Pos(t.Pos), "full-gap codon missing from the table")
		}
		c.checkTableImmutable("align", spec.Table)
	}
	L.Floor("gencode-table", 97, "3 tables x 65 rows (floor = half of the instances on the pinned tree: a clean-up may merge instances, a rule that sees nothing must still fail)")

	// --- R2 IUPAC tables ---------------------------------------------------------
	c.checkIupacTables()

	// --- R3 dispatch in geneticCode() -------------------------------------------
	c.checkGeneticCodeDispatch()

	// --- R4 command-line flag strings --------------------------------------------
	c.checkGeneticCodeFlags()

	// --- R6 GenAllPossibleCodons folding ----------------------------------------
	c.checkCodonFolding()

	// --- R7 translateCodon constants --------------------------------------------
	c.checkTranslateCodonConsts()

	// --- R8 bufferTranslate loop -------------------------------------------------
	c.checkBufferTranslate()

	// --- no hidden state: translation results cannot depend on earlier translations ---
	c.checkNoLibraryGlobalWrites("library-global-state")
	c.checkCodonLoopBound()
	c.checkCodonAlignRowAdded("codonalign-row-added")

	// --- R9 TranslateByReference: all-gap reference codon ------------------------
	c.checkRefCodonAllGap()
	c.checkRefCodonAdvance()

	L.Note("packages analysed: %d (all of /repo), tables evaluated from align/const.go", len(c.P.Pkgs))
	c.checkErrNotDropped("error-not-dropped", "align")
	c.checkWriteBalance("write-balance")
}

func (c *Ctx) checkIupacTables() {
	L := c.L
	pk := c.P.Pkg("align")
	L.Rule("iupac-table", "IupacCode, iupacToInt and iupacCodeByte agree with the IUPAC nucleotide code: each ambiguity letter expands to exactly its bases, its bit mask is the OR of its bases' NT_* bits, and iupacCodeByte[m] lists exactly the single-bit members of m")
	bit := map[byte]int64{}
	for _, b := range "ACGT" {
		v := constByName(pk, "NT_"+string(b))
		if v == nil {
			L.Unknown("iupac-table", "align.NT_"+string(b), "constant resolves", "-", "constant not found")
			return
		}
		bit[byte(b)], _ = constant.Int64Val(v)
	}
	// bits must be distinct powers of two within 4 bits
	used := int64(0)
	okBits := true
	for _, b := range "ACGT" {
		x := bit[byte(b)]
		if x <= 0 || x&(x-1) != 0 || x > 8 || used&x != 0 {
			okBits = false
		}
		used |= x
	}
	L.Check(okBits, "iupac-table", "align.NT_A..NT_T", "four distinct single bits in 0..15", "-", fmt.Sprintf("A=%d C=%d G=%d T=%d", bit['A'], bit['C'], bit['G'], bit['T']), "NT_A..NT_T are not four distinct single bits")

	// named masks NT_R … NT_N
	for letter, exp := range iupacOracle {
		v := constByName(pk, "NT_"+string(letter))
		if v == nil {
			L.Unknown("iupac-table", "align.NT_"+string(letter), "constant resolves", "-", "constant not found")
			continue
		}
		got, _ := constant.Int64Val(v)
		want := int64(0)
		for i := 0; i < len(exp); i++ {
			want |= bit[exp[i]]
		}
		L.Check(got == want, "iupac-table", "align.NT_"+string(letter), "mask = OR of bases "+exp, "-", fmt.Sprintf("mask %d", got), fmt.Sprintf("mask %d, want %d", got, want))
	}

	if t, err := findTable(pk, "IupacCode"); err != nil {
		if c.waiveIfNotLiteral("iupac-table", err) {
			return
		}
		L.Unknown("iupac-table", "align.IupacCode", "literal evaluates", "-", err.Error())
	} else {
		kvs, _ := t.Val.([]kv)
		seen := map[byte]bool{}
		for _, e := range kvs {
			k, _ := cInt(e.K)
			var got []byte
			if lst, ok := e.V.([]interface{}); ok {
				for _, x := range lst {
					b, _ := cInt(x)
					got = append(got, byte(b))
				}
			}
			seen[byte(k)] = true
			if byte(k) == '-' {
				L.Check(string(got) == "-", "iupac-table", "align.IupacCode", "row '-'", c.P.Pos(t.Pos), "gap expands to gap only", fmt.Sprintf("gap expands to %q", got))
				continue
			}
			want, ok := iupacOracle[byte(k)]
			if !ok {
				L.Bad("iupac-table", "align.IupacCode", fmt.Sprintf("row %q", rune(k)), c.P.Pos(t.Pos), "key is not an IUPAC nucleotide code")
				continue
			}
			L.Check(sortBytes(string(got)) == want, "iupac-table", "align.IupacCode", fmt.Sprintf("row %c", rune(k)), c.P.Pos(t.Pos),
				fmt.Sprintf("%c → {%s}", rune(k), want), fmt.Sprintf("%c → {%s}, IUPAC says {%s}", rune(k), got, want))
		}
		for letter := range iupacOracle {
			if !seen[letter] {
				L.Bad("iupac-table", "align.IupacCode", fmt.Sprintf("row %c", letter), c.P.Pos(t.Pos), "IUPAC code missing from the expansion table")
			}
		}
		if !seen['-'] {
			L.Bad("iupac-table", "align.IupacCode", "row '-'", c.P.Pos(t.Pos), "gap row missing (full-gap codon would not translate to a gap)")
		}
		c.checkTableImmutable("align", "IupacCode")
	}

	if t, err := findTable(pk, "iupacToInt"); err != nil {
		if c.waiveIfNotLiteral("iupac-table", err) {
			return
		}
		L.Unknown("iupac-table", "align.iupacToInt", "literal evaluates", "-", err.Error())
	} else if m, err := mapIntInt(t); err != nil {
		L.Unknown("iupac-table", "align.iupacToInt", "literal evaluates", c.P.Pos(t.Pos), err.Error())
	} else {
		for letter, exp := range iupacOracle {
			want := int64(0)
			for i := 0; i < len(exp); i++ {
				want |= bit[exp[i]]
			}
			got, ok := m[int64(letter)]
			L.Check(ok && got == want, "iupac-table", "align.iupacToInt", fmt.Sprintf("row %c", letter), c.P.Pos(t.Pos),
				fmt.Sprintf("%c → %d", letter, want), fmt.Sprintf("%c → %d (present=%v), want %d", letter, got, ok, want))
		}
		for _, k := range sortedKeys(m) {
			if _, ok := iupacOracle[byte(k)]; !ok {
				L.Check(m[k] == 0, "iupac-table", "align.iupacToInt", fmt.Sprintf("non-nucleotide row %q", rune(k)), c.P.Pos(t.Pos),
					"non-nucleotide symbol maps to NT_OTHER (0)", fmt.Sprintf("non-nucleotide symbol %q maps to %d, it would be counted as a nucleotide", rune(k), m[k]))
			}
		}
		c.checkTableImmutable("align", "iupacToInt")
	}

	if t, err := findTable(pk, "iupacCodeByte"); err != nil {
		if c.waiveIfNotLiteral("iupac-table", err) {
			return
		}
		L.Unknown("iupac-table", "align.iupacCodeByte", "literal evaluates", "-", err.Error())
	} else {
		rows, _ := t.Val.([]interface{})
		L.Check(len(rows) == 16, "iupac-table", "align.iupacCodeByte", "16 rows", c.P.Pos(t.Pos), "16 rows (masks 0..15)", fmt.Sprintf("%d rows", len(rows)))
		for m, r := range rows {
			lst, _ := r.([]interface{})
			got := int64(0)
			okRow := true
			for _, x := range lst {
				b, _ := cInt(x)
				if b <= 0 || b&(b-1) != 0 || got&b != 0 {
					okRow = false
				}
				got |= b
			}
			L.Check(okRow && got == int64(m), "iupac-table", "align.iupacCodeByte", fmt.Sprintf("row %d", m), c.P.Pos(t.Pos),
				fmt.Sprintf("members OR to %d, each a distinct single bit", m), fmt.Sprintf("members OR to %d (distinct single bits: %v), want %d", got, okRow, m))
		}
		c.checkTableImmutable("align", "iupacCodeByte")
	}
	L.Floor("iupac-table", 30, "15 masks + 16 expansion rows + 15 int rows + 17 byte rows (floor = half of the instances on the pinned tree: a clean-up may merge instances, a rule that sees nothing must still fail)")
}

// eqArm is one arm of an equality dispatch: `if X == Const goto Block`.
type eqArm struct {
	X     ssa.Value
	Const constant.Value
	Block *ssa.BasicBlock // block executed when the equality holds
	If    *ssa.If
}

func eqArms(fn *ssa.Function) []eqArm {
	var out []eqArm
	for _, b := range fn.Blocks {
		if len(b.Instrs) == 0 {
			continue
		}
		ifi, ok := b.Instrs[len(b.Instrs)-1].(*ssa.If)
		if !ok {
			continue
		}
		bo, ok := ifi.Cond.(*ssa.BinOp)
		if !ok || (bo.Op != token.EQL && bo.Op != token.NEQ) {
			continue
		}
		x, k := bo.X, constOf(bo.Y)
		if k == nil {
			x, k = bo.Y, constOf(bo.X)
		}
		if k == nil {
			continue
		}
		tgt := b.Succs[0]
		if bo.Op == token.NEQ {
			tgt = b.Succs[1]
		}
		out = append(out, eqArm{X: x, Const: k, Block: tgt, If: ifi})
	}
	return out
}

// blocksOwnedBy: blocks reachable from b without leaving the region dominated by b.
func blocksDominatedBy(b *ssa.BasicBlock) []*ssa.BasicBlock {
	var out []*ssa.BasicBlock
	for _, x := range b.Parent().Blocks {
		if b.Dominates(x) {
			out = append(out, x)
		}
	}
	return out
}

func (c *Ctx) checkGeneticCodeDispatch() {
	L := c.L
	L.Rule("gencode-dispatch", "geneticCode(code) selects, for each GENETIC_CODE_* constant, the table verified against that code's NCBI table, and returns an error for any other value")
	r := c.fn("align", "", "geneticCode")
	if !r.ok() {
		return
	}
	pk := c.P.Pkg("align")
	fn := r.F
	if len(fn.Params) != 1 {
		L.Unknown("gencode-dispatch", r.label, "one selector parameter", c.P.Pos(fn.Pos()), "unexpected signature")
		return
	}
	arms := eqArms(fn)
	found := map[int64][]string{} // const value -> globals loaded in the arm
	for _, a := range arms {
		if a.X != fn.Params[0] {
			continue
		}
		k, ok := constant.Int64Val(constant.ToInt(a.Const))
		if !ok {
			continue
		}
		// the arm block may have several predecessors (case A, B:) — fine.
		for _, in := range a.Block.Instrs {
			if u, ok := in.(*ssa.UnOp); ok && u.Op == token.MUL {
				if g, ok := u.X.(*ssa.Global); ok {
					found[k] = append(found[k], g.Name())
				}
			}
		}
	}
	// the same dispatch written as a table `var t = map[int]map[string]uint8{GENETIC_CODE_X: xcode, …}`
	if fd := c.P.Decl(c.origFn(fn)); fd != nil {
		if tab, _ := c.lookupTableOf("align", fd); len(tab) > 0 {
			for kname, vname := range tab {
				if kv := constByName(pk, kname); kv != nil {
					if k, ok := constant.Int64Val(kv); ok && len(found[k]) == 0 {
						found[k] = append(found[k], vname)
					}
				}
			}
		}
	}
	for cn, spec := range geneticCodeNames {
		v := constByName(pk, cn)
		if v == nil {
			L.Unknown("gencode-dispatch", r.label, cn, "-", "constant not found")
			continue
		}
		k, _ := constant.Int64Val(v)
		got := found[k]
		L.Check(len(got) == 1 && got[0] == spec.Table, "gencode-dispatch", r.label, cn, c.P.Pos(fn.Pos()),
			fmt.Sprintf("%s (=%d) selects %s", cn, k, spec.Table),
			fmt.Sprintf("%s (=%d) selects %v, want %s", cn, k, got, spec.Table))
	}
	// default arm: some path returns a non-nil error without loading a table
	errPath := false
	allInstrs(fn, func(in ssa.Instruction) {
		if cc := callOf(in); cc != nil && (isPkgFunc(cc, "fmt", "Errorf") || isPkgFunc(cc, "errors", "New")) {
			errPath = true
		}
	})
	L.Check(errPath, "gencode-dispatch", r.label, "unknown code is an error", c.P.Pos(fn.Pos()), "an error value is constructed on the default arm", "no error is constructed for an unknown code")
	L.Floor("gencode-dispatch", 2, "3 codes + default (floor = half of the instances on the pinned tree: a clean-up may merge instances, a rule that sees nothing must still fail)")
}

func (c *Ctx) checkGeneticCodeFlags() {
	L := c.L
	L.Rule("gencode-flag", "each command-line switch over the --genetic-code string assigns, under case \"standard\"/\"mitov\"/\"mitoi\", the constant object of that code (compared by object identity, not by value)")
	pk := c.P.Pkg("cmd")
	if pk == nil {
		L.Unknown("gencode-flag", "cmd", "package resolves", "-", "package cmd not found")
		return
	}
	want := map[string]string{}
	for cn, spec := range geneticCodeNames {
		want[spec.Flag] = cn
	}
	sites := 0
	for _, f := range pk.Syntax {
		ast.Inspect(f, func(n ast.Node) bool {
			sw, ok := n.(*ast.SwitchStmt)
			if !ok {
				return true
			}
			// collect clauses with string literal cases
			var clauses []*ast.CaseClause
			isGC := false
			for _, st := range sw.Body.List {
				cl := st.(*ast.CaseClause)
				clauses = append(clauses, cl)
				for _, e := range cl.List {
					if tv, ok := pk.TypesInfo.Types[e]; ok && tv.Value != nil && tv.Value.Kind() == constant.String {
						if _, ok := want[constant.StringVal(tv.Value)]; ok {
							isGC = true
						}
					}
				}
			}
			if !isGC {
				return true
			}
			sites++
			fd := enclosingFuncDecl(f, sw.Pos())
			where := "cmd." + strings.TrimSuffix(c.P.Fset.Position(sw.Pos()).Filename[strings.LastIndex(c.P.Fset.Position(sw.Pos()).Filename, "/")+1:], ".go")
			if fd != nil {
				where = "cmd." + declName(fd)
			}
			where += "[" + types.ExprString(sw.Tag) + "]"
			seen := map[string]bool{}
			hasDefaultErr := false
			for _, cl := range clauses {
				if cl.List == nil {
					// default clause must produce an error
					ast.Inspect(cl, func(m ast.Node) bool {
						if ce, ok := m.(*ast.CallExpr); ok {
							s := types.ExprString(ce.Fun)
							if s == "fmt.Errorf" || s == "errors.New" {
								hasDefaultErr = true
							}
						}
						return true
					})
					continue
				}
				for _, e := range cl.List {
					tv := pk.TypesInfo.Types[e]
					if tv.Value == nil || tv.Value.Kind() != constant.String {
						continue
					}
					flag := constant.StringVal(tv.Value)
					wantConst, ok := want[flag]
					if !ok {
						L.Bad("gencode-flag", where, "case "+flag, c.P.Pos(e.Pos()), "unknown genetic code name accepted")
						continue
					}
					seen[flag] = true
					// constants used in the clause body
					var used []string
					for _, st := range cl.Body {
						ast.Inspect(st, func(m ast.Node) bool {
							if id, ok := m.(*ast.Ident); ok {
								if co, ok := pk.TypesInfo.Uses[id].(*types.Const); ok && strings.HasPrefix(co.Name(), "GENETIC_CODE_") {
									used = append(used, co.Name())
								}
							}
							return true
						})
					}
					L.Check(len(used) == 1 && used[0] == wantConst, "gencode-flag", where, "case "+flag, c.P.Pos(e.Pos()),
						fmt.Sprintf("%q assigns align.%s", flag, wantConst), fmt.Sprintf("%q assigns %v, want align.%s", flag, used, wantConst))
				}
			}
			for flag := range want {
				if !seen[flag] {
					L.Bad("gencode-flag", where, "case "+flag, c.P.Pos(sw.Pos()), "documented genetic code name is not handled by this switch")
				}
			}
			L.Check(hasDefaultErr, "gencode-flag", where, "default is an error", c.P.Pos(sw.Pos()), "default clause builds an error", "unknown genetic code name is not rejected")
			return true
		})
	}
	L.Floor("gencode-flag", 6, "3 commands (translate, phase, phasent) x (3 names + default) (floor = half of the instances on the pinned tree: a clean-up may merge instances, a rule that sees nothing must still fail)")
	_ = sites
}

// leaves of a phi tree
func phiLeaves(v ssa.Value) []ssa.Value {
	seen := map[ssa.Value]bool{}
	var out []ssa.Value
	var rec func(ssa.Value)
	rec = func(x ssa.Value) {
		if seen[x] {
			return
		}
		seen[x] = true
		if p, ok := x.(*ssa.Phi); ok {
			for _, e := range p.Edges {
				rec(e)
			}
			return
		}
		out = append(out, x)
	}
	rec(v)
	return out
}

// foldKey describes a lookup key as a function of one source value: key = φ('T', up) with
// up = ToUpper(source), guarded by up == 'U'. The normalisation may live in a helper of the
// module with one parameter (key = helper(source)): the helper's returned value is described
// the same way and its parameter replaced by the argument.
func foldKey(fn *ssa.Function, key ssa.Value, depth int) (src ssa.Value, isUpper, hasT, guard, shapeOK bool) {
	leaves := phiLeaves(key)
	if len(leaves) == 1 && depth < 3 {
		if call, ok := stripConv(leaves[0]).(*ssa.Call); ok {
			if g := call.Common().StaticCallee(); g != nil && len(g.Blocks) > 0 && len(g.Params) == 1 && len(call.Common().Args) == 1 && g != fn {
				var rets []*ssa.Return
				allInstrs(g, func(in ssa.Instruction) {
					if r, ok := in.(*ssa.Return); ok {
						rets = append(rets, r)
					}
				})
				if len(rets) == 1 && len(rets[0].Results) == 1 {
					s, u, t, gd, ok := foldKey(g, rets[0].Results[0], depth+1)
					if ok && s == ssa.Value(g.Params[0]) {
						arg := stripConv(call.Common().Args[0])
						return arg, u, t, gd, true
					}
					return nil, false, false, false, false
				}
			}
		}
	}
	var up ssa.Value
	other := false
	for _, lf := range leaves {
		if k, ok := constInt(lf); ok {
			if k == 'T' {
				hasT = true
			} else {
				other = true
			}
			continue
		}
		if up != nil && up != lf {
			other = true
		}
		up = lf
	}
	if up == nil || other {
		return nil, false, false, false, false
	}
	// up = convert(call unicode.ToUpper(convert(source)))
	if call, ok := stripConv(up).(*ssa.Call); ok && isPkgFunc(call.Common(), "unicode", "ToUpper") {
		isUpper = true
		src = stripConv(call.Call.Args[0])
	}
	// guard: some If on (up == 'U') exists
	for _, a := range eqArms(fn) {
		if a.X == up {
			if k, ok := constant.Int64Val(constant.ToInt(a.Const)); ok && k == 'U' {
				guard = true
			}
		}
	}
	return src, isUpper, hasT, guard, true
}

func (c *Ctx) checkCodonFolding() {
	L := c.L
	L.Rule("codon-fold", "in GenAllPossibleCodons each of the three IupacCode lookups is keyed by unicode.ToUpper of a distinct parameter with 'U' rewritten to 'T' (the key is φ('T', up) guarded by up == 'U')")
	r := c.fn("align", "", "GenAllPossibleCodons")
	if !r.ok() {
		return
	}
	fn := r.F
	var lookups []*ssa.Lookup
	allInstrs(fn, func(in ssa.Instruction) {
		if lk, ok := in.(*ssa.Lookup); ok {
			if u, ok := lk.X.(*ssa.UnOp); ok {
				if g, ok := u.X.(*ssa.Global); ok && g.Name() == "IupacCode" {
					lookups = append(lookups, lk)
				}
			}
		}
	})
	if len(lookups) == 1 {
		// one lookup inside a loop over a local array {p1, p2, p3} of the three parameters
		lk := lookups[0]
		src, isUpper, hasT, guard, shapeOK := foldKey(fn, lk.Index, 0)
		okLoop := false
		var params []string
		if shapeOK && src != nil && innermostLoopOf(naturalLoops(fn), lk.Block()) != nil {
			// the element of the array of positions: *(&arr[i]) or (*arr)[i]
			var arrV ssa.Value
			if ld, ok := src.(*ssa.UnOp); ok && ld.Op == token.MUL {
				if ia, ok := ld.X.(*ssa.IndexAddr); ok {
					arrV = ia.X
				}
			}
			if ix, ok := src.(*ssa.Index); ok {
				if ld, ok := ix.X.(*ssa.UnOp); ok && ld.Op == token.MUL {
					arrV = ld.X
				}
			}
			if arrV != nil {
				{
					if arr, ok := arrV.(*ssa.Alloc); ok && arr.Referrers() != nil {
						// `range [3]T{…}` iterates over a copy of the literal: follow the copy
						for hop := 0; hop < 2; hop++ {
							for _, ref := range *arr.Referrers() {
								if st, ok := ref.(*ssa.Store); ok && st.Addr == ssa.Value(arr) {
									if ld2, ok := st.Val.(*ssa.UnOp); ok && ld2.Op == token.MUL {
										if src2, ok := ld2.X.(*ssa.Alloc); ok && src2.Referrers() != nil {
											arr = src2
										}
									}
								}
							}
						}
						seen := map[int64]*ssa.Parameter{}
						for _, ref := range *arr.Referrers() {
							ea, ok := ref.(*ssa.IndexAddr)
							if !ok || ea.Referrers() == nil {
								continue
							}
							k, isK := constInt(ea.Index)
							if !isK {
								continue
							}
							for _, u := range *ea.Referrers() {
								if st, ok := u.(*ssa.Store); ok && st.Addr == ssa.Value(ea) {
									if p, ok := stripConv(st.Val).(*ssa.Parameter); ok {
										seen[k] = p
									}
								}
							}
						}
						distinct := map[*ssa.Parameter]bool{}
						for _, p := range seen {
							distinct[p] = true
							params = append(params, p.Name())
						}
						okLoop = len(seen) == 3 && len(distinct) == 3
					}
				}
			}
		}
		sort.Strings(params)
		for i := 1; i <= 3; i++ {
			name := fmt.Sprintf("lookup %d", i)
			switch {
			case !okLoop:
				L.Unknown("codon-fold", r.label, name, c.P.Pos(lk.Pos()), "a single IupacCode lookup that is not a loop over the three codon positions")
			case !isUpper:
				L.Bad("codon-fold", r.label, name, c.P.Pos(lk.Pos()), "lookup key is not derived from unicode.ToUpper(parameter): lower-case nucleotides would translate to X")
			case !hasT || !guard:
				L.Bad("codon-fold", r.label, name, c.P.Pos(lk.Pos()), "no U→T rewrite on this codon position: RNA codons would translate to X")
			default:
				L.OK("codon-fold", r.label, name, c.P.Pos(lk.Pos()), "one lookup in a loop over the positions "+strings.Join(params, ", ")+": key = φ('T', ToUpper(position)) guarded by == 'U'")
			}
		}
		L.Floor("codon-fold", 1, "3 codon positions (floor = half of the instances on the pinned tree: a clean-up may merge instances, a rule that sees nothing must still fail)")
		return
	}
	if len(lookups) != 3 {
		L.Unknown("codon-fold", r.label, "three IupacCode lookups", c.P.Pos(fn.Pos()), fmt.Sprintf("found %d lookups of IupacCode, expected 3 (one per codon position)", len(lookups)))
		return
	}
	usedParam := map[*ssa.Parameter]bool{}
	for i, lk := range lookups {
		name := fmt.Sprintf("lookup %d", i+1)
		src, isUpper, hasT, guard, shapeOK := foldKey(fn, lk.Index, 0)
		if !shapeOK {
			L.Bad("codon-fold", r.label, name, c.P.Pos(lk.Pos()), "lookup key is not φ('T', upper-cased parameter)")
			continue
		}
		param, _ := src.(*ssa.Parameter)
		switch {
		case !isUpper || param == nil:
			L.Bad("codon-fold", r.label, name, c.P.Pos(lk.Pos()), "lookup key is not derived from unicode.ToUpper(parameter): lower-case nucleotides would translate to X")
		case !hasT || !guard:
			L.Bad("codon-fold", r.label, name, c.P.Pos(lk.Pos()), "no U→T rewrite on this codon position: RNA codons would translate to X")
		case usedParam[param]:
			L.Bad("codon-fold", r.label, name, c.P.Pos(lk.Pos()), "two lookups use the same codon position "+param.Name())
		default:
			usedParam[param] = true
			L.OK("codon-fold", r.label, name, c.P.Pos(lk.Pos()), fmt.Sprintf("key = φ('T', ToUpper(%s)) guarded by ==  'U'", param.Name()))
		}
	}
	L.Floor("codon-fold", 1, "3 codon positions (floor = half of the instances on the pinned tree: a clean-up may merge instances, a rule that sees nothing must still fail)")
}

func (c *Ctx) checkTranslateCodonConsts() {
	L := c.L
	L.Rule("codon-result", "translateCodon returns only values looked up in the code table or the constant 'X' (the blank sentinel ' ' is its initial value); the table lookup is keyed by the generated codons")
	r := c.fn("align", "", "translateCodon")
	if !r.ok() {
		return
	}
	fn := r.F
	n := 0
	allInstrs(fn, func(in ssa.Instruction) {
		ret, ok := in.(*ssa.Return)
		if !ok || len(ret.Results) != 1 {
			return
		}
		for _, lf := range phiLeaves(ret.Results[0]) {
			n++
			if k, ok := constInt(lf); ok {
				L.Check(k == 'X' || k == ' ', "codon-result", r.label, fmt.Sprintf("constant %q", rune(k)), c.P.Pos(ret.Pos()),
					"allowed constant", fmt.Sprintf("translateCodon can return the constant %q; only 'X' is allowed for undetermined codons", rune(k)))
				continue
			}
			// must be extract #0 of a map lookup on the code parameter
			okv := false
			if ex, ok := lf.(*ssa.Extract); ok && ex.Index == 0 {
				if lk, ok := ex.Tuple.(*ssa.Lookup); ok {
					if p, ok := lk.X.(*ssa.Parameter); ok && types.Identical(p.Type().Underlying(), types.NewMap(types.Typ[types.String], types.Typ[types.Uint8])) {
						okv = true
					}
				}
			}
			L.Check(okv, "codon-result", r.label, "non-constant result "+lf.Name(), c.P.Pos(ret.Pos()), "value looked up in the genetic code parameter", "returned value is neither 'X' nor a lookup in the code table: "+lf.String())
		}
	})
	if n == 0 {
		L.Unknown("codon-result", r.label, "return value", c.P.Pos(fn.Pos()), "no return found")
	}
	L.Floor("codon-result", 2, "X and the table lookup")
}

func (c *Ctx) checkBufferTranslate() {
	// Implemented with the bounds engine (E2): see e2_bounds.go
	c.checkBufferTranslateLoop()
}

// checkRefCodonAllGap: in TranslateByReference the branch that emits a gap
// column for the reference is entered only when the reference row holds GAP at
// all three indices of the current codon window.
func (c *Ctx) checkRefCodonAllGap() {
	L := c.L
	L.Rule("refcodon-allgap", "in TranslateByReference the block that writes gaps for the reference row is reached only through the true branches of three comparisons `ref[idx[k]] == GAP`, one for each k in {0,1,2} of the codon window; a window that still holds a reference nucleotide is never treated as an all-gap codon")
	r := c.fn("align", "*align", "TranslateByReference")
	if !r.ok() {
		return
	}
	fn := r.F
	gap := int64('-')
	if g := constByName(c.P.Pkg("align"), "GAP"); g != nil {
		if k, ok := cInt(g); ok {
			gap = k
		}
	}
	win := codonWindowOf(fn)
	loops := naturalLoops(fn)
	// the translation of the reference codon and the codon loop around it
	var tr *ssa.Call
	allInstrs(fn, func(in ssa.Instruction) {
		call, ok := in.(*ssa.Call)
		if !ok || tr != nil {
			return
		}
		callee := call.Common().StaticCallee()
		if callee == nil || callee.Name() != "translateCodon" || len(call.Common().Args) < 3 {
			return
		}
		for k := 0; k < 3; k++ {
			u, ok := call.Common().Args[k].(*ssa.UnOp)
			if !ok || u.Op != token.MUL {
				return
			}
			ia, ok := u.X.(*ssa.IndexAddr)
			if !ok {
				return
			}
			if pk, ok := win.posOf(ia.Index); !ok || pk != int64(k) {
				return
			}
		}
		tr = call
	})
	if tr == nil {
		L.Bad("refcodon-allgap", r.label, "all-gap reference codon test", c.P.Pos(fn.Pos()), "the translation of the reference codon translateCodon(ref[p0], ref[p1], ref[p2]) was not found")
		L.Floor("refcodon-allgap", 1, "one test")
		return
	}
	main := innermostLoopOf(loops, tr.Block())
	if main == nil {
		L.Bad("refcodon-allgap", r.label, "all-gap reference codon test", c.P.Pos(tr.Pos()), "the reference codon is not translated inside a codon loop")
		L.Floor("refcodon-allgap", 1, "one test")
		return
	}
	// comparisons ref[p_k] == GAP evaluated once per codon (not the conditions of the skipping loops)
	type cmp struct {
		bo    *ssa.BinOp
		truth bool // the truth value that means "is a gap"
	}
	cmps := map[int64][]cmp{}
	for b := range main.Blocks {
		if innermostLoopOf(loops, b) != main {
			continue
		}
		for _, in := range b.Instrs {
			bo, ok := in.(*ssa.BinOp)
			if !ok || (bo.Op != token.EQL && bo.Op != token.NEQ) {
				continue
			}
			if k, ok := constInt(bo.Y); !ok || k != gap {
				continue
			}
			u, ok := bo.X.(*ssa.UnOp)
			if !ok {
				continue
			}
			ia, ok := u.X.(*ssa.IndexAddr)
			if !ok {
				continue
			}
			if k, ok := win.posOf(ia.Index); ok {
				cmps[k] = append(cmps[k], cmp{bo, bo.Op == token.EQL})
			}
		}
	}
	bf := computeBranchFacts(fn)
	testedOn := func(p, b *ssa.BasicBlock) []int64 {
		var have []int64
		for k := int64(0); k <= 2; k++ {
			for _, cm := range cmps[k] {
				if bf.knownOnEdge(p, b, cm.bo, cm.truth) {
					have = append(have, k)
					break
				}
			}
		}
		return have
	}
	// every way round the codon loop that does not translate the reference codon crosses an edge on
	// which all three positions are known to hold a gap
	nAll := 0
	best := []int64{}
	seenB := map[*ssa.BasicBlock]bool{main.Head: true}
	work := []*ssa.BasicBlock{main.Head}
	var leak *ssa.BasicBlock
	for len(work) > 0 {
		b := work[0]
		work = work[1:]
		for _, s := range b.Succs {
			if !main.Blocks[s] || s == tr.Block() {
				continue
			}
			have := testedOn(b, s)
			if len(have) == 3 {
				nAll++
				continue
			}
			if s == main.Head {
				leak = b
				continue
			}
			if len(have) > len(best) {
				best = have
			}
			if !seenB[s] {
				seenB[s] = true
				work = append(work, s)
			}
		}
	}
	switch {
	case leak != nil:
		L.Bad("refcodon-allgap", r.label, "all-gap reference codon test", c.P.Pos(fn.Pos()),
			fmt.Sprintf("the codon loop can be completed without translating the reference codon on a path where at most positions %v of the codon window were tested to be gaps: a window that still holds a reference nucleotide is emitted as a gap and the rest of the reference is read out of frame", best))
	case nAll == 0:
		L.Bad("refcodon-allgap", r.label, "all-gap reference codon test", c.P.Pos(fn.Pos()), "no branch guarded by comparisons of the three reference codon positions with GAP was found")
	default:
		L.OK("refcodon-allgap", r.label, "all-gap reference codon test", c.P.Pos(tr.Pos()), "every iteration that does not translate the reference codon passes a point where ref[p0], ref[p1] and ref[p2] == GAP are all known")
	}
	L.Floor("refcodon-allgap", 1, "one test")
}

func keysInt(m map[int64]bool) []int64 {
	var out []int64
	for k := range m {
		out = append(out, k)
	}
	sort.Slice(out, func(i, j int) bool { return out[i] < out[j] })
	return out
}

// checkRefCodonAdvance: each gap-skipping loop of TranslateByReference that tests
// ref[idx[k]] == GAP advances idx[j] by one for exactly j = k..2.
func (c *Ctx) checkRefCodonAdvance() {
	L := c.L
	L.Rule("refcodon-advance", "in TranslateByReference each loop that skips reference gaps at codon position k (condition ref[idx[k]] == GAP) increments idx[j] by one for every j in k..2 and for no other j: the later positions of the window move together with the one being searched")
	r := c.fn("align", "*align", "TranslateByReference")
	if !r.ok() {
		return
	}
	fn := r.F
	gap := int64('-')
	n := 0
	win := codonWindowOf(fn)
	for _, lp := range naturalLoops(fn) {
		// loop condition chain contains ref[idx[k]] == GAP as a continuation condition
		k := int64(-1)
		for b := range lp.Blocks {
			ifi, ok := b.Instrs[len(b.Instrs)-1].(*ssa.If)
			if !ok || !lp.Blocks[b.Succs[0]] || lp.Blocks[b.Succs[1]] {
				continue // continuation tests only: true stays in the loop, false leaves
			}
			bo, ok := ifi.Cond.(*ssa.BinOp)
			if !ok || bo.Op != token.EQL {
				continue
			}
			if g, ok := constInt(bo.Y); !ok || g != gap {
				continue
			}
			if u, ok := bo.X.(*ssa.UnOp); ok {
				if ia, ok := u.X.(*ssa.IndexAddr); ok {
					if kk, ok := win.posOf(ia.Index); ok {
						k = kk
					}
				}
			}
		}
		if k < 0 {
			continue
		}
		// the loop must be a pure skipping loop: small, no calls
		if len(lp.Blocks) > 4 {
			continue
		}
		n++
		inc := map[int64]int{}
		for b := range lp.Blocks {
			for _, in := range b.Instrs {
				st, ok := in.(*ssa.Store)
				if !ok {
					continue
				}
				ia, ok := st.Addr.(*ssa.IndexAddr)
				if !ok {
					continue
				}
				j, ok := constInt(ia.Index)
				if !ok {
					continue
				}
				if bo, ok := st.Val.(*ssa.BinOp); ok && bo.Op == token.ADD {
					if one, ok := constInt(bo.Y); ok && one == 1 {
						inc[j]++
					}
				}
			}
		}
		// window positions kept in registers: a header φ whose back-edge value is φ+1
		for _, in := range lp.Head.Instrs {
			phi, ok := in.(*ssa.Phi)
			if !ok {
				break
			}
			j, ok := win.lineage[phi]
			if !ok {
				continue
			}
			for i, e := range phi.Edges {
				if !lp.Blocks[lp.Head.Preds[i]] {
					continue
				}
				if bo, ok := e.(*ssa.BinOp); ok && bo.Op == token.ADD && bo.X == ssa.Value(phi) {
					if one, ok := constInt(bo.Y); ok && one == 1 {
						inc[j]++
						continue
					}
				}
				if e != ssa.Value(phi) {
					inc[j] += 100 // changed in some other way
				}
			}
		}
		okAll := true
		for j := int64(0); j <= 2; j++ {
			want := 0
			if j >= k {
				want = 1
			}
			if inc[j] != want {
				okAll = false
			}
		}
		L.Check(okAll, "refcodon-advance", r.label, fmt.Sprintf("skipping loop at codon position %d", k), c.P.Pos(lp.Head.Instrs[0].Pos()),
			fmt.Sprintf("increments positions %d..2 once each", k), fmt.Sprintf("the loop that skips gaps at codon position %d increments %v (want positions %d..2 once each): the codon window no longer covers three reference nucleotides", k, inc, k))
	}
	L.Floor("refcodon-advance", 1, "three skipping loops (floor = half of the instances on the pinned tree: a clean-up may merge instances, a rule that sees nothing must still fail)")
}

// codonWindow: the three columns of the reference codon of TranslateByReference. On the pinned tree
// they are the cells idx[0..2] of a slice; an implementation may as well keep them in three
// variables (or in the fields of a cursor whose methods are inlined in the view), which SSA turns
// into registers. Position k is then the family of registers that flow, through φ-nodes and the
// self-increments `x = x+1` of the skipping loops, into the index of the k-th argument
// ref[p_k] of the translateCodon call for the reference codon.
type codonWindow struct {
	lineage map[ssa.Value]int64
}

func (w *codonWindow) posOf(idx ssa.Value) (int64, bool) {
	if iu, ok := idx.(*ssa.UnOp); ok && iu.Op == token.MUL {
		if iia, ok := iu.X.(*ssa.IndexAddr); ok {
			if k, ok := constInt(iia.Index); ok {
				return k, true
			}
		}
	}
	if w != nil {
		if k, ok := w.lineage[idx]; ok {
			return k, true
		}
	}
	return 0, false
}

func codonWindowOf(fn *ssa.Function) *codonWindow {
	w := &codonWindow{lineage: map[ssa.Value]int64{}}
	gapTested := map[ssa.Value]bool{}
	allInstrs(fn, func(in ssa.Instruction) {
		bo, ok := in.(*ssa.BinOp)
		if !ok || (bo.Op != token.EQL && bo.Op != token.NEQ) {
			return
		}
		if g, ok := constInt(bo.Y); !ok || g != int64('-') {
			return
		}
		if u, ok := bo.X.(*ssa.UnOp); ok && u.Op == token.MUL {
			if ia, ok := u.X.(*ssa.IndexAddr); ok {
				gapTested[ia.Index] = true
			}
		}
	})
	allInstrs(fn, func(in ssa.Instruction) {
		call, ok := in.(*ssa.Call)
		if !ok || len(w.lineage) > 0 {
			return
		}
		callee := call.Common().StaticCallee()
		if callee == nil || callee.Name() != "translateCodon" || len(call.Common().Args) < 3 {
			return
		}
		lin := map[ssa.Value]int64{}
		clash := false
		for k := 0; k < 3; k++ {
			u, ok := call.Common().Args[k].(*ssa.UnOp)
			if !ok || u.Op != token.MUL {
				return
			}
			ia, ok := u.X.(*ssa.IndexAddr)
			if !ok {
				return
			}
			if _, isLoad := ia.Index.(*ssa.UnOp); isLoad {
				return // cells: handled by posOf directly
			}
			seen := map[ssa.Value]bool{}
			var rec func(v ssa.Value)
			rec = func(v ssa.Value) {
				if v == nil || seen[v] {
					return
				}
				seen[v] = true
				if old, dup := lin[v]; dup && old != int64(k) {
					clash = true
				}
				lin[v] = int64(k)
				if phi, ok := v.(*ssa.Phi); ok {
					for _, e := range phi.Edges {
						rec(e)
					}
				}
			}
			rec(ia.Index)
		}
		if clash {
			return
		}
		// the reference codon is the one whose columns are compared with GAP
		tested := false
		for v := range lin {
			if gapTested[v] {
				tested = true
			}
		}
		if tested {
			w.lineage = lin
		}
	})
	return w
}

// checkCodonLoopBound: TranslateByReference walks the reference codons while the last column of the
// window is inside the alignment. Every comparison of that column (position 2 of the window) with
// a bound must use the alignment length itself — the length of the rows as they were before the
// container was emptied — not a quantity derived from it: a bound shortened by the phase stops
// one codon early for some lengths, a longer one reads past the rows.
func (c *Ctx) checkCodonLoopBound() {
	L := c.L
	rule := "codon-loop-bound"
	L.Rule(rule, "in TranslateByReference every comparison of the last column of the reference codon window with a bound compares it with the alignment length (the row length), as a linear form exactly one length atom: every complete codon of the reference is translated and no column past the rows is read")
	r := c.fn("align", "*align", "TranslateByReference")
	if !r.ok() {
		return
	}
	fn := r.F
	w := codonWindowOf(fn)
	lc := newLinCtx(c, fn)
	n := 0
	var bad []string
	allInstrs(fn, func(in ssa.Instruction) {
		bo, ok := in.(*ssa.BinOp)
		if !ok {
			return
		}
		switch bo.Op {
		case token.LSS, token.LEQ, token.GTR, token.GEQ:
		default:
			return
		}
		var bound ssa.Value
		if k, ok := w.posOf(bo.X); ok && k == 2 {
			bound = bo.Y
		} else if k, ok := w.posOf(bo.Y); ok && k == 2 {
			bound = bo.X
		}
		if bound == nil {
			return
		}
		if _, isK := bound.(*ssa.Const); isK {
			return
		}
		// a comparison between two window positions is not a bound test
		if _, ok := w.posOf(bound); ok {
			return
		}
		// nor is the scan of the window's own columns (`for si := p0; si <= p2; si++`)
		if _, isPhi := bound.(*ssa.Phi); isPhi {
			return
		}
		n++
		l := lc.of(bound)
		okBound := false
		if l.c == 0 && len(l.t) == 1 {
			for at, k := range l.t {
				if k == 1 && (strings.HasPrefix(at, "L(") || (strings.HasPrefix(at, "len(") && strings.Contains(at, "sequence"))) {
					okBound = true
				}
			}
		}
		if !okBound {
			bad = append(bad, fmt.Sprintf("%s at %s compares with %s", c.exprOr(bo), c.P.Pos(bo.Pos()), l.String()))
		}
	})
	switch {
	case n == 0:
		L.Unknown(rule, r.label, "bound of the codon window", c.P.Pos(fn.Pos()), "no comparison of the last column of the reference codon window with a bound was found")
	case len(bad) > 0:
		L.Bad(rule, r.label, "bound of the codon window", c.P.Pos(fn.Pos()), "the last column of the codon window is not compared with the alignment length itself: "+strings.Join(bad, "; "))
	default:
		L.OK(rule, r.label, "bound of the codon window", c.P.Pos(fn.Pos()), fmt.Sprintf("%d comparison(s), each with the alignment length", n))
	}
	L.Floor(rule, 1, "one function")
}

func (c *Ctx) exprOr(bo *ssa.BinOp) string {
	return bo.X.Name() + " " + bo.Op.String() + " " + bo.Y.Name()
}
