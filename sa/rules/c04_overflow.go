package rules

import (
	"fmt"
	"go/token"
	"go/types"

	"golang.org/x/tools/go/ssa"
)

// checkSumGuards: a method that rejects `p + q > limit` for two integer parameters must also
// notice when p + q wraps around: either a test `p + q < 0` leads to the error as well, or both
// parameters are bounded above by an alignment dimension before the sum is formed. Otherwise
// (start = 1, length = MaxInt) passes the upper test and reaches make/slice with a huge length.
func (c *Ctx) checkSumGuards(rule string, names ...string) {
	L := c.L
	L.Rule(rule, "where a function rejects p + q > limit for two int parameters, the sum cannot wrap unnoticed: a test p + q < 0 leads to an error too, or both parameters are proved bounded above by the alignment length before the sum is compared; a wrapped sum is negative, passes the upper test and reaches an allocation or a slice expression")
	for _, nme := range names {
		r := c.fn("align", "*align", nme)
		if !r.ok() {
			continue
		}
		fn := r.F
		lc := newLinCtx(c, fn)
		isIntParam := func(v ssa.Value) bool {
			p, ok := v.(*ssa.Parameter)
			if !ok {
				return false
			}
			b, ok := p.Type().Underlying().(*types.Basic)
			return ok && b.Kind() == types.Int
		}
		// sums of two parameters compared with something, the comparison deciding an error return
		errBlocks := map[*ssa.BasicBlock]bool{}
		for _, e := range returnEdges(fn) {
			if e.kind == "err" {
				errBlocks[e.block] = true
			}
		}
		leadsToErr := func(b *ssa.BasicBlock) bool {
			for eb := range errBlocks {
				if eb == b || b.Dominates(eb) {
					return true
				}
			}
			return false
		}
		var upper []*ssa.If
		hasNegArm := false
		var sumLin *lin
		allInstrs(fn, func(in ssa.Instruction) {
			ifi, ok := in.(*ssa.If)
			if !ok {
				return
			}
			bo, ok := ifi.Cond.(*ssa.BinOp)
			if !ok {
				return
			}
			for _, side := range []ssa.Value{bo.X, bo.Y} {
				s, ok := side.(*ssa.BinOp)
				if !ok || s.Op != token.ADD || !isIntParam(s.X) || !isIntParam(s.Y) {
					continue
				}
				l := lc.of(s)
				sumLin = &l
				op, rhs, ok := cmpNorm(bo, s)
				if !ok {
					continue
				}
				if k, isK := constInt(rhs); isK && k == 0 && (op == token.LSS) && leadsToErr(ifi.Block().Succs[0]) {
					hasNegArm = true
					continue
				}
				if (op == token.GTR || op == token.GEQ) && leadsToErr(ifi.Block().Succs[0]) {
					upper = append(upper, ifi)
				}
				if (op == token.LEQ || op == token.LSS) && leadsToErr(ifi.Block().Succs[1]) {
					upper = append(upper, ifi)
				}
			}
		})
		if len(upper) == 0 {
			continue
		}
		good := hasNegArm
		det := "a test `sum < 0` leads to the error as well"
		if !good && sumLin != nil {
			// both parameters bounded by an alignment dimension at the guard
			var dims []lin
			allInstrs(fn, func(in ssa.Instruction) {
				if call, ok := in.(*ssa.Call); ok {
					if g := getterName(call.Common()); g == "Length" || g == "NbSequences" {
						dims = append(dims, lc.of(call))
					}
				}
			})
			bounded := 0
			s := upper[0].Cond.(*ssa.BinOp)
			var sum *ssa.BinOp
			if x, ok := s.X.(*ssa.BinOp); ok && x.Op == token.ADD {
				sum = x
			} else if y, ok := s.Y.(*ssa.BinOp); ok {
				sum = y
			}
			if sum != nil {
				for _, p := range []ssa.Value{sum.X, sum.Y} {
					for _, d := range dims {
						if ok, _ := lc.proveAll(upper[0].Block(), nil, consLE(lc.of(p), d, "parameter <= dimension")); ok {
							bounded++
							break
						}
					}
				}
			}
			if bounded == 2 {
				good = true
				det = "both parameters are bounded by an alignment dimension where the sum is compared"
			}
		}
		L.Check(good, rule, r.label, "sum of two parameters", c.P.Pos(upper[0].Cond.Pos()), det,
			fmt.Sprintf("the sum of two int parameters is only tested against an upper limit (%d test(s)): for a huge second argument it wraps to a negative value, passes the test and reaches the allocation/slice with that length (panic) or yields coordinates outside the alignment", len(upper)))
	}
}
