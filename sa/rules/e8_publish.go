package rules

import (
	"go/types"

	"golang.org/x/tools/go/ssa"
)

// E8 — published buffer reuse.
//
// A slice value V is *published* when it is stored into a struct field, a map
// or slice element, appended as an element to a slice of slices, or handed to
// a container constructor that keeps it (AddSequenceChar, NewSequence). From
// that program point on, the memory of V belongs to the receiver of the
// publication. Any value derived from V after the publication (V[:0], V[a:b],
// a φ that merges such a value) aliases that memory; if such a value becomes
// the base of an append, the destination of copy, or the base of an element
// store, the published data can be overwritten (the classic "reset with
// buf[:0] instead of a fresh make" defect).

type publishFinding struct {
	Publish ssa.Instruction
	Write   ssa.Instruction
	What    string
}

func isSliceT(t types.Type) bool {
	_, ok := t.Underlying().(*types.Slice)
	return ok
}

// keepsBuffer: callee known to retain its []uint8 argument.
func keepsBuffer(cc *ssa.CallCommon) []int {
	name := ""
	off := 0
	if cc.IsInvoke() {
		name = cc.Method.Name()
	} else if f := cc.StaticCallee(); f != nil {
		name = f.Name()
		if f.Signature.Recv() != nil {
			off = 1
		}
	}
	switch name {
	case "AddSequenceChar":
		return []int{off + 1}
	case "NewSequence":
		return []int{off + 1}
	}
	return nil
}

func publishSites(fn *ssa.Function) map[ssa.Instruction][]ssa.Value {
	out := map[ssa.Instruction][]ssa.Value{}
	allInstrs(fn, func(in ssa.Instruction) {
		switch x := in.(type) {
		case *ssa.Store:
			if !isSliceT(x.Val.Type()) {
				return
			}
			switch a := x.Addr.(type) {
			case *ssa.FieldAddr:
				out[in] = append(out[in], x.Val)
			case *ssa.IndexAddr:
				// element of a slice of slices; varargs arrays of append are handled below
				if al, ok := a.X.(*ssa.Alloc); ok && al.Comment == "varargs" {
					out[in] = append(out[in], x.Val)
					return
				}
				out[in] = append(out[in], x.Val)
			}
		case *ssa.MapUpdate:
			if isSliceT(x.Value.Type()) {
				out[in] = append(out[in], x.Value)
			}
		case ssa.CallInstruction:
			cc := x.Common()
			for _, i := range keepsBuffer(cc) {
				if i < len(cc.Args) && isSliceT(cc.Args[i].Type()) {
					out[in] = append(out[in], cc.Args[i])
				}
			}
		}
	})
	return out
}

// bufferReuseFindings runs the rule on one function.
func bufferReuseFindings(fn *ssa.Function) (findings []publishFinding, nPublish int) {
	pubs := publishSites(fn)
	for pin, vals := range pubs {
		for _, V := range vals {
			switch V.(type) {
			case *ssa.Const:
				continue
			}
			nPublish++
			tainted := map[ssa.Value]bool{}
			var work []ssa.Value
			seenWrite := map[ssa.Instruction]bool{}
			report := func(w ssa.Instruction, what string) {
				if !seenWrite[w] {
					seenWrite[w] = true
					findings = append(findings, publishFinding{pin, w, what})
				}
			}
			taint := func(v ssa.Value) {
				if !tainted[v] {
					tainted[v] = true
					work = append(work, v)
				}
			}
			// uses of V itself after the publication
			visit := func(v ssa.Value, needDom bool) {
				refs := v.Referrers()
				if refs == nil {
					return
				}
				for _, r := range *refs {
					if r == pin {
						continue
					}
					after := !needDom || instrDominates(pin, r)
					switch x := r.(type) {
					case *ssa.Slice:
						if x.X == v && after {
							taint(x)
						}
					case *ssa.Phi:
						for i, e := range x.Edges {
							if e != v {
								continue
							}
							pred := x.Block().Preds[i]
							if !needDom || pin.Block() == pred || pin.Block().Dominates(pred) {
								taint(x)
							}
						}
					case *ssa.ChangeType:
						if after {
							taint(x)
						}
					case *ssa.Call:
						cc := x.Common()
						switch builtinName(cc) {
						case "append":
							if cc.Args[0] == v && after {
								report(r, "append to a buffer that was published")
							}
						case "copy":
							if cc.Args[0] == v && after {
								report(r, "copy into a buffer that was published")
							}
						}
					case *ssa.IndexAddr:
						if x.X == v && after {
							if rr := x.Referrers(); rr != nil {
								for _, s := range *rr {
									if st, ok := s.(*ssa.Store); ok && st.Addr == ssa.Value(x) {
										report(st, "element store into a buffer that was published")
									}
								}
							}
						}
					}
				}
			}
			visit(V, true)
			for len(work) > 0 {
				t := work[len(work)-1]
				work = work[:len(work)-1]
				visit(t, false)
			}
		}
	}
	return
}

// checkBufferReuse runs the rule over the given functions (with their closures).
func (c *Ctx) checkBufferReuse(rule string, fns []*ssa.Function) int {
	L := c.L
	L.Rule(rule, "once a slice has been stored into a struct field, a map/slice element or handed to a container (published), no value derived from it afterwards (v[:0], v[a:b], a φ merging them) is the base of an append, the destination of copy or the base of an element store: the published data cannot be overwritten through the old variable")
	total := 0
	for _, f := range fns {
		for _, g := range withAnons(f) {
			fs, n := bufferReuseFindings(g)
			total += n
			name := c.P.FuncName(g)
			if len(fs) == 0 {
				if n > 0 {
					L.OK(rule, name, "published buffers", c.P.Pos(g.Pos()), itoa(n)+" publication site(s); no later write through a derived value")
				}
				continue
			}
			for _, f := range fs {
				L.Bad(rule, name, "buffer published at "+c.P.Pos(f.Publish.Pos()), c.P.Pos(f.Write.Pos()),
					f.What+": the slice stored at "+c.P.Pos(f.Publish.Pos())+" shares its backing array with the value written here, so data already handed out is overwritten")
			}
		}
	}
	return total
}

func itoa(n int) string {
	if n == 0 {
		return "0"
	}
	s := ""
	neg := n < 0
	if neg {
		n = -n
	}
	for n > 0 {
		s = string(rune('0'+n%10)) + s
		n /= 10
	}
	if neg {
		s = "-" + s
	}
	return s
}
