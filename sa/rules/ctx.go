// Package rules holds the analysis engines (e1_*.go … e8_*.go) and the
// per-property rule tables (c01.go … c19.go).
package rules

import (
	"fmt"
	"os"
	"go/token"
	"sort"

	"golang.org/x/tools/go/ssa"

	"goalignsa/core"
	"goalignsa/iview"
)

type Ctx struct {
	P        *core.Program // the analysed repository
	L        *core.Ledger
	Tier     string
	VerifDir string
	controls *core.Program
	// locksetErrOnly: shared variables (by source name) that the lockset rule accepts
	// when every write is under a `!= nil` error test; value = reason
	locksetErrOnly map[string]string
	// ViewMode: anchored functions are analysed through their inlined view (package iview):
	// static calls to unexported functions of the same package are expanded in place. Used for the
	// second pass that main makes when the first pass (on the functions as written) leaves
	// obligations open; see MergeViewRun.
	ViewMode bool
	views    *iview.Builder
	// static callers of every function / functions used as values (privateHelperOf)
	callersIdx map[*ssa.Function][]*ssa.Function
	valueUse   map[*ssa.Function]bool
}

// viewOf returns the inlined view of f (or f itself when no view can be built).
func (c *Ctx) viewOf(f *ssa.Function) *ssa.Function {
	if c.views == nil {
		c.views = iview.NewBuilder(func(caller *ssa.Function, call *ssa.Call, callee *ssa.Function) bool {
			if c.P.Looked[callee] || nameMatchedHelpers[callee.Name()] {
				return false // an anchor of some rule: its call must stay visible
			}
			if callee.Parent() != nil {
				return callee.Synthetic == "" // a function literal called through a known closure value
			}
			return callee.Pkg != nil && callee.Pkg == caller.Pkg && !token.IsExported(callee.Name()) && callee.Synthetic == ""
		})
	}
	v, err := c.views.View(f)
	if err != nil || v == nil {
		c.L.Note("no inlined view of %s: %v", f, err)
		return f
	}
	if d := os.Getenv("VERIF_DUMP_VIEW"); d != "" && d == f.Name() {
		v.WriteTo(os.Stderr)
	}
	if names := c.views.Inlined[v]; len(names) > 0 {
		c.L.Note("inlined view of %s expands %v", f, dedupe(names))
	}
	return v
}

func (c *Ctx) Thorough() bool { return c.Tier == "thorough" }

// Controls loads (once) the tiny positive-control module under sa/controls.
func (c *Ctx) Controls() *core.Program {
	if c.controls == nil {
		p, err := core.Load(c.VerifDir+"/sa/controls", "controls", 1)
		if err != nil {
			c.L.Broken = append(c.L.Broken, "cannot load controls: "+err.Error())
			return nil
		}
		c.controls = p
	}
	return c.controls
}

type Property struct {
	ID          string
	Explanation string
	Run         func(c *Ctx)
}

var registry = map[string]*Property{}

func register(p *Property) { registry[p.ID] = p }

func Lookup(id string) *Property { return registry[id] }

func IDs() []string {
	var ids []string
	for k := range registry {
		ids = append(ids, k)
	}
	sort.Strings(ids)
	return ids
}

// must resolves an anchored function; an unresolved anchor is an undecided
// obligation (fails the check), never a silent skip.
func (c *Ctx) fn(rel, recv, name string) *fnRef {
	f := c.P.Func(rel, recv, name)
	if f == nil || f.Blocks == nil {
		// a function turned into a method (or the reverse, or moved to another receiver of the
		// package) keeps its name: accept it when exactly one function or method of the package
		// has that name
		var cands []*ssa.Function
		for _, g := range c.P.SrcFuncs(rel) {
			if g.Parent() == nil && g.Name() == name && g.Blocks != nil {
				cands = append(cands, g)
			}
		}
		if len(cands) == 1 {
			f = cands[0]
			if c.P.Looked == nil {
				c.P.Looked = map[*ssa.Function]bool{}
			}
			c.P.Looked[f] = true
			c.L.Note("anchor %s.%s resolved to %s (same name, different receiver)", rel, name, f)
		}
	}
	label := rel + "." + name
	if recv != "" {
		label = fmt.Sprintf("%s.(%s).%s", rel, recv, name)
	}
	if f == nil || f.Blocks == nil {
		c.L.Unknown("anchor", label, "function resolves", "-", "anchored function not found in the resolved program (renamed or removed); the rules that depend on it cannot be decided")
		return &fnRef{label: label}
	}
	if c.ViewMode {
		f = c.viewOf(f)
	}
	return &fnRef{F: f, label: label}
}

// SetTier adjusts engine budgets: the thorough tier enumerates up to 1024 path
// classes per program point (quick: 96) and lets the end-of-input analysis
// iterate loops 8 times (quick: 5).
func SetTier(tier string) {
	if tier == "thorough" {
		altBudget = 1024
		eofMaxIter = 8
	} else {
		altBudget = maxAlts
		eofMaxIter = 5
	}
}

// origFn: the function a view was made from (or fn itself).
func (c *Ctx) origFn(fn *ssa.Function) *ssa.Function {
	if c.views != nil {
		if o := c.views.OrigOf[fn]; o != nil {
			return o
		}
	}
	return fn
}

// nameMatchedHelpers: unexported functions that some rule recognises by the name of the callee
// (rather than through a resolved anchor); the inlined views keep calls to them.
var nameMatchedHelpers = map[string]bool{
	"check2SequencesDiff": true, "translateCodon": true, "bufferTranslate": true, "pMat": true, "backTrack_SW": true,
	"appendToSequence": true, "reindex": true, "selectedSites": true, "alignmentToCodes": true, "shift": true,
	"countMutations": true, "countDiffs": true, "countDiffsWithGaps": true, "countDiffsWithInternalGaps": true,
	"checkAmbiguities": true, "opt_Dist_F": true, "lk_Dist": true, "dist_F_Brent": true, "seqToindices": true,
	"matchScore": true, "fillMatrix": true, "fillMatrix_SW": true, "backTrack": true, "initMatrix": true,
	"alignAgainstRefsAA": true, "alignAgainstRefsNT": true, "sampleSeqBag": true, "rarefySeqBag": true,
	"probaNt": true, "probaNt2Seqs": true, "geneticCode": true, "seqBagToAlignment": true, "setErr": true,
}
