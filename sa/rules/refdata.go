package rules

// Independent oracles for constant tables. These strings are the reference the
// repository's tables are compared with; they are part of the trusted base.

// NCBI translation tables (https://www.ncbi.nlm.nih.gov/Taxonomy/Utils/wprintgc.cgi),
// amino acids listed for codons in TCAG order:
//
//	Base1 = TTTTTTTTTTTTTTTTCCCCCCCCCCCCCCCCAAAAAAAAAAAAAAAAGGGGGGGGGGGGGGGG
//	Base2 = TTTTCCCCAAAAGGGGTTTTCCCCAAAAGGGGTTTTCCCCAAAAGGGGTTTTCCCCAAAAGGGG
//	Base3 = TCAGTCAGTCAGTCAGTCAGTCAGTCAGTCAGTCAGTCAGTCAGTCAGTCAGTCAGTCAGTCAG
var ncbiTables = map[int]string{
	1: "FFLLSSSSYY**CC*WLLLLPPPPHHQQRRRRIIIMTTTTNNKKSSRRVVVVAAAADDEEGGGG",
	2: "FFLLSSSSYY**CCWWLLLLPPPPHHQQRRRRIIMMTTTTNNKKSS**VVVVAAAADDEEGGGG",
	5: "FFLLSSSSYY**CCWWLLLLPPPPHHQQRRRRIIMMTTTTNNKKSSSSVVVVAAAADDEEGGGG",
}

func ncbiCode(id int) map[string]byte {
	const b = "TCAG"
	out := map[string]byte{}
	s := ncbiTables[id]
	k := 0
	for i := 0; i < 4; i++ {
		for j := 0; j < 4; j++ {
			for l := 0; l < 4; l++ {
				out[string([]byte{b[i], b[j], b[l]})] = s[k]
				k++
			}
		}
	}
	return out
}

// IUPAC nucleotide ambiguity codes (NC-IUB 1984).
var iupacOracle = map[byte]string{
	'A': "A", 'C': "C", 'G': "G", 'T': "T",
	'R': "AG", 'Y': "CT", 'S': "CG", 'W': "AT", 'K': "GT", 'M': "AC",
	'B': "CGT", 'D': "AGT", 'H': "ACT", 'V': "ACG", 'N': "ACGT",
}

// complement of each unambiguous base
var baseComplement = map[byte]byte{'A': 'T', 'T': 'A', 'C': 'G', 'G': 'C'}

func sortBytes(s string) string {
	b := []byte(s)
	for i := range b {
		for j := i + 1; j < len(b); j++ {
			if b[j] < b[i] {
				b[i], b[j] = b[j], b[i]
			}
		}
	}
	return string(b)
}
