package rules

import (
	"fmt"
	"go/ast"
	"go/token"
	"go/types"
	"sort"
	"strings"

	"golang.org/x/tools/go/ssa"
)

func init() {
	register(&Property{ID: "C15", Run: runC15,
		Explanation: "Static decision of the window, replacement-dispatch, protection and frame clauses of C15 on Mask and MaskOccurences: every store into a row buffer of Mask has a column index i with start <= i <= start+length-1 and i <= L-1 on every path (window confinement and truncation), the start guard accepts exactly 0 <= start <= L; the replacement character is the wildcard of the alignment's own alphabet, GAP for \"GAP\", the single given byte otherwise and an error for anything else; the protection tests read the same row and column that is written and are controlled by their flags; the reference row is excluded from the occurrence tables by a name comparison; the per-column occurrence tables are allocated inside the column loop; the value stored is the replacement; and the only memory of the receiver that is written is row residues (no name, order, length or container write). Not decided: the most-frequent-character choice and the exact selection as evaluated on data."})
}

func runC15(c *Ctx) {
	L := c.L
	L.Rule("mask-window", "every store into a row buffer in Mask uses a column index i with start <= i, i <= start+length-1 and 0 <= i <= L-1 on every path")
	L.Rule("start-domain", "Mask accepts exactly 0 <= start <= L")
	L.Rule("alphabet-wildcard", "an alphabet-specific constant is used only where the controlling alphabet comparisons select its own alphabet")
	L.Rule("replacement-dispatch", "decision table of the dispatch on the replacement mode, read off the path classes over the comparisons of the mode (any statement form): \"GAP\" reaches only the GAP constant, \"AMBIG\" and \"\" reach the two alphabet wildcards or an error, \"MAJ\" a constant placeholder, a one-byte string that is no keyword reaches only mode[0], any other string only an error")
	L.Rule("stored-value", "the value stored into a row buffer is the replacement variable")
	L.Rule("protection-test", "the gap/reference protection comparisons read the same row and column that is written, under their own flags")
	L.Rule("reference-excluded", "in MaskOccurences the occurrence counters are incremented only on a path where the row's name differs from the reference name (when a reference is given)")
	L.Rule("column-table-fresh", "every occurrence/index table updated per column is allocated inside the column loop (fresh for each column)")
	L.Rule("frame", "the only writes into memory reachable from the receiver are element stores into row residues ([]uint8): names, row order, row count and cached length are not written")

	c.checkFlagsNotRewritten("option-not-rewritten")
	c.checkMappedCoordinatesUsed("converted-coordinates-used")
	mask := c.fn("align", "*align", "Mask")
	occ := c.fn("align", "*align", "MaskOccurences")

	c.checkDomain(mask, domainSpec{Rule: "start-domain", Domain: []string{"0 <= start", "start <= L"}})
	L.Floor("start-domain", 2, "two bounds, both directions (floor = half of the instances on the pinned tree: a clean-up may merge instances, a rule that sees nothing must still fail)")

	if mask.ok() {
		c.checkMaskWindow(mask)
	}
	// every other index or slice expression of Mask that depends on the window: a slice taken
	// with the unclamped window fails on an overhanging window instead of truncating it
	L.Rule("window-index-safe", "every index or slice expression of Mask (tables indexed by a residue byte aside) is within bounds on every path: an overhanging window is truncated, it never reaches an index")
	if mask.ok() {
		lc := newLinCtx(c, mask.F)
		c.checkIndexSafety(mask, "window-index-safe", lc, func(lc *linCtx, s indexSite) (string, bool) {
			if !s.slice {
				v := s.idx
				for {
					cv, ok := v.(*ssa.Convert)
					if !ok {
						break
					}
					v = cv.X
				}
				if b, ok := v.Type().Underlying().(*types.Basic); ok && b.Kind() == types.Uint8 {
					return "", false // table indexed by a residue
				}
			}
			return lc.siteName(s), true
		})
	}
	L.Floor("window-index-safe", 2, "the row reads and the row store of the column loop")
	L.Floor("mask-window", 1, "one store, three goals (floor = half of the instances on the pinned tree: a clean-up may merge instances, a rule that sees nothing must still fail)")

	c.checkAlphabetConsts("alphabet-wildcard", c.helperDeclsOf("align", [2]string{"*align", "Mask"}, [2]string{"*align", "MaskOccurences"}))
	L.Floor("alphabet-wildcard", 2, "both wildcard constants are used by the masking functions (or a helper they share)")
	for _, r := range []*fnRef{mask, occ} {
		c.checkReplacementDispatch(r)
		c.checkStoredValue(r)
		c.checkColumnTables(r)
	}
	L.Floor("replacement-dispatch", 6, "6 input classes in each of 2 functions (floor = half of the instances on the pinned tree: a clean-up may merge instances, a rule that sees nothing must still fail)")
	L.Floor("stored-value", 2, "one row store per function")
	c.checkMaskProtection(mask)
	c.checkReferenceExcluded(occ)

	// frame
	for _, r := range []*fnRef{mask, occ, c.fn("align", "*align", "MaskUnique")} {
		if !r.ok() {
			continue
		}
		res := c.runEffects(r.F)
		if len(res.e.unknown) > 0 {
			L.Unknown("frame", r.label, "analysis complete", c.P.Pos(r.F.Pos()), strings.Join(dedupe(res.e.unknown), "; "))
			continue
		}
		ws := res.writesTo(0)
		var bad []string
		for _, w := range ws {
			okW := false
			if st, ok := w.in.(*ssa.Store); ok {
				if ia, ok := st.Addr.(*ssa.IndexAddr); ok {
					if sl, ok := ia.X.Type().Underlying().(*types.Slice); ok {
						if b, ok := sl.Elem().Underlying().(*types.Basic); ok && b.Kind() == types.Uint8 {
							okW = true
						}
					}
				}
			}
			if !okW {
				bad = append(bad, fmt.Sprintf("%s at %s in %s", w.what, c.P.Pos(w.in.Pos()), c.P.FuncName(w.fn)))
			}
		}
		if len(bad) == 0 {
			L.OK("frame", r.label, "writes into the receiver", c.P.Pos(r.F.Pos()), fmt.Sprintf("%d write site(s) reach the receiver's memory, all are residue stores into []uint8 row buffers", len(ws)))
		} else {
			L.Bad("frame", r.label, "writes into the receiver", c.P.Pos(r.F.Pos()), "masking writes something other than residues: "+strings.Join(bad, "; "))
		}
	}
	L.Floor("frame", 1, "Mask, MaskOccurences, MaskUnique (floor = half of the instances on the pinned tree: a clean-up may merge instances, a rule that sees nothing must still fail)")
	L.Assumes("alignment shape invariant: every row reached through the receiver has the cached length")
	c.checkLoopTables("per-iteration-table", "align")
}

// rowStores: stores whose address indexes a row buffer.
func rowStores(lc *linCtx, fn *ssa.Function) []*ssa.Store {
	var out []*ssa.Store
	allInstrs(fn, func(in ssa.Instruction) {
		st, ok := in.(*ssa.Store)
		if !ok {
			return
		}
		if ia, ok := st.Addr.(*ssa.IndexAddr); ok && lc.isRowBuffer(ia.X) {
			out = append(out, st)
		}
	})
	return out
}

func (c *Ctx) checkMaskWindow(r *fnRef) {
	L := c.L
	fn := r.F
	lc := newLinCtx(c, fn)
	roles := lc.stdRoles()
	sts := rowStores(lc, fn)
	if len(sts) == 0 {
		L.Unknown("mask-window", r.label, "row stores", c.P.Pos(fn.Pos()), "no store into a row buffer found")
		return
	}
	for _, st := range sts {
		ia := st.Addr.(*ssa.IndexAddr)
		ix := lc.of(ia.Index)
		ln := lc.lenOf(ia.X)
		start, length := roles["start"], roles["length"]
		goals := []cons{
			consLE(start, ix, "start <= i"),
			consLE(ix, start.add(length).addc(-1), "i <= start+length-1"),
			consLE(linConst(0), ix, "0 <= i"),
			consLT(ix, ln, "i <= L-1"),
		}
		for _, g := range goals {
			ok, det := lc.proveAll(st.Block(), nil, g)
			name := "row store: " + g.why
			if ok {
				L.OK("mask-window", r.label, name, c.P.Pos(st.Pos()), det)
			} else {
				L.Bad("mask-window", r.label, name, c.P.Pos(st.Pos()), "a residue outside the requested window (or outside the alignment) can be overwritten: "+det)
			}
		}
	}
}

// checkReplacementDispatch works on the syntax of the if-chain that compares
// the mode string with literals.
// checkReplacementDispatch reads the dispatch on the replacement mode as a decision table. The
// atoms are the comparisons of the mode parameter with string constants and of its length with
// integer constants; every path class to an outcome (a value merged into the replacement variable,
// or an error return inside the dispatch) is a conjunction of atom outcomes. Every possible mode
// string is equivalent, for all atoms in the code, to one representative: a literal the code
// compares with, a one-byte string that is no literal, or a longer string that is no literal. The
// outcomes reachable for each representative are compared with the documented table. The statement
// form (if-chain, switch, nested switch, guard clauses) does not matter.
func (c *Ctx) checkReplacementDispatch(r *fnRef) {
	if !r.ok() {
		return
	}
	L := c.L
	fn := r.F
	// the mode parameter: the string parameter compared with "GAP"
	type atom struct {
		kind string // "eq" (mode == lit) or "len" (len(mode) OP k)
		lit  string
		op   token.Token
		k    int64
	}
	atoms := map[ssa.Value]atom{}
	var P *ssa.Parameter
	isLenOf := func(v ssa.Value, p *ssa.Parameter) bool {
		call, ok := v.(*ssa.Call)
		return ok && builtinName(call.Common()) == "len" && call.Common().Args[0] == ssa.Value(p)
	}
	for _, p := range fn.Params {
		if b, ok := p.Type().Underlying().(*types.Basic); !ok || b.Kind() != types.String {
			continue
		}
		found := false
		allInstrs(fn, func(in ssa.Instruction) {
			if bo, ok := in.(*ssa.BinOp); ok && bo.Op == token.EQL && bo.X == ssa.Value(p) {
				if s, ok := cStr(constOf(bo.Y)); ok && s == "GAP" {
					found = true
				}
			}
		})
		if found {
			P = p
		}
	}
	if P == nil {
		L.Unknown("replacement-dispatch", r.label, "mode parameter", c.P.Pos(fn.Pos()), "no string parameter is compared with \"GAP\"")
		return
	}
	lits := map[string]bool{}
	allInstrs(fn, func(in ssa.Instruction) {
		bo, ok := in.(*ssa.BinOp)
		if !ok {
			return
		}
		x, y := bo.X, bo.Y
		if y == ssa.Value(P) || isLenOf(y, P) {
			x, y = y, x
		}
		switch {
		case x == ssa.Value(P) && (bo.Op == token.EQL || bo.Op == token.NEQ):
			if s, ok := cStr(constOf(y)); ok {
				atoms[bo] = atom{kind: "eq", lit: s, op: bo.Op}
				lits[s] = true
			}
		case isLenOf(x, P):
			if k, ok := constInt(y); ok {
				op := bo.Op
				if x != bo.X { // constant on the left: mirror
					switch op {
					case token.LSS:
						op = token.GTR
					case token.LEQ:
						op = token.GEQ
					case token.GTR:
						op = token.LSS
					case token.GEQ:
						op = token.LEQ
					}
				}
				atoms[bo] = atom{kind: "len", op: op, k: k}
			}
		}
	})
	evalAtom := func(a atom, m string) bool {
		if a.kind == "eq" {
			return (m == a.lit) == (a.op == token.EQL)
		}
		n := int64(len(m))
		switch a.op {
		case token.EQL:
			return n == a.k
		case token.NEQ:
			return n != a.k
		case token.LSS:
			return n < a.k
		case token.LEQ:
			return n <= a.k
		case token.GTR:
			return n > a.k
		case token.GEQ:
			return n >= a.k
		}
		return true
	}
	// the replacement variable: the uint8 φ that merges mode[0]
	isModeByte := func(v ssa.Value) bool {
		var x, idx ssa.Value
		switch lk := stripConv(v).(type) {
		case *ssa.Index:
			x, idx = lk.X, lk.Index
		case *ssa.Lookup:
			x, idx = lk.X, lk.Index
		default:
			return false
		}
		if x != ssa.Value(P) {
			return false
		}
		k, isK := constInt(idx)
		return isK && k == 0
	}
	type leaf struct {
		v    ssa.Value
		pred *ssa.BasicBlock // block the value arrives from
		to   *ssa.BasicBlock
	}
	var flatten func(p *ssa.Phi, seen map[*ssa.Phi]bool) []leaf
	flatten = func(p *ssa.Phi, seen map[*ssa.Phi]bool) []leaf {
		if seen[p] {
			return nil
		}
		seen[p] = true
		var out []leaf
		for i, e := range p.Edges {
			if q, ok := e.(*ssa.Phi); ok {
				out = append(out, flatten(q, seen)...)
				continue
			}
			out = append(out, leaf{e, p.Block().Preds[i], p.Block()})
		}
		return out
	}
	var rep *ssa.Phi
	var leaves []leaf
	allInstrs(fn, func(in ssa.Instruction) {
		p, ok := in.(*ssa.Phi)
		if !ok {
			return
		}
		if b, ok := p.Type().Underlying().(*types.Basic); !ok || b.Kind() != types.Uint8 {
			return
		}
		ls := flatten(p, map[*ssa.Phi]bool{})
		has := false
		for _, l := range ls {
			if isModeByte(l.v) {
				has = true
			}
		}
		if has && len(ls) > len(leaves) && innermostLoopOf(naturalLoops(fn), p.Block()) == nil {
			rep, leaves = p, ls
		}
	})
	if rep == nil {
		L.Unknown("replacement-dispatch", r.label, "replacement variable", c.P.Pos(fn.Pos()), "no byte variable merges mode[0] with the other replacement characters")
		return
	}
	// path classes (sets of atom outcomes) from the entry to the end of a block
	type alt = string // sorted "name=T;name=F"
	memo := map[*ssa.BasicBlock]map[alt]bool{}
	onStack := map[*ssa.BasicBlock]bool{}
	var altsAt func(b *ssa.BasicBlock) map[alt]bool
	join := func(a alt, k string) alt {
		if a == "" {
			return k
		}
		parts := strings.Split(a, ";")
		for _, p := range parts {
			if p == k {
				return a
			}
		}
		parts = append(parts, k)
		sort.Strings(parts)
		return strings.Join(parts, ";")
	}
	edgeAtom := func(p, b *ssa.BasicBlock) string {
		if len(p.Instrs) == 0 {
			return ""
		}
		ifi, ok := p.Instrs[len(p.Instrs)-1].(*ssa.If)
		if !ok || p.Succs[0] == p.Succs[1] {
			return ""
		}
		cond, truth := ifi.Cond, p.Succs[0] == b
		for {
			u, ok := cond.(*ssa.UnOp)
			if !ok || u.Op != token.NOT {
				break
			}
			cond, truth = u.X, !truth
		}
		if _, ok := atoms[cond]; !ok {
			return ""
		}
		if truth {
			return cond.Name() + "=T"
		}
		return cond.Name() + "=F"
	}
	altsAt = func(b *ssa.BasicBlock) map[alt]bool {
		if m, ok := memo[b]; ok {
			return m
		}
		if onStack[b] {
			return map[alt]bool{}
		}
		onStack[b] = true
		out := map[alt]bool{}
		if len(b.Preds) == 0 {
			out[""] = true
		}
		for _, p := range b.Preds {
			if b.Dominates(p) {
				continue // back edge
			}
			k := edgeAtom(p, b)
			for a := range altsAt(p) {
				if k == "" {
					out[a] = true
				} else {
					out[join(a, k)] = true
				}
			}
		}
		onStack[b] = false
		memo[b] = out
		return out
	}
	byName := map[string]atom{}
	for v, a := range atoms {
		byName[v.Name()] = a
	}
	consistent := func(a alt, m string) bool {
		if a == "" {
			return true
		}
		for _, part := range strings.Split(a, ";") {
			name, truth := part[:len(part)-2], part[len(part)-1] == 'T'
			if evalAtom(byName[name], m) != truth {
				return false
			}
		}
		return true
	}
	mentionsAtom := func(as map[alt]bool) bool {
		for a := range as {
			if a == "" {
				return false
			}
		}
		return len(as) > 0
	}
	// outcomes
	type outcome struct {
		desc string
		alts map[alt]bool
		pos  token.Pos
	}
	var outs []outcome
	gapK, aminoK, nuclK := int64('-'), int64('X'), int64('N')
	for nm, ptr := range map[string]*int64{"GAP": &gapK, "ALL_AMINO": &aminoK, "ALL_NUCLE": &nuclK} {
		if v := constByName(c.P.Pkg("align"), nm); v != nil {
			if k, ok := cInt(v); ok {
				*ptr = k
			}
		}
	}
	for _, l := range leaves {
		as := map[alt]bool{}
		k := edgeAtom(l.pred, l.to)
		for a := range altsAt(l.pred) {
			if k != "" {
				a = join(a, k)
			}
			as[a] = true
		}
		desc := "other"
		if isModeByte(l.v) {
			desc = "mode[0]"
		} else if kk, ok := constInt(l.v); ok {
			switch kk {
			case gapK:
				desc = "GAP"
			case aminoK:
				desc = "ALL_AMINO"
			case nuclK:
				desc = "ALL_NUCLE"
			default:
				desc = fmt.Sprintf("const %q", rune(kk))
			}
		}
		pos := l.v.Pos()
		if pos == token.NoPos {
			pos = rep.Pos()
		}
		outs = append(outs, outcome{desc, as, pos})
	}
	for _, e := range returnEdges(fn) {
		if e.kind != "err" || rep.Block().Dominates(e.block) {
			continue
		}
		as := altsAt(e.block)
		if !mentionsAtom(as) {
			continue // an error that does not depend on the mode (argument checks before the dispatch)
		}
		outs = append(outs, outcome{"error", as, e.ret.Pos()})
	}
	// representatives
	reps := []string{}
	for l := range lits {
		reps = append(reps, l)
	}
	one, long := "q", "qq"
	for lits[one] {
		one = string(rune(one[0] + 1))
	}
	for lits[long] {
		long += "q"
	}
	reps = append(reps, one, long)
	sort.Strings(reps)
	reach := func(m string) []string {
		set := map[string]bool{}
		for _, o := range outs {
			for a := range o.alts {
				if consistent(a, m) {
					set[o.desc] = true
				}
			}
		}
		var out []string
		for k := range set {
			out = append(out, k)
		}
		sort.Strings(out)
		return out
	}
	want := func(m string) (string, func([]string) bool) {
		eq := func(exp ...string) func([]string) bool {
			sort.Strings(exp)
			return func(got []string) bool { return strings.Join(got, ",") == strings.Join(exp, ",") }
		}
		switch {
		case m == "GAP":
			return "the GAP constant", eq("GAP")
		case m == "AMBIG" || m == "":
			return "the wildcard of the alignment's alphabet, an error for any other alphabet", eq("ALL_AMINO", "ALL_NUCLE", "error")
		case m == "MAJ":
			return "a constant placeholder (replaced per column by the most frequent character)", func(got []string) bool {
				return len(got) == 1 && strings.HasPrefix(got[0], "const ")
			}
		case len(m) == 1 && !lits[m]:
			return "the given byte mode[0]", eq("mode[0]")
		case !lits[m]:
			return "an error", eq("error")
		}
		return "", nil
	}
	for _, m := range reps {
		got := reach(m)
		name := fmt.Sprintf("mode %q", m)
		if m == one {
			name = "mode of one byte"
		} else if m == long {
			name = "mode of several bytes that is no keyword"
		}
		what, ok := want(m)
		if ok == nil {
			L.Unknown("replacement-dispatch", r.label, name, c.P.Pos(rep.Pos()), "the code compares the mode with a literal the documentation does not name")
			continue
		}
		L.Check(ok(got), "replacement-dispatch", r.label, name, c.P.Pos(rep.Pos()), fmt.Sprintf("reaches {%s}: %s", strings.Join(got, ", "), what),
			fmt.Sprintf("reaches {%s}, documented: %s", strings.Join(got, ", "), what))
	}
	for _, w := range []string{"GAP", "MAJ", "AMBIG", ""} {
		if !lits[w] {
			L.Bad("replacement-dispatch", r.label, fmt.Sprintf("mode %q", w), c.P.Pos(rep.Pos()), "documented mode is never compared with")
		}
	}
}

func contains(xs []string, s string) bool {
	for _, x := range xs {
		if x == s {
			return true
		}
	}
	return false
}

func stripParensConv(e ast.Expr) ast.Expr {
	for {
		switch x := e.(type) {
		case *ast.ParenExpr:
			e = x.X
		case *ast.CallExpr:
			if len(x.Args) == 1 {
				if id, ok := x.Fun.(*ast.Ident); ok && (id.Name == "uint8" || id.Name == "byte" || id.Name == "rune") {
					e = x.Args[0]
					continue
				}
			}
			return e
		default:
			return e
		}
	}
}

// modeLits: string literals the mode is compared with (==) in cond (joined by ||).
func modeLits(info *types.Info, cond ast.Expr, mode types.Object) []string {
	switch x := cond.(type) {
	case *ast.ParenExpr:
		return modeLits(info, x.X, mode)
	case *ast.BinaryExpr:
		if x.Op == token.LOR {
			return append(modeLits(info, x.X, mode), modeLits(info, x.Y, mode)...)
		}
		if x.Op == token.EQL {
			if id, ok := x.X.(*ast.Ident); ok && info.Uses[id] == mode {
				if bl, ok := x.Y.(*ast.BasicLit); ok && bl.Kind == token.STRING {
					return []string{strings.Trim(bl.Value, `"`)}
				}
			}
		}
	}
	return nil
}

// checkStoredValue: the stored value is the replacement variable: a φ that
// merges the dispatch constants (it contains the wildcard constants).
func (c *Ctx) checkStoredValue(r *fnRef) {
	if !r.ok() {
		return
	}
	L := c.L
	lc := newLinCtx(c, r.F)
	for _, st := range rowStores(lc, r.F) {
		hasN, hasX, _ := wildcardConsts(st.Val)
		if hasN && hasX {
			L.OK("stored-value", r.label, "row store", c.P.Pos(st.Pos()), "the stored value merges the replacement-dispatch constants (it is the replacement variable)")
		} else {
			L.Bad("stored-value", r.label, "row store", c.P.Pos(st.Pos()), "the value written into the row is not the replacement variable")
		}
	}
	// majority mode: a value that reaches the row store and is computed from the column (neither a
	// dispatch constant nor the single character given) is produced only where the mode string has
	// been compared equal to "MAJ"
	fn := r.F
	var maj []ssa.Value
	allInstrs(fn, func(in ssa.Instruction) {
		if bo, ok := in.(*ssa.BinOp); ok && bo.Op == token.EQL {
			for _, pr := range [][2]ssa.Value{{bo.X, bo.Y}, {bo.Y, bo.X}} {
				if s, ok := cStr(constOf(pr[1])); ok && s == "MAJ" {
					if _, isParam := pr[0].(*ssa.Parameter); isParam {
						maj = append(maj, bo)
					}
				}
			}
		}
	})
	bf := computeBranchFacts(fn)
	loops := naturalLoops(fn)
	n, bad := 0, 0
	for _, st := range rowStores(lc, fn) {
		for v := range throughPhis(st.Val, false) {
			cv, ok := v.(*ssa.Convert)
			if !ok {
				continue
			}
			// computed inside a loop from a loop index or an element: the per-column majority
			if innermostLoopOf(loops, cv.Block()) == nil {
				continue
			}
			if _, isParamDerived := stripConv(cv.X).(*ssa.Parameter); isParamDerived {
				continue
			}
			n++
			okMaj := false
			for _, m := range maj {
				if bf.knownAt(cv.Block(), m, true) {
					okMaj = true
				}
			}
			if !okMaj {
				bad++
			}
		}
	}
	if n > 0 {
		L.Check(bad == 0, "stored-value", r.label, "majority character only in MAJ mode", c.P.Pos(fn.Pos()),
			fmt.Sprintf("%d computed replacement value(s), each under mode == \"MAJ\"", n),
			"a replacement character computed from the column can be written although the mode string was not compared equal to \"MAJ\" on that path: another mode (e.g. a given character that happens to be the placeholder) is treated as majority mode")
	}
}

// checkColumnTables: every local table whose elements are updated inside the
// outermost column loop is allocated inside that loop.
func (c *Ctx) checkColumnTables(r *fnRef) {
	if !r.ok() {
		return
	}
	L := c.L
	fn := r.F
	lc := newLinCtx(c, fn)
	sts := rowStores(lc, fn)
	if len(sts) == 0 {
		return
	}
	// column loop = outermost loop containing the row store
	var col *loop
	for _, lp := range naturalLoops(fn) {
		if lp.Blocks[sts[0].Block()] && (col == nil || len(lp.Blocks) > len(col.Blocks)) {
			col = lp
		}
	}
	if col == nil {
		L.Unknown("column-table-fresh", r.label, "column loop", c.P.Pos(fn.Pos()), "row store is not in a loop")
		return
	}
	n := 0
	seen := map[ssa.Value]bool{}
	allInstrs(fn, func(in ssa.Instruction) {
		st, ok := in.(*ssa.Store)
		if !ok || !col.Blocks[st.Block()] {
			return
		}
		ia, ok := st.Addr.(*ssa.IndexAddr)
		if !ok || lc.isRowBuffer(ia.X) {
			return
		}
		if al, isAl := ia.X.(*ssa.Alloc); isAl && al.Comment == "varargs" {
			return
		}
		org := sliceOrigin(ia.X)
		var mk ssa.Value
		switch o := org.(type) {
		case *ssa.MakeSlice:
			mk = o
		case *ssa.Alloc: // make([]T, const) lowers to new [const]T + slice
			if o.Comment == "makeslice" {
				mk = o
			}
		}
		if mk == nil || seen[mk] {
			return
		}
		seen[mk] = true
		n++
		name := "table " + lc.canon(mk)
		if refs := mk.Referrers(); refs != nil {
			for _, rr := range *refs {
				if d, ok := rr.(*ssa.DebugRef); ok {
					if id, ok := d.Expr.(*ast.Ident); ok {
						name = "table " + id.Name
					}
				}
			}
		}
		name = stable(name)
		if col.Blocks[mk.(ssa.Instruction).Block()] {
			L.OK("column-table-fresh", r.label, name, c.P.Pos(mk.Pos()), "allocated inside the column loop: zero for every column")
		} else if clearedPerIteration(fn, col, mk, st) {
			L.OK("column-table-fresh", r.label, name, c.P.Pos(mk.Pos()), "allocated once and reset with clear() at the start of every column, before any update")
		} else {
			L.Bad("column-table-fresh", r.label, name, c.P.Pos(mk.Pos()), "a per-column table is allocated outside the column loop and updated inside it: counts of earlier columns leak into later columns")
		}
	})
	if n == 0 && r.label != "" && strings.HasSuffix(r.label, "MaskOccurences") {
		L.Unknown("column-table-fresh", r.label, "tables", c.P.Pos(fn.Pos()), "no per-column table recognised")
	}
}

// checkMaskProtection: the comparisons that guard the row store in Mask.
func (c *Ctx) checkMaskProtection(r *fnRef) {
	if !r.ok() {
		return
	}
	L := c.L
	fn := r.F
	lc := newLinCtx(c, fn)
	sts := rowStores(lc, fn)
	if len(sts) != 1 {
		L.Unknown("protection-test", r.label, "row store", c.P.Pos(fn.Pos()), fmt.Sprintf("%d row stores, want 1", len(sts)))
		return
	}
	st := sts[0]
	sia := st.Addr.(*ssa.IndexAddr)
	cell := lc.canon(sia.X) + "[" + lc.of(sia.Index).String() + "]"
	nogap, noref := paramByName(fn, "nogap"), paramByName(fn, "noref")
	gapv := int64('-')
	foundGap, foundRef := false, false
	allInstrs(fn, func(in ssa.Instruction) {
		bo, ok := in.(*ssa.BinOp)
		if !ok || bo.Op != token.EQL {
			return
		}
		// is one side a load of a row cell?
		for _, pair := range [][2]ssa.Value{{bo.X, bo.Y}, {bo.Y, bo.X}} {
			u, ok := pair[0].(*ssa.UnOp)
			if !ok || u.Op != token.MUL {
				continue
			}
			ia, ok := u.X.(*ssa.IndexAddr)
			if !ok || !lc.isRowBuffer(ia.X) {
				continue
			}
			// only comparisons that control the store
			if !(bo.Block() == st.Block() || bo.Block().Dominates(st.Block())) {
				// the second comparison of `!(a) && !(b)` does not dominate the store when the first protects it; accept blocks in the same innermost loop
			}
			rd := lc.canon(ia.X) + "[" + lc.of(ia.Index).String() + "]"
			lp := innermostLoopOf(naturalLoops(fn), st.Block())
			if lp == nil || !lp.Blocks[bo.Block()] {
				continue
			}
			if k, isK := constInt(pair[1]); isK && k == gapv {
				foundGap = true
				same := rd == cell
				flag := nogap != nil && guardedByBool(bo.Block(), nogap, true)
				L.Check(same && flag, "protection-test", r.label, "gap protection", c.P.Pos(bo.Pos()), "reads "+stable(rd)+" (the cell that is written) under nogap",
					fmt.Sprintf("gap protection reads %s, the store writes %s; under nogap: %v", stable(rd), stable(cell), flag))
			} else if _, isConst := pair[1].(*ssa.Const); !isConst {
				foundRef = true
				same := rd == cell
				flag := noref != nil && guardedByBool(bo.Block(), noref, true)
				L.Check(same && flag, "protection-test", r.label, "reference protection", c.P.Pos(bo.Pos()), "reads "+stable(rd)+" (the cell that is written) under noref",
					fmt.Sprintf("reference protection reads %s, the store writes %s; under noref: %v", stable(rd), stable(cell), flag))
			}
		}
	})
	if !foundGap {
		L.Bad("protection-test", r.label, "gap protection", c.P.Pos(st.Pos()), "no comparison of the written cell with GAP controls the store")
	}
	if !foundRef {
		L.Bad("protection-test", r.label, "reference protection", c.P.Pos(st.Pos()), "no comparison of the written cell with the reference character controls the store")
	}
}

// checkReferenceExcluded: in MaskOccurences, `s.name != refseq` controls the counters.
func (c *Ctx) checkReferenceExcluded(r *fnRef) {
	if !r.ok() {
		return
	}
	L := c.L
	fn := r.F
	// the reference-name parameter, by role: the string parameter a row's name is compared with
	// (its name is only the fallback)
	var ref *ssa.Parameter
	var nameCmps []*ssa.BinOp
	allInstrs(fn, func(in ssa.Instruction) {
		bo, ok := in.(*ssa.BinOp)
		if !ok || (bo.Op != token.NEQ && bo.Op != token.EQL) {
			return
		}
		for _, pair := range [][2]ssa.Value{{bo.X, bo.Y}, {bo.Y, bo.X}} {
			p, isP := pair[1].(*ssa.Parameter)
			if !isP {
				continue
			}
			if _, f, base := loadedField(pair[0]); base != nil && f == "name" {
				if ref == nil || ref == p {
					ref = p
					nameCmps = append(nameCmps, bo)
				}
			}
		}
	})
	if ref == nil {
		if paramByName(fn, "refseq") == nil {
			L.Unknown("reference-excluded", r.label, "refseq", c.P.Pos(fn.Pos()), "parameter not found")
			return
		}
		L.Bad("reference-excluded", r.label, "row name != reference name", c.P.Pos(fn.Pos()), "no comparison of the row's name with the reference name: the reference row is counted in the occurrence tables")
		return
	}
	// atoms: name == / != ref, and ref == / != ""
	atoms := map[ssa.Value]bool{}
	var emptyCmps []*ssa.BinOp
	for _, bo := range nameCmps {
		atoms[bo] = true
	}
	allInstrs(fn, func(in ssa.Instruction) {
		bo, ok := in.(*ssa.BinOp)
		if !ok || (bo.Op != token.NEQ && bo.Op != token.EQL) {
			return
		}
		if (bo.X == ssa.Value(ref) && isEmptyString(bo.Y)) || (bo.Y == ssa.Value(ref) && isEmptyString(bo.X)) {
			atoms[bo] = true
			emptyCmps = append(emptyCmps, bo)
		}
	})
	lp := innermostLoopOf(naturalLoops(fn), nameCmps[0].Block())
	if lp == nil {
		L.Unknown("reference-excluded", r.label, "row loop", c.P.Pos(fn.Pos()), "the name comparison is not inside a loop")
		return
	}
	// every path class of one iteration that reaches a table update knows either that no reference
	// was given or that this row is not the reference
	ap := newAtomPaths(func(v ssa.Value) bool { return atoms[v] }, lp.Head)
	excused := func(alt string) bool {
		for _, bo := range emptyCmps {
			if altHas(alt, bo.Name()+"="+map[bool]string{true: "T", false: "F"}[bo.Op == token.EQL]) {
				return true // refseq == ""
			}
		}
		for _, bo := range nameCmps {
			if altHas(alt, bo.Name()+"="+map[bool]string{true: "T", false: "F"}[bo.Op == token.NEQ]) {
				return true // name != refseq
			}
		}
		return false
	}
	n, bad := 0, 0
	allInstrs(fn, func(in ssa.Instruction) {
		st, ok := in.(*ssa.Store)
		if !ok || !lp.Blocks[st.Block()] {
			return
		}
		ia, ok := st.Addr.(*ssa.IndexAddr)
		if !ok {
			return
		}
		if al, isAl := ia.X.(*ssa.Alloc); isAl && al.Comment == "varargs" {
			return
		}
		n++
		for alt := range ap.at(st.Block()) {
			if !excused(alt) {
				bad++
				break
			}
		}
	})
	if n == 0 {
		L.Unknown("reference-excluded", r.label, "counter updates", c.P.Pos(fn.Pos()), "no table update found in the row loop")
		return
	}
	L.Check(bad == 0, "reference-excluded", r.label, "row name != reference name", c.P.Pos(nameCmps[0].Pos()),
		fmt.Sprintf("%d table update(s) in the row loop, every path class to each knows `refseq == \"\"` or `name != refseq`", n),
		fmt.Sprintf("%d of %d table updates can be reached for the reference row itself", bad, n))
}

func isEmptyString(v ssa.Value) bool {
	k := constOf(v)
	if k == nil {
		return false
	}
	s, ok := cStr(k)
	return ok && s == ""
}

// passesThrough: every path inside the loop from its head to target uses at
// least one edge accepted by good.
func passesThrough(lp *loop, target *ssa.BasicBlock, good func(from, to *ssa.BasicBlock) bool) bool {
	// search for a path avoiding good edges
	seen := map[*ssa.BasicBlock]bool{}
	var dfs func(b *ssa.BasicBlock) bool
	dfs = func(b *ssa.BasicBlock) bool {
		if b == target {
			return true
		}
		if seen[b] {
			return false
		}
		seen[b] = true
		for _, s := range b.Succs {
			if !lp.Blocks[s] || s == lp.Head {
				continue
			}
			if good(b, s) {
				continue
			}
			if dfs(s) {
				return true
			}
		}
		return false
	}
	return !dfs(lp.Head)
}

// clearedPerIteration: the whole table made by mk is reset by the builtin clear() in the body of the
// column loop itself (not in an inner loop), in a block that dominates every update of the table in
// the loop: each path from the loop head to an update passes the reset in the same iteration.
func clearedPerIteration(fn *ssa.Function, col *loop, mk ssa.Value, _ *ssa.Store) bool {
	loops := naturalLoops(fn)
	var updates []*ssa.Store
	allInstrs(fn, func(in ssa.Instruction) {
		if st, ok := in.(*ssa.Store); ok && col.Blocks[st.Block()] {
			if ia, ok := st.Addr.(*ssa.IndexAddr); ok && sliceOrigin(ia.X) == mk {
				updates = append(updates, st)
			}
		}
	})
	ok := false
	allInstrs(fn, func(in ssa.Instruction) {
		call, isCall := in.(*ssa.Call)
		if !isCall || builtinName(call.Common()) != "clear" || !col.Blocks[call.Block()] {
			return
		}
		arg := call.Common().Args[0]
		if sliceOrigin(arg) != mk {
			return
		}
		// the very slice value the updates index (the whole table), not a window of it
		for _, st := range updates {
			if st.Addr.(*ssa.IndexAddr).X != arg {
				return
			}
		}
		if in := innermostLoopOf(loops, call.Block()); in == nil || in.Head != col.Head {
			return
		}
		for _, st := range updates {
			if !(call.Block() == st.Block() && instrDominates(call, st)) && !(call.Block() != st.Block() && call.Block().Dominates(st.Block())) {
				return
			}
		}
		ok = true
	})
	return ok
}
