package rules

import (
	"fmt"
	"go/token"
	"strings"

	"golang.org/x/tools/go/ssa"
)

func init() {
	register(&Property{ID: "C10", Run: runC10,
		Explanation: "Static decision of the support, frame and replay clauses of C10. Support: every value drawn with rand.Intn/rand.Perm in the randomised operations is used as an index that is proven within the container (no draw can address a row or column outside the alignment) and the draw range is exact: the largest outcome addresses the last admissible position (a range one too small, which makes the last column/offset unreachable, or a range taken from the wrong quantity, is reported). Frame: every residue store in the randomised operations writes a byte loaded from the same column of another row (site shuffling, swap, recombination), from the same row (rogue simulation), from the alphabet table of the alignment's own alphabet under the non-gap guard (mutation) or the gap constant (gap insertion). Replay: the only random source is the global math/rand stream, seeded exactly once from --seed; no draw is reachable from a goroutine; no draw depends on Go map iteration order. Not decided: that outcomes are permutations / multiset-preserving, the distribution, sizes computed from floating-point rates."})
}

var c10AlignFuncs = []string{"BuildBootstrap", "RandSubAlign", "Recombine", "Swap", "ShuffleSites", "SimulateRogue", "Mutate", "AddGaps"}
var c10BagFuncs = []string{"ShuffleSequences", "sampleSeqBag"}

func runC10(c *Ctx) {
	L := c.L
	c.checkNoLibraryGlobalWrites("library-global-state")
	L.Rule("draw-index-safe", "every index or slice expression on a row buffer, on the row list or on an alphabet table in a randomised operation is within bounds on every path (linear entailment using 0 <= rand.Intn(n) <= n-1, the element range of rand.Perm(n) and of slices filled with draws, guards and loop induction)")
	var fns []*fnRef
	for _, n := range c10AlignFuncs {
		fns = append(fns, c.fn("align", "*align", n))
	}
	for _, n := range c10BagFuncs {
		fns = append(fns, c.fn("align", "*seqbag", n))
	}
	for _, r := range fns {
		if !r.ok() {
			continue
		}
		lc := newLinCtx(c, r.F)
		lc.registerLocalElemFacts(r.F)
		for _, s := range indexSites(r.F) {
			isTarget := lc.isRowBuffer(s.base)
			if _, f, base := loadedField(s.base); base != nil && f == "seqs" {
				isTarget = true
			}
			if u, ok := s.base.(*ssa.UnOp); ok {
				if g, ok := u.X.(*ssa.Global); ok && (g.Name() == "stdaminoacid" || g.Name() == "stdnucleotides") {
					isTarget = true
				}
			}
			if !isTarget {
				continue
			}
			name := lc.siteName(s)
			ln := lc.lenOf(s.base)
			var goals []cons
			floatDerived := false
			if s.slice {
				lo, hi := linConst(0), ln
				if s.lo != nil {
					lo = lc.of(s.lo)
					floatDerived = floatDerived || fromFloatConv(s.lo)
				}
				if s.hi != nil {
					hi = lc.of(s.hi)
					floatDerived = floatDerived || fromFloatConv(s.hi)
				}
				goals = append(goals, consLE(linConst(0), lo, "0 <= low"), consLE(lo, hi, "low <= high"), consLE(hi, ln, "high <= len"))
			} else {
				ix := lc.of(s.idx)
				floatDerived = fromFloatConv(s.idx)
				goals = append(goals, consLE(linConst(0), ix, "0 <= index"), consLT(ix, ln, "index < len"))
			}
			allOK := true
			var dets []string
			for _, g := range goals {
				if g.e.isConst() && g.e.c <= 0 {
					continue
				}
				ok, det := lc.proveAll(s.in.Block(), nil, g)
				if !ok && floatDerived {
					dets = append(dets, g.why+": not decided (the index is partly computed from a floating-point rate)")
					continue
				}
				if !ok {
					allOK = false
					dets = append(dets, g.why+": "+det)
				} else {
					dets = append(dets, g.why+" ✓ "+det)
				}
			}
			if allOK {
				L.OK("draw-index-safe", r.label, name, c.P.Pos(s.in.Pos()), strings.Join(dets, " | "))
			} else {
				L.Bad("draw-index-safe", r.label, name, c.P.Pos(s.in.Pos()), "a drawn index can fall outside the container: "+strings.Join(dets, " | "))
			}
		}
	}
	L.Floor("draw-index-safe", 20, "row, row-list and alphabet-table index sites of the ten randomised operations (floor = half of the instances on the pinned tree: a clean-up may merge instances, a rule that sees nothing must still fail)")
	// exactness of the draw ranges
	L.Rule("draw-support", "the range of every draw is exactly the set of admissible positions: a value drawn by rand.Intn(X) (or an element of rand.Perm(X)) that indexes a container of length LEN requires X == LEN; a drawn window start r used as [r : r+w] or as the start of a loop j = r .. r+w-1 requires (X-1)+w == LEN; in a Fisher-Yates step the partner index must be X-1. A smaller range makes the last position unreachable, a larger one is caught by the safety rule")
	for _, r := range fns {
		if r.ok() {
			c.checkDrawSupport(r)
		}
	}
	L.Floor("draw-support", 10, "Intn and Perm sites of the randomised operations (floor = half of the instances on the pinned tree: a clean-up may merge instances, a rule that sees nothing must still fail)")
	c.checkRandomFrame()
	c.checkRateDomains("rate-domain", []rateSpec{
		{"SimulateRogue", "prop", 0, 1, false}, {"SimulateRogue", "proplen", 0, 1, false},
		{"Swap", "rate", 0, 1, false},
		{"Recombine", "prop", 0, 0.5, false}, {"Recombine", "lenprop", 0, 1, false},
		{"AddGaps", "prop", 0, 1, false}, {"AddGaps", "lenprop", 0, 1, false},
		{"ShuffleSites", "rate", 0, 1, false}, {"ShuffleSites", "roguerate", 0, 1, false},
		{"BuildBootstrap", "frac", 0, 1, true},
	})
	L.Floor("rate-domain", 5, "rate and proportion parameters of the randomised operations (floor = half of the instances on the pinned tree: a clean-up may merge instances, a rule that sees nothing must still fail)")
	c.checkReplay()
	// replay also needs the caller's inputs to be left as they were: a second call with the same
	// seed must see the same counts map / alignment
	c.purityObligations("input-unmodified", []purityTarget{
		{"align", "*seqbag", "rarefySeqBag", []int{0, 2}},
		{"align", "*align", "Rarefy", []int{0, 2}},
		{"align", "*seqbag", "sampleSeqBag", []int{0}},
		{"align", "*align", "BuildBootstrap", []int{0}},
		{"align", "*align", "RandSubAlign", []int{0}},
	})
	L.Floor("input-unmodified", 3, "sampling operations and their count map (floor = half of the instances on the pinned tree: a clean-up may merge instances, a rule that sees nothing must still fail)")
}

// fromFloatConv: v is (partly) computed from a float-to-int conversion.
func fromFloatConv(v ssa.Value) bool {
	seen := map[ssa.Value]bool{}
	var rec func(v ssa.Value) bool
	rec = func(v ssa.Value) bool {
		if v == nil || seen[v] {
			return false
		}
		seen[v] = true
		switch x := v.(type) {
		case *ssa.Convert:
			if isFloatValue(x.X) {
				return true
			}
			return rec(x.X)
		case *ssa.BinOp:
			return rec(x.X) || rec(x.Y)
		case *ssa.Phi:
			for _, e := range x.Edges {
				if rec(e) {
					return true
				}
			}
		}
		return false
	}
	return rec(v)
}

// derivedSlices: slice values that denote (part of) the same backing array as v.
func derivedSlices(v ssa.Value) map[ssa.Value]bool {
	out := map[ssa.Value]bool{v: true}
	work := []ssa.Value{v}
	for len(work) > 0 {
		x := work[len(work)-1]
		work = work[:len(work)-1]
		refs := x.Referrers()
		if refs == nil {
			continue
		}
		for _, r := range *refs {
			switch y := r.(type) {
			case *ssa.Slice:
				if y.X == x && !out[y] {
					out[y] = true
					work = append(work, y)
				}
			case *ssa.Phi:
				if !out[y] {
					out[y] = true
					work = append(work, y)
				}
			}
		}
	}
	return out
}

// indexUses: index sites whose index value is v.
func indexUses(fn *ssa.Function, v ssa.Value) []indexSite {
	var out []indexSite
	for _, s := range indexSites(fn) {
		if !s.slice && s.idx == v {
			out = append(out, s)
		}
	}
	return out
}

func (c *Ctx) checkDrawSupport(r *fnRef) {
	L := c.L
	fn := r.F
	lc := newLinCtx(c, fn)
	lc.registerLocalElemFacts(fn)
	type draw struct {
		call *ssa.Call
		perm bool
	}
	var draws []draw
	allInstrs(fn, func(in ssa.Instruction) {
		if call, ok := in.(*ssa.Call); ok {
			if isPkgFunc(call.Common(), "math/rand", "Intn") {
				draws = append(draws, draw{call, false})
			}
			if isPkgFunc(call.Common(), "math/rand", "Perm") {
				draws = append(draws, draw{call, true})
			}
		}
	})
	nd := map[string]int{}
	for _, d := range draws {
		X := lc.of(d.call.Common().Args[0])
		kind := "rand.Intn"
		if d.perm {
			kind = "rand.Perm"
		}
		name := stable(fmt.Sprintf("%s(%s)", kind, X.String()))
		nd[name]++
		pos := c.P.Pos(d.call.Pos())
		var verdicts []string
		bad := ""
		ok := func(s string) { verdicts = append(verdicts, s) }
		fail := func(s string) {
			if bad == "" {
				bad = s
			}
		}
		// element uses (Perm results, slices filled with Intn results)
		elemIndexUses := func(slice ssa.Value) int {
			n := 0
			ds := derivedSlices(slice)
			allInstrs(fn, func(in ssa.Instruction) {
				u, isU := in.(*ssa.UnOp)
				if !isU || u.Op != token.MUL {
					return
				}
				ia, isIA := u.X.(*ssa.IndexAddr)
				if !isIA || !ds[ia.X] {
					return
				}
				for _, s := range indexUses(fn, u) {
					n++
					LEN := lc.lenOf(s.base)
					if LEN.equal(X) {
						ok(stable("element indexes " + lc.canon(s.base) + " of length " + LEN.String()))
					} else {
						fail(stable(fmt.Sprintf("an element of the drawn range [0,%s) indexes %s whose length is %s: positions %s..%s-1 can never be drawn (or the draw addresses another quantity)", X.String(), lc.canon(s.base), LEN.String(), X.String(), LEN.String())))
					}
				}
			})
			return n
		}
		if d.perm {
			n := elemIndexUses(d.call)
			if n == 0 {
				// used only as an order (e.g. printed) — nothing to decide
				L.Trivial("draw-support", r.label, name, pos, "permutation not used as an index")
				continue
			}
		} else {
			rv := ssa.Value(d.call)
			n := 0
			// U1/U3: direct index uses
			direct := indexUses(fn, rv)
			for _, s := range direct {
				n++
				LEN := lc.lenOf(s.base)
				// Fisher–Yates partner: another index site on the same container in the same block used by a store
				partner := ""
				for _, s2 := range indexSites(fn) {
					if s2.slice || s2.in == s.in || s2.in.Block() != s.in.Block() || lc.canon(s2.base) != lc.canon(s.base) {
						continue
					}
					if s2.idx == rv {
						continue
					}
					partner = lc.of(s2.idx).String()
					if lc.of(s2.idx).equal(X.addc(-1)) {
						partner = "ok"
						break
					}
				}
				switch {
				case LEN.equal(X):
					ok(stable("indexes " + lc.canon(s.base) + " of length " + LEN.String()))
				case partner == "ok":
					ok(stable("Fisher-Yates step on " + lc.canon(s.base) + ": partner index is " + X.addc(-1).String()))
				case partner != "":
					fail(stable(fmt.Sprintf("Fisher-Yates step on %s: the draw has range [0,%s) but the partner index is %s, want %s: the shuffle is not uniform over all arrangements (the last element never stays / is never chosen)", lc.canon(s.base), X.String(), partner, X.addc(-1).String())))
				default:
					fail(stable(fmt.Sprintf("the draw has range [0,%s) but indexes %s of length %s", X.String(), lc.canon(s.base), LEN.String())))
				}
			}
			// U2: slice low
			allInstrs(fn, func(in ssa.Instruction) {
				sl, isSl := in.(*ssa.Slice)
				if !isSl || sl.Low != rv {
					return
				}
				n++
				LEN := lc.lenOf(sl.X)
				hi := LEN
				if sl.High != nil {
					hi = lc.of(sl.High)
				}
				w := hi.sub(lc.of(rv))
				if X.addc(-1).add(w).equal(LEN) {
					ok(stable(fmt.Sprintf("window [r : r+%s] of %s: the last start %s ends at len", w.String(), lc.canon(sl.X), X.addc(-1).String())))
				} else {
					fail(stable(fmt.Sprintf("window start drawn in [0,%s) with width %s on a container of length %s: the largest start ends at %s, not at the end (the last offset is unreachable or out of range)", X.String(), w.String(), LEN.String(), X.addc(-1).add(w).String())))
				}
			})
			// stored into a local slice: element uses
			if refs := rv.Referrers(); refs != nil {
				for _, ref := range *refs {
					if st, isSt := ref.(*ssa.Store); isSt && st.Val == rv {
						if ia, isIA := st.Addr.(*ssa.IndexAddr); isIA {
							n += elemIndexUses(ia.X)
						}
					}
				}
			}
			// U4: start of a counting loop
			for ph := range throughPhisFwd(rv) {
				p, isPhi := ph.(*ssa.Phi)
				if !isPhi {
					continue
				}
				// loop-header φ with an increment edge
				inc := false
				for _, e := range p.Edges {
					if bo, isBo := e.(*ssa.BinOp); isBo && bo.Op == token.ADD && bo.X == ssa.Value(p) {
						inc = true
					}
				}
				if !inc {
					continue
				}
				// exit bound
				var bound *lin
				if ifi, isIf := p.Block().Instrs[len(p.Block().Instrs)-1].(*ssa.If); isIf {
					if bo, isBo := ifi.Cond.(*ssa.BinOp); isBo && bo.Op == token.LSS && bo.X == ssa.Value(p) {
						b := lc.of(bo.Y)
						bound = &b
					}
				}
				for _, s := range indexUses(fn, p) {
					n++
					LEN := lc.lenOf(s.base)
					if bound == nil {
						fail("loop starting at the drawn position has no recognisable `j < bound` exit")
						continue
					}
					rl := lc.of(rv)
					if _, dep := bound.t[rl.atoms()[0]]; dep {
						w := bound.sub(rl)
						if X.addc(-1).add(w).equal(LEN) {
							ok(stable(fmt.Sprintf("loop j = r .. r+%s-1 on %s: the last start reaches the last position", w.String(), lc.canon(s.base))))
						} else {
							fail(stable(fmt.Sprintf("segment start drawn in [0,%s) with length %s on rows of length %s: the largest start ends at %s (the last offset is unreachable or out of range)", X.String(), w.String(), LEN.String(), X.addc(-1).add(w).String())))
						}
					} else {
						if bound.equal(LEN) && X.equal(LEN) {
							ok(stable("loop from the drawn position to the end of " + lc.canon(s.base)))
						} else {
							fail(stable(fmt.Sprintf("position drawn in [0,%s), loop runs to %s on rows of length %s", X.String(), bound.String(), LEN.String())))
						}
					}
				}
			}
			if n == 0 {
				L.Unknown("draw-support", r.label, name, pos, "the use of this draw is not one of the recognised shapes (index, element index, window start, loop start, Fisher-Yates step)")
				continue
			}
		}
		if bad != "" {
			L.Bad("draw-support", r.label, name, pos, bad)
		} else {
			L.OK("draw-support", r.label, name, pos, strings.Join(dedupe(verdicts), "; "))
		}
	}
}

// throughPhisFwd: φ-nodes that (transitively) merge v.
func throughPhisFwd(v ssa.Value) map[ssa.Value]bool {
	out := map[ssa.Value]bool{}
	work := []ssa.Value{v}
	for len(work) > 0 {
		x := work[len(work)-1]
		work = work[:len(work)-1]
		if refs := x.Referrers(); refs != nil {
			for _, r := range *refs {
				if p, ok := r.(*ssa.Phi); ok && !out[p] {
					out[p] = true
					work = append(work, p)
				}
			}
		}
	}
	return out
}

// ---------------------------------------------------------------------------
// frame: provenance of every residue store in the randomised operations

func (c *Ctx) checkRandomFrame() {
	L := c.L
	L.Rule("random-frame", "value provenance of every store into a row buffer: ShuffleSites, Swap and Recombine store a byte loaded from the same column index of a row buffer; SimulateRogue stores a byte loaded from the same row; AddGaps stores the GAP constant; Mutate stores an element of the alphabet table and only when the cell read is different from GAP, POINT and OTHER; ShuffleSequences only exchanges entries of the row list")
	gap, point, other := int64('-'), int64('.'), int64('*')
	for nm, p := range map[string]*int64{"GAP": &gap, "POINT": &point, "OTHER": &other} {
		if v := constByName(c.P.Pkg("align"), nm); v != nil {
			if k, ok := cInt(v); ok {
				*p = k
			}
		}
	}
	n := 0
	for _, name := range []string{"ShuffleSites", "Swap", "Recombine", "SimulateRogue", "AddGaps", "Mutate"} {
		r := c.fn("align", "*align", name)
		if !r.ok() {
			continue
		}
		fn := r.F
		lc := newLinCtx(c, fn)
		sts := rowStores(lc, fn)
		if len(sts) == 0 {
			L.Unknown("random-frame", r.label, "row stores", c.P.Pos(fn.Pos()), "no store into a row buffer found")
			continue
		}
		for _, st := range sts {
			n++
			ia := st.Addr.(*ssa.IndexAddr)
			cons := stable("store to " + lc.canon(ia.X) + "[" + lc.of(ia.Index).String() + "]")
			pos := c.P.Pos(st.Pos())
			// provenance of the stored value
			var srcBase ssa.Value
			var srcIdx ssa.Value
			isTable := ""
			if u, ok := st.Val.(*ssa.UnOp); ok && u.Op == token.MUL {
				if sia, ok := u.X.(*ssa.IndexAddr); ok {
					srcBase, srcIdx = sia.X, sia.Index
					if gu, ok := sia.X.(*ssa.UnOp); ok {
						if g, ok := gu.X.(*ssa.Global); ok {
							isTable = g.Name()
						}
					}
				}
			}
			switch name {
			case "ShuffleSites", "Swap", "Recombine":
				ok := srcBase != nil && lc.isRowBuffer(srcBase) && lc.of(srcIdx).equal(lc.of(ia.Index))
				L.Check(ok, "random-frame", r.label, cons, pos, "stores a byte loaded from the same column of a row buffer", "the stored byte is not loaded from the same column of a row: characters move between columns or come from elsewhere")
			case "SimulateRogue":
				ok := srcBase != nil && lc.isRowBuffer(srcBase) && lc.canon(srcBase) == lc.canon(ia.X)
				L.Check(ok, "random-frame", r.label, cons, pos, "stores a byte loaded from the same row", "the stored byte is not loaded from the same row: residues move between sequences")
			case "AddGaps":
				k, isK := constInt(st.Val)
				L.Check(isK && k == gap, "random-frame", r.label, cons, pos, "stores the GAP constant", "AddGaps stores something other than the GAP constant")
			case "Mutate":
				// the stored byte is an element of an alphabet table: the table may be chosen once
				// before the loops (a φ of the two tables); which table serves which alphabet is the
				// alphabet-table rule's business
				okTab := false
				if srcBase != nil {
					okTab = true
					for _, lf := range phiLeaves(srcBase) {
						gu, ok := lf.(*ssa.UnOp)
						if !ok {
							okTab = false
							continue
						}
						g, ok := gu.X.(*ssa.Global)
						if !ok || (g.Name() != "stdaminoacid" && g.Name() != "stdnucleotides") {
							okTab = false
						} else if isTable == "" {
							isTable = g.Name()
						} else if !strings.Contains(isTable, g.Name()) {
							isTable += "/" + g.Name()
						}
					}
				}
				// guards: on every path to the store, the written cell was found different from GAP,
				// POINT and OTHER — by comparisons in the function or by a boolean helper of the
				// module whose true result implies them
				need := map[int64]bool{gap: false, point: false, other: false}
				bf := computeBranchFacts(fn)
				sameCell := func(v ssa.Value) bool {
					u, ok := stripConv(v).(*ssa.UnOp)
					if !ok || u.Op != token.MUL {
						return false
					}
					cia, ok := u.X.(*ssa.IndexAddr)
					return ok && lc.canon(cia.X) == lc.canon(ia.X) && lc.of(cia.Index).equal(lc.of(ia.Index))
				}
				allInstrs(fn, func(in ssa.Instruction) {
					switch x := in.(type) {
					case *ssa.BinOp:
						if (x.Op != token.NEQ && x.Op != token.EQL) || !sameCell(x.X) {
							return
						}
						k, isK := constInt(x.Y)
						if _, want := need[k]; !isK || !want {
							return
						}
						if bf.knownAt(st.Block(), x, x.Op == token.NEQ) {
							need[k] = true
						}
					case *ssa.Call:
						g := x.Common().StaticCallee()
						if g == nil || len(g.Blocks) == 0 || len(x.Common().Args) != 1 || !sameCell(x.Common().Args[0]) {
							return
						}
						for _, truth := range []bool{true, false} {
							if bf.knownAt(st.Block(), x, truth) {
								for k, op := range helperParamFacts(g, 0, truth) {
									if _, want := need[k]; want && op == "!=" {
										need[k] = true
									}
								}
							}
						}
					}
				})
				okGuard := need[gap] && need[point] && need[other]
				L.Check(okTab && okGuard, "random-frame", r.label, cons, pos, "stores an element of "+isTable+" under cell != GAP, POINT, OTHER",
					fmt.Sprintf("substitution does not store an alphabet letter under the non-gap guard (alphabet table: %v, guards on the written cell for GAP/POINT/OTHER: %v/%v/%v)", okTab, need[gap], need[point], need[other]))
			}
		}
	}
	L.Floor("random-frame", 6, "row stores of six operations (floor = half of the instances on the pinned tree: a clean-up may merge instances, a rule that sees nothing must still fail)")
	c.checkAlphabetConsts("alphabet-table", c.withHelperDecls("align", "*align", "Mutate"))
	L.Rule("alphabet-table", "the residue table used by Mutate is the one of the alignment's alphabet")
	L.Floor("alphabet-table", 2, "both residue tables are used in Mutate")

	// ShuffleSequences: stores into the row list are loads from the row list
	r := c.fn("align", "*seqbag", "ShuffleSequences")
	if r.ok() {
		okAll, cnt := true, 0
		allInstrs(r.F, func(in ssa.Instruction) {
			st, ok := in.(*ssa.Store)
			if !ok {
				return
			}
			ia, ok := st.Addr.(*ssa.IndexAddr)
			if !ok {
				return
			}
			if _, f, base := loadedField(ia.X); base == nil || f != "seqs" {
				return
			}
			cnt++
			u, ok := st.Val.(*ssa.UnOp)
			if !ok {
				okAll = false
				return
			}
			sia, ok := u.X.(*ssa.IndexAddr)
			if !ok {
				okAll = false
				return
			}
			if _, f, base := loadedField(sia.X); base == nil || f != "seqs" {
				okAll = false
			}
		})
		L.Check(okAll && cnt == 2, "random-frame", r.label, "row-list stores", c.P.Pos(r.F.Pos()), "two stores, each of an entry loaded from the row list (a swap)", fmt.Sprintf("%d stores into the row list, not all of them entries of the list itself", cnt))
	}
}

// ---------------------------------------------------------------------------
// replay from the seed

func (c *Ctx) checkReplay() {
	L := c.L
	L.Rule("single-stream", "the only random source in the repository is the global math/rand stream: rand.Seed is called exactly once, with the --seed variable; there is no rand.New/NewSource, crypto/rand or x/exp/rand source")
	nSeed := 0
	for _, s := range nondetCallSites(c.P) {
		name := c.P.FuncName(s.fn)
		pos := c.P.Pos(s.in.Pos())
		switch {
		case s.what == "rand.Seed":
			nSeed++
			okArg := false
			cc := callOf(s.in)
			for _, lf := range append(phiLeaves(cc.Args[0]), cc.Args[0]) {
				if u, ok := lf.(*ssa.UnOp); ok && u.Op == token.MUL {
					if g, ok := u.X.(*ssa.Global); ok && g.Name() == "seed" {
						okArg = true
					}
				}
			}
			if !okArg {
				okArg = seedThroughHelper(cc.Args[0], s.fn)
			}
			L.Check(okArg && nSeed == 1, "single-stream", name, "rand.Seed", pos, "single seeding site, argument is the --seed variable", "the stream is re-seeded or seeded from something other than --seed")
		case strings.HasPrefix(s.what, "rand.New"), strings.HasPrefix(s.what, "crypto/rand"), strings.HasPrefix(s.what, "x/exp/rand"):
			L.Bad("single-stream", name, s.what, pos, "a second random source: its draws do not replay from --seed")
		}
	}
	if nSeed == 0 {
		L.Bad("single-stream", "cmd", "rand.Seed", "-", "the global random stream is never seeded from --seed")
	}
	L.Floor("single-stream", 1, "the seeding point")

	L.Rule("rng-in-goroutine", "no top-level math/rand function is reachable through the call graph from the function operand of any `go` statement")
	c.checkNoRNGInGoroutines("rng-in-goroutine", c.P, L, true)
	L.Floor("rng-in-goroutine", 3, "go statements of the repository (floor = half of the instances on the pinned tree: a clean-up may merge instances, a rule that sees nothing must still fail)")
	if cp := c.Controls(); cp != nil {
		_, fired := c.checkNoRNGInGoroutines("rng-in-goroutine", cp, L, false)
		L.ControlMustFire("rng-in-goroutine", fired, "controls/rnggo.go draws rand.Intn inside a goroutine")
	}
	c.checkMapRanges("map-order", []string{"align"}, nil)
	L.Floor("map-order", 3, "range-over-map sites of package align (rarefy sorts its keys before drawing) (floor = half of the instances on the pinned tree: a clean-up may merge instances, a rule that sees nothing must still fail)")

	// BuildBootstrap: output length and frac reset
	L.Rule("bootstrap-length", "BuildBootstrap draws exactly n = int(frac*L) columns, allocates rows of n bytes, and replaces frac by 1 exactly when frac <= 0 or frac > 1")
	r := c.fn("align", "*align", "BuildBootstrap")
	if r.ok() {
		fn := r.F
		lc := newLinCtx(c, fn)
		// n: the Convert(float→int) of frac*float64(L)
		var nVal ssa.Value
		allInstrs(fn, func(in ssa.Instruction) {
			if cv, ok := in.(*ssa.Convert); ok && isFloatValue(cv.X) && isIntType(cv.Type()) {
				if mul, ok := cv.X.(*ssa.BinOp); ok && mul.Op == token.MUL {
					nVal = cv
				}
			}
		})
		okN := nVal != nil
		rows, idxs := 0, 0
		if okN {
			allInstrs(fn, func(in ssa.Instruction) {
				if mk, ok := in.(*ssa.MakeSlice); ok {
					if lc.of(mk.Len).equal(lc.of(nVal)) {
						if b, ok := elemType(mk.Type()).Underlying().(interface{ Kind() int }); ok {
							_ = b
						}
						rows++
					}
				}
			})
			// the draw loop runs i < n
			for _, lp := range naturalLoops(fn) {
				if ifi, ok := lp.Head.Instrs[len(lp.Head.Instrs)-1].(*ssa.If); ok {
					if bo, ok := ifi.Cond.(*ssa.BinOp); ok && bo.Op == token.LSS && lc.of(bo.Y).equal(lc.of(nVal)) {
						idxs++
					}
				}
			}
		}
		L.Check(okN && rows >= 2 && idxs >= 1, "bootstrap-length", r.label, "n = int(frac*L) sizes the index list, the rows and the draw loop", c.P.Pos(fn.Pos()),
			fmt.Sprintf("%d allocations of length n, %d loop(s) bounded by n", rows, idxs), fmt.Sprintf("n found: %v, allocations of length n: %d (want 2), loops bounded by n: %d", okN, rows, idxs))
		// frac reset
		P := paramByName(fn, "frac")
		okReset := false
		if P != nil {
			lt, gt := false, false
			allInstrs(fn, func(in ssa.Instruction) {
				if bo, ok := in.(*ssa.BinOp); ok && isFloatValue(bo.X) && bo.X == ssa.Value(P) {
					if bo.Op == token.LEQ && isFloatConst(bo.Y, 0) {
						lt = true
					}
					if bo.Op == token.GTR && isFloatConst(bo.Y, 1) {
						gt = true
					}
				}
			})
			okReset = lt && gt
		}
		L.Check(okReset, "bootstrap-length", r.label, "frac outside (0,1] replaced by 1", c.P.Pos(fn.Pos()), "tests frac <= 0 and frac > 1", "the reset condition is not `frac <= 0 || frac > 1`: a valid fraction is altered or an invalid one kept")
	}
	L.Floor("bootstrap-length", 2, "length + reset")
}
