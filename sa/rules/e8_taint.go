package rules

import (
	"go/token"

	"golang.org/x/tools/go/ssa"
)

// E8 — allocation sized by a number parsed from the input.

func isParseIntCall(v ssa.Value) bool {
	call, ok := v.(*ssa.Call)
	if !ok {
		return false
	}
	cc := call.Common()
	return isPkgFunc(cc, "strconv", "ParseInt") || isPkgFunc(cc, "strconv", "Atoi") || isPkgFunc(cc, "strconv", "ParseUint")
}

// parsedNumber: v derives from the numeric result of strconv.ParseInt/Atoi.
func parsedNumber(v ssa.Value) bool {
	seen := map[ssa.Value]bool{}
	var rec func(v ssa.Value) bool
	rec = func(v ssa.Value) bool {
		if v == nil || seen[v] {
			return false
		}
		seen[v] = true
		switch x := v.(type) {
		case *ssa.Extract:
			return x.Index == 0 && isParseIntCall(x.Tuple)
		case *ssa.Convert:
			return rec(x.X)
		case *ssa.ChangeType:
			return rec(x.X)
		case *ssa.BinOp:
			return rec(x.X) || rec(x.Y)
		case *ssa.Phi:
			for _, e := range x.Edges {
				if rec(e) {
					return true
				}
			}
		}
		return false
	}
	return rec(v)
}

// upperBounded: some If that dominates b through its "smaller" branch compares
// (a value derived from) v with a constant from above.
func upperBounded(b *ssa.BasicBlock, v ssa.Value) bool { return boundedBy(b, v, true) }

// lowerBounded: the same from below (`v < 0` rejected, `v >= 1` required …).
func lowerBounded(b *ssa.BasicBlock, v ssa.Value) bool { return boundedBy(b, v, false) }

func boundedBy(b *ssa.BasicBlock, v ssa.Value, upper bool) bool {
	for d := b; d != nil; d = d.Idom() {
		for _, p := range d.Preds {
			ifi, ok := p.Instrs[len(p.Instrs)-1].(*ssa.If)
			if !ok || !(p == d.Idom() || p.Dominates(b)) || len(d.Preds) != 1 {
				continue
			}
			bo, ok := ifi.Cond.(*ssa.BinOp)
			if !ok {
				continue
			}
			taken := p.Succs[0] == d
			for _, pair := range [][2]ssa.Value{{bo.X, bo.Y}, {bo.Y, bo.X}} {
				if !(pair[0] == v || mentions(pair[0], v) || sameParsed(pair[0], v)) || constOf(pair[1]) == nil {
					continue
				}
				op := bo.Op
				if pair[0] == bo.Y { // const OP v  →  v OP' const
					switch op {
					case token.LSS:
						op = token.GTR
					case token.LEQ:
						op = token.GEQ
					case token.GTR:
						op = token.LSS
					case token.GEQ:
						op = token.LEQ
					}
				}
				if !taken {
					switch op {
					case token.GTR:
						op = token.LEQ
					case token.GEQ:
						op = token.LSS
					case token.LSS:
						op = token.GEQ
					case token.LEQ:
						op = token.GTR
					}
				}
				if upper && (op == token.LSS || op == token.LEQ) {
					return true
				}
				if !upper && (op == token.GTR || op == token.GEQ) {
					return true
				}
			}
		}
	}
	return false
}

// sameParsed: both derive from the same ParseInt call.
func sameParsed(a, b ssa.Value) bool {
	src := func(v ssa.Value) ssa.Value {
		for {
			switch x := v.(type) {
			case *ssa.Convert:
				v = x.X
			case *ssa.ChangeType:
				v = x.X
			case *ssa.Extract:
				return x.Tuple
			default:
				return nil
			}
		}
	}
	sa, sb := src(a), src(b)
	return sa != nil && sa == sb
}

type taintFinding struct {
	in   ssa.Instruction
	what string
}

func taintedAllocs(fn *ssa.Function) (found []taintFinding, sized int) {
	allInstrs(fn, func(in ssa.Instruction) {
		var sizes []ssa.Value
		what := ""
		switch x := in.(type) {
		case *ssa.MakeSlice:
			sizes, what = []ssa.Value{x.Len, x.Cap}, "make([]T, n)"
		case *ssa.MakeMap:
			if x.Reserve != nil {
				sizes, what = []ssa.Value{x.Reserve}, "make(map, n)"
			}
		case *ssa.MakeChan:
			sizes, what = []ssa.Value{x.Size}, "make(chan, n)"
		case *ssa.Call:
			cc := x.Common()
			if isPkgFunc(cc, "strings", "Repeat") || isPkgFunc(cc, "bytes", "Repeat") {
				sizes, what = []ssa.Value{cc.Args[1]}, "Repeat(s, n)"
			}
			if f := cc.StaticCallee(); f != nil && f.Name() == "Grow" && len(cc.Args) == 2 {
				sizes, what = []ssa.Value{cc.Args[1]}, "Grow(n)"
			}
		}
		for _, s := range sizes {
			if s == nil || constOf(s) != nil {
				continue
			}
			sized++
			if parsedNumber(s) && !upperBounded(in.Block(), s) {
				found = append(found, taintFinding{in, what})
			} else if parsedNumber(s) && !lowerBounded(in.Block(), s) {
				// bounded from above only: a negative count still panics (makeslice / Grow: negative count)
				found = append(found, taintFinding{in, what + " (no lower bound)"})
			}
		}
	})
	return
}
