package rules

import (
	"go/token"
	"go/types"
	"regexp"
	"strings"

	"golang.org/x/tools/go/ssa"
)

// ---------------------------------------------------------------------------
// E2 interprocedural step: validator summaries.
//
// A bounds or domain argument must survive the extraction of the argument checks into a helper
//     if err = a.checkWindow(start, length); err != nil { return }
// On the edge where the helper's error result is nil, everything that holds on every path of the
// helper to a return that may carry a nil error holds for the actual arguments. The summary is
// computed from the helper's own path classes (hypAlts) and translated into the caller's atoms by
// substituting parameters; a constraint that mentions a local of the helper is dropped (fewer
// hypotheses can only make a proof fail, never succeed wrongly).

var isErrorType = func(t types.Type) bool {
	return types.Identical(t, types.Universe.Lookup("error").Type())
}

// nilTestOf: cond is `v == nil` / `v != nil` on an error value; returns v and whether the
// *true* edge means v == nil.
func nilTestOf(cond ssa.Value) (ssa.Value, bool, bool) {
	bo, ok := cond.(*ssa.BinOp)
	if !ok || (bo.Op != token.EQL && bo.Op != token.NEQ) {
		return nil, false, false
	}
	x, y := bo.X, bo.Y
	if k, ok := x.(*ssa.Const); ok && k.IsNil() {
		x, y = y, x
	}
	k, ok := y.(*ssa.Const)
	if !ok || !k.IsNil() || !isErrorType(x.Type()) {
		return nil, false, false
	}
	return x, bo.Op == token.EQL, true
}

// errCallOf: the call whose error result v is (directly or through an Extract).
func errCallOf(v ssa.Value) *ssa.Call {
	switch x := v.(type) {
	case *ssa.Call:
		return x
	case *ssa.Extract:
		if c, ok := x.Tuple.(*ssa.Call); ok {
			return c
		}
	}
	return nil
}

// nilKnownAt: is the error value v known nil ("ok") or known non-nil ("err") in block b because
// of a dominating test of v itself?
func nilKnownAt(v ssa.Value, b *ssa.BasicBlock) string {
	for d := b.Idom(); d != nil; d = d.Idom() {
		if len(d.Instrs) == 0 {
			continue
		}
		ifi, ok := d.Instrs[len(d.Instrs)-1].(*ssa.If)
		if !ok || d.Succs[0] == d.Succs[1] {
			continue
		}
		x, trueIsNil, ok := nilTestOf(ifi.Cond)
		if !ok || x != v {
			continue
		}
		viaT := onlyVia(d, d.Succs[0], b) || (len(d.Succs[0].Preds) == 1 && d.Succs[0].Dominates(b))
		viaF := onlyVia(d, d.Succs[1], b) || (len(d.Succs[1].Preds) == 1 && d.Succs[1].Dominates(b))
		switch {
		case viaT && !viaF:
			if trueIsNil {
				return "ok"
			}
			return "err"
		case viaF && !viaT:
			if trueIsNil {
				return "err"
			}
			return "ok"
		}
	}
	return ""
}

var identRE = regexp.MustCompile(`[A-Za-z_][A-Za-z0-9_]*`)

// nilErrSummary: constraints, in the caller's atoms, that hold whenever call returns a nil error.
func (lc *linCtx) nilErrSummary(call *ssa.Call) []cons {
	if lc.depth >= 2 {
		return nil
	}
	cc := call.Common()
	f := cc.StaticCallee()
	if f == nil || len(f.Blocks) == 0 || f.Pkg == nil || !strings.HasPrefix(f.Pkg.Pkg.Path(), lc.c.P.ModPath) || f == lc.fn {
		return nil
	}
	if errResultIndex(f) < 0 || len(cc.Args) != len(f.Params) {
		return nil
	}
	clc := newLinCtx(lc.c, f)
	clc.depth = lc.depth + 1
	var alts [][]cons
	vi := valueIndex(f)
	for _, e := range returnEdges(f) {
		if e.kind == "err" {
			continue
		}
		as := clc.hypAlts(e.block)
		for _, a := range as.alts {
			H := append([]cons{}, a...)
			var forms []lin
			for _, h := range H {
				forms = append(forms, h.e)
			}
			H = append(H, clc.factsFor(forms, vi)...)
			alts = append(alts, H)
		}
	}
	if len(alts) == 0 {
		return nil
	}
	var kept []cons
	for _, cand := range alts[0] {
		all := true
		for _, o := range alts[1:] {
			if !entails(o, cand) {
				all = false
				break
			}
		}
		if all {
			kept = append(kept, cand)
		}
	}
	// substitution of the helper's parameters
	intArg := map[string]lin{}
	txtArg := map[string]string{}
	for i, p := range f.Params {
		if isIntType(p.Type()) {
			intArg[p.Name()] = lc.of(cc.Args[i])
			l := lc.of(cc.Args[i])
			if as := l.atoms(); len(as) == 1 && l.c == 0 && l.t[as[0]] == 1 {
				txtArg[p.Name()] = as[0]
			}
		} else {
			txtArg[p.Name()] = lc.canon(cc.Args[i])
		}
	}
	isParam := map[string]bool{}
	for _, p := range f.Params {
		isParam[p.Name()] = true
	}
	local := "@" + f.Name()
	var out []cons
	for _, k := range kept {
		e := linConst(k.e.c)
		ok := true
		for a, coef := range k.e.t {
			if l, isInt := intArg[a]; isInt {
				e = e.add(l.scale(coef))
				continue
			}
			if strings.Contains(a, local) || strings.Contains(a, "*") || strings.Contains(a, "^") {
				ok = false
				break
			}
			// an identifier followed by "(" is an operator of the atom language (L(…), N(…)), never a parameter
			na := ""
			last := 0
			for _, m := range identRE.FindAllStringIndex(a, -1) {
				id := a[m[0]:m[1]]
				na += a[last:m[0]]
				last = m[1]
				if !isParam[id] || (m[1] < len(a) && a[m[1]] == '(') || (m[0] > 0 && a[m[0]-1] == '.') {
					na += id
					continue
				}
				if r, has := txtArg[id]; has {
					na += r
				} else {
					ok = false
				}
			}
			na += a[last:]
			if !ok {
				break
			}
			e = e.add(linAtom(na).scale(coef))
		}
		if ok {
			out = append(out, cons{e, k.why + " [nil error of " + f.Name() + "]"})
		}
	}
	return out
}
