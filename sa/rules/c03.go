package rules

import (
	"os"
	"fmt"
	"go/constant"
	"go/token"
	"sort"
	"strings"

	"golang.org/x/tools/go/ssa"
)

func init() {
	register(&Property{ID: "C03", Run: runC03,
		Explanation: "Static decision of the termination and no-panic clauses of C03 for the FASTA, Phylip, Nexus, Clustal, Stockholm and partition parsers: (1) every loop of the lexers and parsers that consumes input is left within a bounded number of iterations once the input is exhausted (conditional constant propagation in the end-of-input steady state: ReadRune fails, read() returns the eof rune, Scan() returns the EOF token, the pushback buffer holds what the last scan stored), so no truncation of any file can make a parser loop forever; every other loop is a range or counter loop; (2) every index expression in parser scope is either proven in bounds by the Go compiler's prove pass or listed with a reason, and the partition table's range checks are exact; (3) no allocation is sized by a count read from the file header without an upper bound. Not decided: that a success is never an empty or ragged alignment or one contradicting the header counts (depends on token values)."})
}

var c03Pkgs = []string{"io/fasta", "io/phylip", "io/nexus", "io/clustal", "io/stockholm", "io/partition"}

func runC03(c *Ctx) {
	L := c.L
	c.checkParserConfig("parser-config")
	L.Rule("lexer-eof", "in the end-of-input steady state (ReadRune returns an error) the lexer's Scan() returns the package's EOF token")
	L.Rule("eof-loop", "a loop that consumes input is left within k <= 5 iterations after the input is exhausted: abstract iteration k of the loop body (header values = what iteration k-1 carried over its executable back edges, unknown for k = 1) has no executable back edge")
	L.Rule("bounded-loop", "a loop that does not consume input is a range loop or a counter loop with a constant non-zero step and an exit test in its header")
	var scope []*ssa.Function
	for _, f := range c.P.SrcFuncs(c03Pkgs...) {
		file := c.P.Fset.Position(f.Pos()).Filename
		if strings.Contains(file[strings.LastIndex(file, "/")+1:], "writer") {
			continue // writers do not read input (C02/C19 cover them)
		}
		scope = append(scope, f)
	}
	eng := newEOFEngine(c, scope)

	// lexer lemma
	for _, rel := range c03Pkgs {
		r := c.fn(rel, "*Scanner", "Scan")
		if !r.ok() {
			continue
		}
		eofTok := constByName(c.P.Pkg(rel), "EOF")
		args := make([]av, len(r.F.Params))
		for i := range args {
			args[i] = avT
		}
		res := eng.summary(r.F, args)
		ok := eofTok != nil && len(res) > 0 && res[0].k == avConst && !res[0].isNil && constant.Compare(res[0].c, 39 /* token.EQL */, eofTok)
		got := "?"
		if len(res) > 0 {
			got = res[0].String()
		}
		L.Check(ok, "lexer-eof", r.label, "Scan() at end of input", c.P.Pos(r.F.Pos()), "returns the EOF token ("+got+")", "at end of input Scan() may return "+got+" instead of the EOF token: parsers cannot see the end of the file")
	}
	L.Floor("lexer-eof", 3, "six lexers (floor = half of the instances on the pinned tree: a clean-up may merge instances, a rule that sees nothing must still fail)")

	nTok := 0
	for _, fn := range scope {
		loops := naturalLoops(fn)
		for i, lp := range loops {
			v := eng.checkLoop(fn, lp)
			name := c.P.FuncName(fn)
			cons := loopName(fn, lp, i+1)
			pos := "-"
			for _, in := range lp.Head.Instrs {
				if in.Pos().IsValid() {
					pos = c.P.Pos(in.Pos())
					break
				}
			}
			if pos == "-" {
				for b := range lp.Blocks {
					for _, in := range b.Instrs {
						if in.Pos().IsValid() && pos == "-" {
							pos = c.P.Pos(in.Pos())
						}
					}
				}
			}
			switch v.kind {
			case "bounded":
				L.Trivial("bounded-loop", name, cons, pos, v.detail)
			case "token":
				nTok++
				if !v.ok {
					// a loop of a private helper that receives the current token as a parameter: decided
					// on its copies in the inlined views of the functions that reach the helper
					if roots, isHelper := c.helperRoots(fn); isHelper {
						allOK, n := true, 0
						var where []string
						for _, root := range roots {
							vw := c.viewOf(root)
							if vw == root {
								allOK = false
								continue
							}
							for _, vf := range withAnons(vw) {
								for _, vlp := range naturalLoops(vf) {
									same := false
									for _, hin := range vlp.Head.Instrs {
										if o := c.views.OrigInstr[hin]; o != nil && o.Block() == lp.Head {
											same = true
										}
									}
									if !same {
										continue
									}
									n++
									if vv := eng.checkLoop(vf, vlp); !(vv.kind == "token" && vv.ok) && vv.kind != "bounded" {
										allOK = false
									}
								}
							}
							where = append(where, c.P.FuncName(root))
						}
						if allOK && n > 0 {
							v.ok = true
							v.detail = fmt.Sprintf("decided on %d copy(ies) of the loop in the inlined view(s) of %s", n, strings.Join(where, ", "))
						}
					}
				}
				if v.ok {
					L.OK("eof-loop", name, cons, pos, v.detail)
				} else {
					L.Bad("eof-loop", name, cons, pos, v.detail)
				}
			default:
				L.Unknown("bounded-loop", name, cons, pos, v.detail)
			}
		}
	}
	L.Floor("eof-loop", 15, "token loops of the six lexers and parsers counted on the pinned tree (floor = half of the instances on the pinned tree: a clean-up may merge instances, a rule that sees nothing must still fail)")

	// (2) unchecked indices: compiler residual + linear bounds + justified table
	bscope := map[*ssa.Function]bool{}
	for _, f := range scope {
		bscope[f] = true
	}
	for _, nme := range []string{"AddRange", "Partition", "CheckSites", "NPartitions", "AliLength"} {
		if f := c.P.Func("align", "*PartitionSet", nme); f != nil {
			bscope[f] = true
		}
	}
	if f := c.P.Func("align", "", "NewPartitionSet"); f != nil {
		bscope[f] = true
	}
	// library functions the parsers call on file-controlled data (call graph from the parser functions,
	// restricted to package align)
	nReach := 0
	{
		// static callees only (callbacks handed to iterators belong to other operations)
		var work []*ssa.Function
		for _, f := range scope {
			work = append(work, f)
		}
		seen := map[*ssa.Function]bool{}
		for len(work) > 0 {
			f := work[len(work)-1]
			work = work[:len(work)-1]
			if seen[f] {
				continue
			}
			seen[f] = true
			allInstrs(f, func(in ssa.Instruction) {
				cc := callOf(in)
				if cc == nil {
					return
				}
				var targets []*ssa.Function
				if g := cc.StaticCallee(); g != nil {
					targets = append(targets, g)
				} else if cc.IsInvoke() {
					// interface call on align.SeqBag / align.Alignment / align.Sequence: the repository's implementations
					for _, tn := range []string{"*align", "*seqbag", "*seq"} {
						if g := c.P.Func("align", tn, cc.Method.Name()); g != nil {
							targets = append(targets, g)
						}
					}
				}
				for _, g := range targets {
					if g.Blocks == nil || g.Synthetic != "" || !c.P.InModule(g) || g.Pkg == nil || !strings.HasSuffix(g.Pkg.Pkg.Path(), "/align") {
						continue
					}
					if !bscope[g] {
						bscope[g] = true
						nReach++
					}
					work = append(work, g)
				}
			})
		}
	}
	L.Note("bounds scope: %d functions of package align are reachable from the parsers and were added", nReach)
	pkgs := []string{"./align/"}
	for _, r := range c03Pkgs {
		pkgs = append(pkgs, "./"+r+"/")
	}
	if os.Getenv("VERIF_BCE_SURVEY") != "" {
		for _, f := range c.P.SrcFuncs() {
			if f.Pkg != nil && strings.HasSuffix(f.Pkg.Pkg.Path(), "/align") {
				bscope[f] = true
			}
		}
	}
	c.checkBCE("unchecked-index", pkgs, bscope, c03Justified, 5)
	L.Floor("unchecked-index", 2, "residual index expressions of the parser scope on the pinned tree (floor = half of the instances on the pinned tree: a clean-up may merge instances, a rule that sees nothing must still fail)")
	L.Rule("table-index-safe", "every index into the partition table is within bounds on every path, using the struct invariant length == len(partitions)")
	L.Rule("struct-invariant", "the two fields are written only in the constructor, from the same value")
	L.Rule("window-domain", "on every path to a success return the integer arguments satisfy the documented domain, and no error return guarded by a comparison on those arguments is reachable for arguments inside the domain")
	c.checkPartitionSet()

	// (3) allocation sized by a header count
	L.Rule("tainted-alloc", "no make/Repeat/Grow in parser scope is sized by a value derived from strconv.ParseInt/Atoi unless a dominating comparison bounds it from above by a constant")
	nSized := 0
	for _, f := range scope {
		fs, n := taintedAllocs(f)
		nSized += n
		for _, x := range fs {
			L.Bad("tainted-alloc", c.P.FuncName(f), x.what, c.P.Pos(x.in.Pos()), "the size of this allocation comes from a number parsed from the file (header count) without an upper bound: a forged header makes the parser panic (makeslice: len out of range) or exhaust memory before any sequence is read")
		}
		if len(fs) == 0 && n > 0 {
			L.OK("tainted-alloc", c.P.FuncName(f), "sized allocations", c.P.Pos(f.Pos()), fmt.Sprintf("%d non-constant allocation size(s), none derived from a parsed number without a bound", n))
		}
	}
	L.Trivial("tainted-alloc", "parser scope", "all functions scanned", "-", fmt.Sprintf("%d functions, %d non-constant allocation sizes", len(scope), nSized))
	if c.Thorough() {
		// thorough tier: the same rule over every function of the repository (a count parsed by a
		// command and handed to a library allocation is the same defect), and the compiler
		// residual a second time with inlining enabled
		nAll := 0
		all := c.P.SrcFuncs()
		for _, f := range all {
			fs, n := taintedAllocs(f)
			nAll += n
			for _, x := range fs {
				L.Bad("tainted-alloc", c.P.FuncName(f), x.what+" (repository sweep)", c.P.Pos(x.in.Pos()), "allocation sized by a parsed number without an upper bound")
			}
		}
		L.Trivial("tainted-alloc", "repository", "all functions scanned", "-", fmt.Sprintf("%d functions, %d non-constant allocation sizes", len(all), nAll))
		if res, err := c.compilerResidual(pkgs, true); err != nil {
			L.Unknown("unchecked-index", "go build (inlining on)", "compiler residual", "-", err.Error())
		} else {
			// every residual position inside a scope function must already be known from the -l run (same keys) or sit in an inlined callee body
			n := 0
			for _, e := range res {
				abs := c.P.Dir + "/" + e.file
				if fd := c.enclosingScopeFunc(abs, e.line, bscope); fd != "" {
					n++
				}
			}
			L.Trivial("unchecked-index", "go build (inlining on)", "cross-check", "-", fmt.Sprintf("%d residual positions fall inside parser-scope functions with inlining enabled (they include bodies of inlined callees, which are scope functions themselves and are judged in their own right)", n))
		}
	}
	if cp := c.Controls(); cp != nil {
		fired, silent := false, true
		for _, f := range cp.SrcFuncs() {
			fs, _ := taintedAllocs(f)
			if f.Name() == "TaintedAlloc" && len(fs) > 0 {
				fired = true
			}
			if f.Name() == "BoundedAlloc" && len(fs) > 0 {
				silent = false
			}
		}
		L.ControlMustFire("tainted-alloc", fired && silent, "controls/taint.go: make([]string, n) with n from ParseInt must be flagged, the bounded variant must not")
	}
	c.checkNonEmptyResult()
	c.checkAddErrorHandled("add-error-handled", scope)
	// the error of a multi-alignment stream is published before the channel is closed
	L.Rule("error-before-close", "ParseMultiple stores the parsing error into the channel structure before it closes the channel: a consumer that sees the channel closed reads the final error, never a stale nil")
	if r := c.fn("io/phylip", "*Parser", "ParseMultiple"); r.ok() {
		var errStore, cl ssa.Instruction
		allInstrs(r.F, func(in ssa.Instruction) {
			if st, ok := in.(*ssa.Store); ok {
				if _, f, fa := fieldAddrOf(st.Addr); fa != nil && f == "Err" {
					errStore = in
				}
			}
			if cc := callOf(in); cc != nil && builtinName(cc) == "close" {
				cl = in
			}
		})
		ok := errStore != nil && cl != nil && instrDominates(errStore, cl)
		L.Check(ok, "error-before-close", r.label, "aligns.Err = err ≺ close(aligns.Achan)", c.P.Pos(r.F.Pos()), "the store dominates the close", "the channel is closed before (or without) the error being stored: a truncated stream looks like a clean end of stream to a concurrent consumer")
	}
	L.Floor("error-before-close", 1, "ParseMultiple")
	L.Note("functions in parser scope: %d; token loops: %d", len(scope), nTok)
	L.Trusts("sparse conditional constant propagation; once the reader is exhausted every later read fails (bufio.Reader semantics)")
	L.Assumes("steady-state lemma: after a scan has returned EOF every later scan returns EOF; a loop that re-reads one pushed-back non-EOF token without progress is a different defect class and is not decided")
	_ = fmt.Sprint
	_ = sort.Strings
	_ = strings.Join
	c.checkErrNotDropped("error-not-dropped", c03Pkgs...)
}

// c03Justified: residual index expressions accepted with a reason (checked by reading).
var c03Justified = []bceJustified{


	{"align.(*PartitionSet).AddRange", "ps.partitions[i]", "proved by rule table-index-safe (linear bounds with the struct invariant length == len(partitions))"},
}

// checkNonEmptyResult: every return of a format parser that hands back a
// non-nil container with a nil error is dominated by a test that rejects an
// empty result.
func (c *Ctx) checkNonEmptyResult() {
	L := c.L
	L.Rule("nonempty-result", "every return of (*Parser).Parse / parseGeneric with a nil error and a non-nil container is dominated by the false branch of an emptiness test whose true branch returns an error: NbSequences() == 0 (or < 1), len(collected names/sequences) == 0, or the header's sequence count == 0")
	L.Rule("empty-sentinel", "an alignment without sequences has Length() == -1: no comparison of Alignment.Length() with the constant 0 is used as an emptiness test")
	targets := []struct{ rel, fn string }{
		{"io/fasta", "parseGeneric"}, {"io/phylip", "Parse"}, {"io/nexus", "Parse"}, {"io/clustal", "Parse"}, {"io/stockholm", "Parse"},
	}
	for _, t := range targets {
		r := c.fn(t.rel, "*Parser", t.fn)
		if !r.ok() {
			continue
		}
		fn := r.F
		// emptiness guards
		var guards []*ssa.BasicBlock // the block reached when NOT empty
		allInstrs(fn, func(in ssa.Instruction) {
			ifi, ok := in.(*ssa.If)
			if !ok {
				return
			}
			bo, ok := ifi.Cond.(*ssa.BinOp)
			if !ok || !isIntType(bo.X.Type()) {
				return
			}
			k, isK := constInt(bo.Y)
			if !isK {
				return
			}
			empty := (bo.Op == token.EQL && k == 0) || (bo.Op == token.LSS && k == 1) || (bo.Op == token.LEQ && k == 0)
			if !empty {
				return
			}
			// what is tested
			okSubject := false
			switch x := bo.X.(type) {
			case *ssa.Call:
				cc := x.Common()
				if builtinName(cc) == "len" {
					okSubject = true
				}
				name := ""
				if cc.IsInvoke() {
					name = cc.Method.Name()
				} else if f := cc.StaticCallee(); f != nil {
					name = f.Name()
				}
				if name == "NbSequences" {
					okSubject = true
				}
			case *ssa.Extract:
				okSubject = parsedNumber(x)
			case *ssa.Phi:
				okSubject = parsedNumber(x)
			}
			if !okSubject {
				return
			}
			// the true branch must leave with an error
			tb := ifi.Block().Succs[0]
			leaves := false
			for _, e := range returnEdges(fn) {
				if e.kind == "err" && (e.block == tb || tb.Dominates(e.block)) {
					leaves = true
				}
			}
			if leaves {
				guards = append(guards, ifi.Block().Succs[1])
			}
		})
		n := 0
		for _, e := range returnEdges(fn) {
			if e.kind == "err" {
				continue // returns a freshly created error
			}
			// (a return whose error value is not a known constructor may succeed: it must be guarded too,
			// unless it sits on the true branch of `thatError != nil`)
			if idx := errResultIndex(fn); idx >= 0 && idx < len(e.ret.Results) {
				ev := e.ret.Results[idx]
				onErrBranch := false
				for d := e.block; d != nil; d = d.Idom() {
					for _, p := range d.Preds {
						ifi, ok := p.Instrs[len(p.Instrs)-1].(*ssa.If)
						if !ok || p.Succs[0] != d || len(d.Preds) != 1 {
							continue
						}
						if bo, ok := ifi.Cond.(*ssa.BinOp); ok && bo.Op == token.NEQ {
							if k, ok := bo.Y.(*ssa.Const); ok && k.IsNil() {
								if bo.X == ev || throughPhis(ev, false)[bo.X] {
									onErrBranch = true
								}
							}
						}
					}
				}
				if onErrBranch {
					continue
				}
			}
			// end-of-stream marker of Phylip: return nil, nil
			if len(e.ret.Results) == 2 {
				if k, ok := e.ret.Results[0].(*ssa.Const); ok && k.IsNil() {
					continue
				}
			}
			n++
			ok := false
			for _, g := range guards {
				if g == e.block || g.Dominates(e.block) {
					ok = true
				}
			}
			name := "success return"
			if ok {
				L.OK("nonempty-result", r.label, name, c.P.Pos(e.ret.Pos()), "dominated by an emptiness test whose true branch returns an error")
			} else {
				L.Bad("nonempty-result", r.label, name, c.P.Pos(e.ret.Pos()), "a success return is reachable without any test that the result holds at least one sequence: a header-only or truncated file is reported as a valid, empty alignment")
			}
		}
		if n == 0 {
			L.Unknown("nonempty-result", r.label, "success return", c.P.Pos(fn.Pos()), "no success return found")
		}
	}
	L.Floor("nonempty-result", 2, "five format parsers (floor = half of the instances on the pinned tree: a clean-up may merge instances, a rule that sees nothing must still fail)")
	// sentinel: Length() compared with 0
	nS := 0
	for _, fn := range c.P.SrcFuncs() {
		allInstrs(fn, func(in ssa.Instruction) {
			bo, ok := in.(*ssa.BinOp)
			if !ok || (bo.Op != token.EQL && bo.Op != token.NEQ && bo.Op != token.LEQ && bo.Op != token.GTR) {
				return
			}
			k, isK := constInt(bo.Y)
			if !isK || k != 0 {
				return
			}
			call, ok := bo.X.(*ssa.Call)
			if !ok {
				return
			}
			cc := call.Common()
			name := ""
			var recv ssa.Value
			if cc.IsInvoke() {
				name, recv = cc.Method.Name(), cc.Value
			} else if f := cc.StaticCallee(); f != nil && len(cc.Args) > 0 {
				name, recv = f.Name(), cc.Args[0]
			}
			if name != "Length" || recv == nil {
				return
			}
			n := namedOf(recv.Type())
			if n == nil || (n.Obj().Name() != "Alignment" && n.Obj().Name() != "align") {
				return
			}
			if bo.Op == token.LEQ || bo.Op == token.GTR {
				return // `<= 0` / `> 0` also cover -1
			}
			nS++
			L.Bad("empty-sentinel", c.P.FuncName(fn), "Length() "+bo.Op.String()+" 0", c.P.Pos(bo.Pos()), "Length() of an alignment without sequences is -1, so this test never sees the empty alignment")
		})
	}
	L.Trivial("empty-sentinel", "repository", "all comparisons of Alignment.Length() with 0", "-", fmt.Sprintf("%d found", nS))
}
