package rules

import (
	"fmt"
	"go/ast"
	"go/token"
	"go/types"
	"sort"
	"strings"

	"golang.org/x/tools/go/packages"
	"golang.org/x/tools/go/ssa"

	"goalignsa/core"
)

// E5 — determinism rules.

// ---------------------------------------------------------------------------
// (a) map iteration order

type mapRangeSite struct {
	pk     *packages.Package
	file   *ast.File
	rs     *ast.RangeStmt
	fd     *ast.FuncDecl
	fnName string // pkg.(recv).name
	mapStr string
}

func mapRangeSites(p *core.Program, rels ...string) []mapRangeSite {
	var out []mapRangeSite
	for _, pk := range p.Pkgs {
		rel := relPkg(p, pk.PkgPath)
		if len(rels) > 0 {
			ok := false
			for _, r := range rels {
				if r == rel {
					ok = true
				}
			}
			if !ok {
				continue
			}
		}
		for _, f := range pk.Syntax {
			ast.Inspect(f, func(n ast.Node) bool {
				rs, ok := n.(*ast.RangeStmt)
				if !ok {
					return true
				}
				t := pk.TypesInfo.TypeOf(rs.X)
				if t == nil {
					return true
				}
				if _, ok := t.Underlying().(*types.Map); !ok {
					return true
				}
				fd := enclosingFuncDecl(f, rs.Pos())
				name := rel + "." + enclosingDeclName(f, rs.Pos())
				out = append(out, mapRangeSite{pk, f, rs, fd, name, types.ExprString(rs.X)})
				return true
			})
		}
	}
	sort.Slice(out, func(i, j int) bool { return out[i].rs.Pos() < out[j].rs.Pos() })
	return out
}

type mrVerdict struct {
	class   string // insensitive | collect-then-sort | sensitive | undecided
	reasons []string
	collect []types.Object // slices that received appended keys/values
}

type mrClassifier struct {
	info     *types.Info
	key, val types.Object
	body     *ast.BlockStmt
	assigned map[types.Object]bool // outer variables assigned in the body
	locals   map[types.Object]bool // variables declared in the body
	v        *mrVerdict
	counters map[types.Object]bool // integer counters incremented in the body
	condOnAcc bool                      // inside an if whose condition reads an accumulator
	deadAfter func(types.Object) bool   // object never read after the loop
}

func objOf(info *types.Info, e ast.Expr) types.Object {
	switch x := e.(type) {
	case *ast.Ident:
		if o := info.Uses[x]; o != nil {
			return o
		}
		return info.Defs[x]
	case *ast.ParenExpr:
		return objOf(info, x.X)
	}
	return nil
}

func isIntegerT(t types.Type) bool {
	if t == nil {
		return false
	}
	b, ok := t.Underlying().(*types.Basic)
	return ok && b.Info()&types.IsInteger != 0
}
func isFloatT(t types.Type) bool {
	if t == nil {
		return false
	}
	b, ok := t.Underlying().(*types.Basic)
	return ok && b.Info()&types.IsFloat != 0
}
func isBoolT(t types.Type) bool {
	if t == nil {
		return false
	}
	b, ok := t.Underlying().(*types.Basic)
	return ok && b.Info()&types.IsBoolean != 0
}
func isErrorT(t types.Type) bool {
	return t != nil && types.Identical(t, types.Universe.Lookup("error").Type())
}

// uses reports whether expression e mentions object o.
func usesObj(info *types.Info, e ast.Node, o types.Object) bool {
	if o == nil || e == nil {
		return false
	}
	found := false
	ast.Inspect(e, func(n ast.Node) bool {
		if id, ok := n.(*ast.Ident); ok && (info.Uses[id] == o || info.Defs[id] == o) {
			found = true
		}
		return !found
	})
	return found
}

func (m *mrClassifier) sens(format string, a ...interface{}) {
	m.v.class = "sensitive"
	m.v.reasons = append(m.v.reasons, fmt.Sprintf(format, a...))
}
func (m *mrClassifier) undecided(format string, a ...interface{}) {
	if m.v.class != "sensitive" {
		m.v.class = "undecided"
	}
	m.v.reasons = append(m.v.reasons, fmt.Sprintf(format, a...))
}

// readsAccumulator: expression reads an outer variable that the loop assigns.
func (m *mrClassifier) readsAccumulator(e ast.Node, except types.Object) (types.Object, bool) {
	var hit types.Object
	ast.Inspect(e, func(n ast.Node) bool {
		if id, ok := n.(*ast.Ident); ok {
			if o := m.info.Uses[id]; o != nil && m.assigned[o] && o != except && !m.locals[o] && o != m.key && o != m.val && !isErrorT(o.Type()) {
				hit = o
			}
		}
		return hit == nil
	})
	return hit, hit != nil
}

var pureCalls = map[string]bool{
	"strconv.Atoi": true, "strconv.ParseInt": true, "strconv.ParseFloat": true, "regexp.Compile": true, "regexp.MustCompile": true,
	"fmt.Sprintf": true, "fmt.Errorf": true, "errors.New": true, "math.Log": true, "math.Log2": true, "math.Pow": true, "math.Abs": true,
	"strings.ToUpper": true, "strings.ToLower": true, "strings.TrimSpace": true, "strings.Index": true, "strings.Contains": true, "len": true, "cap": true, "string": true,
	"float64": true, "int": true, "int64": true, "uint8": true, "make": true, "unicode.ToUpper": true, "unicode.ToLower": true,
	"math.Max": true, "math.Min": true, "math.Exp": true, "math.Sqrt": true, "rune": true, "byte": true,
}

var outputCalls = map[string]bool{
	"Fprintf": true, "Fprint": true, "Fprintln": true, "Printf": true, "Print": true, "Println": true,
	"WriteString": true, "Write": true, "WriteByte": true, "WriteRune": true,
}

func callName(info *types.Info, ce *ast.CallExpr) string {
	switch f := ce.Fun.(type) {
	case *ast.Ident:
		return f.Name
	case *ast.SelectorExpr:
		if id, ok := f.X.(*ast.Ident); ok {
			if _, isPkg := info.Uses[id].(*types.PkgName); isPkg {
				return id.Name + "." + f.Sel.Name
			}
		}
		return "." + f.Sel.Name
	}
	return types.ExprString(ce.Fun)
}

// exprCalls checks calls inside an expression: impure/unknown ones make the
// site undecided, output calls make it sensitive.
func (m *mrClassifier) exprCalls(e ast.Node) {
	ast.Inspect(e, func(n ast.Node) bool {
		ce, ok := n.(*ast.CallExpr)
		if !ok {
			return true
		}
		if tv, ok := m.info.Types[ce.Fun]; ok && tv.IsType() {
			return true // conversion
		}
		name := callName(m.info, ce)
		base := name
		if i := strings.LastIndex(name, "."); i >= 0 {
			base = name[i+1:]
		}
		switch {
		case pureCalls[name] || m.isPureAccessor(ce):
		case name == "append" || name == "delete" || name == "copy":
		case outputCalls[base]:
			m.sens("output call %s inside the map loop: bytes are emitted in iteration order", name)
		case name == "io.LogError" || name == "log.Print" || name == "log.Printf" || name == "io.ExitWithMessage":
			// diagnostics on an error path
		default:
			m.undecided("call %s with unknown effect inside the map loop", name)
		}
		return true
	})
}

// read-only accessors of the repository's containers (resolved callee in the
// analysed module, name in the table; their purity is decided by the effects
// engine under C19).
var pureAccessors = map[string]bool{
	"Name": true, "Sequence": true, "SequenceChar": true, "Comment": true, "Length": true, "Sequences": true,
	"NbSequences": true, "GetSequenceChar": true, "GetSequence": true, "CharAt": true, "Alphabet": true,
	"GetSequenceById": true, "GetSequenceCharById": true, "GetSequenceNameById": true, "String": true,
	"Frameshifts": true, "Stops": true,
}

func (m *mrClassifier) isPureAccessor(ce *ast.CallExpr) bool {
	sel, ok := ce.Fun.(*ast.SelectorExpr)
	if !ok {
		return false
	}
	f, ok := m.info.Uses[sel.Sel].(*types.Func)
	if !ok || f.Pkg() == nil || !strings.HasPrefix(f.Pkg().Path(), core.ModPath) {
		return false
	}
	return pureAccessors[f.Name()]
}

func (m *mrClassifier) isErrExit(s ast.Stmt) bool {
	// block that ends by leaving the function (return) — invalid-input path
	switch x := s.(type) {
	case *ast.ReturnStmt:
		return true
	case *ast.BlockStmt:
		if len(x.List) == 0 {
			return false
		}
		return m.isErrExit(x.List[len(x.List)-1])
	}
	return false
}

func (m *mrClassifier) stmt(s ast.Stmt) {
	info := m.info
	switch x := s.(type) {
	case *ast.BlockStmt:
		for _, y := range x.List {
			m.stmt(y)
		}
	case *ast.EmptyStmt, *ast.BranchStmt:
		if b, ok := s.(*ast.BranchStmt); ok && b.Tok == token.BREAK {
			m.sens("break inside a map loop: which keys were visited depends on iteration order")
		}
	case *ast.DeclStmt:
		// local declarations
	case *ast.ExprStmt:
		m.exprCalls(x.X)
		if ce, ok := x.X.(*ast.CallExpr); ok {
			name := callName(info, ce)
			if name == "delete" {
				return
			}
		}
	case *ast.IncDecStmt:
		m.lhsUpdate(x.X, nil, x.Tok)
	case *ast.AssignStmt:
		for _, r := range x.Rhs {
			m.exprCalls(r)
		}
		if x.Tok == token.DEFINE {
			return // new locals
		}
		for i, l := range x.Lhs {
			var rhs ast.Expr
			if len(x.Rhs) == len(x.Lhs) {
				rhs = x.Rhs[i]
			} else if len(x.Rhs) == 1 {
				rhs = x.Rhs[0]
			}
			m.lhsUpdate(l, rhs, x.Tok)
		}
	case *ast.IfStmt:
		if x.Init != nil {
			m.stmt(x.Init)
		}
		m.exprCalls(x.Cond)
		// early exit on invalid input: the success output does not depend on it
		if m.isErrExit(x.Body) {
			m.errExitBody(x.Body)
		} else {
			// conditional update: a strict comparison against an accumulator
			// selecting key-dependent data is the tie-break pattern; it is
			// caught by lhsUpdate on the assignments in the body.
			if o, ok := m.readsAccumulator(x.Cond, nil); ok {
				m.v.reasons = append(m.v.reasons, fmt.Sprintf("condition reads accumulator %s", o.Name()))
				m.condOnAcc = true
			}
			m.stmt(x.Body)
			m.condOnAcc = false
		}
		if x.Else != nil {
			if eb, ok := x.Else.(*ast.BlockStmt); ok && m.isErrExit(eb) {
				m.errExitBody(eb)
			} else {
				m.stmt(x.Else)
			}
		}
	case *ast.ForStmt:
		if x.Init != nil {
			m.stmt(x.Init)
		}
		if x.Post != nil {
			m.stmt(x.Post)
		}
		m.stmt(x.Body)
	case *ast.RangeStmt:
		m.stmt(x.Body)
	case *ast.ReturnStmt:
		m.sens("return inside a map loop outside an error check: result depends on the first key visited")
	case *ast.SwitchStmt:
		if x.Init != nil {
			m.stmt(x.Init)
		}
		if x.Tag != nil {
			m.exprCalls(x.Tag)
		}
		for _, cl := range x.Body.List {
			cc := cl.(*ast.CaseClause)
			for _, e := range cc.List {
				m.exprCalls(e)
			}
			// a case that leaves the function is the `if bad { err = …; return }` of an if-chain
			body := &ast.BlockStmt{List: cc.Body}
			if m.isErrExit(body) {
				m.errExitBody(body)
				continue
			}
			for _, y := range cc.Body {
				m.stmt(y)
			}
		}
	default:
		m.undecided("statement kind %T not understood by the classifier", s)
	}
}

// errExitBody: statements of a block that leaves the function on invalid input.
func (m *mrClassifier) errExitBody(b *ast.BlockStmt) {
	info := m.info
	for _, y := range b.List {
		if _, isRet := y.(*ast.ReturnStmt); isRet {
			continue
		}
		// assignments of error values / diagnostics are fine
		if as, ok := y.(*ast.AssignStmt); ok {
			okAs := true
			for _, l := range as.Lhs {
				if !isErrorT(info.TypeOf(l)) {
					okAs = false
				}
			}
			if okAs {
				continue
			}
		}
		if es, ok := y.(*ast.ExprStmt); ok {
			if ce, ok := es.X.(*ast.CallExpr); ok {
				n := callName(info, ce)
				if n == "io.LogError" || strings.HasPrefix(n, "log.") {
					continue
				}
			}
		}
		m.stmt(y)
	}
}

// lhsUpdate classifies one update  lhs (op)= rhs.
func (m *mrClassifier) lhsUpdate(lhs ast.Expr, rhs ast.Expr, tok token.Token) {
	info := m.info
	if id, ok := lhs.(*ast.Ident); ok && id.Name == "_" {
		return
	}
	lt := info.TypeOf(lhs)
	root := rootObj(info, lhs)
	if root != nil && m.locals[root] {
		return // body-local temporary
	}
	// per-key element updates through the loop value (v[i] = …)
	if root != nil && root == m.val {
		if rhs != nil {
			if o, ok := m.readsAccumulator(rhs, nil); ok {
				m.sens("per-key update reads accumulator %s that other keys modify", o.Name())
			}
		}
		return
	}
	switch tok {
	case token.INC, token.DEC:
		if isIntegerT(lt) {
			if root != nil {
				m.counters[root] = true
			}
			return
		}
	case token.ADD_ASSIGN, token.SUB_ASSIGN:
		if isIntegerT(lt) {
			return // exact and commutative
		}
		if isFloatT(lt) {
			m.sens("floating-point accumulation into %s across map keys: the rounding of the sum depends on iteration order", types.ExprString(lhs))
			return
		}
	case token.ASSIGN:
		// x = x || e ; x = x && e
		if be, ok := rhs.(*ast.BinaryExpr); ok && isBoolT(lt) && (be.Op == token.LOR || be.Op == token.LAND) &&
			types.ExprString(be.X) == types.ExprString(lhs) {
			return
		}
		// S = append(S, …): collection
		if ce, ok := rhs.(*ast.CallExpr); ok && callName(info, ce) == "append" && len(ce.Args) > 0 &&
			types.ExprString(ce.Args[0]) == types.ExprString(lhs) {
			if root != nil {
				m.v.collect = append(m.v.collect, root)
			}
			return
		}
		if ix, ok := lhs.(*ast.IndexExpr); ok {
			bt := info.TypeOf(ix.X)
			_, isMap := bt.Underlying().(*types.Map)
			keyed := usesObj(info, ix.Index, m.key) || usesObj(info, ix.Index, m.val) || usesObj(info, ix.X, m.key) || usesObj(info, ix.X, m.val)
			switch {
			case isMap && keyed:
				return // one cell per source key
			case isMap && rhs != nil && info.Types[rhs].Value != nil:
				return // set insertion of a constant
			case !isMap && keyed:
				return // one cell per item
			case !isMap:
				// S[i] = k with i a counter incremented in the loop: collection
				if io := objOf(info, ix.Index); io != nil && (m.counters[io] || m.willCount(io)) {
					if root != nil {
						m.v.collect = append(m.v.collect, root)
					}
					return
				}
			}
		}
		// assignments of error values from calls (checked right after)
		if isErrorT(lt) {
			return
		}
		// scalar temporaries declared outside but not observed after the loop are
		// handled by the caller (dead-after-loop check)
		if root != nil && m.deadAfter != nil && m.deadAfter(root) {
			return
		}
	}
	if m.condOnAcc || rhs == nil || usesObj(info, rhs, m.key) || usesObj(info, rhs, m.val) {
		m.sens("assignment to %s selects key-dependent data; with equal candidates the winner depends on iteration order", types.ExprString(lhs))
		return
	}
	m.undecided("update of %s not understood by the classifier", types.ExprString(lhs))
}

func rootObj(info *types.Info, e ast.Expr) types.Object {
	for {
		switch x := e.(type) {
		case *ast.Ident:
			return objOf(info, x)
		case *ast.IndexExpr:
			e = x.X
		case *ast.SelectorExpr:
			e = x.X
		case *ast.StarExpr:
			e = x.X
		case *ast.ParenExpr:
			e = x.X
		case *ast.SliceExpr:
			e = x.X
		default:
			return nil
		}
	}
}

func (m *mrClassifier) willCount(o types.Object) bool {
	found := false
	ast.Inspect(m.body, func(n ast.Node) bool {
		if inc, ok := n.(*ast.IncDecStmt); ok && inc.Tok == token.INC && objOf(m.info, inc.X) == o {
			found = true
		}
		return !found
	})
	return found
}

// extra fields
type mrExtra struct{}

// classifyMapRange runs the classifier on one site.
func classifyMapRange(s mapRangeSite) *mrVerdict {
	return classifyRangeBody(s.pk.TypesInfo, s.file, s.rs)
}

// enclosingDeclName: "Func", "(recv).Method" or "var X" for function literals
// in package-level variable initialisers.
func enclosingDeclName(f *ast.File, pos token.Pos) string {
	for _, d := range f.Decls {
		if d.Pos() > pos || pos > d.End() {
			continue
		}
		switch x := d.(type) {
		case *ast.FuncDecl:
			return declName(x)
		case *ast.GenDecl:
			for _, sp := range x.Specs {
				if vs, ok := sp.(*ast.ValueSpec); ok && vs.Pos() <= pos && pos <= vs.End() && len(vs.Names) > 0 {
					return "var " + vs.Names[0].Name
				}
			}
		}
	}
	return "<file scope>"
}

// enclosingFunc: innermost function (declaration or literal) containing pos.
func enclosingFunc(f *ast.File, pos token.Pos) (*ast.FuncType, *ast.BlockStmt) {
	var ft *ast.FuncType
	var body *ast.BlockStmt
	ast.Inspect(f, func(n ast.Node) bool {
		if n == nil || n.Pos() > pos || pos > n.End() {
			return n == nil || false
		}
		switch x := n.(type) {
		case *ast.FuncDecl:
			if x.Body != nil {
				ft, body = x.Type, x.Body
			}
		case *ast.FuncLit:
			ft, body = x.Type, x.Body
		}
		return true
	})
	return ft, body
}

// classifyRangeBody classifies the body of any range statement whose
// iteration order is not fixed (map keys, items arriving from concurrent
// senders, an unordered collection).
func classifyRangeBody(info *types.Info, file *ast.File, rs *ast.RangeStmt) *mrVerdict {
	ftype, fbody := enclosingFunc(file, rs.Pos())
	s := struct {
		rs *ast.RangeStmt
	}{rs}
	v := &mrVerdict{class: "insensitive"}
	m := &mrClassifier{info: info, body: s.rs.Body, v: v, assigned: map[types.Object]bool{}, locals: map[types.Object]bool{}, counters: map[types.Object]bool{}}
	if s.rs.Key != nil {
		m.key = objOf(info, s.rs.Key)
	}
	if s.rs.Value != nil {
		m.val = objOf(info, s.rs.Value)
	}
	// locals and assigned outer variables
	ast.Inspect(s.rs.Body, func(n ast.Node) bool {
		switch x := n.(type) {
		case *ast.AssignStmt:
			for _, l := range x.Lhs {
				if x.Tok == token.DEFINE {
					if id, ok := l.(*ast.Ident); ok {
						if o := info.Defs[id]; o != nil {
							m.locals[o] = true
						}
					}
				}
				if o := rootObj(info, l); o != nil {
					m.assigned[o] = true
				}
			}
		case *ast.IncDecStmt:
			if o := rootObj(info, x.X); o != nil {
				m.assigned[o] = true
			}
		case *ast.RangeStmt:
			for _, e := range []ast.Expr{x.Key, x.Value} {
				if id, ok := e.(*ast.Ident); ok {
					if o := info.Defs[id]; o != nil {
						m.locals[o] = true
					}
				}
			}
		case *ast.DeclStmt:
			if gd, ok := x.Decl.(*ast.GenDecl); ok {
				for _, sp := range gd.Specs {
					if vs, ok := sp.(*ast.ValueSpec); ok {
						for _, id := range vs.Names {
							if o := info.Defs[id]; o != nil {
								m.locals[o] = true
							}
						}
					}
				}
			}
		}
		return true
	})
	for o := range m.locals {
		delete(m.assigned, o)
	}
	// dead-after-loop: object not mentioned after the loop in the enclosing function
	m.deadAfter = func(o types.Object) bool {
		if fbody == nil {
			return false
		}
		if isResultVar(info, ftype, o) {
			return false
		}
		used := false
		ast.Inspect(fbody, func(n ast.Node) bool {
			if id, ok := n.(*ast.Ident); ok && id.Pos() > s.rs.End() && info.Uses[id] == o {
				used = true
			}
			return !used
		})
		// a loop enclosing the range statement could read it on the next iteration
		if used {
			return false
		}
		return !enclosedByLoop(fbody, s.rs)
	}
	m.stmt(s.rs.Body)
	// collections must be sorted before any other use
	if v.class == "insensitive" && len(v.collect) > 0 {
		allSorted := true
		for _, o := range v.collect {
			if !sortedBeforeUse(info, ftype, fbody, s.rs, o) {
				allSorted = false
				v.class = "sensitive"
				v.reasons = append(v.reasons, fmt.Sprintf("%s collects keys/values in iteration order and is not sorted before its next use", o.Name()))
			}
		}
		if allSorted {
			v.class = "collect-then-sort"
		}
	}
	return v
}

func enclosedByLoop(body *ast.BlockStmt, target ast.Node) bool {
	enclosed := false
	var stack []ast.Node
	ast.Inspect(body, func(n ast.Node) bool {
		if n == nil {
			stack = stack[:len(stack)-1]
			return true
		}
		if n == target {
			for _, a := range stack {
				switch a.(type) {
				case *ast.ForStmt, *ast.RangeStmt:
					enclosed = true
				}
			}
		}
		stack = append(stack, n)
		return true
	})
	return enclosed
}

// sortedBeforeUse: after the loop, the first statement mentioning the slice is
// a call to sort.*/slices.Sort* with the slice as argument.
func isResultVar(info *types.Info, ft *ast.FuncType, o types.Object) bool {
	if ft == nil || ft.Results == nil {
		return false
	}
	for _, fl := range ft.Results.List {
		for _, id := range fl.Names {
			if info.Defs[id] == o {
				return true
			}
		}
	}
	return false
}

func sortedBeforeUse(info *types.Info, ft *ast.FuncType, body *ast.BlockStmt, rs *ast.RangeStmt, o types.Object) bool {
	if body == nil {
		return false
	}
	fd := struct{ Body *ast.BlockStmt }{body}
	var first ast.Node
	ast.Inspect(fd.Body, func(n ast.Node) bool {
		if first != nil {
			return false
		}
		if id, ok := n.(*ast.Ident); ok && id.Pos() > rs.End() && info.Uses[id] == o {
			first = id
		}
		return true
	})
	if first == nil {
		// never mentioned again: fine unless it is a named result (returned as is)
		return !isResultVar(info, ft, o)
	}
	// find the enclosing call expression of that first use
	ok := false
	ast.Inspect(fd.Body, func(n ast.Node) bool {
		ce, isCall := n.(*ast.CallExpr)
		if !isCall || ce.Pos() > first.Pos() || ce.End() < first.End() {
			return true
		}
		name := callName(info, ce)
		switch name {
		case "sort.Strings", "sort.Ints", "sort.Float64s", "slices.Sort":
			ok = true // total order on the collected elements themselves
		case "sort.Slice", "sort.SliceStable", "slices.SortFunc", "slices.SortStableFunc":
			// only a comparator that orders the collected elements themselves
			// (possibly as the final tie-break) removes the map order; a
			// comparator on a derived key leaves ties in iteration order
			if len(ce.Args) == 2 && comparatorIsTotalOn(info, ce.Args[1], o) {
				ok = true
			}
		}
		return true
	})
	return ok
}

// fields added to mrClassifier (kept here to keep the struct definition short)
func init() {}

// ---------------------------------------------------------------------------
// driver for rule (a)

type mrException struct {
	Func, Map, Why string
	// Holds, when set, re-establishes on the analysed tree the fact the exception rests on
	Holds func(c *Ctx) (bool, string)
}

// checkMapRanges classifies every site in the given packages. exceptions are
// reasoned, frozen by (function, map expression).
func (c *Ctx) checkMapRanges(rule string, rels []string, exceptions []mrException) int {
	L := c.L
	L.Rule(rule, "every `range` over a map in non-test code is classified from its body: insensitive (per-key writes, integer counters, boolean or/and, delete, early error return), collect-then-sort (keys/values appended or stored at a running counter and sorted before the next use), or sensitive (strict-comparison selection, float accumulation across keys, output calls, unsorted collection, break/return). Sensitive sites are violations unless listed with a reason; anything the classifier does not understand is undecided and fails")
	sites := mapRangeSites(c.P, rels...)
	for _, s := range sites {
		v := classifyMapRange(s)
		construct := "range " + s.mapStr
		pos := c.P.Pos(s.rs.Pos())
		switch v.class {
		case "insensitive":
			L.OK(rule, s.fnName, construct, pos, "insensitive: every statement of the body is a per-key write, an exact commutative update, or an early error exit")
		case "collect-then-sort":
			var names []string
			for _, o := range v.collect {
				names = append(names, o.Name())
			}
			L.OK(rule, s.fnName, construct, pos, "collect-then-sort: "+strings.Join(names, ",")+" is sorted before its next use")
		case "sensitive":
			v.reasons = dedupe(v.reasons)
			exc := false
			for _, e := range exceptions {
				if e.Func == s.fnName && e.Map == s.mapStr {
					exc = true
					if e.Holds != nil {
						if ok, det := e.Holds(c); !ok {
							L.Bad(rule, s.fnName, construct, pos, "order-sensitive map traversal ("+strings.Join(v.reasons, "; ")+"); the reason it was accepted for no longer holds: "+det)
							continue
						}
					}
					L.OK(rule, s.fnName, construct, pos, "order-sensitive body ("+strings.Join(v.reasons, "; ")+") but reasoned exception: "+e.Why)
				}
			}
			if !exc {
				L.Bad(rule, s.fnName, construct, pos, "order-sensitive map traversal: "+strings.Join(v.reasons, "; "))
			}
		default:
			L.Unknown(rule, s.fnName, construct, pos, strings.Join(v.reasons, "; "))
		}
	}
	return len(sites)
}

// ---------------------------------------------------------------------------
// (b) who may call: time.Now, rand.Seed, rand.New/NewSource, crypto/rand, x/exp/rand

type callSiteRef struct {
	fn   *ssa.Function
	in   ssa.Instruction
	what string
}

func nondetCallSites(p *core.Program) []callSiteRef {
	var out []callSiteRef
	for fn := range p.AllFns {
		if !p.InModule(fn) || fn.Blocks == nil {
			continue
		}
		allInstrs(fn, func(in ssa.Instruction) {
			cc := callOf(in)
			if cc == nil {
				return
			}
			f := cc.StaticCallee()
			if f == nil || f.Pkg == nil {
				return
			}
			pp, n := f.Pkg.Pkg.Path(), f.Name()
			what := ""
			switch {
			case pp == "time" && (n == "Now" || n == "Since" || n == "Until"):
				what = "time." + n
			case pp == "math/rand" && f.Signature.Recv() == nil && (n == "Seed" || n == "New" || n == "NewSource"):
				what = "rand." + n
			case pp == "crypto/rand":
				what = "crypto/rand." + n
			case pp == "golang.org/x/exp/rand" && f.Signature.Recv() == nil && (n == "Seed" || n == "New" || n == "NewSource"):
				what = "x/exp/rand." + n
			case pp == "os" && (n == "Getpid" || n == "Hostname"):
				what = "os." + n
			}
			if what != "" {
				out = append(out, callSiteRef{fn, in, what})
			}
		})
	}
	sort.Slice(out, func(i, j int) bool { return out[i].in.Pos() < out[j].in.Pos() })
	return out
}

// ---------------------------------------------------------------------------
// (c) no RNG draw in a goroutine

func isGlobalRandDraw(f *ssa.Function) bool {
	if f == nil || f.Pkg == nil || f.Signature.Recv() != nil {
		return false
	}
	if f.Pkg.Pkg.Path() != "math/rand" {
		return false
	}
	switch f.Name() {
	case "Seed", "New", "NewSource", "NewZipf":
		return false
	}
	return ast.IsExported(f.Name())
}

type goSite struct {
	fn   *ssa.Function
	g    *ssa.Go
	root *ssa.Function
}

func goSites(p *core.Program) []goSite {
	var out []goSite
	for fn := range p.AllFns {
		if !p.InModule(fn) || fn.Blocks == nil {
			continue
		}
		allInstrs(fn, func(in ssa.Instruction) {
			g, ok := in.(*ssa.Go)
			if !ok {
				return
			}
			var root *ssa.Function
			switch v := g.Call.Value.(type) {
			case *ssa.MakeClosure:
				root = v.Fn.(*ssa.Function)
			case *ssa.Function:
				root = v
			}
			if root == nil {
				root = g.Call.StaticCallee()
			}
			out = append(out, goSite{fn, g, root})
		})
	}
	sort.Slice(out, func(i, j int) bool { return out[i].g.Pos() < out[j].g.Pos() })
	return out
}

// rngInGoroutines: for every go statement, no global math/rand draw (nor a
// gonum distribution Rand) is reachable from the spawned function.
func (c *Ctx) checkNoRNGInGoroutines(rule string, p *core.Program, L *core.Ledger, emit bool) (sites int, fired bool) {
	cg := c.CallGraph(p)
	for _, gs := range goSites(p) {
		sites++
		name := p.FuncName(gs.fn)
		if gs.root == nil {
			if emit {
				L.Unknown(rule, name, "go statement target", p.Pos(gs.g.Pos()), "cannot resolve the spawned function")
			}
			continue
		}
		reach := cg.Reachable(gs.root, p.InModule)
		var bad []string
		var fns []*ssa.Function
		for f := range reach {
			fns = append(fns, f)
		}
		sort.Slice(fns, func(i, j int) bool { return fns[i].String() < fns[j].String() })
		for _, f := range fns {
			if isGlobalRandDraw(f) || isDistRand(f) {
				var path []string
				for _, x := range reach[f] {
					path = append(path, x.String())
				}
				// only report paths that stay in the module until the draw
				bad = append(bad, strings.Join(path, " → "))
			}
		}
		if len(bad) > 0 {
			fired = true
			if emit {
				L.Bad(rule, name, "go "+p.FuncName(gs.root), p.Pos(gs.g.Pos()), "a draw from the global random stream is reachable from this goroutine, so the sequence of draws depends on scheduling: "+bad[0])
			}
		} else if emit {
			L.OK(rule, name, "go "+p.FuncName(gs.root), p.Pos(gs.g.Pos()), fmt.Sprintf("%d functions reachable from the goroutine (module functions expanded, library calls as leaves), none draws from math/rand", len(reach)))
		}
	}
	return
}

func isDistRand(f *ssa.Function) bool {
	if f == nil || f.Pkg == nil {
		return false
	}
	return strings.HasPrefix(f.Pkg.Pkg.Path(), "gonum.org/v1/gonum/stat/distuv") && f.Name() == "Rand"
}

func dedupe(in []string) []string {
	seen := map[string]bool{}
	var out []string
	for _, s := range in {
		if !seen[s] {
			seen[s] = true
			out = append(out, s)
		}
	}
	return out
}

// comparatorIsTotalOn: fn is a function literal whose last statement returns a
// strict comparison of two elements of the collected slice o (S[i] < S[j]).
func comparatorIsTotalOn(info *types.Info, fn ast.Expr, o types.Object) bool {
	fl, ok := fn.(*ast.FuncLit)
	if !ok || len(fl.Body.List) == 0 {
		return false
	}
	rs, ok := fl.Body.List[len(fl.Body.List)-1].(*ast.ReturnStmt)
	if !ok || len(rs.Results) != 1 {
		return false
	}
	be, ok := rs.Results[0].(*ast.BinaryExpr)
	if !ok || (be.Op != token.LSS && be.Op != token.GTR) {
		return false
	}
	isElem := func(e ast.Expr) bool {
		ie, ok := e.(*ast.IndexExpr)
		if !ok {
			// slices.SortFunc(a, b) passes the elements directly
			if id, ok := e.(*ast.Ident); ok {
				if v, ok := info.Uses[id].(*types.Var); ok && v.Parent() != nil && fl.Type.Params != nil {
					for _, f := range fl.Type.Params.List {
						for _, n := range f.Names {
							if info.Defs[n] == types.Object(v) && !isIntegerT(v.Type()) {
								return true
							}
						}
					}
				}
			}
			return false
		}
		id, ok := ie.X.(*ast.Ident)
		return ok && info.Uses[id] == o
	}
	return isElem(be.X) && isElem(be.Y)
}


// sliceParamsScannedOnly: every slice parameter of the function is only scanned (len, element
// reads at the index of a loop over it): the function tests membership, nothing in it depends on
// the order of the elements. A binary search, a first-element read or a re-slice does.
func (c *Ctx) sliceParamsScannedOnly(rel, name string) (bool, string) {
	f := c.P.Func(rel, "", name)
	if f == nil || f.Blocks == nil {
		return false, "function " + name + " not found"
	}
	loops := naturalLoops(f)
	for _, p := range f.Params {
		if _, isSlice := p.Type().Underlying().(*types.Slice); !isSlice {
			continue
		}
		if p.Referrers() == nil {
			continue
		}
		for _, r := range *p.Referrers() {
			switch x := r.(type) {
			case *ssa.DebugRef:
			case *ssa.Call:
				if builtinName(x.Common()) != "len" {
					return false, fmt.Sprintf("%s is handed to %s at %s", p.Name(), x.Common().Value.Name(), c.P.Pos(x.Pos()))
				}
			case *ssa.IndexAddr:
				own := false
				for _, lp := range loops {
					if lp.Blocks[x.Block()] && ownIndexOf(lp, stripConv(x.Index)) {
						own = true
					}
				}
				if !own {
					return false, fmt.Sprintf("%s is indexed outside a scan at %s", p.Name(), c.P.Pos(x.Pos()))
				}
			default:
				return false, fmt.Sprintf("%s is used by %T at %s", p.Name(), r, c.P.Pos(r.Pos()))
			}
		}
	}
	return true, ""
}
