package rules

import (
	"fmt"
	"go/token"
	"go/types"
	"sort"
	"strings"

	"golang.org/x/tools/go/ssa"
)

func init() {
	register(&Property{ID: "C12", Run: runC12,
		Explanation: "Static decision of the structural clauses of C12 on RemoveCharacterSites, RemoveMajorityCharacterSites, RemoveCharacterSeqs and MaxCharStats: the wildcard ignored by ignore-N/X is the one of the alignment's own alphabet (type-resolved constants under the controlling alphabet comparison) and its lower-case form is derived from the selected constant; the ignore tests are controlled by their own flags; the cutoff comparison is `count >= cutoff*total` (non-strict, count on the greater side) with the `cutoff == 0 && count > 0` arm, and no cutoff inside [0,1] is rewritten; in the column rebuild every column of every row is either appended to the new row or counted as removed (exactly one), the cached length decreases by that counter, kept/rm receive the column index in the matching arm under the first-row test; the per-sequence variant either counts a sequence as removed or re-adds it (exactly one) and returns the counter; all indices are proven in bounds. Not decided: the iff as evaluated on data, the prefix/suffix maxima of ends mode."})
}

func runC12(c *Ctx) {
	L := c.L
	c.checkConfigWriters("container-config")
	L.Rule("alphabet-wildcard", "an alphabet-specific constant (ALL_AMINO/ALL_NUCLE, resolved through go/types) is used only where the controlling alphabet comparisons select its own alphabet")
	L.Rule("lowercase-wildcard", "the lower-case wildcard is unicode.ToLower of the value merged after the alphabet selection (both constants reach it), not of a single constant")
	L.Rule("ignore-test", "truth table of the ignore logic over the atoms {ignoreGaps, ignoreNs, residue == GAP, residue == wildcard, residue == lower-case wildcard}: the block that counts a residue is reached exactly when not((ignoreGaps and gap) or (ignoreNs and wildcard in either case)), for all 16 combinations, whatever statement form expresses it")
	L.Rule("cutoff-comparison", "the threshold test compares float64(count) with cutoff*float64(total) non-strictly with the count on the greater-or-equal side; the zero-cutoff arm tests count > 0 on the same counter")
	L.Rule("cutoff-domain", "the only rewrites of the cutoff argument happen under cutoff < c (c <= 0) or cutoff > c (c >= 1): no cutoff inside [0,1] is altered")
	L.Rule("rebuild-partition", "in the row rebuild loop every column index executes exactly one of {append the residue to the new row, increment the removed counter}")
	L.Rule("length-bookkeeping", "the cached alignment length is decreased by exactly the removed-column counter of the rebuild loop")
	L.Rule("index-lists", "kept receives the column index in the arm that keeps the column, rm in the arm that counts it as removed, both under the first-row test, one append each")
	L.Rule("seq-partition", "every sequence is either counted as removed or re-added (exactly one per iteration) and the returned number is that counter")
	L.Rule("row-index-safe", "every index into a row buffer or into the candidate list is within bounds on every path")

	fns := c.helperDeclsOf("align", [2]string{"*align", "RemoveCharacterSites"}, [2]string{"*align", "RemoveCharacterSeqs"}, [2]string{"*align", "MaxCharStats"})
	n := c.checkAlphabetConsts("alphabet-wildcard", fns)
	_ = n
	L.Floor("alphabet-wildcard", 2, "both wildcard constants are used by the cleaning functions (or a helper they share)")

	sites := c.fn("align", "*align", "RemoveCharacterSites")
	major := c.fn("align", "*align", "RemoveMajorityCharacterSites")
	seqs := c.fn("align", "*align", "RemoveCharacterSeqs")
	maxcs := c.fn("align", "*align", "MaxCharStats")

	for _, r := range []*fnRef{sites, seqs, maxcs} {
		c.checkLowerWildcard(r)
	}
	L.Floor("lowercase-wildcard", 1, "one ToLower per function (floor = half of the instances on the pinned tree: a clean-up may merge instances, a rule that sees nothing must still fail)")
	for _, r := range []*fnRef{sites, seqs} {
		c.checkIgnoreTests(r, true)
	}
	c.checkIgnoreTests(maxcs, true)
	L.Floor("ignore-test", 1, "one truth table in each of 3 functions (floor = half of the instances on the pinned tree: a clean-up may merge instances, a rule that sees nothing must still fail)")
	for _, r := range []*fnRef{sites, major, seqs} {
		c.checkCutoff(r)
	}
	L.Floor("cutoff-comparison", 3, "threshold + zero arm in 3 functions (floor = half of the instances on the pinned tree: a clean-up may merge instances, a rule that sees nothing must still fail)")
	for _, r := range []*fnRef{sites, major} {
		c.checkRebuild(r)
	}
	L.Floor("rebuild-partition", 2, "two site-removal functions")
	L.Floor("length-bookkeeping", 2, "two site-removal functions")
	L.Floor("index-lists", 2, "kept and rm in two functions (floor = half of the instances on the pinned tree: a clean-up may merge instances, a rule that sees nothing must still fail)")
	c.checkSeqPartition(seqs)

	// index safety
	for _, r := range []*fnRef{sites, major} {
		if !r.ok() {
			continue
		}
		lc := newLinCtx(c, r.F)
		c.checkIndexSafety(r, "row-index-safe", lc, func(lc *linCtx, s indexSite) (string, bool) {
			if nm, ok := rowSites(lc, s); ok {
				return nm, true
			}
			if mk, ok := sliceOrigin(s.base).(*ssa.MakeSlice); ok && mk.Parent() == r.F && !s.slice {
				return lc.siteName(s), true
			}
			return "", false
		})
	}
	L.Floor("row-index-safe", 2, "at least one row read or toremove[...] read in each of the two functions")
	// the character set handed in by the caller is only read (it is reused across calls by the commands)
	c.purityObligations("input-unmodified", []purityTarget{
		{"align", "*align", "RemoveCharacterSites", []int{1}},
		{"gutils", "", "ContainsRune", []int{0}},
	})
	L.Floor("input-unmodified", 2, "character set of RemoveCharacterSites, ContainsRune")
	L.Assumes("alignment shape invariant: every row reached through the receiver has the cached length")
}

// sliceOrigin follows φ/append bases back to the allocation of a local slice.
func sliceOrigin(v ssa.Value) ssa.Value {
	seen := map[ssa.Value]bool{}
	var origin ssa.Value
	multiple := false
	var rec func(v ssa.Value)
	rec = func(v ssa.Value) {
		if seen[v] {
			return
		}
		seen[v] = true
		switch x := v.(type) {
		case *ssa.Phi:
			for _, e := range x.Edges {
				rec(e)
			}
		case *ssa.Call:
			if builtinName(x.Common()) == "append" {
				rec(x.Common().Args[0])
				return
			}
			if origin != nil && origin != v {
				multiple = true
			}
			origin = v
		case *ssa.Slice:
			rec(x.X)
		default:
			if origin != nil && origin != v {
				multiple = true
			}
			origin = v
		}
	}
	rec(v)
	if multiple {
		return nil
	}
	return origin
}

func wildcardConsts(v ssa.Value) (hasN, hasX bool, others int) {
	for u := range throughPhis(v, false) {
		if k, ok := u.(*ssa.Const); ok {
			if n, ok := constInt(k); ok {
				switch n {
				case 'N':
					hasN = true
				case 'X':
					hasX = true
				default:
					others++
				}
			}
		}
	}
	return
}

func (c *Ctx) checkLowerWildcard(r *fnRef) {
	if !r.ok() {
		return
	}
	L := c.L
	found := 0
	allInstrs(r.F, func(in ssa.Instruction) {
		call, ok := in.(*ssa.Call)
		if !ok || !isPkgFunc(call.Common(), "unicode", "ToLower") {
			return
		}
		hasN, hasX, _ := wildcardConsts(call.Common().Args[0])
		if !hasN && !hasX {
			return // ToLower of a residue, not of the wildcard
		}
		found++
		if hasN && hasX {
			L.OK("lowercase-wildcard", r.label, "unicode.ToLower(wildcard)", c.P.Pos(call.Pos()), "argument merges both alphabet constants: computed after the selection")
		} else {
			L.Bad("lowercase-wildcard", r.label, "unicode.ToLower(wildcard)", c.P.Pos(call.Pos()),
				"the lower-case wildcard is computed from a single constant, i.e. before (or independently of) the alphabet selection: for the other alphabet the lower-case form ignored is the wrong letter")
		}
	})
	if found == 0 {
		L.Unknown("lowercase-wildcard", r.label, "unicode.ToLower(wildcard)", c.P.Pos(r.F.Pos()), "no lower-casing of the wildcard found (lower-case N/X would not be ignored)")
	}
}

// isWildcardValue: the merged wildcard (φ over 'N'/'X') or its lower-case form.
func isWildcardValue(v ssa.Value) bool {
	for u := range throughPhis(v, false) {
		if k, ok := u.(*ssa.Const); ok {
			if n, ok := constInt(k); ok && (n == 'N' || n == 'X') {
				return true
			}
		}
		if args, ok := isCallTo(u, "unicode", "ToLower"); ok {
			hasN, hasX, _ := wildcardConsts(args[0])
			if hasN || hasX {
				return true
			}
		}
	}
	return false
}

// checkIgnoreTests reads the ignore logic as a truth table. Atoms: the two option flags used as
// branch conditions, the comparisons of a residue with the GAP constant, with the wildcard of the
// alphabet (a merge of 'N' and 'X') and with its lower-case form. Some block of the residue loop
// — the one that counts the residue in the total — must be reached exactly under
//
//	not( (ignoreGaps and residue == GAP) or (ignoreNs and (residue == wildcard or residue == lower(wildcard))) )
//
// for all 16 combinations (a residue equals at most one of the three). How the condition is written
// (one expression, named booleans, guard clauses, a helper or a small struct seen through the
// inlined view) does not matter.
func (c *Ctx) checkIgnoreTests(r *fnRef, _ bool) {
	if !r.ok() {
		return
	}
	L := c.L
	fn := r.F
	ign := paramByName(fn, "ignoreNs")
	igg := paramByName(fn, "ignoreGaps")
	if ign == nil || igg == nil {
		L.Unknown("ignore-test", r.label, "flags", c.P.Pos(fn.Pos()), "parameters ignoreNs/ignoreGaps not found")
		return
	}
	gapv := int64('-')
	if g := constByName(c.P.Pkg("align"), "GAP"); g != nil {
		if k, ok := cInt(g); ok {
			gapv = k
		}
	}
	isUpperWild := func(v ssa.Value) bool {
		hasN, hasX, _ := wildcardConsts(v)
		if !(hasN && hasX) {
			return false
		}
		for u := range throughPhis(v, false) {
			if _, isCall := u.(*ssa.Call); isCall {
				return false
			}
		}
		return true
	}
	isLowerWild := func(v ssa.Value) bool {
		for u := range throughPhis(v, false) {
			if args, ok := isCallTo(u, "unicode", "ToLower"); ok {
				hasN, hasX, _ := wildcardConsts(args[0])
				if hasN && hasX {
					return true
				}
			}
		}
		return false
	}
	role := map[ssa.Value]string{}
	var first *ssa.BinOp
	nW, nG := 0, 0
	for _, g := range withAnons(fn) {
		allInstrs(g, func(in ssa.Instruction) {
			bo, ok := in.(*ssa.BinOp)
			if !ok || (bo.Op != token.EQL && bo.Op != token.NEQ) {
				return
			}
			for _, pair := range [][2]ssa.Value{{bo.X, bo.Y}, {bo.Y, bo.X}} {
				other, w := stripConv(pair[0]), stripConv(pair[1])
				if _, isConst := other.(*ssa.Const); isConst {
					continue
				}
				switch {
				case isLowerWild(w) && !isLowerWild(other):
					role[bo] = "Wl"
					nW++
				case isUpperWild(w) && !isUpperWild(other):
					role[bo] = "Wu"
					nW++
				default:
					if k, ok := constInt(w); ok && k == gapv {
						role[bo] = "G"
						nG++
					} else {
						continue
					}
				}
				if first == nil && g == fn {
					first = bo
				}
				return
			}
		})
	}
	const obligation = "a residue is counted exactly when it is not ignored"
	if nW < 2 || nG < 1 || first == nil {
		L.Bad("ignore-test", r.label, obligation, c.P.Pos(fn.Pos()), fmt.Sprintf("%d comparison(s) of a residue with the wildcard (want the upper- and the lower-case one) and %d with GAP found in this function", nW, nG))
		return
	}
	lp := innermostLoopOf(naturalLoops(fn), first.Block())
	if lp == nil {
		L.Unknown("ignore-test", r.label, "residue loop", c.P.Pos(first.Pos()), "the residue comparisons are not inside a loop")
		return
	}
	name := func(v ssa.Value) string {
		switch {
		case v == ssa.Value(igg):
			return "IG"
		case v == ssa.Value(ign):
			return "IN"
		}
		if rr, ok := role[v]; ok {
			bo := v.(*ssa.BinOp)
			if bo.Op == token.NEQ {
				return "!" + rr
			}
			return rr
		}
		return ""
	}
	ap := newAtomPaths(func(v ssa.Value) bool { return name(v) != "" }, lp.Head)
	ap.name = name
	// a `!=` comparison is the negated atom: normalise "!G=T" to "G=F"
	norm := func(alts map[string]bool) map[string]bool {
		out := map[string]bool{}
		for a := range alts {
			if a == "" {
				out[a] = true
				continue
			}
			var parts []string
			for _, p := range strings.Split(a, ";") {
				if strings.HasPrefix(p, "!") {
					n, t := p[1:len(p)-2], p[len(p)-1]
					if t == 'T' {
						p = n + "=F"
					} else {
						p = n + "=T"
					}
				}
				parts = append(parts, p)
			}
			sort.Strings(parts)
			a2 := strings.Join(parts, ";")
			if !contradictory(a2) {
				out[a2] = true
			}
		}
		return out
	}
	type sig struct {
		ig, in bool
		which  string
	}
	var sigmas []sig
	for _, ig := range []bool{false, true} {
		for _, in := range []bool{false, true} {
			for _, w := range []string{"", "G", "Wu", "Wl"} {
				sigmas = append(sigmas, sig{ig, in, w})
			}
		}
	}
	want := func(s sig) bool {
		return !((s.ig && s.which == "G") || (s.in && (s.which == "Wu" || s.which == "Wl")))
	}
	found := false
	best, bestMiss := "", 99
	for b := range lp.Blocks {
		alts := norm(ap.at(b))
		miss := 0
		example := ""
		for _, s := range sigmas {
			sigma := map[string]bool{"IG": s.ig, "IN": s.in, "G": s.which == "G", "Wu": s.which == "Wu", "Wl": s.which == "Wl"}
			if reachableUnder(alts, sigma) != want(s) {
				miss++
				if example == "" {
					example = fmt.Sprintf("ignoreGaps=%v ignoreNs=%v residue=%s: counted=%v, want %v", s.ig, s.in, map[string]string{"": "other", "G": "GAP", "Wu": "wildcard", "Wl": "lower-case wildcard"}[s.which], !want(s), want(s))
				}
			}
		}
		if miss == 0 {
			found = true
			break
		}
		if miss < bestMiss {
			best, bestMiss = example, miss
		}
	}
	L.Check(found, "ignore-test", r.label, obligation, c.P.Pos(first.Pos()),
		"some block of the residue loop is reached exactly when not((ignoreGaps and residue == GAP) or (ignoreNs and residue is the wildcard in either case)), for all 16 combinations",
		"no block of the residue loop is reached exactly when the residue is not ignored; closest block: "+best)
}

func (c *Ctx) checkCutoff(r *fnRef) {
	if !r.ok() {
		return
	}
	L := c.L
	fn := r.F
	P := paramByName(fn, "cutoff")
	if P == nil {
		L.Unknown("cutoff-comparison", r.label, "cutoff parameter", c.P.Pos(fn.Pos()), "parameter cutoff not found")
		return
	}
	// The threshold test and its zero-cutoff arm are looked for in the function and, when the
	// function has none, in the helpers of the module it hands the cutoff to (extract-function).
	nThr, okZero, hasEqZero := c.cutoffShape(r, fn, ssa.Value(P))
	var zpos token.Pos
	if nThr == 0 {
		allInstrs(fn, func(in ssa.Instruction) {
			call, ok := in.(*ssa.Call)
			if !ok {
				return
			}
			g := call.Common().StaticCallee()
			if g == nil || len(g.Blocks) == 0 || g.Pkg == nil || !strings.HasPrefix(g.Pkg.Pkg.Path(), c.P.ModPath) || len(g.Params) != len(call.Common().Args) {
				return
			}
			for i, a := range call.Common().Args {
				if isFloatValue(a) && mentions(a, ssa.Value(P)) {
					n, z, e := c.cutoffShape(r, g, ssa.Value(g.Params[i]))
					nThr += n
					okZero = okZero || z
					hasEqZero = hasEqZero || e
				}
			}
		})
	}
	if nThr == 0 {
		L.Bad("cutoff-comparison", r.label, "threshold test", c.P.Pos(fn.Pos()), "no comparison of a count with cutoff*total found")
	}
	if okZero && hasEqZero {
		L.OK("cutoff-comparison", r.label, "zero-cutoff arm", c.P.Pos(zpos), "cutoff == 0 && count > 0 on the counter of the threshold test")
	} else {
		L.Bad("cutoff-comparison", r.label, "zero-cutoff arm", c.P.Pos(fn.Pos()), "no `cutoff == 0 && count > 0` arm on the counter of the threshold test: cutoff 0 removes nothing or everything")
	}

	// cutoff-domain: every φ/const rewrite of the parameter
	var phis []*ssa.Phi
	allInstrs(fn, func(in ssa.Instruction) {
		if p, ok := in.(*ssa.Phi); ok && isFloatValue(p) {
			for _, e := range p.Edges {
				if e == ssa.Value(P) {
					phis = append(phis, p)
					break
				}
			}
		}
	})
	for _, p := range phis {
		for i, e := range p.Edges {
			if e == ssa.Value(P) {
				continue
			}
			// the edge i brings a rewritten value from block p.Block().Preds[i]
			src := p.Block().Preds[i]
			okAll, why := true, ""
			var conds []string
			for _, q := range src.Preds {
				ifi, isIf := q.Instrs[len(q.Instrs)-1].(*ssa.If)
				if !isIf {
					okAll, why = false, "the rewriting block is entered unconditionally"
					break
				}
				bo, isBo := ifi.Cond.(*ssa.BinOp)
				if !isBo {
					okAll, why = false, "controlling condition is not a comparison"
					break
				}
				op, rhs, okN := cmpNorm(bo, ssa.Value(P))
				if !okN {
					okAll, why = false, "controlling comparison is not on the cutoff parameter"
					break
				}
				if q.Succs[1] == src && q.Succs[0] != src { // entered on the false branch
					switch op {
					case token.LSS:
						op = token.GEQ
					case token.LEQ:
						op = token.GTR
					case token.GTR:
						op = token.LEQ
					case token.GEQ:
						op = token.LSS
					}
				}
				kc := constOf(rhs)
				if kc == nil {
					okAll, why = false, "bound is not constant"
					break
				}
				kf := 0.0
				if f, ok := cFloat(kc); ok {
					kf = f
				}
				conds = append(conds, fmt.Sprintf("cutoff %s %g", op, kf))
				switch {
				case op == token.LSS && kf <= 0, op == token.LEQ && kf < 0, op == token.GTR && kf >= 1, op == token.GEQ && kf > 1:
				default:
					okAll, why = false, fmt.Sprintf("rewritten when cutoff %s %g, which holds for a cutoff inside [0,1]", op, kf)
				}
			}
			sort.Strings(conds)
			name := "rewrite of cutoff"
			if okAll {
				L.OK("cutoff-domain", r.label, name, c.P.Pos(p.Pos()), "rewritten only when "+strings.Join(conds, " or "))
			} else {
				L.Bad("cutoff-domain", r.label, name, c.P.Pos(p.Pos()), why)
			}
		}
	}
}

// cutoffShape looks in fn for the threshold comparison on the value P (the cutoff) and for the
// zero-cutoff arm on the same counter; returns the number of threshold tests found, whether a
// `count > 0` test on that counter exists, and whether `cutoff == 0` is tested.
func (c *Ctx) cutoffShape(r *fnRef, fn *ssa.Function, P ssa.Value) (int, bool, bool) {
	L := c.L
	var counts []ssa.Value
	nThr := 0
	allInstrs(fn, func(in ssa.Instruction) {
		bo, ok := in.(*ssa.BinOp)
		if !ok || !isFloatValue(bo.X) {
			return
		}
		switch bo.Op {
		case token.LSS, token.LEQ, token.GTR, token.GEQ, token.EQL, token.NEQ:
		default:
			return
		}
		mx, my := mentions(bo.X, P), mentions(bo.Y, P)
		if !mx && !my {
			return
		}
		if mx && my {
			L.Unknown("cutoff-comparison", r.label, "comparison with cutoff on both sides", c.P.Pos(bo.Pos()), "cannot orient the comparison")
			return
		}
		cut, other := bo.X, bo.Y
		if my {
			cut, other = bo.Y, bo.X
		}
		if constOf(other) != nil {
			return // range / zero tests: cutoff-domain rule
		}
		// threshold: other OP cut
		op, _, _ := cmpNorm(bo, other)
		nThr++
		mul, isMul := cut.(*ssa.BinOp)
		okShape := isMul && mul.Op == token.MUL
		cv, isConv := other.(*ssa.Convert)
		if !okShape || !isConv || !isIntType(cv.X.Type()) {
			L.Unknown("cutoff-comparison", r.label, "threshold test", c.P.Pos(bo.Pos()), "threshold comparison is not of the form float64(count) OP cutoff*float64(total)")
			return
		}
		counts = append(counts, cv.X)
		if op == token.GEQ {
			L.OK("cutoff-comparison", r.label, "threshold test", c.P.Pos(bo.Pos()), "float64(count) >= cutoff*float64(total)")
		} else {
			L.Bad("cutoff-comparison", r.label, "threshold test", c.P.Pos(bo.Pos()),
				fmt.Sprintf("threshold test is `count %s cutoff*total`, want `>=`: a site/sequence exactly at the cutoff is treated wrongly", op))
		}
	})
	// zero arm: count > 0 on the same counter
	okZero := false
	zlc := newLinCtx(c, fn)
	allInstrs(fn, func(in ssa.Instruction) {
		bo, ok := in.(*ssa.BinOp)
		if !ok || !isIntType(bo.X.Type()) {
			return
		}
		for _, cnt := range counts {
			op, rhs, ok := cmpNorm(bo, cnt)
			if !ok {
				// go/ssa has no CSE: a second load of the same element is a
				// different register; compare canonical names
				for _, side := range []ssa.Value{bo.X, bo.Y} {
					if _, isLoad := side.(*ssa.UnOp); isLoad && side != cnt && zlc.canon(side) == zlc.canon(cnt) {
						op, rhs, ok = cmpNorm(bo, side)
					}
				}
			}
			if !ok {
				continue
			}
			k, isK := constInt(rhs)
			if !isK {
				continue
			}
			if (op == token.GTR && k == 0) || (op == token.GEQ && k == 1) || (op == token.NEQ && k == 0) {
				okZero = true
			}
		}
	})
	// the zero arm must be under cutoff == 0
	hasEqZero := false
	allInstrs(fn, func(in ssa.Instruction) {
		bo, ok := in.(*ssa.BinOp)
		if !ok || bo.Op != token.EQL || !isFloatValue(bo.X) {
			return
		}
		if (mentions(bo.X, P) && isFloatConst(bo.Y, 0)) || (mentions(bo.Y, P) && isFloatConst(bo.X, 0)) {
			hasEqZero = true
		}
	})
	return nThr, okZero, hasEqZero
}

func (c *Ctx) checkRebuild(r *fnRef) {
	if !r.ok() {
		return
	}
	L := c.L
	fn := r.F
	loops := naturalLoops(fn)
	// the row replacement store
	rowStores := storesToField(fn, "seq", "sequence")
	if len(rowStores) != 1 {
		L.Unknown("rebuild-partition", r.label, "row replacement", c.P.Pos(fn.Pos()), fmt.Sprintf("%d stores to seq.sequence, want 1", len(rowStores)))
		return
	}
	newrow := rowStores[0].Val
	var keepAppends []*ssa.Call
	for v := range throughPhis(newrow, true) {
		if call, ok := v.(*ssa.Call); ok && builtinName(call.Common()) == "append" {
			keepAppends = append(keepAppends, call)
		}
	}
	if len(keepAppends) != 1 {
		L.Unknown("rebuild-partition", r.label, "append to the new row", c.P.Pos(fn.Pos()), fmt.Sprintf("%d appends build the new row, want 1", len(keepAppends)))
		return
	}
	keep := keepAppends[0]
	inner := innermostLoopOf(loops, keep.Block())
	if inner == nil {
		L.Unknown("rebuild-partition", r.label, "column loop", c.P.Pos(keep.Pos()), "append to the new row is not in a loop")
		return
	}
	// length store
	lenStores := storesToField(fn, "align", "length")
	if len(lenStores) != 1 {
		L.Bad("length-bookkeeping", r.label, "length update", c.P.Pos(fn.Pos()), fmt.Sprintf("%d stores to align.length, want exactly 1 after the rebuild", len(lenStores)))
		return
	}
	ls := lenStores[0]
	sub, ok := ls.Val.(*ssa.BinOp)
	var removedCounter ssa.Value
	if ok && sub.Op == token.SUB {
		if _, f, base := loadedField(sub.X); base != nil && f == "length" {
			removedCounter = sub.Y
		}
	}
	if removedCounter == nil {
		L.Bad("length-bookkeeping", r.label, "length update", c.P.Pos(ls.Pos()), "the new length is not `a.length - <counter>`")
		return
	}
	var incs []ssa.Instruction
	nonInc := 0
	for v := range throughPhis(removedCounter, false) {
		switch x := v.(type) {
		case *ssa.BinOp:
			if k, ok := constInt(x.Y); ok && x.Op == token.ADD && k == 1 && flowsInto(x, removedCounter, false) {
				incs = append(incs, x)
			} else {
				nonInc++
			}
		case *ssa.Const, *ssa.Phi:
		default:
			nonInc++
		}
	}
	if len(incs) == 0 || nonInc > 0 {
		L.Bad("length-bookkeeping", r.label, "length update", c.P.Pos(ls.Pos()),
			"the value subtracted from the cached length is not a counter incremented by one per removed column in the rebuild loop (e.g. the size of the candidate list, which differs from the removed columns in ends mode)")
		return
	}
	allIn := true
	for _, in := range incs {
		if !inner.Blocks[in.Block()] {
			allIn = false
		}
	}
	if !allIn {
		L.Bad("length-bookkeeping", r.label, "length update", c.P.Pos(ls.Pos()), "the removed counter is not incremented inside the column loop that rebuilds the rows")
		return
	}
	L.OK("length-bookkeeping", r.label, "length update", c.P.Pos(ls.Pos()), "a.length -= counter incremented once per removed column in the rebuild loop")

	isInc := func(in ssa.Instruction) bool {
		for _, x := range incs {
			if x == in {
				return true
			}
		}
		return false
	}
	cnt := eventCounts(inner, func(in ssa.Instruction) bool { return in == ssa.Instruction(keep) || isInc(in) })
	if len(cnt) == 1 && cnt[1] {
		L.OK("rebuild-partition", r.label, "column loop", c.P.Pos(inner.Head.Instrs[0].Pos()), "every iteration executes exactly one of {append residue to new row, removed++}")
	} else {
		L.Bad("rebuild-partition", r.label, "column loop", c.P.Pos(inner.Head.Instrs[0].Pos()),
			"an iteration of the column loop can execute "+countsString(cnt)+" of {append residue to new row, removed++}: rows and cached length diverge")
	}

	// kept / rm: results 2 and 3
	var rets []*ssa.Return
	allInstrs(fn, func(in ssa.Instruction) {
		if rt, ok := in.(*ssa.Return); ok {
			rets = append(rets, rt)
		}
	})
	idxOf := func(name string) int {
		res := fn.Signature.Results()
		for i := 0; i < res.Len(); i++ {
			if res.At(i).Name() == name {
				return i
			}
		}
		// unnamed results: by position — kept is the first []int result, rm the second
		// (the order is part of the exported signature)
		var slices []int
		for i := 0; i < res.Len(); i++ {
			if sl, ok := res.At(i).Type().Underlying().(*types.Slice); ok {
				if b, ok := sl.Elem().Underlying().(*types.Basic); ok && b.Kind() == types.Int {
					slices = append(slices, i)
				}
			}
		}
		if len(slices) == 2 {
			if name == "kept" {
				return slices[0]
			}
			if name == "rm" {
				return slices[1]
			}
		}
		return -1
	}
	// column index = index used by the row read appended to the new row
	var colIdx ssa.Value
	if len(keep.Common().Args) == 2 {
		if sl, ok := keep.Common().Args[1].(*ssa.Slice); ok {
			// append(newseq, x) lowers to append(newseq, varargs[:]); find the element store
			if al, ok := sl.X.(*ssa.Alloc); ok {
				for _, ref := range *al.Referrers() {
					if ia, ok := ref.(*ssa.IndexAddr); ok {
						for _, rr := range *ia.Referrers() {
							if st, ok := rr.(*ssa.Store); ok {
								if u, ok := st.Val.(*ssa.UnOp); ok {
									if ia2, ok := u.X.(*ssa.IndexAddr); ok {
										colIdx = ia2.Index
									}
								}
							}
						}
					}
				}
			}
		}
	}
	for _, spec := range []struct {
		name string
		arm  string
	}{{"kept", "keep"}, {"rm", "remove"}} {
		ri := idxOf(spec.name)
		if ri < 0 || len(rets) == 0 {
			L.Unknown("index-lists", r.label, spec.name, c.P.Pos(fn.Pos()), "named result not found")
			continue
		}
		var apps []*ssa.Call
		for _, rt := range rets {
			for v := range throughPhis(rt.Results[ri], true) {
				if call, ok := v.(*ssa.Call); ok && builtinName(call.Common()) == "append" {
					dup := false
					for _, a := range apps {
						if a == call {
							dup = true
						}
					}
					if !dup {
						apps = append(apps, call)
					}
				}
			}
		}
		if len(apps) != 1 {
			L.Bad("index-lists", r.label, spec.name, c.P.Pos(fn.Pos()), fmt.Sprintf("%d appends feed the %s result, want exactly one inside the rebuild loop (the list must be built column by column)", len(apps), spec.name))
			continue
		}
		ap := apps[0]
		// the kept list is built in every call that returns normally: a return that hands back the
		// list as it was before the rebuild loop (a "nothing to remove" shortcut) reports no kept
		// column although every column is kept
		if spec.name == "kept" {
			early := ""
			for _, rt := range rets {
				reaches := false
				for v := range throughPhis(rt.Results[ri], true) {
					if v == ssa.Value(ap) {
						reaches = true
					}
				}
				if !reaches {
					// an error return may hand back anything
					isErr := false
					for _, rv := range rt.Results {
						if rv.Type().String() == "error" {
							if k, ok := rv.(*ssa.Const); !ok || !k.IsNil() {
								isErr = true
							}
						}
					}
					if !isErr {
						early = c.P.Pos(rt.Pos())
					}
				}
			}
			if early != "" {
				L.Bad("index-lists", r.label, "kept built before every normal return", early, "a normal return hands back the kept list without passing the loop that fills it: kept and rm no longer partition the columns")
			} else {
				L.OK("index-lists", r.label, "kept built before every normal return", c.P.Pos(ap.Pos()), "every normal return carries the list filled by the rebuild loop")
			}
		}
		var anchor ssa.Instruction = keep
		if spec.arm == "remove" {
			anchor = incs[0]
		}
		okArm := inner.Blocks[ap.Block()] && (anchor.Block() == ap.Block() || anchor.Block().Dominates(ap.Block()))
		// appended value = column index
		okVal := false
		if sl, ok := ap.Common().Args[1].(*ssa.Slice); ok {
			if al, ok := sl.X.(*ssa.Alloc); ok {
				for _, ref := range *al.Referrers() {
					if ia, ok := ref.(*ssa.IndexAddr); ok {
						for _, rr := range *ia.Referrers() {
							if st, ok := rr.(*ssa.Store); ok && colIdx != nil && st.Val == colIdx {
								okVal = true
							}
						}
					}
				}
			}
		}
		// first-row guard: dominated by (rowIndex == 0)
		okFirst := false
		for d := ap.Block(); d != nil && inner.Blocks[d]; d = d.Idom() {
			for _, p := range d.Preds {
				if ifi, ok := p.Instrs[len(p.Instrs)-1].(*ssa.If); ok && p.Succs[0] == d && len(d.Preds) == 1 {
					if bo, ok := ifi.Cond.(*ssa.BinOp); ok && bo.Op == token.EQL {
						if k, ok := constInt(bo.Y); ok && k == 0 {
							if _, isPhi := bo.X.(*ssa.Phi); isPhi && !inner.Blocks[bo.X.(*ssa.Phi).Block()] {
								okFirst = true
							}
						}
					}
				}
			}
		}
		switch {
		case !okArm:
			L.Bad("index-lists", r.label, spec.name, c.P.Pos(ap.Pos()), "the append is not in the arm of the column loop that "+spec.arm+"s the column: the reported indices and the rebuilt rows disagree")
		case !okVal:
			L.Bad("index-lists", r.label, spec.name, c.P.Pos(ap.Pos()), "the appended value is not the column index of the rebuild loop")
		case !okFirst:
			L.Bad("index-lists", r.label, spec.name, c.P.Pos(ap.Pos()), "the append is not restricted to the first row: indices would be reported once per sequence")
		default:
			L.OK("index-lists", r.label, spec.name, c.P.Pos(ap.Pos()), "one append of the column index, in the "+spec.arm+" arm, under the first-row test")
		}
	}
}

func (c *Ctx) checkSeqPartition(r *fnRef) {
	if !r.ok() {
		return
	}
	L := c.L
	fn := r.F
	var rets []*ssa.Return
	var adds []ssa.Instruction
	allInstrs(fn, func(in ssa.Instruction) {
		if rt, ok := in.(*ssa.Return); ok {
			rets = append(rets, rt)
		}
		if call, ok := in.(*ssa.Call); ok {
			if f := call.Common().StaticCallee(); f != nil && (f.Name() == "AddSequenceChar" || f.Name() == "AddSequence") {
				adds = append(adds, in)
			}
		}
	})
	if len(rets) != 1 || len(adds) != 1 {
		L.Unknown("seq-partition", r.label, "shape", c.P.Pos(fn.Pos()), fmt.Sprintf("%d returns, %d re-add calls", len(rets), len(adds)))
		return
	}
	var incs []ssa.Instruction
	for v := range throughPhis(rets[0].Results[0], false) {
		if x, ok := v.(*ssa.BinOp); ok && x.Op == token.ADD {
			if k, ok := constInt(x.Y); ok && k == 1 {
				incs = append(incs, x)
			}
		}
	}
	lp := innermostLoopOf(naturalLoops(fn), adds[0].Block())
	if lp == nil || len(incs) == 0 {
		L.Bad("seq-partition", r.label, "sequence loop", c.P.Pos(fn.Pos()), "the returned value is not a counter incremented in the sequence loop")
		return
	}
	cnt := eventCounts(lp, func(in ssa.Instruction) bool {
		if in == adds[0] {
			return true
		}
		for _, x := range incs {
			if x == in {
				return true
			}
		}
		return false
	})
	if len(cnt) == 1 && cnt[1] {
		L.OK("seq-partition", r.label, "sequence loop", c.P.Pos(lp.Head.Instrs[0].Pos()), "every sequence is either counted as removed or re-added, exactly one; the counter is the return value")
	} else {
		L.Bad("seq-partition", r.label, "sequence loop", c.P.Pos(lp.Head.Instrs[0].Pos()), "an iteration executes "+countsString(cnt)+" of {removed++, re-add}: a sequence is lost, duplicated or miscounted")
	}
}
