package rules

import (
	"fmt"
	"os"
	"go/token"

	"golang.org/x/tools/go/ssa"
)

// checkSelectedSitesOnly: in the counting helpers of the nucleotide distances every accumulation
// (a float sum carried round a loop, or `v[k] += …`) happens only where the site mask has been
// read true for the current site: a total that also counts the removed columns while the
// numerators do not makes the frequencies sum to less than one.
func (c *Ctx) checkSelectedSitesOnly(rule string) {
	L := c.L
	L.Rule(rule, "in the helpers of package distance/dna that receive the mask of selected sites, every float accumulation inside the site loop (a running sum, or an element of a vector of sums) is executed only on paths where mask[site] was read true: numerators and denominators range over the same sites")
	n := 0
	for _, fn := range c.srcFuncs("distance/dna") {
		if fn.Parent() != nil {
			continue
		}
		var mask *ssa.Parameter
		for _, p := range fn.Params {
			if isBoolSlice(p.Type()) {
				mask = p
			}
		}
		if mask == nil {
			continue
		}
		loops := naturalLoops(fn)
		if len(loops) == 0 {
			continue
		}
		bf := computeBranchFacts(fn)
		var maskLoads []ssa.Value
		allInstrs(fn, func(in ssa.Instruction) {
			if u, ok := in.(*ssa.UnOp); ok && u.Op == token.MUL {
				if ia, ok := u.X.(*ssa.IndexAddr); ok && ia.X == ssa.Value(mask) {
					maskLoads = append(maskLoads, u)
				}
			}
		})
		if len(maskLoads) == 0 {
			continue
		}
		underMask := func(b *ssa.BasicBlock) bool {
			for _, m := range maskLoads {
				if bf.knownAt(b, m, true) {
					return true
				}
			}
			return false
		}
		nAcc, bad := 0, 0
		var where ssa.Instruction
		allInstrs(fn, func(in ssa.Instruction) {
			bo, ok := in.(*ssa.BinOp)
			if !ok || bo.Op != token.ADD || !isFloatValue(bo) || innermostLoopOf(loops, bo.Block()) == nil {
				return
			}
			acc := false
			// running sum: x = φ + w with the φ at a loop head
			if p, ok := bo.X.(*ssa.Phi); ok {
				for _, lp := range loops {
					if p.Block() == lp.Head && lp.Blocks[bo.Block()] && throughPhis(p, false)[bo] {
						acc = true
					}
				}
			}
			// element of a vector of sums: v[k] = v[k] + w
			if u, ok := bo.X.(*ssa.UnOp); ok && u.Op == token.MUL {
				if ia, ok := u.X.(*ssa.IndexAddr); ok {
					for _, ref := range *bo.Referrers() {
						if st, ok := ref.(*ssa.Store); ok {
							if sia, ok := st.Addr.(*ssa.IndexAddr); ok && sia.X == ia.X {
								acc = true
							}
						}
					}
				}
			}
			if !acc {
				return
			}
			nAcc++
			if !underMask(bo.Block()) {
				bad++
				where = in
			}
		})
		if os.Getenv("VERIF_DEBUG_SEL") != "" {
			fmt.Fprintf(os.Stderr, "SEL %s: loads=%d acc=%d bad=%d\n", fn.Name(), len(maskLoads), nAcc, bad)
		}
		if nAcc == 0 {
			continue
		}
		n++
		pos := c.P.Pos(fn.Pos())
		if where != nil {
			pos = c.P.Pos(where.Pos())
		}
		L.Check(bad == 0, rule, c.P.FuncName(c.origFn(fn)), "accumulations under the site mask", pos,
			fmt.Sprintf("%d accumulation(s), each where mask[site] is known true", nAcc),
			fmt.Sprintf("%d of %d accumulation(s) can run for a site that the mask excludes: sums over different sets of sites are combined", bad, nAcc))
	}
	L.Floor(rule, 2, "counting helpers with a site mask (floor = half)")
}
