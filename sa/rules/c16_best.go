package rules

import (
	"fmt"
	"go/token"
	"strings"

	"golang.org/x/tools/go/ssa"
)

// checkBestLengthComparison: the longest-ORF searches keep the best candidate seen so far and
// compare `end - start` of the candidate with `bestend - beststart` of the record. Each of the
// two differences must be taken inside one family: both operands carried from earlier iterations
// (φ-nodes fed by the loop header), or both computed in the current iteration. A difference that
// mixes the families (`bestend - start`) compares the candidate with a length nobody has.
func (c *Ctx) checkBestLengthComparison(rule string) {
	L := c.L
	L.Rule(rule, "in the longest-ORF loops, a comparison between two differences compares the length of the current candidate (both operands computed in this iteration) with the length of the best record (both operands carried by the loop): no difference mixes a carried and a fresh operand")
	targets := [][3]string{{"align", "*seqbag", "LongestORF"}, {"align", "*seq", "LongestORF"}}
	n := 0
	for _, t := range targets {
		r := c.fn(t[0], t[1], t[2])
		if !r.ok() {
			continue
		}
		fn := r.F
		for _, lp := range naturalLoops(fn) {
			// a variable kept in memory, declared before the loop and assigned inside it
			cellCarried := func(a *ssa.Alloc) bool {
				if lp.Blocks[a.Block()] || a.Referrers() == nil {
					return false
				}
				for _, r := range *a.Referrers() {
					switch x := r.(type) {
					case *ssa.Store:
						if x.Addr == ssa.Value(a) && lp.Blocks[x.Block()] {
							return true
						}
					case *ssa.FieldAddr:
						if x.Referrers() != nil {
							for _, r2 := range *x.Referrers() {
								if st, ok := r2.(*ssa.Store); ok && st.Addr == ssa.Value(x) && lp.Blocks[st.Block()] {
									return true
								}
							}
						}
					}
				}
				return false
			}
			carried := func(v ssa.Value) bool {
				seen := map[ssa.Value]bool{}
				var rec func(v ssa.Value) bool
				rec = func(v ssa.Value) bool {
					if seen[v] {
						return false
					}
					// an element or a field of a carried record (longest[1], best.end)
					switch x := v.(type) {
					case *ssa.UnOp:
						if x.Op != token.MUL {
							return false
						}
						seen[v] = true
						switch a := x.X.(type) {
						case *ssa.Alloc:
							// a whole record copied through a local (value receiver of an inlined method)
							if sv := wholeRecordValue(a); sv != nil {
								return rec(sv)
							}
							return cellCarried(a)
						case *ssa.IndexAddr:
							return rec(a.X)
						case *ssa.FieldAddr:
							if al, ok := a.X.(*ssa.Alloc); ok {
								if sv := wholeRecordValue(al); sv != nil {
									return rec(sv)
								}
								return cellCarried(al)
							}
							return rec(a.X)
						}
						return false
					case *ssa.Field:
						seen[v] = true
						return rec(x.X)
					}
					p, ok := v.(*ssa.Phi)
					if !ok {
						return false
					}
					seen[v] = true
					if p.Block() == lp.Head {
						return true
					}
					for _, e := range p.Edges {
						if rec(e) {
							return true
						}
					}
					return false
				}
				return rec(v)
			}
			for _, b := range blocksInOrder(lp) {
				for _, in := range b.Instrs {
					cmp, ok := in.(*ssa.BinOp)
					if !ok {
						continue
					}
					switch cmp.Op {
					case token.GTR, token.GEQ, token.LSS, token.LEQ:
					default:
						continue
					}
					dx, okx := cmp.X.(*ssa.BinOp)
					dy, oky := cmp.Y.(*ssa.BinOp)
					if !okx || !oky || dx.Op != token.SUB || dy.Op != token.SUB {
						continue
					}
					n++
					var mixed []string
					kinds := [2]string{}
					for i, d := range []*ssa.BinOp{dx, dy} {
						cx, cy := carried(d.X), carried(d.Y)
						_, kx := d.X.(*ssa.Const)
						_, ky := d.Y.(*ssa.Const)
						switch {
						case kx || ky:
							kinds[i] = "const"
						case cx && cy:
							kinds[i] = "carried"
						case !cx && !cy:
							kinds[i] = "fresh"
						default:
							mixed = append(mixed, fmt.Sprintf("%s - %s", d.X.Name(), d.Y.Name()))
						}
					}
					switch {
					case len(mixed) > 0:
						L.Bad(rule, r.label, "candidate length against best length", c.P.Pos(cmp.Pos()), "a difference mixes a value carried from earlier iterations with a value of the current candidate ("+strings.Join(mixed, ", ")+"): the candidate is not compared with the length of the best record")
					case kinds[0] == kinds[1] && kinds[0] != "const":
						L.Bad(rule, r.label, "candidate length against best length", c.P.Pos(cmp.Pos()), "both differences are "+kinds[0]+": the comparison does not involve the candidate and the best record")
					default:
						L.OK(rule, r.label, "candidate length against best length", c.P.Pos(cmp.Pos()), kinds[0]+" length compared with "+kinds[1]+" length")
					}
				}
			}
		}
	}
	L.Floor(rule, 2, "three comparisons on the pinned tree")
}
