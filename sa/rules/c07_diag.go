package rules

import (
	"fmt"
	"go/token"
	"strings"

	"golang.org/x/tools/go/ssa"
)

// checkDiagonalNotComputed: the diagonal of the distance matrix is zero because it is never
// computed: no pair (i, i) is handed to the model. Either every pair the producer sends has
// provably different indices (i < j in the half-matrix loops, a `j != i` guard in range mode), or
// the consumer stores a computed distance only under `sp.i != sp.j`. A computed self-distance is
// 0/0 = NaN for a row that has no comparable site with itself (an all-gap row, a row of N with
// ambiguous positions removed).
func (c *Ctx) checkDiagonalNotComputed(rule string) {
	L := c.L
	L.Rule(rule, "no pair (i, i) reaches model.Distance in DistMatrix: every pair sent to the workers has different indices on every path (linear bounds / disequalities), or the worker stores a computed distance only under sp.i != sp.j")
	r := c.fn("distance/dna", "", "DistMatrix")
	if !r.ok() {
		return
	}
	isPairField := func(v ssa.Value) (int, bool) {
		switch x := v.(type) {
		case *ssa.Field:
			if n := namedOf(x.X.Type()); n != nil && n.Obj().Name() == "seqpairdist" {
				return x.Field, true
			}
		case *ssa.UnOp:
			if x.Op == token.MUL {
				if t, _, fa := fieldAddrOf(x.X); fa != nil && t == "seqpairdist" {
					return fa.Field, true
				}
			}
		}
		return 0, false
	}
	// worker side: is every store of a Distance result guarded by sp.i != sp.j ?
	workerGuarded, nDistStores := true, 0
	for _, f := range withAnons(r.F) {
		allInstrs(f, func(in ssa.Instruction) {
			st, ok := in.(*ssa.Store)
			if !ok {
				return
			}
			ex, ok := st.Val.(*ssa.Extract)
			if !ok {
				return
			}
			call, ok := ex.Tuple.(*ssa.Call)
			if !ok || !call.Common().IsInvoke() || call.Common().Method.Name() != "Distance" {
				return
			}
			nDistStores++
			guarded := false
			for d := st.Block(); d != nil; d = d.Idom() {
				id := d.Idom()
				if id == nil || len(id.Instrs) == 0 {
					continue
				}
				ifi, ok := id.Instrs[len(id.Instrs)-1].(*ssa.If)
				if !ok {
					continue
				}
				bo, ok := ifi.Cond.(*ssa.BinOp)
				if !ok || (bo.Op != token.EQL && bo.Op != token.NEQ) {
					continue
				}
				fx, okx := isPairField(bo.X)
				fy, oky := isPairField(bo.Y)
				if !okx || !oky || fx == fy || fx > 1 || fy > 1 {
					continue
				}
				// the side of the test on which d lies
				onTrue := id.Succs[0] == d && len(d.Preds) == 1
				onFalse := id.Succs[1] == d && len(d.Preds) == 1
				if (bo.Op == token.EQL && onFalse) || (bo.Op == token.NEQ && onTrue) {
					guarded = true
				}
			}
			if !guarded {
				workerGuarded = false
			}
		})
	}
	nSend, nProved := 0, 0
	var open []string
	for _, f := range withAnons(r.F) {
		lc := newLinCtx(c, f)
		allInstrs(f, func(in ssa.Instruction) {
			snd, ok := in.(*ssa.Send)
			if !ok {
				return
			}
			n := namedOf(snd.X.Type())
			if n == nil || n.Obj().Name() != "seqpairdist" {
				return
			}
			nSend++
			var vi, vj ssa.Value
			if u, ok := snd.X.(*ssa.UnOp); ok && u.Op == token.MUL {
				if a, ok := u.X.(*ssa.Alloc); ok {
					for _, ref := range *a.Referrers() {
						fa, ok := ref.(*ssa.FieldAddr)
						if !ok {
							continue
						}
						for _, r2 := range *fa.Referrers() {
							if st, ok := r2.(*ssa.Store); ok && st.Addr == ssa.Value(fa) {
								switch fa.Field {
								case 0:
									vi = st.Val
								case 1:
									vj = st.Val
								}
							}
						}
					}
				}
			}
			if vi == nil || vj == nil {
				open = append(open, c.P.Pos(snd.Pos())+" (indices of the pair not found)")
				return
			}
			b := snd.Block()
			li, lj := lc.of(vi), lc.of(vj)
			ok1, _ := lc.proveAll(b, nil, consLT(li, lj, "i < j"))
			ok2 := false
			if !ok1 {
				ok2, _ = lc.proveAll(b, nil, consLT(lj, li, "j < i"))
			}
			ok3 := false
			if !ok1 && !ok2 {
				d := li.sub(lj)
				for _, q := range lc.diseqAt(b) {
					if q.equal(d) || q.equal(d.scale(-1)) {
						ok3 = true
					}
				}
			}
			if ok1 || ok2 || ok3 {
				nProved++
			} else {
				open = append(open, c.P.Pos(snd.Pos()))
			}
		})
	}
	switch {
	case nSend == 0 && nDistStores == 0:
		L.Unknown(rule, r.label, "pairs handed to the model", c.P.Pos(r.F.Pos()), "neither a send of index pairs nor a store of a computed distance was found")
	case len(open) == 0 && nSend > 0:
		L.OK(rule, r.label, "pairs handed to the model", c.P.Pos(r.F.Pos()), fmt.Sprintf("%d send(s), each with provably different indices", nSend))
	case workerGuarded && nDistStores > 0:
		L.OK(rule, r.label, "pairs handed to the model", c.P.Pos(r.F.Pos()), fmt.Sprintf("%d store(s) of a computed distance, each under sp.i != sp.j", nDistStores))
	default:
		L.Bad(rule, r.label, "pairs handed to the model", c.P.Pos(r.F.Pos()), "a pair (i, i) can reach model.Distance: the indices are not proven different at "+strings.Join(open, ", ")+" and the worker does not test them before storing the computed value — the diagonal becomes NaN for a row without comparable sites")
	}
	L.Floor(rule, 1, "one matrix function")
}
