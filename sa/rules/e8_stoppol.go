package rules

import (
	"fmt"
	"go/token"
	"strings"

	"golang.org/x/tools/go/ssa"
)

// Iteration callbacks stop on true. The callbacks handed to Iterate / IterateChar / IterateAll
// return true to stop the iteration. One that reports an error through a captured variable and
// returns a comparison of that variable with nil must return `err != nil` (stop on the first
// error): `err == nil` stops after the first row that is fine — every later row is skipped, and
// an error in a later row is never seen.
type stopSite struct {
	ret *ssa.Return
	ok  bool
}

func stopPolaritySites(fn *ssa.Function) []stopSite {
	var out []stopSite
	if fn.Parent() == nil || fn.Signature.Results().Len() != 1 {
		return nil
	}
	if fn.Signature.Results().At(0).Type().String() != "bool" {
		return nil
	}
	for _, b := range fn.Blocks {
		ret, ok := b.Instrs[len(b.Instrs)-1].(*ssa.Return)
		if !ok || len(ret.Results) != 1 {
			continue
		}
		bo, ok := ret.Results[0].(*ssa.BinOp)
		if !ok || (bo.Op != token.EQL && bo.Op != token.NEQ) {
			continue
		}
		var other ssa.Value
		if k, isK := bo.Y.(*ssa.Const); isK && k.IsNil() {
			other = bo.X
		} else if k, isK := bo.X.(*ssa.Const); isK && k.IsNil() {
			other = bo.Y
		}
		if other == nil || other.Type().String() != "error" {
			continue
		}
		out = append(out, stopSite{ret, bo.Op == token.NEQ})
	}
	return out
}

func (c *Ctx) checkStopPolarity(rule string, rels ...string) {
	L := c.L
	L.Rule(rule, "a bool-returning callback (true = stop the iteration) that returns a comparison of an error with nil returns `err != nil`: the iteration goes on while there is no error and stops at the first one")
	n := 0
	for _, fn := range c.P.SrcFuncs(rels...) {
		for _, s := range stopPolaritySites(fn) {
			n++
			L.Check(s.ok, rule, c.P.FuncName(fn), "stop on error", c.P.Pos(s.ret.Pos()), "returns err != nil",
				"the callback returns `err == nil`: the iteration stops after the first element that raised no error, the remaining rows are never visited")
		}
	}
	L.Trivial(rule, strings.Join(rels, ","), "callbacks scanned", "-", fmt.Sprintf("%d callback return(s) comparing an error with nil", n))
	if cp := c.Controls(); cp != nil {
		fired, silent := false, false
		for _, fn := range cp.SrcFuncs() {
			for _, s := range stopPolaritySites(fn) {
				if fn.Parent() != nil && fn.Parent().Name() == "StopWhenFine" && !s.ok {
					fired = true
				}
				if fn.Parent() != nil && fn.Parent().Name() == "StopOnError" && s.ok {
					silent = true
				}
			}
		}
		L.ControlMustFire(rule, fired && silent, "controls/stoppol.go: `return err == nil` in a stop-on-true callback must be flagged, `return err != nil` must not")
	}
	L.Floor(rule, 3, "six callbacks of package align on the pinned tree")
}
