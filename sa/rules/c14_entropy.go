package rules

import (
	"fmt"
	"go/token"

	"golang.org/x/tools/go/ssa"
)

// checkEntropyFormula: the site entropy is −Σ p·ln p over the characters counted at the site, with
// p = (count of the character) / (number of counted rows). The rule reads the update of the
// running sum in Entropy as a rational function with ln uninterpreted: new − old = −p·ln p, p the
// count looked up for the current character divided by the counter that is stepped once for every
// counted row.
func (c *Ctx) checkEntropyFormula(rule string) {
	L := c.L
	L.Rule(rule, "in Entropy the running sum is updated by −p·ln(p) for every character of the site, with p = count[character] / total, total being the counter stepped once per counted row (identity of rational functions, ln uninterpreted)")
	r := c.fn("align", "*align", "Entropy")
	if !r.ok() {
		return
	}
	fn := r.F
	loops := naturalLoops(fn)
	n, okAll := 0, true
	for _, lp := range loops {
		for _, in := range lp.Head.Instrs {
			p, ok := in.(*ssa.Phi)
			if !ok {
				break
			}
			if !isFloatValue(p) {
				continue
			}
			for i, e := range p.Edges {
				if !lp.Blocks[lp.Head.Preds[i]] {
					continue
				}
				n++
				sc := &symCtx{}
				sc.leaf = func(v ssa.Value) (frac, bool) {
					if v == ssa.Value(p) {
						return fracSym("E"), true
					}
					switch x := v.(type) {
					case *ssa.Lookup:
						return fracSym("count"), true
					case *ssa.Extract:
						if _, isLk := x.Tuple.(*ssa.Lookup); isLk && x.Index == 0 {
							return fracSym("count"), true
						}
					case *ssa.Phi:
						// the counter of counted rows: an int φ stepped by one in an earlier loop
						if isIntType(x.Type()) && x != p {
							for _, pe := range x.Edges {
								if bo, ok := pe.(*ssa.BinOp); ok && bo.Op == token.ADD {
									if k, ok := constInt(bo.Y); ok && k == 1 {
										return fracSym("total"), true
									}
								}
							}
							// merged copies of that counter
							for _, pe := range x.Edges {
								if q, ok := pe.(*ssa.Phi); ok && q != x {
									return fracSym("total"), true
								}
							}
						}
					}
					return frac{}, false
				}
				got, ok := sc.symOf(e, func(*ssa.Phi) ssa.Value { return nil }, 0)
				pr := fracSym("count").div(fracSym("total"))
				want := fracSym("E").sub(pr.mul(sc.apply("log", pr)))
				if !ok || !got.eq(want) {
					okAll = false
				}
			}
		}
	}
	L.Check(n == 1 && okAll, rule, r.label, "update of the running sum", c.P.Pos(fn.Pos()),
		"entropy' = entropy − (count/total)·ln(count/total)",
		fmt.Sprintf("the running sum of Entropy is not updated by −p·ln p with p = count/total (%d float accumulator(s) found): the value is not the Shannon entropy of the site", n))
	L.Floor(rule, 1, "one accumulator")
}
