package rules

import (
	"fmt"
	"go/ast"
	"go/printer"
	"go/token"
	"sort"
	"strings"
)

// checkPairedLines: two sibling statements of one block that are the same text up to the suffix
// 1 ↔ 2 of their identifiers (`firstgaps1 = firstgaps1 && !isNuc(seq1[i])` and the line for 2)
// must be renamed completely: a second line that still mentions an identifier of the first family
// where the first line mentions its own is the classic copy-and-paste slip. The rule fires only
// when the two lines are otherwise identical, so it is silent on code that does not use the
// numbered-pair idiom at all.
func (c *Ctx) checkPairedLines(rule string, rels ...string) {
	L := c.L
	L.Rule(rule, "where two statements of a block are identical up to the suffix 1/2 of their identifiers, the renaming is complete: the statement written for family 2 does not keep an identifier of family 1 in a place where the first statement uses its own family (copy-and-paste slip between seq1/seq2, start1/start2, …)")
	nPairs := 0
	scan := func(P interface {
		Pos(token.Pos) string
	}, fset *token.FileSet, files []*ast.File) []string {
		var found []string
		render := func(n ast.Node) string {
			var sb strings.Builder
			printer.Fprint(&sb, fset, n)
			return sb.String()
		}
		swap := func(s string) string {
			// swap the suffix digit of every identifier-like token ending in 1 or 2
			var out strings.Builder
			i := 0
			for i < len(s) {
				ch := s[i]
				if isIdentStart(ch) {
					j := i
					for j < len(s) && isIdentPart(s[j]) {
						j++
					}
					tok := s[i:j]
					if len(tok) > 1 {
						switch tok[len(tok)-1] {
						case '1':
							tok = tok[:len(tok)-1] + "2"
						case '2':
							tok = tok[:len(tok)-1] + "1"
						}
					}
					out.WriteString(tok)
					i = j
					continue
				}
				out.WriteByte(ch)
				i++
			}
			return out.String()
		}
		tokens := func(s string) []string {
			var out []string
			i := 0
			for i < len(s) {
				if isIdentStart(s[i]) {
					j := i
					for j < len(s) && isIdentPart(s[j]) {
						j++
					}
					out = append(out, s[i:j])
					i = j
					continue
				}
				if s[i] != ' ' && s[i] != '\t' && s[i] != '\n' {
					out = append(out, string(s[i]))
				}
				i++
			}
			return out
		}
		for _, f := range files {
			ast.Inspect(f, func(n ast.Node) bool {
				blk, ok := n.(*ast.BlockStmt)
				if !ok {
					return true
				}
				var texts []string
				for _, st := range blk.List {
					switch st.(type) {
					case *ast.AssignStmt, *ast.ExprStmt, *ast.IncDecStmt:
						texts = append(texts, render(st))
					default:
						texts = append(texts, "")
					}
				}
				for i := 0; i < len(texts); i++ {
					for j := i + 1; j < len(texts) && j <= i+3; j++ {
						a, b := texts[i], texts[j]
						if a == "" || b == "" || a == b {
							continue
						}
						ta, tb := tokens(a), tokens(b)
						if len(ta) != len(tb) {
							continue
						}
						want := tokens(swap(a))
						// b must agree with a or with swap(a) at every token, use the swapped form
						// at least once, and keep a's form at least once where the swap differs
						swapped, kept, other := 0, 0, 0
						for k := range ta {
							switch {
							case ta[k] == want[k]:
								if tb[k] != ta[k] {
									other++
								}
							case tb[k] == want[k]:
								swapped++
							case tb[k] == ta[k]:
								kept++
							default:
								other++
							}
						}
						if other == 0 && swapped > 0 {
							nPairs++
							if kept > 0 {
								found = append(found, fmt.Sprintf("%s\x00%s  /  %s", P.Pos(blk.List[j].Pos()), strings.TrimSpace(a), strings.TrimSpace(b)))
							}
						}
					}
				}
				return true
			})
		}
		return found
	}
	if cp := c.Controls(); cp != nil {
		if pk := cp.Pkg(""); pk != nil {
			hits := scan(cp, cp.Fset, pk.Syntax)
			L.ControlMustFire(rule, len(hits) > 0, "controls.HalfRenamedPair updates gaps2 from seq1")
			nPairs = 0
		}
	}
	var all []string
	for _, rel := range rels {
		pk := c.P.Pkg(rel)
		if pk == nil {
			continue
		}
		all = append(all, scan(c.P, c.P.Fset, pk.Syntax)...)
	}
	sort.Strings(all)
	for _, h := range all {
		parts := strings.SplitN(h, "\x00", 2)
		L.Bad(rule, "statement pair", stable(parts[1]), parts[0], "the second statement is the first one with the suffix 1 → 2 applied to some identifiers only: "+parts[1])
	}
	L.OK(rule, "scope", fmt.Sprintf("packages %v", rels), "-", fmt.Sprintf("%d pairs of statements identical up to the 1/2 suffix, all renamed completely", nPairs))
}

func isIdentStart(ch byte) bool {
	return ch == '_' || (ch >= 'a' && ch <= 'z') || (ch >= 'A' && ch <= 'Z')
}

func isIdentPart(ch byte) bool { return isIdentStart(ch) || (ch >= '0' && ch <= '9') }
