package rules

import (
	"fmt"
	"go/ast"
	"go/token"
	"go/types"
	"os"
	"os/exec"
	"path/filepath"
	"regexp"
	"sort"
	"strconv"
	"strings"

	"golang.org/x/tools/go/ssa"
)

// E2b — the Go compiler's prove pass as a bounds oracle.
//
// `go build -gcflags='-l -d=ssa/check_bce/debug=1'` prints every bounds check
// the compiler could not eliminate ("Found IsInBounds" / "Found
// IsSliceInBounds"). Compiling is not running: no goalign code executes. The
// residual inside the given scope is mapped back to the index expression and
// each entry must be (a) proven by the linear-bounds engine (E2), or (b) listed
// in the justified table with its reason. Anything else is an unchecked index
// on attacker-controlled input.

type bceEntry struct {
	file      string
	line, col int
	kind      string
}

var bceRE = regexp.MustCompile(`^([^:\s]+\.go):(\d+):(\d+): Found (IsInBounds|IsSliceInBounds)`)

func (c *Ctx) compilerResidual(pkgs []string, inline bool) ([]bceEntry, error) {
	flags := "-d=ssa/check_bce/debug=1"
	if !inline {
		flags = "-l " + flags
	}
	args := append([]string{"build", "-gcflags=" + flags}, pkgs...)
	cmd := exec.Command("go", args...)
	cmd.Dir = c.P.Dir
	env := []string{}
	for _, kv := range os.Environ() {
		if strings.HasPrefix(kv, "GOFLAGS=") || strings.HasPrefix(kv, "GOWORK=") {
			continue
		}
		env = append(env, kv)
	}
	cmd.Env = append(env, "GOFLAGS=-mod=mod", "GOPROXY=off", "GOSUMDB=off", "GOTOOLCHAIN=local", "GOWORK=off")
	out, err := cmd.CombinedOutput()
	if err != nil {
		return nil, fmt.Errorf("go build failed: %v: %s", err, firstLines(string(out), 5))
	}
	var res []bceEntry
	for _, ln := range strings.Split(string(out), "\n") {
		m := bceRE.FindStringSubmatch(strings.TrimSpace(ln))
		if m == nil {
			continue
		}
		l, _ := strconv.Atoi(m[2])
		cl, _ := strconv.Atoi(m[3])
		res = append(res, bceEntry{filepath.Clean(m[1]), l, cl, m[4]})
	}
	return res, nil
}

func firstLines(s string, n int) string {
	ls := strings.Split(s, "\n")
	if len(ls) > n {
		ls = ls[:n]
	}
	return strings.Join(ls, " / ")
}

type bceJustified struct {
	Func, Expr, Why string
}

// checkBCE: scope = set of *ssa.Function; table = justified residuals.
func (c *Ctx) checkBCE(rule string, pkgs []string, scope map[*ssa.Function]bool, table []bceJustified, minCompilerLines int) {
	L := c.L
	L.Rule(rule, "every index or slice expression in parser scope is proven in bounds by the Go compiler's prove pass (it does not appear in the check_bce residual), or by the linear-bounds engine, or is listed in the justified table with its reason; a new residual is an unchecked index on file-controlled data")
	res, err := c.compilerResidual(pkgs, false)
	if err != nil {
		L.Unknown(rule, "go build", "compiler residual", "-", err.Error())
		return
	}
	if len(res) < minCompilerLines {
		L.Unknown(rule, "go build", "compiler residual", "-", fmt.Sprintf("the compiler printed %d residual bounds checks for %v, expected at least %d: diagnostics were not produced", len(res), pkgs, minCompilerLines))
		return
	}
	L.Trusts("the Go compiler's prove pass: a bounds check it removes cannot fail")
	// index SSA sites by position
	type site struct {
		fn *ssa.Function
		s  indexSite
	}
	byPos := map[string]site{}
	files := map[string]bool{}
	for fn := range scope {
		files[c.P.Fset.Position(fn.Pos()).Filename] = true
		for _, s := range indexSites(fn) {
			p := c.P.Fset.Position(s.in.Pos())
			byPos[fmt.Sprintf("%s:%d:%d", p.Filename, p.Line, p.Column)] = site{fn, s}
		}
	}
	nScope, nTotal := 0, 0
	used := map[int]bool{}
	for _, e := range res {
		abs := filepath.Join(c.P.Dir, e.file)
		nTotal++
		st, ok := byPos[fmt.Sprintf("%s:%d:%d", abs, e.line, e.col)]
		if !ok {
			if files[abs] {
				// in a file of the scope but not an SSA index site we know: inlined body or a function outside the scope
				fd := c.enclosingScopeFunc(abs, e.line, scope)
				if fd == "" {
					continue
				}
				L.Unknown(rule, fd, fmt.Sprintf("residual at %s:%d:%d", e.file, e.line, e.col), fmt.Sprintf("%s:%d", e.file, e.line), "residual bounds check could not be mapped to an index expression")
			}
			continue
		}
		nScope++
		fname := c.P.FuncName(st.fn)
		expr := c.exprAt(st.s.in.Pos())
		pos := fmt.Sprintf("%s:%d", e.file, e.line)
		// (a) linear-bounds proof
		lc := newLinCtx(c, st.fn)
		if ok, det := c.proveSite(lc, st.s); ok {
			L.OK(rule, fname, expr, pos, "not proven by the compiler, proven by linear bounds: "+det)
			continue
		}
		// (a1) proven in the function's own inlined view (locals grouped into a struct with small
		// methods become registers again there)
		if v := c.viewOf(st.fn); v != st.fn {
			n, okAll := 0, true
			for _, f := range withAnons(v) {
				for _, s2 := range indexSites(f) {
					if c.views.OrigInstr[s2.in] == st.s.in {
						n++
						if ok, _ := c.proveSite(newLinCtx(c, f), s2); !ok {
							okAll = false
						}
					}
				}
			}
			if n > 0 && okAll {
				L.OK(rule, fname, expr, pos, "not proven by the compiler; proven by linear bounds on the inlined view of the function")
				continue
			}
		}
		// (a2) the site is in a private helper: proven in the inlined view of every function that
		// reaches the helper (where the caller's own checks are visible)
		if ok, det := c.proveSiteInCallers(st.fn, st.s.in); ok {
			L.OK(rule, fname, expr, pos, "not proven by the compiler; proven by linear bounds in the inlined view of every caller: "+det)
			continue
		}
		// (b) justified
		just := false
		for i, j := range table {
			if j.Func == fname && j.Expr == expr {
				used[i] = true
				just = true
				L.Trivial(rule, fname, expr, pos, "justified residual: "+j.Why)
			}
		}
		if !just {
			// the same expression moved, with its loop, into a private helper that only the
			// justified function reaches: the recorded argument is about the caller's data
			for i, j := range table {
				if j.Expr != expr {
					continue
				}
				if isHelper, _ := c.privateHelperOf(st.fn, func(caller string) bool { return caller == j.Func }); isHelper {
					used[i] = true
					just = true
					L.Trivial(rule, fname, expr, pos, "justified residual (in a private helper of "+j.Func+"): "+j.Why)
				}
			}
		}
		if !just {
			L.Bad(rule, fname, expr, pos, "index expression on file-controlled data that neither the compiler nor the linear-bounds engine can prove in range and that has no recorded justification: a malformed file can make the parser panic")
		}
	}
	L.Note("compiler residual: %d unproven bounds checks in %v, %d of them in parser scope (%d functions)", nTotal, pkgs, nScope, len(scope))
	// count all index sites in scope (what the compiler did prove)
	all := 0
	for fn := range scope {
		all += len(indexSites(fn))
	}
	L.Counts["index_sites_in_scope"] = all
	L.Counts["compiler_proved"] = all - nScope
	for i, j := range table {
		if !used[i] {
			L.Note("justified-table entry no longer needed (proven or removed): %s %s", j.Func, j.Expr)
		}
	}
}

func (c *Ctx) proveSite(lc *linCtx, s indexSite) (bool, string) {
	b := s.in.Block()
	ln := lc.lenOf(s.base)
	var goals []cons
	if s.slice {
		lo := linConst(0)
		if s.lo != nil {
			lo = lc.of(s.lo)
		}
		hi := ln
		if s.hi != nil {
			hi = lc.of(s.hi)
		}
		goals = append(goals, consLE(linConst(0), lo, "0 <= low"), consLE(lo, hi, "low <= high"), consLE(hi, ln, "high <= len"))
	} else {
		ix := lc.of(s.idx)
		// []rune(str)[0]: a string of at least one byte has at least one rune
		if cv, ok := s.base.(*ssa.Convert); ok && ix.isConst() && ix.c == 0 {
			if sl, ok := cv.Type().Underlying().(*types.Slice); ok {
				if eb, ok := sl.Elem().Underlying().(*types.Basic); ok && eb.Kind() == types.Int32 {
					if sb, ok := cv.X.Type().Underlying().(*types.Basic); ok && sb.Info()&types.IsString != 0 {
						ok2, det := lc.proveAll(b, nil, consLE(linConst(1), lc.lenOf(cv.X), "the string has at least one byte"))
						if ok2 {
							return true, "first rune of a non-empty string: " + det
						}
					}
				}
			}
		}
		goals = append(goals, consLE(linConst(0), ix, "0 <= index"), consLT(ix, ln, "index < len"))
	}
	var dets []string
	for _, g := range goals {
		if g.e.isConst() && g.e.c <= 0 {
			continue
		}
		ok, det := lc.proveAll(b, nil, g)
		if !ok {
			return false, g.why + ": " + det
		}
		dets = append(dets, g.why+" ✓")
	}
	return true, strings.Join(dets, ", ")
}

// exprAt renders the index/slice expression whose '[' is at pos.
func (c *Ctx) exprAt(pos token.Pos) string {
	_, f := c.P.FileOf(pos)
	if f == nil {
		return "?"
	}
	out := "?"
	ast.Inspect(f, func(n ast.Node) bool {
		switch x := n.(type) {
		case *ast.IndexExpr:
			if x.Lbrack == pos {
				out = types.ExprString(x)
			}
		case *ast.SliceExpr:
			if x.Lbrack == pos {
				out = types.ExprString(x)
			}
		}
		return true
	})
	return out
}

func (c *Ctx) enclosingScopeFunc(file string, line int, scope map[*ssa.Function]bool) string {
	var names []string
	for fn := range scope {
		d := c.P.Decl(fn)
		if d == nil {
			continue
		}
		p0, p1 := c.P.Fset.Position(d.Pos()), c.P.Fset.Position(d.End())
		if p0.Filename == file && p0.Line <= line && line <= p1.Line {
			names = append(names, c.P.FuncName(fn))
		}
	}
	sort.Strings(names)
	if len(names) > 0 {
		return names[0]
	}
	return ""
}

// proveSiteInCallers: h is an unexported function never used as a value; every static call chain to
// it ends in a function whose inlined view contains the body of h (no call of h is left in that
// view), and in each of those views every copy of the index instruction is proven in bounds.
func (c *Ctx) proveSiteInCallers(h *ssa.Function, site ssa.Instruction) (bool, string) {
	rootList, ok := c.helperRoots(h)
	if !ok {
		return false, ""
	}
	roots := map[*ssa.Function]bool{}
	for _, r := range rootList {
		roots[r] = true
	}
	var dets []string
	for r := range roots {
		v := c.viewOf(r)
		if v == r {
			return false, ""
		}
		n := 0
		okAll := true
		for _, f := range withAnons(v) {
			allInstrs(f, func(in ssa.Instruction) {
				if cc := callOf(in); cc != nil && cc.StaticCallee() == h {
					okAll = false // a call of the helper survives in this view
				}
				if c.views.OrigInstr[in] != site {
					return
				}
				for _, s := range indexSites(f) {
					if s.in == in {
						n++
						lc := newLinCtx(c, f)
						if ok, _ := c.proveSite(lc, s); !ok {
							okAll = false
						}
					}
				}
			})
		}
		if !okAll || n == 0 {
			return false, ""
		}
		dets = append(dets, fmt.Sprintf("%s (%d copies)", c.P.FuncName(r), n))
	}
	sort.Strings(dets)
	return true, strings.Join(dets, ", ")
}

// helperRoots: h is an unexported function never used as a value; returns the functions at the top
// of its static call chains (those that are not themselves such helpers of the same package). Every
// execution of h happens inside a call of one of them.
func (c *Ctx) helperRoots(h *ssa.Function) ([]*ssa.Function, bool) {
	if h.Parent() != nil || token.IsExported(h.Name()) {
		return nil, false
	}
	c.privateHelperOf(h, func(string) bool { return false }) // fills the callers index
	if c.valueUse[h] || len(c.callersIdx[h]) == 0 {
		return nil, false
	}
	roots := map[*ssa.Function]bool{}
	seen := map[*ssa.Function]bool{}
	var up func(f *ssa.Function, depth int) bool
	up = func(f *ssa.Function, depth int) bool {
		if depth > 4 {
			return false
		}
		if seen[f] {
			return true
		}
		seen[f] = true
		for _, g := range c.callersIdx[f] {
			r := g
			for r.Parent() != nil {
				r = r.Parent()
			}
			if !token.IsExported(r.Name()) && !c.valueUse[r] && len(c.callersIdx[r]) > 0 && r.Pkg == h.Pkg {
				if !up(r, depth+1) {
					return false
				}
				continue
			}
			roots[r] = true
		}
		return true
	}
	if !up(h, 0) || len(roots) == 0 {
		return nil, false
	}
	var out []*ssa.Function
	for r := range roots {
		out = append(out, r)
	}
	sort.Slice(out, func(i, j int) bool { return c.P.FuncName(out[i]) < c.P.FuncName(out[j]) })
	return out, true
}
