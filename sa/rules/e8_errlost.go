package rules

import (
	"fmt"
	"os"
	"sort"

	"golang.org/x/tools/go/ssa"
)

// Errors lost in a loop. When a test has just established that an error value is non-nil and
// control then goes round the enclosing loop again without the error having been returned, stored,
// logged or passed on, the next iteration's success overwrites it: `break` out of an inner loop
// where `return` was meant. errLostInLoop lists such tests.
type errLost struct {
	fn   *ssa.Function
	test *ssa.If
	err  ssa.Value
	head *ssa.BasicBlock
}

func errLostInLoop(fn *ssa.Function) []errLost {
	var out []errLost
	for _, f := range withAnons(fn) {
		loops := naturalLoops(f)
		if len(loops) == 0 {
			continue
		}
		for _, b := range f.Blocks {
			ifi, ok := b.Instrs[len(b.Instrs)-1].(*ssa.If)
			if !ok || b.Succs[0] == b.Succs[1] {
				continue
			}
			x, trueIsNil, ok := nilTestOf(ifi.Cond)
			if !ok || !isErrorT(x.Type()) {
				continue
			}
			// a fresh error: the result of a call (not a variable carried around the loop)
			switch x.(type) {
			case *ssa.Call, *ssa.Extract:
			default:
				continue
			}
			errSucc := b.Succs[0]
			if trueIsNil {
				errSucc = b.Succs[1]
			}
			// loops that contain the test
			var enclosing []*loop
			for _, lp := range loops {
				if lp.Blocks[b] {
					enclosing = append(enclosing, lp)
				}
			}
			if len(enclosing) == 0 {
				continue
			}
			uses := func(blk *ssa.BasicBlock) bool {
				for _, in := range blk.Instrs {
					if _, isPhi := in.(*ssa.Phi); isPhi {
						continue
					}
					if in == ssa.Instruction(ifi) {
						continue
					}
					var rands []*ssa.Value
					for _, p := range in.Operands(rands) {
						if *p == x {
							return true
						}
					}
				}
				return false
			}
			var lost *ssa.BasicBlock
			flagWalk(f, b, errSucc, func(blk, from *ssa.BasicBlock) bool {
				if lost != nil {
					return false
				}
				// going round a loop that contains the test
				for _, lp := range enclosing {
					if blk == lp.Head && lp.Blocks[from] {
						// `for err == nil { … }`: the loop condition itself looks at the error
						if hif, ok := blk.Instrs[len(blk.Instrs)-1].(*ssa.If); ok {
							if hv, _, ok := nilTestOf(hif.Cond); ok {
								if hp, isPhi := hv.(*ssa.Phi); isPhi && hp.Block() == blk {
									for i, pr := range blk.Preds {
										if pr == from && i < len(hp.Edges) && throughPhis(hp.Edges[i], false)[x] {
											return false
										}
									}
								}
							}
						}
						// otherwise flagWalk follows the known side of the head's test (a stop flag
						// set together with the error leaves the loop)
						continue
					}
					if lp.Blocks[blk] && blk != lp.Head && from == lp.Head {
						lost = blk // the body is entered again
						return false
					}
				}
				if uses(blk) {
					return false
				}
				return true
			}, nil, x)
			if lost != nil {
				out = append(out, errLost{f, ifi, x, lost})
			}
		}
	}
	return out
}

func (c *Ctx) debugErrLost() {
	if os.Getenv("VERIF_DEBUG_ERRLOST") == "" {
		return
	}
	var lines []string
	for _, fn := range c.P.SrcFuncs() {
		for _, e := range errLostInLoop(fn) {
			lines = append(lines, fmt.Sprintf("ERRLOST %s: %s tested at %s, loop continues at %s", c.P.FuncName(e.fn), e.err.Name(), c.P.Pos(e.test.Cond.Pos()), c.P.Pos(e.head.Instrs[0].Pos())))
		}
	}
	sort.Strings(lines)
	for _, l := range lines {
		fmt.Fprintln(os.Stderr, l)
	}
}

// checkErrNotDropped: in the given packages, no loop goes on iterating after a test has found a
// fresh error non-nil unless the error was returned, stored, logged or handed on first.
func (c *Ctx) checkErrNotDropped(rule string, rels ...string) {
	L := c.L
	if c.Thorough() {
		rels = nil // thorough tier: every package of the module
	}
	L.Rule(rule, "after a test has established that the error just returned by a call is non-nil, control does not enter another iteration of an enclosing loop before the error is returned, stored, logged or passed on (a `break` that only leaves an inner loop lets the next iteration overwrite the error); stop flags set with the error and loop conditions on the error itself are followed")
	nTests := 0
	for _, fn := range c.srcFuncs(rels...) {
		for _, f := range withAnons(fn) {
			if len(naturalLoops(f)) == 0 {
				continue
			}
			for _, b := range f.Blocks {
				if ifi, ok := b.Instrs[len(b.Instrs)-1].(*ssa.If); ok {
					if x, _, ok := nilTestOf(ifi.Cond); ok && isErrorT(x.Type()) {
						nTests++
					}
				}
			}
		}
		for _, e := range errLostInLoop(fn) {
			root := e.fn
			for root.Parent() != nil && root.Parent().Synthetic == "" {
				root = root.Parent()
			}
			L.Bad(rule, c.P.FuncName(c.origFn(root)), "error of "+errSourceName(e.err), c.P.Pos(e.test.Cond.Pos()),
				"this error is found non-nil and the enclosing loop then starts another iteration without the error having been returned or recorded: a later success overwrites it and the failure is silently dropped")
		}
	}
	L.OK(rule, "scope", fmt.Sprintf("packages %v", rels), "-", fmt.Sprintf("%d error tests inside loops examined, none lets the loop continue with an unrecorded error", nTests))
	if cp := c.Controls(); cp != nil {
		n := 0
		for _, fn := range cp.SrcFuncs() {
			n += len(errLostInLoop(fn))
		}
		L.ControlMustFire(rule, n > 0, "controls.ErrorDroppedByBreak leaves an inner loop with break after a failed step")
	}
}

func errSourceName(v ssa.Value) string {
	if ex, ok := v.(*ssa.Extract); ok {
		v = ex.Tuple
	}
	if call, ok := v.(*ssa.Call); ok {
		if f := call.Common().StaticCallee(); f != nil {
			return f.Name()
		}
		if call.Common().IsInvoke() {
			return call.Common().Method.Name()
		}
	}
	return "a call"
}
